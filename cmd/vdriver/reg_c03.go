package main

func init() {
	reg("C03", propCfg{Pkg: "./props/c03", Fuzz: map[string]string{"FuzzC03Number": "numerals"}, Rule: "generated trees are the oracle (the stated operator table); literals against the generated Go value",
		Assumptions: assume(
			"the operator table of the statement is the specification: the generated tree and its minimal/fully parenthesised printers encode it",
			"`in` under `in` without parentheses (statement: left, grammar: %right), `<-`, assignment forms and ++/--/op= as expressions, float underflow spellings are outside the stated domain and not generated",
			"a numeric literal directly before a postfix operator, an empty list literal directly before an index, and an expression reading as `for ident in`/`for {` are parenthesised in both spellings (lexical/statement-level ambiguities the table does not speak about)",
			"token adjacency follows the language's token set (maximal munch): tokens are separated by a blank exactly where two tokens would merge",
			"every text is parsed and executed by one goroutine at a time: the statement quantifies over programs and inputs, what concurrent ParseSrc calls may do to each other is the subject of C15 (\"the same text always yields the same tree, also under concurrent calls\")",
			"in the right-chain profile `u` is bound nowhere and `n` is bound to nil; nothing is expected of a failing or nil operand except that the spelling with the implied parentheses and the one without evaluate alike")})
}
