package main

import "time"

func init() {
	reg("C01", propCfg{Pkg: "./props/c01", QuickTimeout: 8 * time.Minute, ThoroughTimeout: 40 * time.Minute,
		Rule:        "generated sources run in a sandbox worker process; oracle = the host survives",
		Assumptions: assume("memory/stack exhaustion, unsynchronised map sharing between script goroutines, scripts that do not finish and time inside one host call are outside the guarantee and are counted as excluded", "a death of the worker is attributed to the case in flight because the worker only answers after the goroutines the script started have finished")})
}
