package main

import "verif/internal/c13ov"

func init() {
	reg("C13", propCfg{Pkg: "./props/c13", Race: true, Tags: "verifc13",
		Rule: "(a) controlled scheduler at lock granularity + exhaustive sequential-consistency search against a one-scope-plus-parent model; (b) the same programs under real goroutines with the race detector",
		PreBuild: func(scratch, repo string, env []string, modArgs []string) ([]string, error) {
			ov, err := c13ov.Prepare(scratch, repo)
			if err != nil {
				return nil, err
			}
			return []string{"-overlay=" + ov}, nil
		},
		Assumptions: assume(
			"the source-to-source rewrite (every sync.RWMutex/sync.Mutex type of package env -> env.VerifMutex, applied to a copy through go build -overlay) preserves behaviour; checked per case: every env call must be seen to lock at least once, otherwise the run is inconclusive",
			"the scheduler's lock model is sync.RWMutex as documented (one writer, many readers, an announced writer blocks new readers until it has acquired and released)",
			"sub-check (a) only sees interleavings at lock granularity: an access made with no lock at all is invisible to it and is left to sub-check (b), which is probabilistic (race detector on the schedules the runtime happens to produce)",
			"the reference model: define writes the shared scope; set updates the nearest binding or fails; get/type read the nearest binding or fail; delete removes from the shared scope only; delete-nearest removes the nearest binding; copy/listing/String observe the shared scope's own tables; only error presence is compared, not error texts",
			"added operations: NewModule is one define of a fresh scope already linked to the shared one; a Get/Type/Set/Addr/DeleteGlobal through a fetched module answers like the same operation on the shared scope (nothing defines inside a module, so the nearest binding is the one the shared scope sees); the define-global forms write the root, which is the parent, and are only generated for a name whose presence in the shared scope's own table is constant (the statement's parent is read-only; a lookup that walks two scopes while both bindings change is not judged); a type name no scope binds that is a Go type name (int64) resolves to that Go type and no lookup changes a table; GetEnvFromPath: only paths with one reading (first segment bound to a module or not at all, later segments looked up in the own table of the module reached)")})
}
