package main

import "time"

func init() {
	// QuickTimeout: the quick tier needs about 40 s of wall time on an idle machine (3 to 4 minutes of CPU); on a machine shared with a dozen
	// other checks it has been seen to take 5 minutes, which the default budget turns into "inconclusive"
	reg("C15", propCfg{Pkg: "./props/c15", QuickTimeout: 15 * time.Minute, RaceThorough: true, RaceIsViolation: true, Fuzz: map[string]string{"FuzzC15Parse": "total"}, Rule: "generated inputs vs validity predicates and a compositional/round-trip oracle over structural dumps",
		Assumptions: assume("columns are counted in runes (the scanner works on []rune)", "'terminates' is checked as 'returns within 20 s' for inputs of at most a few KiB", "structural equality is decided on a reflection dump of the tree including positions (internal/dump)",
			"'no memory between calls' is judged within one process, a text's first result against its later ones, with at most about 15 000 spellings the process has not seen before (names, numbers, strings) parsed in between: a memory that only shows after more than that is not reached",
			"'also under concurrent calls' is judged in the quick tier by the trees the calls return (up to 16 goroutines in different texts at any moment); the race detector is on in the thorough tier only")})
}
