package main

func init() {
	reg("C15", propCfg{Pkg: "./props/c15", RaceThorough: true, RaceIsViolation: true, Fuzz: map[string]string{"FuzzC15Parse": "total"}, Rule: "generated inputs vs validity predicates and a compositional/round-trip oracle over structural dumps",
		Assumptions: assume("columns are counted in runes (the scanner works on []rune)", "'terminates' is checked as 'returns within 20 s' for inputs of at most a few KiB", "structural equality is decided on a reflection dump of the tree including positions (internal/dump)")})
}
