package main

func init() {
	reg("C19", propCfg{Pkg: "./props/c19", Rule: "differential against native Go (builtins, sampled) and exhaustive enumeration of the bundled package tables",
		Assumptions: assume(
			"the reference computations (math/big progression, reflect, strconv, fmt.Sprint, Go conversions) are the specification of the builtins",
			"runtime.FuncForPC names a top-level Go function <import path>.<name>; a table entry is the function it is listed under iff that name matches",
			"a range call that produces no answer within 5 s (10 s when re-run alone) or grows the heap beyond 128 MiB, for a progression of at most 1000 elements, does not terminate in practice",
			"conv_overlap: what a conversion builtin returns is a function of its argument alone, so calls made at the same time (other environments, one shared environment, script goroutines) must give the results they give alone; whether two calls really overlap is up to the scheduler - a failure is a result that differs from the Go reference, a pass says the sampled overlaps showed none",
			"not asserted: float->int outside int64, strings strconv accepts that are not decimal numerals (inf, nan, hex floats, underscores), numerals outside float64, toInt/toFloat of bool, pointers, structs, functions, channels; conversions the call machinery applies to arguments of another type than the parameter; values (as opposed to functions and types) of package table variables")})
}
