package main

import (
	"fmt"
	"os/exec"
	"path/filepath"
)

func init() {
	reg("C18", propCfg{Pkg: "./props/c18", Rule: "differential: built anko executable vs vm.Execute in-process",
		Assumptions: assume("'an equally prepared environment' = env.NewEnv + args + core.Import + blank import of packages, with print/println/printf writing to a buffer instead of standard output", "scripts that read standard input, call os.Exit, start goroutines or do not finish are not generated; -e with an empty source (interactive mode) is excluded"),
		PreBuild: func(scratch, repo string, env []string, modArgs []string) ([]string, error) {
			// the executable is built from the tree under test
			cmd := exec.Command("go", "build", "-o", filepath.Join(scratch, "anko"), ".")
			cmd.Dir = repo
			cmd.Env = env
			if out, err := cmd.CombinedOutput(); err != nil {
				return nil, fmt.Errorf("go build anko: %v\n%s", err, out)
			}
			return nil, nil
		}})
}
