package main

func init() {
	reg("C12", propCfg{Pkg: "./props/c12", Rule: "model-based: histories of env API calls vs a dictionary-chain reference model, result and full state compared after every call",
		Assumptions: assume(
			"the reference model (props/c12/model_test.go) encodes the statement; GetEnvFromPath walks the parent chain for the first element only and resolves later elements in the module's own table",
			"where the statement is silent both outcomes are admitted: first path element whose nearest binding is not a module (error or the module further out); Set/DeleteGlobal when an external lookup nearer than the table binding knows the name (act on the table binding or fail/do nothing); Addr of a nil binding",
			"a scope's external lookup is part of the scope (kept by Copy/DeepCopy, served to descendants); external lookups are immutable, know no dotted names and hold no scopes; any Go type that implements env.ExternalLookup is a valid lookup (pointer, map, struct value, func), also one that Go cannot compare with ==; reflect.Values handed to DefineValue/SetValue are always valid")})
}
