package main

func init() {
	reg("C10", propCfg{Pkg: "./props/c10", Rule: "state machine: every container statement mirrored on real Go slices, maps, strings and a struct",
		Assumptions: assume(
			"the mirror (Go's own slices, maps, strings, reflect.Slice3/Append-in-place semantics, Go's conversion rules between int64/float64/string/bool) is the specification",
			"capacity chosen by a growing append is not specified by Go and is adopted from the observation; nil stored into a typed slot and a float index may either fail or behave as the zero value / the truncated index",
			"reads are bare expression statements compared immediately: binding a variable to a typed element / struct field read (x = v[0]; x = s.A; w = s.D) keeps it bound to the slot in anko (value-vs-reference design left open by the statement) and is never generated",
			"not generated or skipped at resolution time (unspecified): copies of struct values, stores into a nil map, bool and numeral-string indices, slicing beyond len within cap, member access on maps with non-string keys, nil keys on typed maps, delete on strings",
			"basictypes: a basic type name of the language denotes the Go type of the same name (byte = uint8, rune = int32, interface = interface{}) and 'converts the value as Go would' is reflect.Value.Convert between the two Go types; left open there (not executed, counted): float operands whose truncation does not fit the integer target or that exceed the float32 range (Go: implementation-dependent), a string of at most one character stored into byte / rune (Go has no such conversion, anko converts an ASCII character: an extension the statement neither grants nor describes)")})
}
