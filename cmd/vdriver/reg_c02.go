package main

func init() {
	reg("C02", propCfg{Pkg: "./props/c02", Rule: "generated non-terminating/blocked programs x cancellation instants; oracle = bounded return with the interruption error and no host call afterwards",
		Assumptions: assume("'within a short bounded time' is tested as 'within 3 s of the cancellation' (typical: microseconds)", "host functions used by the generated programs never block: time inside one host call is outside the property", "in asynchronous mode at most two tick() calls may already be in flight when the cancellation becomes visible")})
}
