package main

func init() {
	reg("C02", propCfg{Pkg: "./props/c02", Rule: "generated non-terminating/blocked programs x cancellation instants; oracle = bounded return with the interruption error and no host call afterwards",
		Assumptions: assume("'within a short bounded time' is tested as 'within 3 s of the cancellation' (typical: microseconds)", "host functions used by the generated programs never block: time inside one host call is outside the property (the pacing call of the racing cores keeps its goroutine busy for at most 10 microseconds)", "in asynchronous mode at most two tick() calls may already be in flight when the cancellation becomes visible", "a Go panic of a host function started with a go statement is captured by the go statement (Options.Debug is off), as the package documents; such go statements are part of the generated programs")})
}
