// vdriver is the program behind ./check: it rebuilds the property's test binary
// against /repo's current working tree, runs the committed regression replays and
// the generated search (sharded in the thorough tier), classifies failures against
// KNOWN_FINDINGS.txt, writes evidence/<ID>.json and sets the exit status:
//
//	0  property held on everything explored
//	1  VIOLATION line(s) printed
//	2  inconclusive (build failure, harness problem, budget exhausted)
package main

import (
	"bytes"
	"crypto/sha1"
	"encoding/binary"
	"encoding/hex"
	"encoding/json"
	"fmt"
	"os"
	"os/exec"
	"path/filepath"
	"sort"
	"strconv"
	"strings"
	"sync"
	"syscall"
	"time"
)

type failure struct {
	Property string          `json:"property"`
	Check    string          `json:"check"`
	Sig      string          `json:"sig"`
	Msg      string          `json:"msg"`
	Case     json.RawMessage `json:"case"`
	Seed     uint64          `json:"seed,omitempty"`
	Flaky    bool            `json:"flaky,omitempty"`
	Replay   string          `json:"replay,omitempty"`
}

type result struct {
	Property      string                 `json:"property"`
	Evaluations   int64                  `json:"evaluations"`
	NonTrivial    int64                  `json:"nontrivial_distinct"`
	Classes       map[string]int64       `json:"classes"`
	Excluded      map[string]int64       `json:"excluded"`
	ExcludedBySig map[string]int64       `json:"excluded_by_signature"`
	Samples       []interface{}          `json:"samples"`
	Failures      []failure              `json:"failures"`
	Checks        map[string]int         `json:"checks_passed"`
	Requested     map[string]int         `json:"checks_requested"`
	Rules         []string               `json:"rules"`
	Extra         map[string]interface{} `json:"extra"`
	Incomplete    string                 `json:"incomplete"`
	WallS         float64                `json:"wall_s"`
}

type finding struct {
	Property, Sig, Replay, What string
}

// verifDir is the framework root: the directory ./check lives in (it cd's there first).
var verifDir = func() string {
	d, err := os.Getwd()
	if err != nil || d == "" {
		return "/verif"
	}
	return d
}()

func die2(format string, args ...interface{}) {
	fmt.Printf("INCONCLUSIVE: "+format+"\n", args...)
	os.Exit(2)
}

func loadFindings() []finding {
	var out []finding
	b, err := os.ReadFile(filepath.Join(verifDir, "KNOWN_FINDINGS.txt"))
	if err != nil {
		return nil
	}
	for _, line := range strings.Split(string(b), "\n") {
		line = strings.TrimSpace(line)
		if !strings.HasPrefix(line, "finding:") {
			continue
		}
		// finding: property=C08 sig=<sig> replay=<path> :: <what fails>
		rest := strings.TrimSpace(strings.TrimPrefix(line, "finding:"))
		what := ""
		if i := strings.Index(rest, " :: "); i >= 0 {
			what = rest[i+4:]
			rest = rest[:i]
		}
		f := finding{What: what}
		// sig may contain spaces: fields are property=, sig=, replay= in this order
		pi := strings.Index(rest, "property=")
		si := strings.Index(rest, " sig=")
		ri := strings.LastIndex(rest, " replay=")
		if pi < 0 || si < 0 {
			continue
		}
		f.Property = strings.TrimSpace(rest[pi+9 : si])
		if ri > si {
			f.Sig = strings.TrimSpace(rest[si+5 : ri])
			f.Replay = strings.TrimSpace(rest[ri+8:])
		} else {
			f.Sig = strings.TrimSpace(rest[si+5:])
		}
		out = append(out, f)
	}
	return out
}

func goEnv() []string {
	env := os.Environ()
	env = append(env, "GOFLAGS=-mod=mod", "GOPROXY=off", "GOSUMDB=off", "GOTOOLCHAIN=local", "CGO_ENABLED=1")
	return env
}

func run(dir string, env []string, timeout time.Duration, name string, args ...string) (string, error, bool) {
	cmd := exec.Command(name, args...)
	cmd.Dir = dir
	cmd.Env = env
	var buf bytes.Buffer
	cmd.Stdout = &buf
	cmd.Stderr = &buf
	cmd.SysProcAttr = &syscall.SysProcAttr{Setpgid: true}
	if err := cmd.Start(); err != nil {
		return "", err, false
	}
	done := make(chan error, 1)
	go func() { done <- cmd.Wait() }()
	select {
	case err := <-done:
		return buf.String(), err, false
	case <-time.After(timeout):
		syscall.Kill(-cmd.Process.Pid, syscall.SIGKILL)
		<-done
		return buf.String(), fmt.Errorf("timeout after %v", timeout), true
	}
}

// raceReports splits the race detector's reports out of a test log.
// crashInAnko looks for the first "fatal error:" / "panic:" line of a dead test process and the
// innermost mattn/anko frame of the goroutine block that follows it.
func crashInAnko(log string) (first, frame string, ok bool) {
	idx := -1
	for _, key := range []string{"\nfatal error: ", "\npanic: "} {
		if i := strings.Index("\n"+log, key); i >= 0 && (idx < 0 || i < idx) {
			idx = i
		}
	}
	if idx < 0 {
		return "", "", false
	}
	rest := ("\n" + log)[idx+1:]
	first = rest
	if i := strings.Index(first, "\n"); i >= 0 {
		first = first[:i]
	}
	if strings.Contains(first, "out of memory") || strings.Contains(first, "cannot allocate memory") {
		return "", "", false
	}
	if len(first) > 100 {
		first = first[:100]
	}
	// the first goroutine block after the message
	g := strings.Index(rest, "\ngoroutine ")
	if g < 0 {
		return "", "", false
	}
	block := rest[g+1:]
	if j := strings.Index(block, "\n\n"); j >= 0 {
		block = block[:j]
	}
	for _, l := range strings.Split(block, "\n") {
		l = strings.TrimSpace(l)
		if strings.HasPrefix(l, "github.com/mattn/anko/") {
			f := strings.TrimPrefix(l, "github.com/mattn/anko/")
			if k := strings.LastIndex(f, "("); k > 0 {
				f = f[:k]
			}
			return first, f, true
		}
	}
	return "", "", false
}

func head(s string, n int) string {
	if len(s) <= n {
		return s
	}
	return s[:n] + "…"
}

func raceReports(log string) []string {
	var out []string
	parts := strings.Split(log, "WARNING: DATA RACE")
	for _, p := range parts[1:] {
		if i := strings.Index(p, "=================="); i >= 0 {
			p = p[:i]
		}
		out = append(out, "WARNING: DATA RACE"+p)
		if len(out) >= 5 {
			break
		}
	}
	return out
}

// raceSignature names the innermost mattn/anko frame of each of the two accesses.
func raceSignature(id, rep string) (string, bool) {
	var frames []string
	for _, block := range strings.Split(rep, "\n\n") {
		if !(strings.Contains(block, "Write at") || strings.Contains(block, "Read at") || strings.Contains(block, "Previous write") || strings.Contains(block, "Previous read")) {
			continue
		}
		for _, l := range strings.Split(block, "\n") {
			l = strings.TrimSpace(l)
			if strings.HasPrefix(l, "github.com/mattn/anko/") {
				f := strings.TrimPrefix(l, "github.com/mattn/anko/")
				if j := strings.Index(f, "("); j > 0 {
					// keep "(*T).method" forms intact: cut at the argument list only
					if k := strings.LastIndex(f, "("); k > 0 {
						f = f[:k]
					}
				}
				frames = append(frames, f)
				break
			}
		}
	}
	if len(frames) == 0 {
		return "", false
	}
	sort.Strings(frames)
	return id + "|data-race|" + strings.Join(frames, "+"), true
}

// readFuzzInput decodes a one-argument []byte / string corpus file of Go's native fuzzer.
func readFuzzInput(path string) ([]byte, bool) {
	b, err := os.ReadFile(path)
	if err != nil {
		return nil, false
	}
	lines := strings.SplitN(string(b), "\n", 2)
	if len(lines) < 2 {
		return nil, false
	}
	body := strings.TrimSpace(lines[1])
	for _, pre := range []string{"[]byte(", "string("} {
		if strings.HasPrefix(body, pre) && strings.HasSuffix(body, ")") {
			q := body[len(pre) : len(body)-1]
			s, err := strconv.Unquote(q)
			if err != nil {
				return nil, false
			}
			return []byte(s), true
		}
	}
	return nil, false
}

func tail(s string, n int) string {
	if len(s) <= n {
		return s
	}
	return "…" + s[len(s)-n:]
}

func main() {
	if len(os.Args) < 3 {
		fmt.Println("usage: check <ID> quick|thorough | check <ID> --replay <path>")
		os.Exit(2)
	}
	id := strings.ToUpper(os.Args[1])
	cfg, ok := props[id]
	if !ok {
		die2("unknown property %s", id)
	}
	tier := os.Args[2]
	replayPath := ""
	if tier == "--replay" {
		if len(os.Args) < 4 {
			die2("--replay needs a path")
		}
		replayPath, _ = filepath.Abs(os.Args[3])
		tier = "quick"
	}
	if t := os.Getenv("VERIF_TIER"); t != "" && len(os.Args) == 2 {
		tier = t
	}
	if tier != "quick" && tier != "thorough" {
		die2("tier must be quick or thorough")
	}
	seed, _ := strconv.ParseUint(os.Getenv("VERIF_SEED"), 10, 64)
	if seed == 0 {
		seed = 1
	}
	start := time.Now()

	scratch, err := os.MkdirTemp("", "verif-"+id+"-")
	if err != nil {
		die2("mktemp: %v", err)
	}
	defer os.RemoveAll(scratch)
	cleanupAndExit := func(code int) {
		os.RemoveAll(scratch)
		os.Exit(code)
	}

	env := goEnv()
	// VERIF_REPO (development aid): build against another checkout of mattn/anko, e.g. a
	// scratch worktree holding a mutant. Registered commands never set it: /repo is used.
	repoDir := "/repo"
	var modArgs []string
	if r := os.Getenv("VERIF_REPO"); r != "" {
		repoDir = r
		mod, err := os.ReadFile(filepath.Join(verifDir, "go.mod"))
		if err != nil {
			die2("read go.mod: %v", err)
		}
		alt := strings.Replace(string(mod), "=> /repo", "=> "+repoDir, 1)
		os.WriteFile(filepath.Join(scratch, "alt.mod"), []byte(alt), 0o644)
		if sum, err := os.ReadFile(filepath.Join(verifDir, "go.sum")); err == nil {
			os.WriteFile(filepath.Join(scratch, "alt.sum"), sum, 0o644)
		}
		modArgs = []string{"-modfile=" + filepath.Join(scratch, "alt.mod")}
	}
	env = append(env, "VERIF_REPO_DIR="+repoDir)
	// ---- build ----
	bin := filepath.Join(scratch, "prop.test")
	buildArgs := append([]string{"test", "-c", "-vet=off", "-o", bin}, modArgs...)
	if cfg.Race || (cfg.RaceThorough && tier == "thorough") {
		buildArgs = append(buildArgs, "-race")
	}
	if cfg.Tags != "" {
		buildArgs = append(buildArgs, "-tags", cfg.Tags)
	}
	if cfg.PreBuild != nil {
		extra, err := cfg.PreBuild(scratch, repoDir, env, modArgs)
		if err != nil {
			fmt.Printf("INCONCLUSIVE: pre-build step failed: %v\n", err)
			cleanupAndExit(2)
		}
		buildArgs = append(buildArgs, extra...)
	}
	buildArgs = append(buildArgs, cfg.Pkg)
	out, err, _ := run(verifDir, env, 15*time.Minute, "go", buildArgs...)
	if err != nil {
		fmt.Printf("INCONCLUSIVE: build failed (the harness or /repo does not compile): %v\n%s\n", err, tail(out, 6000))
		cleanupAndExit(2)
	}

	findings := loadFindings()
	var knownSigs []string
	for _, f := range findings {
		if f.Property == id {
			knownSigs = append(knownSigs, f.Sig)
		}
	}
	var regress []string
	if replayPath == "" {
		m, _ := filepath.Glob(filepath.Join(verifDir, "replays", id, "*.json"))
		sort.Strings(m)
		regress = m
	}

	shards := 1
	timeout := cfg.QuickTimeout
	if tier == "thorough" {
		shards = cfg.ShardsThorough
		timeout = cfg.ThoroughTimeout
	}
	if v, _ := strconv.Atoi(os.Getenv("VERIF_SHARDS")); v > 0 {
		shards = v
	}
	if shards < 1 {
		shards = 1
	}
	if timeout == 0 {
		timeout = 10 * time.Minute
	}
	if replayPath != "" {
		shards = 1
	}

	type shardOut struct {
		res    *result
		hashes []uint64
		log    string
		err    error
		timed  bool
	}
	outs := make([]shardOut, shards)
	var wg sync.WaitGroup
	for i := 0; i < shards; i++ {
		wg.Add(1)
		go func(i int) {
			defer wg.Done()
			dir := filepath.Join(scratch, fmt.Sprintf("shard-%d", i))
			os.MkdirAll(dir, 0o755)
			outFile := filepath.Join(scratch, fmt.Sprintf("out-%d.json", i))
			e := append([]string{}, env...)
			e = append(e,
				"VERIF_OUT="+outFile,
				"VERIF_TIER="+tier,
				"VERIF_SEED="+strconv.FormatUint(seed, 10),
				"VERIF_SHARD="+strconv.Itoa(i),
				"VERIF_SHARDS_TOTAL="+strconv.Itoa(shards),
				"VERIF_SCRATCH="+dir,
				"VERIF_DIR="+verifDir,
				"VERIF_KNOWN_SIGS="+strings.Join(knownSigs, "\x1f"),
			)
			for k, v := range cfg.Env {
				e = append(e, k+"="+v)
			}
			if replayPath != "" {
				e = append(e, "VERIF_REPLAY="+replayPath)
			} else if i == 0 {
				e = append(e, "VERIF_REGRESS="+strings.Join(regress, "\x1f"))
			}
			args := []string{"-test.run", "^" + cfg.Test + "$", "-test.timeout", "0", "-test.count", "1"}
			log, err, timed := run(dir, e, timeout, bin, args...)
			so := shardOut{log: log, err: err, timed: timed}
			if b, rerr := os.ReadFile(outFile); rerr == nil {
				var r result
				if jerr := json.Unmarshal(b, &r); jerr == nil {
					so.res = &r
				}
				if hb, herr := os.ReadFile(outFile + ".hashes"); herr == nil {
					for j := 0; j+8 <= len(hb); j += 8 {
						so.hashes = append(so.hashes, binary.LittleEndian.Uint64(hb[j:]))
					}
				}
			}
			outs[i] = so
		}(i)
	}
	wg.Wait()

	// ---- merge ----
	merged := result{Classes: map[string]int64{}, Excluded: map[string]int64{}, ExcludedBySig: map[string]int64{},
		Checks: map[string]int{}, Requested: map[string]int{}, Extra: map[string]interface{}{}}
	distinct := map[uint64]struct{}{}
	incomplete := ""
	for i, so := range outs {
		if so.res == nil {
			why := "no result file"
			if so.timed {
				why = "time budget exhausted"
			}
			incomplete = fmt.Sprintf("shard %d: %s (%v)\n%s\n[...]\n%s", i, why, so.err, head(so.log, 3000), tail(so.log, 1500))
			continue
		}
		if so.err != nil && incomplete == "" {
			incomplete = fmt.Sprintf("shard %d exited abnormally: %v\n%s", i, so.err, tail(so.log, 3000))
		}
		r := so.res
		merged.Evaluations += r.Evaluations
		for k, v := range r.Classes {
			merged.Classes[k] += v
		}
		for k, v := range r.Excluded {
			merged.Excluded[k] += v
		}
		for k, v := range r.ExcludedBySig {
			merged.ExcludedBySig[k] += v
		}
		for k, v := range r.Checks {
			merged.Checks[k] += v
		}
		for k, v := range r.Requested {
			merged.Requested[k] += v
		}
		for k, v := range r.Extra {
			if f, ok := v.(float64); ok {
				if old, ok := merged.Extra[k].(float64); ok {
					merged.Extra[k] = old + f
					continue
				}
			}
			merged.Extra[k] = v
		}
		if i == 0 {
			// samples of the first shard (every sub-check contributes up to 6)
			for _, s := range r.Samples {
				if len(merged.Samples) < 40 {
					merged.Samples = append(merged.Samples, s)
				}
			}
		}
		if len(merged.Rules) == 0 {
			merged.Rules = r.Rules
		}
		merged.Failures = append(merged.Failures, r.Failures...)
		if r.Incomplete != "" && incomplete == "" {
			incomplete = r.Incomplete
		}
		for _, h := range so.hashes {
			distinct[h] = struct{}{}
		}
	}
	merged.NonTrivial = int64(len(distinct))

	// ---- native fuzzing (thorough tier only) ----
	if tier == "thorough" && replayPath == "" && len(cfg.Fuzz) > 0 && os.Getenv("VERIF_NOFUZZ") == "" {
		ft := cfg.FuzzTime
		if ft == 0 {
			ft = 60 * time.Second
		}
		names := make([]string, 0, len(cfg.Fuzz))
		for n := range cfg.Fuzz {
			names = append(names, n)
		}
		sort.Strings(names)
		for _, name := range names {
			fdir := filepath.Join(scratch, "fuzz-"+name)
			os.MkdirAll(fdir, 0o755)
			e := append([]string{}, env...)
			e = append(e, "VERIF_TIER=thorough", "VERIF_SCRATCH="+fdir)
			// a separate binary with the fuzzer's coverage instrumentation (no -race)
			fbin := filepath.Join(fdir, "fuzz.test")
			fbuild := append([]string{"test", "-c", "-vet=off", "-fuzz", "^" + name + "$", "-o", fbin}, modArgs...)
			if cfg.Tags != "" {
				fbuild = append(fbuild, "-tags", cfg.Tags)
			}
			fbuild = append(fbuild, cfg.Pkg)
			if bout, berr, _ := run(verifDir, env, 15*time.Minute, "go", fbuild...); berr != nil {
				if incomplete == "" {
					incomplete = "cannot build the fuzz binary for " + name + ": " + tail(bout, 1500)
				}
				continue
			}
			args := []string{"-test.run", "^$", "-test.fuzz", "^" + name + "$", "-test.fuzztime", ft.String(), "-test.fuzzcachedir", filepath.Join(fdir, "cache"), "-test.parallel", "12"}
			flog, ferr, ftimed := run(fdir, e, ft+3*time.Minute, fbin, args...)
			execs := int64(0)
			for _, l := range strings.Split(flog, "\n") {
				if i := strings.Index(l, "execs: "); i >= 0 {
					var n int64
					fmt.Sscanf(l[i+7:], "%d", &n)
					if n > execs {
						execs = n
					}
				}
			}
			merged.Extra["native_fuzz_execs_"+name] = float64(execs)
			merged.Evaluations += execs
			if ferr == nil {
				continue
			}
			if ftimed {
				if incomplete == "" {
					incomplete = "native fuzz target " + name + " did not finish"
				}
				continue
			}
			// a crasher: "Failing input written to testdata/fuzz/<name>/<hash>"
			crasher := ""
			for _, l := range strings.Split(flog, "\n") {
				if i := strings.Index(l, "Failing input written to "); i >= 0 {
					crasher = strings.TrimSpace(l[i+len("Failing input written to "):])
				}
			}
			data, ok := readFuzzInput(filepath.Join(fdir, crasher))
			if crasher == "" || !ok {
				if incomplete == "" {
					incomplete = "native fuzz target " + name + " failed without a readable failing input:\n" + tail(flog, 2000)
				}
				continue
			}
			sig := id + "|native-fuzz|" + name
			for _, l := range strings.Split(flog, "\n") {
				l = strings.TrimSpace(l)
				if strings.HasPrefix(l, id+"|") {
					sig = l
					break
				}
			}
			cj, _ := json.Marshal(map[string]string{"kind": "fuzz", "src": string(data)})
			merged.Failures = append(merged.Failures, failure{Property: id, Check: cfg.Fuzz[name], Sig: sig, Msg: "found by the native fuzz target " + name + "\n" + tail(flog, 2500), Case: cj})
		}
	}

	// race-detector reports of -race builds
	if cfg.RaceIsViolation {
		for i, so := range outs {
			for _, rep := range raceReports(so.log) {
				sig, inAnko := raceSignature(id, rep)
				if !inAnko {
					continue
				}
				b, _ := json.Marshal(map[string]string{"report": rep, "note": "race detector report; schedule dependent, not replayable deterministically"})
				merged.Failures = append(merged.Failures, failure{Property: id, Check: "race-detector", Sig: sig, Msg: "the race detector reported a data race inside mattn/anko while generated programs were running (shard " + strconv.Itoa(i) + ")\n" + tail(rep, 2500), Case: b, Flaky: true})
				if incomplete != "" && strings.Contains(incomplete, "exited abnormally") {
					incomplete = ""
				}
			}
		}
	}

	// a test process killed by a Go fatal error or an unrecovered panic whose faulting goroutine is
	// inside mattn/anko: the code under test crashed its host (out-of-memory is not counted; a stack
	// overflow is: no check lets generated programs recurse without bound inside its own process)
	if !cfg.NoCrashRule {
		for i, so := range outs {
			if so.res != nil || so.timed {
				continue
			}
			if first, frame, ok := crashInAnko(so.log); ok {
				b, _ := json.Marshal(map[string]string{"report": head(so.log, 6000), "note": "the test process died; the case in flight is not known, the report is the artefact"})
				merged.Failures = append(merged.Failures, failure{Property: id, Check: "process-crash", Sig: id + "|process-crash|" + first + "|" + frame, Msg: "the process running the generated cases was killed by a fatal error / unrecovered panic inside mattn/anko (shard " + strconv.Itoa(i) + ")\n" + head(so.log, 2500), Case: b, Flaky: true})
				incomplete = ""
			}
		}
	}

	// budget sanity: fewer than half of the requested cases => inconclusive
	for k, req := range merged.Requested {
		if req > 0 && merged.Checks[k]*2 < req && len(merged.Failures) == 0 && incomplete == "" {
			incomplete = fmt.Sprintf("sub-check %s executed %d of %d requested cases", k, merged.Checks[k], req)
		}
	}

	// ---- classify ----
	violations := 0
	knownSeen := map[string]bool{}
	printedSig := map[string]bool{}
	for _, f := range merged.Failures {
		var fd *finding
		for i := range findings {
			if findings[i].Property == id && findings[i].Sig == f.Sig {
				fd = &findings[i]
			}
		}
		if fd != nil {
			if !knownSeen[fd.Sig] {
				knownSeen[fd.Sig] = true
				fmt.Printf("KNOWN-FINDING: property=%s %s\n", id, fd.What)
			}
			continue
		}
		if printedSig[f.Sig] {
			continue
		}
		printedSig[f.Sig] = true
		violations++
		path := f.Replay
		if path == "" || replayPath != "" {
			if replayPath != "" {
				path = replayPath
			} else {
				b, _ := json.MarshalIndent(f, "", " ")
				sum := sha1.Sum(append([]byte(f.Sig), f.Case...))
				dir := filepath.Join(verifDir, "replays", id, "found")
				os.MkdirAll(dir, 0o755)
				path = filepath.Join(dir, hex.EncodeToString(sum[:6])+".json")
				os.WriteFile(path, b, 0o644)
			}
		}
		fmt.Printf("VIOLATION property=%s replay=%s\n", id, path)
		fmt.Printf("  check=%s sig=%s%s\n  %s\n", f.Check, f.Sig, map[bool]string{true: " (flaky: could not be reproduced deterministically)", false: ""}[f.Flaky], strings.ReplaceAll(tail(f.Msg, 3000), "\n", "\n  "))
	}

	wall := time.Since(start).Seconds()
	// ---- evidence ----
	if replayPath == "" {
		samples := merged.Samples
		if len(samples) == 0 {
			samples = []interface{}{"(no non-trivial case was generated)"}
		}
		cov := map[string]interface{}{
			"evaluations":               merged.Evaluations,
			"distinct_nontrivial":       merged.NonTrivial,
			"rule":                      strings.Join(append([]string{cfg.Rule}, merged.Rules...), " || "),
			"samples":                   samples,
			"classes":                   merged.Classes,
			"excluded_by_construction":  merged.Excluded,
			"excluded_by_signature":     merged.ExcludedBySig,
			"cases_passed_per_check":    merged.Checks,
			"cases_requested_per_check": merged.Requested,
			"shards":                    shards,
			"regression_replays":        len(regress),
			"known_findings_reproduced": len(knownSeen),
		}
		for k, v := range merged.Extra {
			cov[k] = v
		}
		if incomplete != "" {
			cov["incomplete"] = tail(incomplete, 1500)
		}
		ev := map[string]interface{}{
			"property_id": id,
			"tier":        tier,
			"seed":        seed,
			"level":       "exploration",
			"coverage":    cov,
			"assumptions": cfg.Assumptions,
			"wall_s":      wall,
			"violations":  violations,
		}
		b, _ := json.MarshalIndent(ev, "", " ")
		evDir := filepath.Join(verifDir, "evidence")
		if os.Getenv("VERIF_REPO") != "" {
			// a development run against another checkout never overwrites the committed evidence
			evDir = filepath.Join(verifDir, "evidence", ".dev")
		}
		os.MkdirAll(evDir, 0o755)
		if err := os.WriteFile(filepath.Join(evDir, id+".json"), append(b, '\n'), 0o644); err != nil {
			fmt.Printf("INCONCLUSIVE: cannot write evidence: %v\n", err)
			cleanupAndExit(2)
		}
	}

	fmt.Printf("%s %s seed=%d: evaluations=%d distinct_nontrivial=%d violations=%d known=%d wall=%.1fs\n",
		id, tier, seed, merged.Evaluations, merged.NonTrivial, violations, len(knownSeen), wall)
	if violations > 0 {
		cleanupAndExit(1)
	}
	if incomplete != "" {
		fmt.Printf("INCONCLUSIVE: %s\n", tail(incomplete, 4000))
		cleanupAndExit(2)
	}
	cleanupAndExit(0)
}
