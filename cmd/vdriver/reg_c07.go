package main

func init() {
	reg("C07", propCfg{Pkg: "./props/c07", Rule: "model-based: probe trace of anko vs reference interpreter",
		Assumptions: assume("the reference interpreter (internal/prog/model.go) encodes the statement", "forms whose operand order the statement does not fix (assignment target vs right-hand side, op= on index targets) are compared as multisets", "a call rejected for its argument count is expected to evaluate no operand (what the code does today; the statement only forbids evaluating one twice)")})
}
