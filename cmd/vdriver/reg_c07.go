package main

func init() {
	reg("C07", propCfg{Pkg: "./props/c07", Rule: "model-based: probe trace of anko vs reference interpreter",
		Assumptions: assume("the reference interpreter (internal/prog/model.go) encodes the statement", "forms whose operand order the statement does not fix (assignment target vs right-hand side, op= on index targets) are compared as multisets; inside `x op= e` only the order the binary operator `x op e` fixes is asserted: the first evaluation of every operand of x precedes e", "a key operand of a map literal whose value can be no key of that map (a list, a map; for map[string]T anything but a string) fails as that operand: the operands after it, its own value first, are not evaluated", "a call rejected for its argument count is expected to evaluate no operand (what the code does today; the statement only forbids evaluating one twice)")})
}
