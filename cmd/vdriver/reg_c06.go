package main

func init() {
	reg("C06", propCfg{Pkg: "./props/c06", Rule: "algebraic laws over generated pairs plus reference values where the statement defines them",
		Assumptions: assume(
			"a decimal numeral is ^[+-]?[0-9]+(\\.[0-9]+)?([eE][+-]?[0-9]+)?$; it denotes an int64 when it is an integer numeral in range, otherwise the float64 strconv.ParseFloat returns",
			"no reference value (laws only) for: a bool on exactly one side, a container against a non-nil primitive, containers differing only between leaves of different types, hex/binary/underscore/Inf/NaN/space-padded/partial numeral spellings, integer numerals outside int64, float numerals that overflow or underflow",
			"slices and maps are of different structure (never equal); map literals are equal regardless of the order the keys were written in")})
}
