package main

func init() {
	reg("C06", propCfg{Pkg: "./props/c06", Rule: "algebraic laws over generated pairs plus reference values where the statement defines them",
		Assumptions: assume(
			"a decimal numeral is ^[+-]?[0-9]+(\\.[0-9]+)?([eE][+-]?[0-9]+)?$; it denotes an int64 when it is an integer numeral in range, otherwise the float64 strconv.ParseFloat returns",
			"no reference value (laws only) for: a bool on exactly one side, a container against a non-nil primitive, containers differing only between leaves of different types, numerals with an empty integer or fraction part (\".5\", \"5.\"), digits outside ASCII, integer numerals outside int64 that round to the number compared, a numeral beyond float64 against an infinity, a numeral that underflows against zero",
			"a decimal numeral whose number lies beyond the largest finite float64 (\"1e999\", \"1.8e308\", more than 308 digits) is a decimal numeral all the same: it denotes no int64 and no finite float64, and rounded it is an infinity, so it equals no finite number under either reading; a numeral that rounds to zero without denoting zero (\"1e-400\") equals no number other than zero",
			"sites: the case a switch takes holds a value that == the subject at that moment, no case is taken only when no case value == the subject, and x in [c1..cn] is true exactly when x == ci for some i, at every evaluation of one statement, whatever that statement compared before; which of several matching cases is taken is not asserted",
			"a string that is a spelling of a number but no decimal numeral, with or without white space around it - hexadecimal float, 0x/0b/0o integer, digits separated by _, Inf/Infinity/NaN in any case, a numeral with anything left over (\"1x\", \"1e\", \"1.0.0\", \"1,000\", \"--1\") - equals no number, whatever strconv reads out of it",
			"live-slot: `in`, `switch` and `==` over one pair of operand expressions evaluated from the same state give one answer also when the right-hand expression overwrites the slot the left-hand one reads; which value of the slot takes part is not asserted (C07)",
			"a decimal numeral with white space around it: unequal to every number the numeral itself is defined unequal to (true under the strict reading 'such a string is no numeral' and under the lenient one 'it denotes what the numeral denotes'); no reference value where the numeral itself equals the number",
			"'two values of the same primitive type' covers every Go primitive numeric type a script can hold (float32, int8..int, uint8..uint64): two operands of ONE such type are equal exactly when Go's == on the two values says so; operands of two different such types: laws only",
			"pointers, functions, structs, arrays, channels, complex numbers, values of named types, typed containers, errors: laws only ('for every pair of values'), no reference value",
			"slices and maps are of different structure (never equal); map literals are equal regardless of the order the keys were written in")})
}
