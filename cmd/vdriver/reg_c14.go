package main

func init() {
	reg("C14", propCfg{Pkg: "./props/c14", Race: true, Rule: "metamorphic: shared parsed tree vs fresh parse; structural dump before/after; race detector on",
		Assumptions: assume("the structural dump (internal/dump) shows every field of every node incl. CallExpr.Func and literal reflect.Values", "programs whose behaviour depends on map iteration order are not generated for the result comparison (probes inside multi-entry map loops are compared as multisets)", "a data race reported by the race detector ends the test process abnormally and is reported as inconclusive (exit 2) with the report text")})
}
