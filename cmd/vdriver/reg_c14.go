package main

func init() {
	reg("C14", propCfg{Pkg: "./props/c14", Race: true, RaceIsViolation: true, Rule: "metamorphic: shared parsed tree vs fresh parse; structural dump before/after; race detector on",
		Assumptions: assume("the structural dump (internal/dump) shows every field of every node incl. CallExpr.Func and literal reflect.Values", "programs whose behaviour depends on map iteration order are not generated for the result comparison (probes inside multi-entry map loops are compared as multisets)", "a data race reported by the race detector whose stacks name package github.com/mattn/anko is reported as a violation (the report text is the saved artefact; not replayable deterministically); other reports make the run inconclusive")})
}
