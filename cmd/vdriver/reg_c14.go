package main

func init() {
	reg("C14", propCfg{Pkg: "./props/c14", Race: true, RaceIsViolation: true, Rule: "metamorphic: shared parsed tree vs fresh parse; structural dump before/after; race detector on",
		Assumptions: assume("the structural dump (internal/dump) shows every field of every node incl. CallExpr.Func and literal reflect.Values", "programs whose behaviour depends on map iteration order are not generated for the result comparison (probes inside multi-entry map loops are compared as multisets)", "a data race reported by the race detector whose stacks name package github.com/mattn/anko is reported as a violation (the report text is the saved artefact; not replayable deterministically); other reports make the run inconclusive", "'every run yields the result it would yield alone' is read for whatever *vm.Options value the host passes, one pointer passed to every run included (sub-check options): the statement names separate environments as the only condition", "the error values a script can catch are values the interpreter hands out like any other: a store a script makes through a caught error must not be visible to a later run (sub-check residue)")})
}
