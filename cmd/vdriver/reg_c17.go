package main

func init() {
	reg("C17", propCfg{Pkg: "./props/c17", Rule: "reflection oracle: every node found by a generic reflection walk must be presented by astutil.Walk after its parent",
		Assumptions: assume("the reflection walk (internal/dump.Nodes: every non-nil pointer implementing ast.Pos reachable through exported fields and slices) defines 'every node of the tree'", "extra synthetic nodes presented by Walk (the CallExpr it fabricates for anonymous calls) are not forbidden by the statement and are ignored")})
}
