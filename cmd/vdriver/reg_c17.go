package main

func init() {
	reg("C17", propCfg{Pkg: "./props/c17", Rule: "reflection oracle: every node found by a generic reflection walk must be presented by astutil.Walk after its parent",
		Assumptions: assume("the reflection walk (internal/dump.Nodes: every non-nil pointer implementing ast.Pos reachable through exported fields and slices) defines 'every node of the tree'", "extra synthetic nodes presented by Walk (the CallExpr it fabricates for anonymous calls) are not forbidden by the statement and are ignored", "sub-check together: \"walking any tree produced by the parser\" covers a walk that runs while other goroutines walk the same tree (nothing writes to the tree; the statement makes no exception for what else reads it), so each of several simultaneous walks is judged like a solitary one")})
}
