package main

func init() {
	reg("C16", propCfg{Pkg: "./props/c16", Race: true, RaceIsViolation: true,
		Rule: "generated goroutine/channel pipelines run under GOMAXPROCS 1,2,16 with repetitions; expected sequence computed from the specification",
		Assumptions: assume(
			"schedules are those the Go runtime produces under yield perturbation, GOMAXPROCS 1/2/16 and repetition: a sample, not an enumeration",
			"int64/float64/string arithmetic used by the stage functions follows the tower of C05 (native Go operators, fmt.Sprint for string concatenation)",
			"a run is stuck when a consistent runtime.Stack snapshot shows every goroutine executing anko code parked in select twice in a row, or when the 10 s deadline passes and the 50 s solo re-run does not finish either",
			"integer-to-string channel conversions (Go's rune conversion) are not generated")})
}
