package main

func init() {
	reg("C11", propCfg{Pkg: "./props/c11", Rule: "reference conversion table (Go conversion syntax) and recording reflect.MakeFunc hosts vs anko",
		Assumptions: assume(
			"the reference table props/c11/conv.go encodes Go's conversion rules: identity for interface{}, numeric conversions, integer->string rune strings, string<->[]byte/[]rune, element-wise slices/arrays/maps, zero value for nil, error otherwise",
			"not asserted beyond \"no host panic\" (statement silent): one-character string -> byte/rune, pointer vs non-pointer and non-nil pointer re-typing, float outside the target integer range, integer -> float32 where one- and two-step rounding differ, surplus spread elements and arguments of parameterless functions (dropped, pinned by the repository's tests), spread value landing in a fixed slot of a variadic function, more callback results than declared, script callbacks of another arity, field writes through non-pointer receivers")})
}
