package main

func init() {
	reg("C11", propCfg{Pkg: "./props/c11", Rule: "reference conversion table (Go conversion syntax) and recording reflect.MakeFunc hosts vs anko",
		Assumptions: assume(
			"the reference table props/c11/conv.go encodes Go's conversion rules: identity for interface{}, numeric conversions, integer->string rune strings, string<->[]byte/[]rune, element-wise slices/arrays/maps, zero value for nil, error otherwise",
			"not asserted (statement silent): one-character string -> byte/rune, pointer re-typing, float outside the target integer range, surplus spread elements, spread into a fixed slot of a variadic function, more callback results than declared")})
}
