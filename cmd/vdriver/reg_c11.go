package main

func init() {
	reg("C11", propCfg{Pkg: "./props/c11", Rule: "reference conversion table (Go conversion syntax) and recording reflect.MakeFunc hosts vs anko",
		Assumptions: assume(
			"the reference table props/c11/conv.go encodes Go's conversion rules: identity for interface{}, numeric conversions, integer->string rune strings, string<->[]byte/[]rune, element-wise slices/arrays/maps, zero value for nil, error otherwise",
			"string -> byte/rune (Go has no such conversion, the code special-cases one character): several characters must be an error; one character to rune, one ASCII character to byte: an error or exactly that character; the empty string, strings that are not UTF-8 and one non-ASCII character to byte are not judged",
			"go calls (sub-check gocall): a host function that has not been invoked 20 s after a go statement that returned without error counts as never invoked",
			"not asserted beyond \"no host panic\" (statement silent): pointer vs non-pointer and non-nil pointer re-typing, float outside the target integer range, integer -> float32 where one- and two-step rounding differ, surplus spread elements and arguments of parameterless functions (dropped, pinned by the repository's tests), spread value landing in a fixed slot of a variadic function, more callback results than declared, script callbacks of another arity, field writes through non-pointer receivers")})
}
