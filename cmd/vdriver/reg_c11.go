package main

func init() {
	reg("C11", propCfg{Pkg: "./props/c11", Rule: "reference conversion table (Go conversion syntax) and recording reflect.MakeFunc hosts vs anko",
		Assumptions: assume(
			"the reference table props/c11/conv.go encodes Go's conversion rules: identity for interface{}, numeric conversions, integer->string rune strings, string<->[]byte/[]rune, element-wise slices/arrays/maps, zero value for nil, error otherwise",
			"string -> byte/rune (Go has no such conversion, the code special-cases one character): several characters must be an error; one character to rune, one ASCII character to byte: an error or exactly that character; the empty string, strings that are not UTF-8 and one non-ASCII character to byte are not judged",
			"go calls (sub-checks gocall and goseq): a host function that has not been invoked 20 s after a go statement that returned without error counts as never invoked",
			"several calls in one run (sub-check goseq): calls of Go functions do not share state, so the reference for a script of several calls (plain or launched with go) is the multiset of the invocations planned for each call on its own; the order in which launched calls arrive is not judged; a call that plans the same invocation as an earlier call of the same function is not generated",
			"argument lists (sub-check liveargs): anko evaluates the arguments of a call from left to right, and \"exactly the supplied arguments\" means the value each argument expression had when it was evaluated, whatever a later argument does to the place it was read from (a plain variable, a map entry and a converted value behave like that on every tree; struct and array VALUES as arguments are not generated)",
			"callbacks of variadic Go func types (sub-check vcallbacks): a script function that is variadic from the position of Go's variadic parameter, or from an earlier one, must see every argument Go passed, one by one (also when Go passes a slice with f(a, xs...)); what a NON-variadic script parameter at the variadic position holds is not judged",
			"not asserted beyond \"no host panic\" (statement silent): pointer vs non-pointer and non-nil pointer re-typing, float outside the target integer range, integer -> float32 where one- and two-step rounding differ, surplus spread elements and arguments of parameterless functions (dropped, pinned by the repository's tests), spread value landing in a fixed slot of a variadic function, more callback results than declared, script callbacks of another arity, field writes through non-pointer receivers")})
}
