package main

func init() {
	reg("C20", propCfg{Pkg: "./props/c20", Rule: "metamorphic: the same prelude value used through a variable vs through a provenance chain",
		Assumptions: assume(
			"metamorphic oracle: both programs are run by anko itself; a defect that affects the variable form and the chained form identically is invisible here (it belongs to C05/C06/C10/C01)",
			"error messages are not compared (only error presence), except for the message of a thrown scalar",
			"functions are compared by type only; channels by content, capacity and closed state; pointers by pointee content",
			"held sub-check: the baseline of the templates whose operand is the container (destructuring, for-in, spread into a fixed-arity function, `x, ok = c[k]`) stores into a twin container instead of the one read; struct and array values are not generated (anko treats them as references) and pointer items are never iterated",
			"computed sub-check: the value of a computation is known from Go's int64 / float64 / string arithmetic on operands chosen so that nothing overflows or rounds (only the spelling of the baseline literal depends on it); the holder and the route of the write are the same in both programs, only the origin of the value (operation vs literal) differs - the copy read from a typed-slice element is addressable in both, so & of it points to the variable itself in both; every program writes the original value back through the same pointer, so that a defect in process-wide state does not leak into the next case",
		)})
}
