package main

import "time"

type propCfg struct {
	Pkg          string
	Test         string
	Race         bool
	RaceThorough bool // build with -race in the thorough tier only
	// RaceIsViolation: a race-detector report whose stacks name package github.com/mattn/anko
	// is reported as a VIOLATION (the report text is saved as the replay artefact); otherwise a
	// report only makes the run inconclusive.
	RaceIsViolation bool
	// NoCrashRule: a dying test process is never counted as a violation (checks whose test process
	// is expected to be killed by the cases themselves)
	NoCrashRule bool
	// Fuzz: native fuzz targets run after the generated search in the thorough tier
	// (FuzzName -> sub-check whose oracle judges the input; the failing input becomes a replay case of it)
	Fuzz            map[string]string
	FuzzTime        time.Duration
	Tags            string
	ShardsThorough  int
	QuickTimeout    time.Duration
	ThoroughTimeout time.Duration
	Rule            string
	Assumptions     []string
	Env             map[string]string
	// PreBuild may prepare files in scratch and return extra `go test -c` arguments.
	// repo is the anko checkout under test; modArgs are extra go flags selecting it.
	PreBuild func(scratch, repo string, env []string, modArgs []string) ([]string, error)
}

var commonAssumptions = []string{
	"the Go toolchain, reflect and the race detector behave as documented",
	"pgregory.net/rapid v1.3.0 generation and shrinking",
	"exploration only: the property held on every generated case; absence of violations outside the explored set is not established",
}

func assume(extra ...string) []string {
	return append(append([]string{}, commonAssumptions...), extra...)
}

var props = map[string]propCfg{}

func reg(id string, c propCfg) {
	if c.Test == "" {
		c.Test = "Test" + id
	}
	if c.ShardsThorough == 0 {
		c.ShardsThorough = 12
	}
	if c.QuickTimeout == 0 {
		c.QuickTimeout = 5 * time.Minute
	}
	if c.ThoroughTimeout == 0 {
		c.ThoroughTimeout = 30 * time.Minute
	}
	props[id] = c
}

func init() {
	reg("C05", propCfg{Pkg: "./props/c05", Rule: "differential against native Go arithmetic",
		Assumptions: assume("the reference evaluator (native Go int64/float64 operators, fmt.Sprint, strings.Repeat) is the specification of the tower")})
}

func init() {
	reg("C04", propCfg{Pkg: "./props/c04", Rule: "model-based: anko vs reference interpreter",
		Assumptions: assume("the reference interpreter (internal/prog/model.go) encodes the statement; where the statement leaves a choice open every admitted parameterisation is accepted")})
}

func init() {
	reg("C08", propCfg{Pkg: "./props/c08", Rule: "model-based: anko vs reference interpreter",
		Assumptions: assume("the reference interpreter (internal/prog/model.go) encodes the statement", "break/continue/return leaving a try body directly are excluded by construction (known finding F-try-signal)")})
}

func init() {
	reg("C09", propCfg{Pkg: "./props/c09", Rule: "model-based: anko vs reference interpreter",
		Assumptions: assume("the reference interpreter (internal/prog/model.go) encodes the statement", "when several deferred calls fail any of their errors is accepted; finally after an abruptly exiting catch block is accepted either way", "break/continue/return leaving a try body directly are excluded by construction (known finding F-try-signal)")})
}
