package parser_test

import (
	"fmt"
	"reflect"
	"strings"
	"sync"
	"testing"

	"github.com/mattn/anko/ast"
	"github.com/mattn/anko/parser"
)

type positioned interface{ Position() ast.Position }

var reflectValueType = reflect.TypeOf(reflect.Value{})

// dump renders a tree structurally, with the position of every node.
func dump(sb *strings.Builder, v reflect.Value) {
	switch v.Kind() {
	case reflect.Interface, reflect.Ptr:
		if v.IsNil() {
			sb.WriteString("nil ")
			return
		}
		if v.Kind() == reflect.Interface {
			dump(sb, v.Elem())
			return
		}
		if p, ok := v.Interface().(positioned); ok {
			fmt.Fprintf(sb, "%s@%d:%d", v.Elem().Type().Name(), p.Position().Line, p.Position().Column)
		}
		dump(sb, v.Elem())
	case reflect.Struct:
		if v.Type() == reflectValueType {
			if rv := v.Interface().(reflect.Value); rv.IsValid() {
				fmt.Fprintf(sb, "%#v ", rv.Interface())
			}
			return
		}
		sb.WriteString("{")
		for i := 0; i < v.NumField(); i++ {
			if v.Type().Field(i).PkgPath == "" { // exported fields only
				dump(sb, v.Field(i))
			}
		}
		sb.WriteString("} ")
	case reflect.Slice:
		sb.WriteString("[")
		for i := 0; i < v.Len(); i++ {
			dump(sb, v.Index(i))
		}
		sb.WriteString("] ")
	default:
		fmt.Fprintf(sb, "%v ", v.Interface())
	}
}

func dumpTree(t ast.Stmt) string {
	var sb strings.Builder
	dump(&sb, reflect.ValueOf(&t).Elem())
	return sb.String()
}

// A tree returned by ParseSrc must not change because ParseSrc is called again.
func TestDemoEarlierTreeUnchangedByLaterParse(t *testing.T) {
	first, err := parser.ParseSrc("i++")
	if err != nil {
		t.Fatal(err)
	}
	before := dumpTree(first)
	if _, err = parser.ParseSrc("x = 1\n\n      total--"); err != nil {
		t.Fatal(err)
	}
	after := dumpTree(first)
	if before != after {
		t.Errorf("tree of \"i++\" changed after an unrelated ParseSrc call:\nbefore: %s\nafter:  %s", before, after)
	}
}

// The same text yields the same tree, also under concurrent calls.
func TestDemoSameTextSameTreeConcurrently(t *testing.T) {
	const workers, rounds = 8, 2000
	var wg sync.WaitGroup
	errs := make(chan string, workers)
	for w := 0; w < workers; w++ {
		wg.Add(1)
		go func(w int) {
			defer wg.Done()
			src := strings.Repeat("\n", w) + strings.Repeat(" ", w) + "n++"
			want := ""
			for r := 0; r < rounds; r++ {
				tree, err := parser.ParseSrc(src)
				if err != nil {
					errs <- err.Error()
					return
				}
				got := dumpTree(tree)
				if r == 0 {
					want = got
				} else if got != want {
					errs <- fmt.Sprintf("worker %d round %d: ParseSrc(%q) gave\n  %s\nbut earlier gave\n  %s", w, r, src, got, want)
					return
				}
			}
		}(w)
	}
	wg.Wait()
	close(errs)
	for e := range errs {
		t.Error(e)
	}
}
