package parser_test

import (
	"fmt"
	"testing"

	"github.com/mattn/anko/ast"
	"github.com/mattn/anko/parser"
)

// shape returns "Type@line:col" for every top-level statement of src.
func shape(t *testing.T, src string) []string {
	t.Helper()
	tree, err := parser.ParseSrc(src)
	if err != nil {
		t.Fatalf("ParseSrc(%q): unexpected error %v", src, err)
	}
	if tree == nil {
		return nil
	}
	list, ok := tree.(*ast.StmtsStmt)
	if !ok {
		t.Fatalf("ParseSrc(%q): top level is %T, want *ast.StmtsStmt", src, tree)
	}
	var out []string
	for _, s := range list.Stmts {
		out = append(out, fmt.Sprintf("%T@%d:%d", s, s.Position().Line, s.Position().Column))
	}
	return out
}

// Composition: if A and B parse on their own, A+"\n"+B parses to stmts(A)++stmts(B),
// B's statements keeping their position shifted down by the number of lines of A.
func TestDemoCompositionLeadingEmptyStatements(t *testing.T) {
	cases := []struct {
		a, b string
		want []string // expected top-level shape of a+"\n"+b
	}{
		{";", ";x = 1", []string{"*ast.LetsStmt@2:2"}},
		{";", ";if a { b }", []string{"*ast.IfStmt@2:2"}},
		{"# header", ";module m { f = 1 }", []string{"*ast.ModuleStmt@2:2"}},
		{"", ";;x", []string{"*ast.ExprStmt@2:3"}},
	}
	for _, c := range cases {
		sa, sb := shape(t, c.a), shape(t, c.b)
		if len(sa) != 0 || len(sb) != 1 {
			t.Fatalf("setup: %q -> %v, %q -> %v", c.a, sa, c.b, sb)
		}
		got := shape(t, c.a+"\n"+c.b)
		if fmt.Sprint(got) != fmt.Sprint(c.want) {
			t.Errorf("ParseSrc(%q): top-level statements %v, want %v (B alone: %v)", c.a+"\n"+c.b, got, c.want, sb)
		}
	}
}
