package parser_test

import (
	"testing"

	"github.com/mattn/anko/parser"
)

// A source text that is cut right after "= " (or after "= <") must come back
// from ParseSrc with a statement or an error, never with a Go panic.
func TestC01TruncatedAssignDoesNotPanic(t *testing.T) {
	sources := []string{
		"a = ",
		"a = <",
		"a = 1\nb = ",
		"x, y = ",
		"if a = ",
		"a = 1; b = <",
	}
	for _, src := range sources {
		func() {
			defer func() {
				if r := recover(); r != nil {
					t.Errorf("ParseSrc(%q) panicked: %v", src, r)
				}
			}()
			_, _ = parser.ParseSrc(src)
		}()
	}
}
