module verif

go 1.23

require (
	github.com/mattn/anko v0.0.0
	pgregory.net/rapid v1.3.0
)

replace github.com/mattn/anko => /repo
