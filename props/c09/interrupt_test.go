package c09

import (
	"context"
	"fmt"
	"strings"
	"sync"
	"time"

	"github.com/mattn/anko/env"
	"github.com/mattn/anko/vm"
	"pgregory.net/rapid"

	"verif/internal/h"
)

// Sub-check "interrupted": an invocation that ends because the context was cancelled ends
// "by error", so its deferred calls run exactly once, LIFO, like on every other exit
// (deferred HOST functions are unaffected by the cancellation itself).
type IntCase struct {
	Depth   int   `json:"depth"`   // nested script function invocations, innermost spins
	Defers  []int `json:"defers"`  // deferred host probes per level (0..3)
	Arity   []int `json:"arity"`   // parameters per level (0..6: direct and reflect call path)
	K       int   `json:"k"`       // cancel inside the K-th tick
	TopDefs int   `json:"topdefs"` // deferred probes at top level
}

func genInt(t *rapid.T) IntCase {
	c := IntCase{Depth: rapid.IntRange(1, 3).Draw(t, "depth"), K: rapid.IntRange(1, 20).Draw(t, "k"), TopDefs: rapid.IntRange(0, 2).Draw(t, "topdefs")}
	for i := 0; i < c.Depth; i++ {
		c.Defers = append(c.Defers, rapid.IntRange(0, 3).Draw(t, "ndefers"))
		c.Arity = append(c.Arity, rapid.SampledFrom([]int{0, 1, 2, 4, 5, 6}).Draw(t, "arity"))
	}
	return c
}

func (c IntCase) source() (string, []string) {
	var b strings.Builder
	var expect [][]string // per level, registration order
	id := 0
	// functions are defined innermost first so that each can call the next
	bodies := make([]string, c.Depth)
	expect = make([][]string, c.Depth+1)
	for lvl := c.Depth - 1; lvl >= 0; lvl-- {
		var fb strings.Builder
		params := make([]string, c.Arity[lvl])
		args := make([]string, c.Arity[lvl])
		for i := range params {
			params[i] = fmt.Sprintf("q%d", i)
			args[i] = fmt.Sprint(i)
		}
		fmt.Fprintf(&fb, "func lv%d(%s) {\n", lvl, strings.Join(params, ", "))
		for d := 0; d < c.Defers[lvl]; d++ {
			id++
			fmt.Fprintf(&fb, "  defer dp(%d)\n", id)
			expect[lvl+1] = append(expect[lvl+1], fmt.Sprintf("dp %d", id))
		}
		if lvl == c.Depth-1 {
			fb.WriteString("  for {\n    tick()\n  }\n")
		} else {
			nargs := make([]string, c.Arity[lvl+1])
			for i := range nargs {
				nargs[i] = fmt.Sprint(i)
			}
			fmt.Fprintf(&fb, "  lv%d(%s)\n", lvl+1, strings.Join(nargs, ", "))
		}
		fb.WriteString("  return 1\n}\n")
		bodies[lvl] = fb.String()
		_ = args
	}
	for lvl := c.Depth - 1; lvl >= 0; lvl-- {
		b.WriteString(bodies[lvl])
	}
	for d := 0; d < c.TopDefs; d++ {
		id++
		fmt.Fprintf(&b, "defer dp(%d)\n", id)
		expect[0] = append(expect[0], fmt.Sprintf("dp %d", id))
	}
	a0 := make([]string, c.Arity[0])
	for i := range a0 {
		a0[i] = fmt.Sprint(i)
	}
	fmt.Fprintf(&b, "lv0(%s)\ndp(9999)\n", strings.Join(a0, ", "))
	// expected order: innermost invocation's defers first (LIFO within each), then outwards, top level last
	var want []string
	for lvl := c.Depth; lvl >= 0; lvl-- {
		for i := len(expect[lvl]) - 1; i >= 0; i-- {
			want = append(want, expect[lvl][i])
		}
	}
	return b.String(), want
}

func oracleInt(c IntCase, o *h.Obs) *h.Fail {
	src, want := c.source()
	o.Key = fmt.Sprintf("%s|k=%d", src, c.K)
	total := c.TopDefs
	for _, d := range c.Defers {
		total += d
	}
	o.NonTrivial = total >= 2
	o.Class(fmt.Sprintf("interrupted_depth_%d", c.Depth))
	ctx, cancel := context.WithCancel(context.Background())
	defer cancel()
	var mu sync.Mutex
	var trace []string
	ticks := 0
	e := env.NewEnv()
	e.Define("tick", func() {
		mu.Lock()
		ticks++
		n := ticks
		mu.Unlock()
		if n == c.K {
			cancel()
		}
		if n > c.K+200 {
			panic("runaway") // becomes an error: the script is not stopping (C02's subject)
		}
	})
	e.Define("dp", func(id int64) {
		mu.Lock()
		trace = append(trace, fmt.Sprintf("dp %d", id))
		mu.Unlock()
	})
	done := make(chan error, 1)
	go func() {
		_, err := vm.ExecuteContext(ctx, e, nil, src)
		done <- err
	}()
	var err error
	select {
	case err = <-done:
	case <-time.After(10 * time.Second):
		o.Excluded = "script did not return after cancellation (C02's subject)"
		return nil
	}
	if err == nil || !strings.Contains(err.Error(), "interrupt") {
		o.Excluded = fmt.Sprintf("run did not end with the interruption error (C02's subject): %v", err)
		return nil
	}
	mu.Lock()
	got := append([]string{}, trace...)
	mu.Unlock()
	if fmt.Sprint(got) != fmt.Sprint(want) {
		clause := "order"
		if len(got) < len(want) {
			clause = "deferred-call-not-run"
		} else if len(got) > len(want) {
			clause = "deferred-call-run-twice-or-statement-after-error"
		}
		return h.Failf("C09|interrupted|"+clause, "invocations left because the context was cancelled must run their deferred calls once, LIFO\ncancel inside tick %d\nexpected deferred probes: %v\nobserved:                %v\nsource:\n%s", c.K, want, got, src)
	}
	return nil
}
