// C09 — errors reach the nearest try; deferred calls run once, LIFO, on every exit.
// Oracle: reference interpreter (internal/prog).
package c09

import (
	"strings"
	"testing"

	"pgregory.net/rapid"

	"verif/internal/h"
	"verif/internal/prog"
)

type Case struct {
	Prog    []*prog.N      `json:"prog"`
	GenFeat map[string]int `json:"genfeat,omitempty"`
}

var profile = prog.Profile{Errors: true, HostChan: true, ErrOps: true, MaxDepth: 4, MaxStmts: 4}

func gen(t *rapid.T) Case {
	p, f := prog.Generate(t, profile)
	return Case{Prog: p, GenFeat: f}
}

func oracle(c Case, o *h.Obs) *h.Fail {
	v := prog.Judge(c.Prog)
	o.Key = v.Src
	if v.Excluded != "" {
		o.Excluded = "unspecified: " + v.Excluded
		return nil
	}
	f := v.Out.Feat
	if c.GenFeat["excluded_signal_in_try_body"] > 0 {
		o.Class("generator_kept_signals_out_of_a_try_body")
	}
	o.NonTrivial = f["abrupt_exit_with_2plus_defers"] > 0 || f["deferred_error_surfaces"] > 0 || f["deferred_error_after_body_error"] > 0 || f["try_in_deferred_callee"] > 0 ||
		(f["error_caught"] > 0 && f["defer_run"] > 0) || f["error_through_go_callback"] > 0 || f["deferred_probe_of_its_arguments_run"] > 0
	for k, n := range f {
		if n > 0 && strings.HasPrefix(k, "invocation_exit_") {
			o.Class(k)
		}
	}
	for _, k := range []string{"error_caught", "catch_exits_abruptly", "finally_run", "throw", "deferred_error_surfaces", "deferred_error_after_body_error", "try_in_deferred_callee", "abrupt_exit_with_2plus_defers", "coalesce_swallowed_error", "index_out_of_range", "undefined_name", "script_callback_called_by_go", "error_through_go_callback", "deferred_probe_of_its_arguments_run", "defer_with_spread_list"} {
		if f[k] > 0 {
			o.Class(k)
		}
	}
	for _, k := range []string{"spread_operand_raises", "call_spread_variadic", "script_callback_passed_to_go", "defer_same_statement_different_callees", "deferred_call_assigns_the_returned_list_element", "deferred_call_assigns_the_returned_variable", "body_fails_by_host_panic_and_deferred_call_fails_too", "deferred_argument_is_an_element_assigned_later", "throw_of_empty_or_nil", "deferred_arguments_read_from_slots_stored_later", "deferred_go_call_gets_the_address_of_a_variable"} {
		if c.GenFeat[k] > 0 {
			o.Class("gen_" + k)
		}
	}
	for k, n := range c.GenFeat {
		if n > 0 && (strings.HasPrefix(k, "defer_args_") || strings.HasPrefix(k, "defer_addr_") || strings.HasPrefix(k, "raising_operand_") || strings.HasPrefix(k, "raiser_") || strings.HasPrefix(k, "runtime_error_") || (strings.HasPrefix(k, "deferred_call_assigns_the_returned_") && k != "deferred_call_assigns_the_returned_list_element" && k != "deferred_call_assigns_the_returned_variable") ||
			k == "call_by_name_after_the_failing_operand" || k == "coalesce_after_the_failing_operand" || k == "deferred_assignment_through_a_named_function" || k == "two_deferred_calls_assign_the_returned_slot") {
			o.Class("gen_" + k)
		}
	}
	if f["deferred_go_call_with_address_argument_run"] > 0 {
		o.Class("run_deferred_go_call_with_address_argument")
	}
	if f["runtime_error_inside_interpreter"] > 0 {
		o.Class("run_runtime_error_inside_interpreter")
	}
	if v.Out.Err != nil {
		o.Class("program_ends_with_uncaught_error")
	}
	if !v.OK {
		if class, ok := prog.DeferArgsDiff(v); ok && v.Clause == "trace" && strings.HasPrefix(class, prog.ResultTagPrefix) {
			// the probe that logs the result of an invocation ran where it had to and logged another value than the
			// one the body returned
			return h.Failf("C09|deferred-call-altered-the-invocation-result|"+strings.TrimPrefix(class, prog.ResultTagPrefix), "program:\n%s\n%s", v.Src, v.Detail)
		} else if ok && v.Clause == "trace" {
			// a deferred call ran where it had to, with other arguments than the ones its defer statement evaluated
			return h.Failf("C09|deferred-call-arguments-not-as-evaluated-at-the-defer-statement|"+class, "program:\n%s\n%s", v.Src, v.Detail)
		}
		f := h.Failf("C09|"+v.Clause, "program:\n%s\n%s", v.Src, v.Detail)
		f.NoShrink = v.Clause == "no-termination"
		return f
	}
	if v.Cfg.FinallyAfterAbrupt || v.Cfg.TryGroups != 0 {
		o.Class("matched_alternative_parameterisation")
	}
	return nil
}

func TestC09(t *testing.T) {
	c := h.New(t, "C09")
	defer c.Finish()
	if c.Thorough() {
		// the thorough tier also explores larger programs
		profile.MaxDepth++
		profile.MaxStmts += 2
	}
	c.Rule("constructive generator, profile 'errors': nested try/catch[/finally] with and without catch variable, functions with defer statements in straight code, branches and loops, deferred host probes / script functions / closure literals (which may raise or contain try/defer), throw of strings/numbers/lists, runtime errors (pfail, undefined name, index out of range, and operations that fail inside the interpreter: string repeat overflow, modulo by zero, inverted slice bounds, make of an impossible length, index of a number, close of / send on a closed channel), a failing operand that is not the last one of a list / map / typed literal, argument list, binary operator, return list or multi-assignment with probes, calls by name and ?? after it, a deferred call assigning the list / typed-slice / made-slice element, array-field element or struct field just returned, deferred calls (script callees with a variadic tail, with fixed parameters before it, with 5 and more parameters, Go callees with a variadic / fixed / typed parameter list, by name or as a function literal, with or without a spread list whose name is re-bound later, in straight code, in a loop, in line) whose arguments are read from a list / typed-slice / made-slice element, struct field, array-field element, pointee or map entry that is stored into afterwards (also by a later argument of the same call) - ints and strings, and slices / maps read from an element of a slice of slices / of maps or from a slice / map field of a Go struct that is ASSIGNED another slice / map afterwards -, deferred calls of a Go function that is handed the address of a variable (defer gset(&x, v)) in functions whose result (constant, the variable, an expression of it, a list, nothing) is logged and in line, return at every point; non-trivial = an error/return leaves an invocation with >=2 pending defers, or a deferred callee raises, or a try runs inside a deferred callee, or an error is caught in a run that also runs defers, or a deferred call that logs the arguments it received runs; distinct by source text")
	h.Run(c, "errors", c.N(12000, 120000), gen, oracle)
	c.Rule("interrupted: 1-3 nested script function invocations (arity 0-6) each with 0-3 deferred host probes plus 0-2 top-level defers; the innermost spins in tick() and the context is cancelled inside the k-th tick: every deferred probe must run exactly once, innermost invocation first, LIFO; non-trivial = >= 2 deferred probes")
	h.Run(c, "interrupted", c.N(1500, 15000), genInt, oracleInt)
	if c.Thorough() {
		flowProfile.MaxDepth++
		flowProfile.MaxStmts += 2
	}
	c.Rule("errors-flow: programs of the errors profile (smaller blocks) in which two patterns are drawn often. (a) a try whose catch block logs its catch variable, then runs a second try that catches another error under the SAME variable name (20 %: another name; 15 %: the nested try raises nothing) - directly, in a branch, in a for-in loop run twice, in a closure called at once, in a function defined in the catch block (called once or twice), in a function defined before the try, three levels deep, in deferred closures - then logs the variable again and in 40 % throws it again (caught by an enclosing try that logs it, or uncaught); errors: throw of a string / number, host panic, throw in a called function with a deferred probe, undefined name, runtime error inside the interpreter. (b) a loop whose HEADER raises after round r: the post expression of a C-style for (with condition, without condition, init in the header), the condition of a C-style for, the condition of `for cond { }`; the expression is a step function that fails at its n-th call after advancing its counter (bare or as a probe argument), a conditional expression failing while the counter equals r (host panic, undefined name, interpreter operation, called function that throws), an index that leaves its list in round r, an increment of an unbound name; round r ends by running to its end, by continue as the last statement, continue in a branch / in the branch of the other rounds / in else / in a switch case / in a catch block, optionally after one ordinary statement of the profile; the loop stands in a try (with or without finally), in a function with a deferred probe called inside a try or uncaught, or in line uncaught; every round, tail, after-loop statement, result and caught error is logged under a tag; non-trivial = a catch variable was bound while a variable of that name held a caught error, or a caught error was thrown again, or a loop header raised after a round; distinct by source text")
	h.Run(c, "errors-flow", c.N(2500, 25000), genFlow, oracleFlow)
}
