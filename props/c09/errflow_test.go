package c09

import (
	"strings"

	"pgregory.net/rapid"

	"verif/internal/h"
	"verif/internal/prog"
)

// Sub-check "errors-flow" (eighth round): programs of the errors profile in which the patterns of
// internal/prog/gen_errflow.go are drawn often:
//   - a catch variable read (and rethrown) after a try nested in its catch block caught another error
//     under the same name ("its catch block then runs with the error bound to the catch variable";
//     "an error that is not caught is returned to the host");
//   - an expression of a loop header (post expression / condition) that raises after a round that ended
//     with continue ("abort evaluation up to the nearest enclosing try ... after the failing point nothing
//     executes except the deferred calls of the invocations being left").
// The oracle is the reference interpreter, as for "errors".

// FlowCase has its own type so that the case stream of "errors" stays what it was.
type FlowCase struct {
	Prog    []*prog.N      `json:"prog"`
	GenFeat map[string]int `json:"genfeat,omitempty"`
}

var flowProfile = prog.Profile{Errors: true, HostChan: true, ErrOps: true, ErrFlow: true, MaxDepth: 4, MaxStmts: 3}

func genFlow(t *rapid.T) FlowCase {
	p, f := prog.Generate(t, flowProfile)
	return FlowCase{Prog: p, GenFeat: f}
}

func oracleFlow(c FlowCase, o *h.Obs) *h.Fail {
	v := prog.Judge(c.Prog)
	o.Key = v.Src
	if v.Excluded != "" {
		o.Excluded = "unspecified: " + v.Excluded
		return nil
	}
	f := v.Out.Feat
	o.NonTrivial = f["catch_variable_name_already_holds_a_caught_error"] > 0 || f["loop_header_raises_after_continue"] > 0 ||
		f["cfor_post_raises_after_a_round_that_ran_to_its_end"] > 0 || f["rethrow_of_a_caught_error"] > 0
	for _, k := range []string{"catch_variable_read_after_a_nested_try", "loop_header_expression_raises"} {
		if c.GenFeat[k] > 0 {
			o.Class("gen_" + k)
		}
	}
	for k, n := range c.GenFeat {
		if n > 0 && (strings.HasPrefix(k, "cv_") || strings.HasPrefix(k, "hx_")) {
			o.Class("gen_" + k)
		}
	}
	for k, n := range f {
		if n > 0 && (strings.Contains(k, "_raises_after_a_round_") || strings.HasSuffix(k, "_raises_before_the_first_round")) {
			o.Class("run_" + k)
		}
	}
	for _, k := range []string{"catch_variable_name_already_holds_a_caught_error", "rethrow_of_a_caught_error", "error_caught", "catch_exits_abruptly", "finally_run", "continue_in_cfor", "try_in_deferred_callee", "deferred_probe_of_its_arguments_run"} {
		if f[k] > 0 {
			o.Class("run_" + k)
		}
	}
	if v.Out.Err != nil {
		o.Class("program_ends_with_uncaught_error")
	}
	if !v.OK {
		if kind, class, ok := prog.ErrFlowDiff(v); ok && v.Clause == "trace" {
			switch kind {
			case "catch-variable":
				// the read ran where it had to and showed another error than the one the block's try caught
				return h.Failf("C09|catch-variable-not-bound-to-the-error-its-try-caught|"+class, "program:\n%s\n%s", v.Src, v.Detail)
			case "after-loop-header-error":
				// a round, the statements after the loop or the rest of the function ran after the failing point
				return h.Failf("C09|executed-after-an-error-raised-in-a-loop-header|"+class, "program:\n%s\n%s", v.Src, v.Detail)
			}
		}
		fl := h.Failf("C09|"+v.Clause, "program:\n%s\n%s", v.Src, v.Detail)
		fl.NoShrink = v.Clause == "no-termination"
		return fl
	}
	if v.Cfg.FinallyAfterAbrupt || v.Cfg.TryGroups != 0 {
		o.Class("matched_alternative_parameterisation")
	}
	return nil
}
