// C05 — arithmetic follows the int64/float64/string tower exactly.
// Differential oracle: typed expression trees are evaluated by anko and by a
// reference evaluator written with Go's native operators.
package c05

import (
	"context"
	"fmt"
	"math"
	"math/big"
	"strconv"
	"strings"
	"testing"
	"time"

	"github.com/mattn/anko/env"
	"pgregory.net/rapid"

	"verif/internal/ank"
	"verif/internal/h"
	"verif/internal/vals"
)

// Node is a typed expression tree. Leaves: Op == "leaf".
type Node struct {
	Op   string `json:"op"`
	K    string `json:"k,omitempty"`    // leaf kind: i f s
	I    int64  `json:"i,omitempty"`    // int leaf
	FB   uint64 `json:"fb,omitempty"`   // float leaf (bits)
	S    string `json:"s,omitempty"`    // string leaf
	Prov string `json:"prov,omitempty"` // lit | var | id | elem | velem | mapv | tern | goint | numstr | coal | hvar
	F    int    `json:"f,omitempty"`    // prov coal: which failing expression stands left of the ??
	L    *Node  `json:"l,omitempty"`
	R    *Node  `json:"r,omitempty"`
}

type Case struct {
	Root *Node `json:"root"`
	// Flat: a left operand that is itself an operator of the same precedence level is printed
	// without its parentheses (`1 + 2 + "a"`): binary operators are left-associative, so the tree
	// is the same and the operators must see the same operand values
	Flat bool `json:"flat,omitempty"`
}

type val struct {
	k string // i f s b
	i int64
	f float64
	s string
	b bool
}

func (v val) String() string {
	switch v.k {
	case "i":
		return fmt.Sprintf("int64(%d)", v.i)
	case "f":
		return fmt.Sprintf("float64(%v|%x)", v.f, math.Float64bits(v.f))
	case "s":
		return fmt.Sprintf("string(%q)", v.s)
	default:
		return fmt.Sprintf("bool(%v)", v.b)
	}
}

var intOps = []string{"+", "-", "*", "%", "&", "|", "<<", ">>", "/"}
var floatOps = []string{"+", "-", "*", "/"}
var cmpOps = []string{"<", "<=", ">", ">=", "==", "!="}

// where a leaf value comes from: literal, variable, Go call returning interface{}, element of a
// list literal / of a list held in a variable, map entry, ternary
// goint: an integer handed over by a Go function as a plain Go int (what strconv.Atoi, len-like
// helpers and struct fields give): the same number, so every operator must treat it like the int64
// coal: the right side of a `??` whose left side fails or is nil: `((2 + nosuch) ?? 10)` is 10 (the
// left side's failure is over when the ?? has given its right side; what encloses it works on 10)
var provs = []string{"lit", "lit", "lit", "var", "var", "id", "id", "elem", "velem", "mapv", "tern", "goint", "coal"}

// coalLeft are expressions that fail (or are nil): in the left operand, in the right operand, in
// the operator itself, with no operator at all.
var coalLeft = []string{
	"nosuchname",
	"(2 + nosuchname)",
	"(nosuchname * 3)",
	"(50 % 0)",
	"(7 - [1][3])",
	"nil",
	"(\"ab\" * (-1))",
	"(1 < nosuchname)",
	"(4 / nosuchfunc())",
	"(\"s\" + nosuchname)",
	"(6 & (1 % 0))",
	"(-nosuchname)",
}

func genLeaf(t *rapid.T, k string) *Node {
	n := &Node{Op: "leaf", K: k, Prov: rapid.SampledFrom(provs).Draw(t, "prov")}
	if n.Prov == "coal" {
		n.F = rapid.IntRange(0, len(coalLeft)-1).Draw(t, "coalleft")
	}
	switch k {
	case "i":
		n.I = vals.Int().Draw(t, "i")
	case "f":
		n.FB = math.Float64bits(vals.Float().Draw(t, "f"))
	case "s":
		n.S = vals.Str().Draw(t, "s")
	}
	return n
}

// genNum generates a numeric tree of static kind k ("i" or "f").
func genNum(t *rapid.T, k string, depth int) *Node {
	if depth <= 0 || rapid.IntRange(0, 3).Draw(t, "leaf?") == 0 {
		return genLeaf(t, k)
	}
	if k == "i" {
		switch rapid.IntRange(0, 9).Draw(t, "ishape") {
		case 0:
			return &Node{Op: "neg", L: genNum(t, "i", depth-1)}
		case 1:
			return &Node{Op: "inv", L: genNum(t, "i", depth-1)}
		default:
			op := rapid.SampledFrom(intOps[:8]).Draw(t, "iop")
			return &Node{Op: op, L: genNum(t, "i", depth-1), R: genNum(t, "i", depth-1)}
		}
	}
	// float result
	switch rapid.IntRange(0, 9).Draw(t, "fshape") {
	case 0:
		return &Node{Op: "neg", L: genNum(t, "f", depth-1)}
	case 1, 2:
		// division of any numeric kinds is float
		lk := rapid.SampledFrom([]string{"i", "f"}).Draw(t, "lk")
		rk := rapid.SampledFrom([]string{"i", "f"}).Draw(t, "rk")
		return &Node{Op: "/", L: genNum(t, lk, depth-1), R: genNum(t, rk, depth-1)}
	default:
		op := rapid.SampledFrom(floatOps[:3]).Draw(t, "fop")
		// at least one side float
		switch rapid.IntRange(0, 2).Draw(t, "mix") {
		case 0:
			return &Node{Op: op, L: genNum(t, "f", depth-1), R: numStr(t, op, genNum(t, "i", depth-1))}
		case 1:
			return &Node{Op: op, L: numStr(t, op, genNum(t, "i", depth-1)), R: genNum(t, "f", depth-1)}
		default:
			return &Node{Op: op, L: genNum(t, "f", depth-1), R: genNum(t, "f", depth-1)}
		}
	}
}

// numStr: under `-` with a float on the other side, an integer leaf may be spelled as the decimal
// numeral string of the same number: one operand is a float, so the subtraction is carried out in
// float64 on the number the string denotes.
func numStr(t *rapid.T, op string, n *Node) *Node {
	if op == "-" && n.Op == "leaf" && n.K == "i" && rapid.IntRange(0, 5).Draw(t, "numstr") == 0 {
		n.Prov = "numstr"
	}
	return n
}

func genStr(t *rapid.T, depth int) *Node {
	if depth <= 0 || rapid.IntRange(0, 2).Draw(t, "sleaf?") == 0 {
		return genLeaf(t, "s")
	}
	switch rapid.IntRange(0, 3).Draw(t, "sshape") {
	case 0:
		return &Node{Op: "+", L: genStr(t, depth-1), R: genStr(t, depth-1)}
	case 1:
		return &Node{Op: "+", L: genStr(t, depth-1), R: genNum(t, rapid.SampledFrom([]string{"i", "f"}).Draw(t, "nk"), depth-1)}
	case 2:
		return &Node{Op: "+", L: genNum(t, rapid.SampledFrom([]string{"i", "f"}).Draw(t, "nk"), depth-1), R: genStr(t, depth-1)}
	default:
		// string * n with a small (possibly negative) count leaf
		cnt := &Node{Op: "leaf", K: "i", I: rapid.Int64Range(-2, 6).Draw(t, "cnt"), Prov: rapid.SampledFrom([]string{"lit", "var", "id", "goint"}).Draw(t, "prov")}
		return &Node{Op: "*", L: genStr(t, depth-1), R: cnt}
	}
}

func genCase(t *rapid.T) Case {
	c := genCase0(t)
	c.Flat = rapid.IntRange(0, 2).Draw(t, "flat") == 0
	return c
}

func genCase0(t *rapid.T) Case {
	c := genCase1(t)
	if c.Root.Op == "leaf" && rapid.IntRange(0, 3).Draw(t, "keepleaf") > 0 {
		// bare literals are only a quarter as frequent as the generator would make them
		k := c.Root.K
		if k == "s" {
			return Case{Root: &Node{Op: "+", L: c.Root, R: genLeaf(t, rapid.SampledFrom([]string{"i", "f", "s"}).Draw(t, "rk"))}}
		}
		return Case{Root: &Node{Op: rapid.SampledFrom([]string{"+", "-", "*"}).Draw(t, "wrapop"), L: c.Root, R: genLeaf(t, k)}}
	}
	return c
}

func genCase1(t *rapid.T) Case {
	depth := rapid.IntRange(1, 4).Draw(t, "depth")
	switch rapid.IntRange(0, 9).Draw(t, "root") {
	case 0, 1, 2:
		return Case{Root: genNum(t, "i", depth)}
	case 3, 4:
		return Case{Root: genNum(t, "f", depth)}
	case 5, 6:
		return Case{Root: genStr(t, depth)}
	default:
		op := rapid.SampledFrom(cmpOps).Draw(t, "cmp")
		if rapid.IntRange(0, 3).Draw(t, "nearpair") == 0 {
			// two integers that are neighbours: beyond 2^53 they are distinct int64 values that
			// collapse to one float64
			l := genLeaf(t, "i")
			if rapid.Bool().Draw(t, "huge") {
				l.I = rapid.SampledFrom([]int64{1 << 53, 1<<53 + 1, -(1 << 53), 1 << 54, 1<<60 + 1, 1 << 62, math.MaxInt64 - 1, math.MaxInt64, math.MinInt64, math.MinInt64 + 1, 1<<53 - 1}).Draw(t, "hugev")
			}
			r := genLeaf(t, "i")
			r.I = l.I + rapid.Int64Range(-2, 2).Draw(t, "delta") // wraps at the ends: still an int64
			if rapid.Bool().Draw(t, "swap") {
				l, r = r, l
			}
			return Case{Root: &Node{Op: op, L: l, R: r}}
		}
		lk := rapid.SampledFrom([]string{"i", "f"}).Draw(t, "lk")
		rk := rapid.SampledFrom([]string{"i", "f"}).Draw(t, "rk")
		if op == "==" || op == "!=" {
			rk = lk // same primitive type only; mixed equality is C06
		}
		return Case{Root: &Node{Op: op, L: genNum(t, lk, depth-1), R: genNum(t, rk, depth-1)}}
	}
}

// ---------- printing ----------

type printer struct {
	flat bool
	vars []string // prelude assignments
	b    strings.Builder
	// hvars: leaves of provenance "hvar", in the order of their names h0, h1, ...: variables the
	// host defines before every run (sub-check parallel)
	hvars []*Node
}

func (p *printer) leafLit(n *Node) string {
	switch n.K {
	case "i":
		if n.I < 0 {
			return "(" + vals.IntLit(n.I) + ")"
		}
		return vals.IntLit(n.I)
	case "f":
		f := math.Float64frombits(n.FB)
		s := vals.FloatLit(f)
		if strings.HasPrefix(s, "-") {
			return "(" + s + ")"
		}
		return s
	default:
		return vals.StrLit(n.S)
	}
}

func (p *printer) expr(n *Node) string {
	switch n.Op {
	case "leaf":
		lit := p.leafLit(n)
		switch n.Prov {
		case "var":
			name := fmt.Sprintf("v%d", len(p.vars))
			p.vars = append(p.vars, name+" = "+lit)
			return name
		case "id":
			return "id(" + lit + ")"
		case "elem":
			return "[" + lit + "][0]"
		case "velem":
			name := fmt.Sprintf("v%d", len(p.vars))
			p.vars = append(p.vars, name+" = [0, "+lit+"]")
			return name + "[1]"
		case "mapv":
			return "{\"k\": " + lit + "}.k"
		case "tern":
			return "(true ? " + lit + " : 0)"
		case "numstr":
			if n.K == "i" {
				return strconv.Quote(strconv.FormatInt(n.I, 10))
			}
			return lit
		case "goint":
			if n.K == "i" {
				return "gi(" + lit + ")"
			}
			return "id(" + lit + ")"
		case "coal":
			f := n.F
			if f < 0 || f >= len(coalLeft) {
				f = 0
			}
			return "(" + coalLeft[f] + " ?? " + lit + ")"
		case "hvar":
			name := fmt.Sprintf("h%d", len(p.hvars))
			p.hvars = append(p.hvars, n)
			return name
		}
		return lit
	case "neg", "inv":
		op := map[string]string{"neg": "-", "inv": "^"}[n.Op]
		inner := p.expr(n.L)
		if p.flat && n.L.Op == "leaf" && !strings.HasPrefix(inner, "(") && !strings.HasPrefix(inner, "-") {
			// a unary operator binds tighter than every binary one: `^a & b` is `(^a) & b`
			return op + inner
		}
		return "(" + op + "(" + inner + "))"
	default:
		l := p.expr(n.L)
		if p.flat && level(n.Op) != 0 && level(n.Op) == level(n.L.Op) {
			l = strings.TrimSuffix(strings.TrimPrefix(l, "("), ")")
		}
		r := p.expr(n.R)
		return "(" + l + " " + n.Op + " " + r + ")"
	}
}

// level is the precedence level of the arithmetic operators (0: not one of them).
func level(op string) int {
	switch op {
	case "+", "-", "|":
		return 1
	case "*", "/", "%", "<<", ">>", "&":
		return 2
	}
	return 0
}

func source(c Case) string {
	p := &printer{flat: c.Flat}
	if c.Root != nil && c.Root.Op == "leaf" && c.Root.Prov == "goint" {
		// a bare leaf as the whole program: the Go int would come back as it is, no operator is involved
		leaf := *c.Root
		leaf.Prov = "id"
		c.Root = &leaf
	}
	e := p.expr(c.Root)
	return strings.Join(append(p.vars, e), "\n")
}

// ---------- reference evaluator (native Go operators) ----------

type stats struct {
	mixed, wrapped, outside, nearCache, cross53 bool
	tooLong                                     bool
	rep                                         repStats // sub-check repeat: what the `string * n` nodes were given
}

var two63 = new(big.Int).Lsh(big.NewInt(1), 63)

func fitsInt64(b *big.Int) bool { return b.IsInt64() }

func refEval(n *Node, st *stats) (val, bool) { // value, error
	switch n.Op {
	case "leaf":
		switch n.K {
		case "i":
			if n.I < -1 || n.I > 4095 {
				st.outside = true
			}
			return val{k: "i", i: n.I}, false
		case "f":
			st.outside = true
			return val{k: "f", f: math.Float64frombits(n.FB)}, false
		default:
			return val{k: "s", s: n.S}, false
		}
	case "neg":
		v, e := refEval(n.L, st)
		if e {
			return v, true
		}
		if v.k == "i" {
			if v.i == math.MinInt64 {
				st.wrapped = true
			}
			return note(val{k: "i", i: -v.i}, st), false
		}
		return val{k: "f", f: -v.f}, false
	case "inv":
		v, e := refEval(n.L, st)
		if e {
			return v, true
		}
		return note(val{k: "i", i: ^v.i}, st), false
	}
	l, e := refEval(n.L, st)
	if e {
		return l, true
	}
	r, e := refEval(n.R, st)
	if e {
		return r, true
	}
	// string forms
	if l.k == "s" || r.k == "s" {
		switch n.Op {
		case "+":
			s := sprint(l) + sprint(r)
			if len(s) > 20000 {
				st.tooLong = true
			}
			return val{k: "s", s: s}, false
		case "*":
			if r.i < 0 {
				st.noteRepeat(l.s, r.i)
				return val{}, true
			}
			st.noteRepeat(l.s, r.i)
			// resource guard; written as a division: the product of a length and a count near 2^63 wraps
			if len(l.s) > 0 && r.i > int64(20000/len(l.s)) {
				st.tooLong = true
				return val{k: "s"}, false
			}
			return val{k: "s", s: strings.Repeat(l.s, int(r.i))}, false
		}
		panic("bad string op " + n.Op)
	}
	if l.k != r.k {
		st.mixed = true
	}
	switch n.Op {
	case "<", "<=", ">", ">=", "==", "!=":
		var res bool
		if l.k == "i" && r.k == "i" {
			switch n.Op {
			case "<":
				res = l.i < r.i
			case "<=":
				res = l.i <= r.i
			case ">":
				res = l.i > r.i
			case ">=":
				res = l.i >= r.i
			case "==":
				res = l.i == r.i
			case "!=":
				res = l.i != r.i
			}
			if abs64(l.i) > 1<<53 || abs64(r.i) > 1<<53 {
				st.cross53 = true
			}
		} else {
			a, b := toF(l), toF(r)
			switch n.Op {
			case "<":
				res = a < b
			case "<=":
				res = a <= b
			case ">":
				res = a > b
			case ">=":
				res = a >= b
			case "==":
				res = a == b
			case "!=":
				res = a != b
			}
		}
		return val{k: "b", b: res}, false
	case "/":
		return val{k: "f", f: toF(l) / toF(r)}, false
	}
	if l.k == "f" || r.k == "f" {
		a, b := toF(l), toF(r)
		switch n.Op {
		case "+":
			return val{k: "f", f: a + b}, false
		case "-":
			return val{k: "f", f: a - b}, false
		case "*":
			return val{k: "f", f: a * b}, false
		}
		panic("bad float op " + n.Op)
	}
	a, b := l.i, r.i
	var res int64
	var exact *big.Int
	switch n.Op {
	case "+":
		res = a + b
		exact = new(big.Int).Add(big.NewInt(a), big.NewInt(b))
	case "-":
		res = a - b
		exact = new(big.Int).Sub(big.NewInt(a), big.NewInt(b))
	case "*":
		res = a * b
		exact = new(big.Int).Mul(big.NewInt(a), big.NewInt(b))
	case "%":
		if b == 0 {
			return val{}, true
		}
		res = a % b
	case "&":
		res = a & b
	case "|":
		res = a | b
	case "<<":
		res = a << uint64(b)
		if b >= 0 && b < 64 {
			exact = new(big.Int).Lsh(big.NewInt(a), uint(b))
		} else {
			st.wrapped = true
		}
	case ">>":
		res = a >> uint64(b)
		if b < 0 || b >= 64 {
			st.wrapped = true
		}
	default:
		panic("bad int op " + n.Op)
	}
	if exact != nil && !fitsInt64(exact) {
		st.wrapped = true
	}
	return note(val{k: "i", i: res}, st), false
}

func note(v val, st *stats) val {
	if (v.i >= -3 && v.i <= 1) || (v.i >= 4093 && v.i <= 4097) {
		st.nearCache = true
	}
	if abs64(v.i) >= 1<<53 {
		st.cross53 = true
	}
	return v
}

func abs64(i int64) uint64 {
	if i < 0 {
		return uint64(-i)
	}
	return uint64(i)
}

func toF(v val) float64 {
	if v.k == "i" {
		return float64(v.i)
	}
	return v.f
}

func sprint(v val) string {
	switch v.k {
	case "i":
		return fmt.Sprint(v.i)
	case "f":
		return fmt.Sprint(v.f)
	}
	return v.s
}

// ---------- oracle ----------

func newEnv() *env.Env {
	e := env.NewEnv()
	e.Define("id", func(x interface{}) interface{} { return x })
	e.Define("gi", func(x int64) int { return int(x) }) // int is 64 bits wide on every platform the checks run on
	return e
}

func oracle(c Case, o *h.Obs) *h.Fail {
	src := source(c)
	o.Key = src
	st := &stats{}
	want, wantErr := refEval(c.Root, st)
	if st.tooLong {
		o.Excluded = "string_result_too_long"
		return nil
	}
	o.NonTrivial = st.outside || st.mixed || st.wrapped
	if st.mixed {
		o.Class("mixed_kind_node")
	}
	if st.wrapped {
		o.Class("wrapped_or_oversized_shift")
	}
	if st.nearCache {
		o.Class("result_within_2_of_cache_bound")
	}
	if st.cross53 {
		o.Class("beyond_2^53")
	}
	o.Class("root_" + c.Root.Op)
	if wantErr {
		o.Class("reference_error")
	}
	if any, right := hasCoal(c.Root, false); any {
		o.Class("operand_from_recovered_failure")
		if right {
			o.Class("operand_from_recovered_failure_in_a_right_operand")
		}
	}

	got, err := ank.Exec(newEnv(), src)
	if hp, ok := ank.IsHostPanic(err); ok {
		return h.Failf("C05|host-panic|"+ank.NormPanic(hp.Value), "source:\n%s\nescaped panic: %v", src, hp.Value)
	}
	if wantErr {
		if err == nil {
			return h.Failf("C05|missing-error|"+c.Root.Op, "source:\n%s\nreference: error expected\nanko: %s", src, ank.Describe(got))
		}
		return nil
	}
	if err != nil {
		return h.Failf("C05|unexpected-error|"+c.Root.Op, "source:\n%s\nreference: %v\nanko error: %v", src, want, err)
	}
	ok := false
	switch want.k {
	case "i":
		g, is := got.(int64)
		ok = is && g == want.i
	case "f":
		g, is := got.(float64)
		ok = is && (math.Float64bits(g) == math.Float64bits(want.f) || (math.IsNaN(g) && math.IsNaN(want.f)))
	case "s":
		g, is := got.(string)
		ok = is && g == want.s
	case "b":
		g, is := got.(bool)
		ok = is && g == want.b
	}
	if !ok {
		return h.Failf("C05|wrong-result|"+c.Root.Op+"|"+want.k, "source:\n%s\nreference (native Go): %v\nanko: %s", src, want, ank.Describe(got))
	}
	return nil
}

// hasCoal: the tree has a leaf of provenance coal; one of them inside the right operand of an operator.
func hasCoal(n *Node, underRight bool) (any, right bool) {
	if n == nil {
		return false, false
	}
	if n.Op == "leaf" {
		return n.Prov == "coal", n.Prov == "coal" && underRight
	}
	a1, r1 := hasCoal(n.L, underRight)
	a2, r2 := hasCoal(n.R, true)
	return a1 || a2, r1 || r2
}

// ---------- sub-check "cached": small-value fast paths keep returning the same values ----------

// A history of statements that compute small integers (the cached -1..4095 band) and then
// write through every handle a script can get on such a value (pointer, ++, op=, element,
// map entry, parameter); afterwards the arithmetic tree must still evaluate to what Go
// computes. A fast path that hands out shared or mutable boxes shows here, and only here:
// no single expression evaluated in isolation does.
type HistCase struct {
	Pre  []string `json:"pre"`
	Root *Node    `json:"root"`
}

var preIdioms = []string{
	"hv = %s\nhp = &hv\n*hp = %d",
	"hv = %s\nhv++",
	"hv = %s\nhv--",
	"hv = %s\nhv += %d",
	"hv = %s\nhv *= %d",
	"hl = [%s, %s]\nhl[0] = %d",
	"hl = []int64{%s}\nhl[0] = %d\nhq = &hl\n(*hq)[0] = %d",
	"hm = {\"k\": %s}\nhm.k = %d\nhm[\"k\"] += %d",
	"hf = func(v) { v = %d; v++; return v }\nhf(%s)",
	"hf = func(v) { hp = &v; *hp = %d; return v }\nhf(%s)",
	"hs = make(struct{A int64})\nhs.A = %s\nhq = &hs\nhq.A = %d",
	"hv = %s\nfor hi = 0; hi < 3; hi++ { hv = hv + hi }\nhp = &hv\n*hp = %d",
	"hp = new(int64)\n*hp = %s\n*hp += %d",
	// the address of the operator expression itself, no variable in between
	"hp = &%s\n*hp = %d",
	"hp = &%s\n*hp += %d\nhq = &(*hp)\n*hq = %d",
}

func smallExpr(t *rapid.T) string {
	a := rapid.IntRange(-1, 40).Draw(t, "sa")
	b := rapid.IntRange(0, 40).Draw(t, "sb")
	switch rapid.IntRange(0, 5).Draw(t, "sform") {
	case 0:
		return fmt.Sprintf("(%d + %d)", a, b)
	case 1:
		return fmt.Sprintf("(%d * %d)", rapid.IntRange(0, 60).Draw(t, "m1"), rapid.IntRange(0, 60).Draw(t, "m2"))
	case 2:
		return fmt.Sprintf("(%d %% %d)", b+7, rapid.IntRange(1, 9).Draw(t, "mod"))
	case 3:
		return fmt.Sprintf("(-(%d - %d))", a, b)
	case 4:
		return fmt.Sprintf("len([%d, %d, %d])", a, b, a)
	default:
		return fmt.Sprintf("(%d - %d)", a+b, b)
	}
}

func genHist(t *rapid.T) HistCase {
	var c HistCase
	n := rapid.IntRange(1, 3).Draw(t, "npre")
	for i := 0; i < n; i++ {
		idiom := rapid.SampledFrom(preIdioms).Draw(t, "idiom")
		var args []interface{}
		for j := 0; j+1 < len(idiom); j++ {
			if idiom[j] == '%' {
				switch idiom[j+1] {
				case 's':
					args = append(args, smallExpr(t))
				case 'd':
					args = append(args, rapid.IntRange(-1, 4097).Draw(t, "w"))
				}
			}
		}
		c.Pre = append(c.Pre, fmt.Sprintf(idiom, args...))
	}
	// the tree only uses small integer leaves so that its results live in the cached band
	c.Root = genSmallTree(t, rapid.IntRange(1, 3).Draw(t, "depth"))
	return c
}

func genSmallTree(t *rapid.T, depth int) *Node {
	if depth <= 0 {
		return &Node{Op: "leaf", K: "i", I: int64(rapid.IntRange(-2, 70).Draw(t, "leaf")), Prov: rapid.SampledFrom([]string{"lit", "var", "id", "goint"}).Draw(t, "prov")}
	}
	switch rapid.IntRange(0, 7).Draw(t, "shape") {
	case 0:
		return &Node{Op: "neg", L: genSmallTree(t, depth-1)}
	case 1:
		return &Node{Op: "inv", L: genSmallTree(t, depth-1)}
	default:
		op := rapid.SampledFrom([]string{"+", "-", "*", "%", "&", "|", "<<", ">>"}).Draw(t, "op")
		return &Node{Op: op, L: genSmallTree(t, depth-1), R: genSmallTree(t, depth-1)}
	}
}

// canary evaluates a few small sums in a fresh environment: once a shared box of the
// small-value fast path has been overwritten, these change for the rest of the process.
func canary() string {
	got, err := ank.Exec(newEnv(), "[0 + 0, 0 + 1, 1 + 1, 1 + 2, 2 + 2, 2 * 3, 0 - 1, 64 * 64 - 1]")
	if err != nil {
		return "error: " + err.Error()
	}
	return ank.Describe(got)
}

const canaryWant = "[]interface {}[int64(0), int64(1), int64(2), int64(3), int64(4), int64(6), int64(-1), int64(4095)]"

var lastHist string

func oracleHist(c HistCase, o *h.Obs) *h.Fail {
	if cv := canary(); cv != canaryWant {
		return h.Failf("C05|cached|small-integer-results-changed-by-an-earlier-run", "small integer arithmetic in a FRESH environment no longer gives Go's results: a previous script run in this process changed them (shared mutable boxes behind the small-value fast path)\nwant %s\ngot  %s\nthe previous history run in this process was:\n%s", canaryWant, cv, lastHist)
	}
	p := &printer{}
	expr := p.expr(c.Root)
	src := strings.Join(c.Pre, "\n") + "\n" + strings.Join(append(p.vars, expr), "\n")
	o.Key = src
	st := &stats{}
	want, wantErr := refEval(c.Root, st)
	o.NonTrivial = true
	if st.nearCache {
		o.Class("hist_result_near_cache_bound")
	}
	lastHist = src
	ctx, cancel := context.WithTimeout(context.Background(), 5*time.Second)
	got, err := ank.ExecCtx(ctx, newEnv(), src)
	timedOut := ctx.Err() != nil
	cancel()
	if timedOut {
		if cv := canary(); cv != canaryWant {
			return h.Failf("C05|cached|small-integer-results-changed-by-an-earlier-run", "a bounded history did not finish within 5 s and small integer arithmetic in a fresh environment is now wrong\nwant %s\ngot  %s\nhistory:\n%s", canaryWant, cv, src)
		}
		o.Excluded = "history did not finish within 5 s (not judged)"
		return nil
	}
	if hp, ok := ank.IsHostPanic(err); ok {
		return h.Failf("C05|host-panic|"+ank.NormPanic(hp.Value), "source:\n%s\nescaped panic: %v", src, hp.Value)
	}
	if wantErr {
		if err == nil {
			return h.Failf("C05|cached|missing-error", "source:\n%s\nreference: error expected\nanko: %s", src, ank.Describe(got))
		}
		return nil
	}
	if err != nil {
		// the history itself may fail (e.g. pointer store of an unconvertible value is not generated, but %
		// by zero in the tree is handled above); any other error is unexpected
		return h.Failf("C05|cached|unexpected-error", "source:\n%s\nreference: %v\nanko error: %v", src, want, err)
	}
	g, is := got.(int64)
	if !is || g != want.i {
		return h.Failf("C05|cached|wrong-result-after-history", "after a history of writes through pointers / ++ / op= / elements / parameters on small computed integers the expression no longer evaluates to Go's result\nsource:\n%s\nreference (native Go): %v\nanko: %s", src, want, ank.Describe(got))
	}
	return nil
}

// ---------- sub-check "site": one operator site, many operand pairs ----------

// SiteCase: a function `func(x, y) { return x OP y }` (or a unary one) is called for a row of
// operand pairs of different kinds. The result of an operator depends on its operand values
// only - never on what the same source location computed before.
type SiteCase struct {
	Op    string  `json:"op"`
	Pairs []*Node `json:"pairs"` // each a node {Op, L leaf, R leaf} (R nil for unary operators)
}

func genSite(t *rapid.T) SiteCase {
	op := rapid.SampledFrom([]string{"+", "+", "+", "-", "*", "/", "%", "&", "|", "<<", ">>", "<", "<=", ">", ">=", "==", "!=", "neg", "inv"}).Draw(t, "siteop")
	c := SiteCase{Op: op}
	kinds := func() []string {
		switch op {
		case "+":
			return []string{"i", "f", "s"}
		case "-", "*", "/", "<", "<=", ">", ">=", "neg":
			return []string{"i", "f"}
		}
		return []string{"i"}
	}()
	n := rapid.IntRange(2, 6).Draw(t, "npairs")
	for i := 0; i < n; i++ {
		lk := rapid.SampledFrom(kinds).Draw(t, "lk")
		rk := rapid.SampledFrom(kinds).Draw(t, "rk")
		if op == "==" || op == "!=" {
			rk = lk
		}
		l := genLeaf(t, lk)
		l.Prov = "lit"
		node := &Node{Op: op, L: l}
		if op != "neg" && op != "inv" {
			r := genLeaf(t, rk)
			r.Prov = "lit"
			if op == "*" && (lk == "s" || rk == "s") {
				r = &Node{Op: "leaf", K: "i", I: rapid.Int64Range(-2, 6).Draw(t, "cnt"), Prov: "lit"}
			}
			node.R = r
		}
		c.Pairs = append(c.Pairs, node)
	}
	return c
}

func oracleSite(c SiteCase, o *h.Obs) *h.Fail {
	if len(c.Pairs) == 0 {
		o.Excluded = "malformed_case"
		return nil
	}
	p := &printer{}
	unary := c.Op == "neg" || c.Op == "inv"
	var sb strings.Builder
	switch c.Op {
	case "neg":
		sb.WriteString("f = func(x) { return -x }\n")
	case "inv":
		sb.WriteString("f = func(x) { return ^x }\n")
	default:
		sb.WriteString("f = func(x, y) { return x " + c.Op + " y }\n")
	}
	sb.WriteString("r = []\n")
	kinds := map[string]bool{}
	for _, n := range c.Pairs {
		if n == nil || n.L == nil || n.Op != c.Op || (!unary && n.R == nil) {
			o.Excluded = "malformed_case"
			return nil
		}
		call := "f(" + p.leafLit(n.L)
		k := n.L.K
		if !unary {
			call += ", " + p.leafLit(n.R)
			k += n.R.K
		}
		kinds[k] = true
		sb.WriteString("try {\n r += [" + call + ")]\n} catch e {\n r += [\"ERR\"]\n}\n")
	}
	sb.WriteString("r")
	src := sb.String()
	o.Key = src
	o.NonTrivial = len(kinds) >= 2
	o.Class("site_" + c.Op)
	got, err := ank.Exec(newEnv(), src)
	if hp, ok := ank.IsHostPanic(err); ok {
		return h.Failf("C05|host-panic|"+ank.NormPanic(hp.Value), "source:\n%s\nescaped panic: %v", src, hp.Value)
	}
	list, isList := got.([]interface{})
	if err != nil || !isList || len(list) != len(c.Pairs) {
		return h.Failf("C05|site|unexpected-error", "source:\n%s\nanko: %v %s", src, err, ank.Describe(got))
	}
	for i, n := range c.Pairs {
		st := &stats{}
		want, wantErr := refEval(n, st)
		if st.tooLong {
			continue
		}
		g := list[i]
		if wantErr {
			if s, is := g.(string); !is || s != "ERR" {
				return h.Failf("C05|site|missing-error|"+c.Op, "call %d of\n%s\nreference: error expected\nanko: %s", i+1, src, ank.Describe(g))
			}
			continue
		}
		ok := false
		switch want.k {
		case "i":
			v, is := g.(int64)
			ok = is && v == want.i
		case "f":
			v, is := g.(float64)
			ok = is && (math.Float64bits(v) == math.Float64bits(want.f) || (math.IsNaN(v) && math.IsNaN(want.f)))
		case "s":
			v, is := g.(string)
			ok = is && v == want.s
		case "b":
			v, is := g.(bool)
			ok = is && v == want.b
		}
		if !ok {
			return h.Failf("C05|site|wrong-result|"+c.Op+"|"+want.k, "one operator site called for a row of operand pairs: call %d gives another result than the operands alone dictate\nsource:\n%s\nreference (native Go) for call %d: %v\nanko: %s\nall results: %s", i+1, src, i+1, want, ank.Describe(g), ank.Describe(got))
		}
	}
	return nil
}

func TestC05(t *testing.T) {
	c := h.New(t, "C05")
	defer c.Finish()
	// parallel runs first: a process that has just started gets its threads onto several cores more readily than one that has computed for 15 s (it matters on a loaded machine)
	c.Rule("parallel: 2-8 host goroutines, each with its own environment and its own parsed program (a list of 2-5 trees over literals, script variables and host variables; in 3 of 4 cases one program for all workers with the host variables of worker w moved by w * a second stride, else a program of its own for each; host variables are redefined before every run: I + (round mod period) * stride; strides mostly +-2^k), run 1000-3000 times at the same time; every run must give what Go computes for that worker's operands (each program is first run alone for every operand row); non-trivial = >= 2 workers and an operand outside [-1,4095] or a wrap-around; distinct by the programs' text")
	h.Run(c, "parallel", c.N(160, 1600), genPar, oracleParallel)
	c.Rule("trees of depth<=4 over + - * / % & | << >>, unary - ^, comparisons; leaves from the int64/float64/string edge pools as literal, variable, id(x) result, container element, ternary, Go int or the right side of a ?? whose left side fails (12 failing forms); operand kinds restricted to those the statement defines; non-trivial = an operand outside [-1,4095] or a mixed int/float node or a wrap-around/oversized shift in the reference; distinct by source text")
	h.Run(c, "arith", c.N(60000, 500000), genCase, oracle)
	c.Rule("cached: 1-3 statements that compute integers in the cached band -1..4095 and then write through a pointer / ++ / op= / element / map entry / struct field / parameter, followed by an integer tree over small leaves: the tree must still evaluate to Go's result (no shared mutable boxes behind the small-value fast path); every case counts as non-trivial; distinct by source text")
	h.Run(c, "cached", c.N(15000, 150000), genHist, oracleHist)
	c.Rule("site: a function applying ONE operator to its parameters is called for 2-6 operand pairs of different kinds (int64/float64/string edge pools); every call must give what Go computes for that pair alone (errors included), whatever the same source location computed before; non-trivial = the pairs are of >= 2 kind combinations")
	h.Run(c, "site", c.N(15000, 150000), genSite, oracleSite)
	c.Rule("again: one parsed expression tree (half of the leaves literals; a third of the trees hold an operator the statement makes an error: % by zero, a string repeated a negative number of times) evaluated 2-4 times: body of a function called again, loop body, the parsed statements run again by the host (fresh / same environment); every evaluation must give what Go computes for the operands, errors included; non-trivial = the tree has an operator; distinct by form and source text")
	h.Run(c, "again", c.N(4000, 40000), genAgain, oracleAgain)
	c.Rule("repeat: `string * n` with the count from the whole int64 range (2^31-1, 2^31, 2^32, 2^53+-1, 2^63-1 and their neighbours, the negatives of these, any int64, counts computed by << + *; every leaf provenance) against an operand whose value is the empty string (literal or computed), a non-empty string with a count of 7..20000/len, zero or a negative count; alone, under + and under another repeat, or as a row of (string, count) pairs through one `s * n` site; a result of more than 20000 bytes is excluded before anything runs (resource guard); must give what strings.Repeat gives, a negative count an error; non-trivial = a count outside -2..6; distinct by source text")
	h.Run(c, "repeat", c.N(8000, 80000), genRepeat, oracleRepeat)
}
