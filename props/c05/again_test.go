package c05

import (
	"context"
	"fmt"
	"math"
	"strings"
	"time"

	"github.com/mattn/anko/parser"
	"github.com/mattn/anko/vm"
	"pgregory.net/rapid"

	"verif/internal/ank"
	"verif/internal/h"
)

// ---------- sub-check "again": one parsed expression, evaluated several times ----------

// AgainCase: an expression tree (literal-heavy leaves, a third of them with an operator that
// must fail) is evaluated N times on ONE parsed tree: in the body of a function called N
// times, in a loop body, or by the host running the parsed statements N times. What an
// operator gives depends on its operand values only, so every evaluation must give what Go
// computes - the error of `%` by zero included - not only the first one.
type AgainCase struct {
	Root *Node  `json:"root"`
	Flat bool   `json:"flat,omitempty"`
	Form string `json:"form"` // func | loop | host | hostenv
	N    int    `json:"n"`
}

var againForms = []string{"func", "func", "loop", "loop", "host", "hostenv"}

// relit redraws the provenance of the leaves: half of them literals (an operator over two
// literals is what an interpreter may compute ahead or keep), the others as drawn.
func relit(t *rapid.T, n *Node) {
	if n == nil {
		return
	}
	if n.Op == "leaf" {
		if n.Prov != "numstr" && rapid.Bool().Draw(t, "aslit") {
			n.Prov = "lit"
		}
		return
	}
	relit(t, n.L)
	relit(t, n.R)
}

// genFailing builds an operator node that the statement makes an error: `%` by an integer zero,
// or a string repeated a negative number of times (as the other sub-checks have it).
func genFailing(t *rapid.T) *Node {
	if rapid.IntRange(0, 3).Draw(t, "failkind") > 0 {
		zero := genLeaf(t, "i")
		zero.I = 0
		return &Node{Op: "%", L: genNum(t, "i", rapid.IntRange(0, 1).Draw(t, "ld")), R: zero}
	}
	cnt := genLeaf(t, "i")
	cnt.I = rapid.Int64Range(-3, -1).Draw(t, "negcnt")
	if cnt.Prov == "elem" || cnt.Prov == "velem" || cnt.Prov == "mapv" || cnt.Prov == "tern" || cnt.Prov == "coal" {
		cnt.Prov = "var" // counts are written as literal, variable, id() or Go int in the other sub-checks
	}
	return &Node{Op: "*", L: genLeaf(t, "s"), R: cnt}
}

func genAgain(t *rapid.T) AgainCase {
	c := AgainCase{
		Form: rapid.SampledFrom(againForms).Draw(t, "form"),
		N:    rapid.IntRange(2, 4).Draw(t, "n"),
		Flat: rapid.IntRange(0, 2).Draw(t, "flat") == 0,
	}
	if rapid.IntRange(0, 2).Draw(t, "plant") == 0 {
		f := genFailing(t)
		switch rapid.IntRange(0, 3).Draw(t, "where") {
		case 0, 1:
			c.Root = f
		default:
			// the failing operator is an operand of another one
			var other *Node
			op := "+"
			if f.Op == "%" {
				op = rapid.SampledFrom([]string{"+", "-", "*", "|", "&"}).Draw(t, "outer")
				other = genLeaf(t, "i")
			} else {
				other = genLeaf(t, "s")
			}
			if rapid.Bool().Draw(t, "side") {
				c.Root = &Node{Op: op, L: f, R: other}
			} else {
				c.Root = &Node{Op: op, L: other, R: f}
			}
		}
	} else {
		c.Root = genCase0(t).Root
	}
	relit(t, c.Root)
	return c
}

// sameVal compares what anko returned with the reference value: dynamic type and value.
func sameVal(want val, got interface{}) bool {
	switch want.k {
	case "i":
		g, is := got.(int64)
		return is && g == want.i
	case "f":
		g, is := got.(float64)
		return is && (math.Float64bits(g) == math.Float64bits(want.f) || (math.IsNaN(g) && math.IsNaN(want.f)))
	case "s":
		g, is := got.(string)
		return is && g == want.s
	case "b":
		g, is := got.(bool)
		return is && g == want.b
	}
	return false
}

func litLit(n *Node) bool {
	if n == nil || n.Op == "leaf" {
		return false
	}
	if n.L != nil && n.R != nil && n.L.Op == "leaf" && n.R.Op == "leaf" && n.L.Prov == "lit" && n.R.Prov == "lit" {
		return true
	}
	return litLit(n.L) || litLit(n.R)
}

// runParsed runs parsed statements, converting an escaping panic into *ank.HostPanic.
func runParsed(run func() (interface{}, error)) (v interface{}, err error) {
	defer func() {
		if r := recover(); r != nil {
			v = nil
			err = &ank.HostPanic{Value: r}
		}
	}()
	return run()
}

func oracleAgain(c AgainCase, o *h.Obs) *h.Fail {
	if c.Root == nil || c.N < 1 || c.N > 16 {
		o.Excluded = "malformed_case"
		return nil
	}
	cc := Case{Root: c.Root, Flat: c.Flat}
	st := &stats{}
	want, wantErr := refEval(c.Root, st)
	if st.tooLong {
		o.Excluded = "string_result_too_long"
		return nil
	}
	o.NonTrivial = c.Root.Op != "leaf"
	o.Class("again_form_" + c.Form)
	if wantErr {
		o.Class("again_reference_error")
	}
	if litLit(c.Root) {
		o.Class("again_operator_over_two_literals")
		if wantErr {
			o.Class("again_reference_error_with_operator_over_two_literals")
		}
	}

	describe := func(v interface{}, err error) string {
		if err != nil {
			return "error: " + err.Error()
		}
		return ank.Describe(v)
	}
	wantText := want.String()
	if wantErr {
		wantText = "an error"
	}
	// judge one evaluation; k is 1-based
	judge := func(k int, src string, got interface{}, err error) *h.Fail {
		if hp, ok := ank.IsHostPanic(err); ok {
			return h.Failf("C05|host-panic|"+ank.NormPanic(hp.Value), "source:\n%s\nescaped panic: %v", src, hp.Value)
		}
		first := "first"
		if k > 1 {
			first = "later"
		}
		if wantErr {
			if err == nil {
				return h.Failf("C05|again|missing-error|"+first+"|"+c.Root.Op, "one parsed expression evaluated %d times (%s): evaluation %d gives a value where the operands make the operator fail\nsource:\n%s\nreference for every evaluation: an error\nanko, evaluation %d: %s", c.N, c.Form, k, src, k, ank.Describe(got))
			}
			return nil
		}
		if err != nil || !sameVal(want, got) {
			return h.Failf("C05|again|wrong-result|"+first+"|"+c.Root.Op+"|"+want.k, "one parsed expression evaluated %d times (%s): evaluation %d does not give what the operands dictate\nsource:\n%s\nreference (native Go) for every evaluation: %s\nanko, evaluation %d: %s", c.N, c.Form, k, src, wantText, k, describe(got, err))
		}
		return nil
	}

	switch c.Form {
	case "host", "hostenv":
		src := source(cc)
		o.Key = c.Form + "\n" + src
		stmt, perr := parser.ParseSrc(src)
		if perr != nil {
			return h.Failf("C05|again|unexpected-error|parse", "source:\n%s\nparse error: %v", src, perr)
		}
		e := newEnv()
		for k := 1; k <= c.N; k++ {
			if c.Form == "host" {
				e = newEnv() // a fresh environment for every run of the same parsed tree
			}
			got, err := runParsed(func() (interface{}, error) { return vm.Run(e, nil, stmt) })
			if f := judge(k, fmt.Sprintf("(parsed once, run %d times by the host, %s)\n%s", c.N, map[string]string{"host": "each time in a fresh environment", "hostenv": "in one environment"}[c.Form], src), got, err); f != nil {
				return f
			}
		}
		return nil
	case "func", "loop":
		p := &printer{flat: c.Flat}
		root := c.Root
		if root.Op == "leaf" && root.Prov == "goint" {
			leaf := *root
			leaf.Prov = "id"
			root = &leaf
		}
		expr := p.expr(root)
		var sb strings.Builder
		for _, v := range p.vars {
			sb.WriteString(v + "\n")
		}
		item := expr
		if c.Form == "func" {
			sb.WriteString("af = func() { return " + expr + " }\n")
			item = "af()"
		}
		sb.WriteString("ar = []\n")
		// the loop runs over a list literal: how often it goes round does not hang on the arithmetic under test
		rounds := strings.TrimSuffix(strings.Repeat("\"r\", ", c.N), ", ")
		fmt.Fprintf(&sb, "for ai in [%s] {\n try {\n  ar += [[%s]]\n } catch ae {\n  ar += [\"ERR\"]\n }\n}\nar", rounds, item)
		src := sb.String()
		o.Key = src
		ctx, cancel := context.WithTimeout(context.Background(), 5*time.Second)
		got, err := ank.ExecCtx(ctx, newEnv(), src)
		timedOut := ctx.Err() != nil
		cancel()
		if timedOut {
			o.Excluded = "again: did not finish within 5 s (not judged)"
			return nil
		}
		if hp, ok := ank.IsHostPanic(err); ok {
			return h.Failf("C05|host-panic|"+ank.NormPanic(hp.Value), "source:\n%s\nescaped panic: %v", src, hp.Value)
		}
		list, isList := got.([]interface{})
		if err != nil || !isList || len(list) != c.N {
			return h.Failf("C05|again|unexpected-error|"+c.Form, "source:\n%s\nanko: %v %s", src, err, ank.Describe(got))
		}
		for k, item := range list {
			if s, is := item.(string); is && s == "ERR" {
				if f := judge(k+1, src, nil, fmt.Errorf("(caught by the script)")); f != nil {
					return f
				}
				continue
			}
			box, is := item.([]interface{})
			if !is || len(box) != 1 {
				return h.Failf("C05|again|unexpected-error|"+c.Form, "source:\n%s\nresult %d is neither a boxed value nor the error marker: %s", src, k+1, ank.Describe(got))
			}
			if f := judge(k+1, src, box[0], nil); f != nil {
				return f
			}
		}
		return nil
	}
	o.Excluded = "malformed_case"
	return nil
}
