package c05

import (
	"fmt"
	"strings"
	"sync"
	"sync/atomic"

	"github.com/mattn/anko/ast"
	"github.com/mattn/anko/env"
	"github.com/mattn/anko/parser"
	"github.com/mattn/anko/vm"
	"pgregory.net/rapid"

	"verif/internal/ank"
	"verif/internal/h"
	"verif/internal/vals"
)

// ---------- sub-check "parallel": independent interpreters computing at the same time ----------

// ParCase: 2-8 host goroutines, each with an environment of its own and a program of its own
// (`[e1, e2, ...]`, a list of 2-5 operator trees), run their parsed programs Rounds times at the
// same time. Some integer leaves are variables the host defines anew before every run
// (value = I + (round mod Period) * Stride, wrapping), so one parsed tree sees a row of operand
// values. The programs share nothing a script can name; what an operator gives depends on its
// operands only, so every run must give what Go computes for that worker's operands,
// whatever the other interpreters compute at that moment.
type ParCase struct {
	Workers []ParWorker `json:"workers"`
	Rounds  int         `json:"rounds"`
	Mode    string      `json:"mode,omitempty"` // one_program | own_programs (for the counters only)
}

type ParWorker struct {
	Trees  []*Node `json:"trees"`
	Stride int64   `json:"stride"`
	Period int     `json:"period"`
}

func hostVars(t *rapid.T, n *Node) {
	if n == nil {
		return
	}
	if n.Op == "leaf" {
		if n.K == "i" && n.Prov != "numstr" && rapid.IntRange(0, 2).Draw(t, "hvar") == 0 {
			n.Prov = "hvar"
		}
		return
	}
	hostVars(t, n.L)
	hostVars(t, n.R)
}

func genStride(t *rapid.T) int64 {
	switch rapid.IntRange(0, 5).Draw(t, "stridekind") {
	case 0:
		return int64(rapid.IntRange(-3, 3).Draw(t, "smallstride"))
	case 1:
		return vals.Int().Draw(t, "poolstride")
	default:
		s := int64(1) << uint(rapid.IntRange(0, 62).Draw(t, "stridesh"))
		if rapid.IntRange(0, 3).Draw(t, "strideneg") == 0 {
			s = -s
		}
		return s
	}
}

func genParTree(t *rapid.T, hv func(*rapid.T, *Node)) *Node {
	var n *Node
	switch rapid.IntRange(0, 9).Draw(t, "treekind") {
	case 0:
		n = genNum(t, "f", rapid.IntRange(1, 2).Draw(t, "depth"))
		hv(t, n)
	case 1:
		n = genStr(t, 1) // no host variables: a repeat count stays in its small range
	default:
		n = genNum(t, "i", rapid.IntRange(1, 3).Draw(t, "depth"))
		hv(t, n)
	}
	plainLeaves(n)
	return n
}

// plainLeaves: the leaves are literals, script variables or host variables here; the other
// provenances (Go calls, containers) are the business of arith, and a run is to be spent in operators.
func plainLeaves(n *Node) {
	if n == nil {
		return
	}
	if n.Op == "leaf" {
		switch n.Prov {
		case "lit", "var", "hvar":
		case "id", "goint", "velem":
			n.Prov = "var"
		default:
			n.Prov = "lit"
		}
		return
	}
	plainLeaves(n.L)
	plainLeaves(n.R)
}

// cloneShift copies a tree; integer host variables are moved by d (wrapping).
func cloneShift(n *Node, d int64) *Node {
	if n == nil {
		return nil
	}
	c := *n
	if c.Op == "leaf" && c.Prov == "hvar" && c.K == "i" {
		c.I += d
	}
	c.L = cloneShift(n.L, d)
	c.R = cloneShift(n.R, d)
	return &c
}

func genPar(t *rapid.T) ParCase {
	c := ParCase{Rounds: rapid.IntRange(1000, 3000).Draw(t, "rounds")}
	nw := rapid.IntRange(2, 8).Draw(t, "workers")
	if rapid.IntRange(0, 3).Draw(t, "oneprogram") > 0 {
		// one program served to every worker, with operands of its own for each: the host variables
		// of worker w are those of worker 0 moved by w * (a second stride)
		c.Mode = "one_program"
		pw := ParWorker{Stride: genStride(t), Period: rapid.IntRange(1, 8).Draw(t, "period")}
		nt := rapid.IntRange(2, 5).Draw(t, "trees")
		for i := 0; i < nt; i++ {
			pw.Trees = append(pw.Trees, genParTree(t, func(t *rapid.T, n *Node) {
				for _, l := range intLeaves(n, nil) {
					if l.Prov != "numstr" && rapid.Bool().Draw(t, "hvar") {
						l.Prov = "hvar"
					}
				}
			}))
		}
		between := genStride(t)
		for w := 0; w < nw; w++ {
			ww := ParWorker{Stride: pw.Stride, Period: pw.Period}
			for _, n := range pw.Trees {
				ww.Trees = append(ww.Trees, cloneShift(n, int64(w)*between))
			}
			c.Workers = append(c.Workers, ww)
		}
		return c
	}
	c.Mode = "own_programs"
	for w := 0; w < nw; w++ {
		pw := ParWorker{Stride: genStride(t), Period: rapid.IntRange(1, 8).Draw(t, "period")}
		nt := rapid.IntRange(2, 5).Draw(t, "trees")
		for i := 0; i < nt; i++ {
			pw.Trees = append(pw.Trees, genParTree(t, hostVars))
		}
		c.Workers = append(c.Workers, pw)
	}
	return c
}

func intLeaves(n *Node, acc []*Node) []*Node {
	if n == nil {
		return acc
	}
	if n.Op == "leaf" {
		if n.K == "i" {
			acc = append(acc, n)
		}
		return acc
	}
	return intLeaves(n.R, intLeaves(n.L, acc))
}

// parProg is one worker's program, prepared by the oracle before anything runs.
type parProg struct {
	src    string
	stmt   ast.Stmt
	names  []string  // host variables h0, h1, ...
	opnds  [][]int64 // per variant: their values
	want   [][]val   // per variant: reference value of every tree
	failed []bool    // per variant: the reference says the program fails
}

func (pp *parProg) operands(v int) string {
	var parts []string
	for j, name := range pp.names {
		parts = append(parts, fmt.Sprintf("%s = %d", name, pp.opnds[v][j]))
	}
	if len(parts) == 0 {
		return "(no host variables)"
	}
	return strings.Join(parts, ", ")
}

func (pp *parProg) wantText(v int) string {
	if pp.failed[v] {
		return "an error"
	}
	var parts []string
	for _, w := range pp.want[v] {
		parts = append(parts, w.String())
	}
	return "[" + strings.Join(parts, ", ") + "]"
}

// run executes the program once for variant v in e and says what is wrong with the outcome ("" = nothing).
func (pp *parProg) run(e *env.Env, v int) (clause, detail string) {
	for j, name := range pp.names {
		if err := e.Define(name, pp.opnds[v][j]); err != nil {
			panic("harness: Define " + name + ": " + err.Error())
		}
	}
	got, err := runParsed(func() (interface{}, error) { return vm.Run(e, nil, pp.stmt) })
	if hp, ok := ank.IsHostPanic(err); ok {
		return "host-panic", fmt.Sprint(hp.Value)
	}
	if pp.failed[v] {
		if err == nil {
			return "missing-error", ank.Describe(got)
		}
		return "", ""
	}
	if err != nil {
		return "unexpected-error", err.Error()
	}
	list, is := got.([]interface{})
	if !is || len(list) != len(pp.want[v]) {
		return "wrong-result|list", ank.Describe(got)
	}
	for i, w := range pp.want[v] {
		if !sameVal(w, list[i]) {
			return "wrong-result|" + w.k, ank.Describe(got)
		}
	}
	return "", ""
}

func oracleParallel(c ParCase, o *h.Obs) *h.Fail {
	if len(c.Workers) < 1 || len(c.Workers) > 64 || c.Rounds < 1 || c.Rounds > 100000 {
		o.Excluded = "malformed_case"
		return nil
	}
	progs := make([]*parProg, len(c.Workers))
	var key strings.Builder
	anyOutside := false
	for w, pw := range c.Workers {
		if len(pw.Trees) == 0 || pw.Period < 1 || pw.Period > 64 {
			o.Excluded = "malformed_case"
			return nil
		}
		p := &printer{}
		var exprs []string
		for _, n := range pw.Trees {
			if n == nil {
				o.Excluded = "malformed_case"
				return nil
			}
			if n.Op == "leaf" && n.Prov == "goint" {
				// a bare leaf as a whole list element: no operator is involved, the Go int would come back as it is
				leaf := *n
				leaf.Prov = "id"
				n = &leaf
			}
			exprs = append(exprs, p.expr(n))
		}
		pp := &parProg{src: strings.Join(append(p.vars, "["+strings.Join(exprs, ", ")+"]"), "\n")}
		base := make([]int64, len(p.hvars))
		for j, n := range p.hvars {
			pp.names = append(pp.names, fmt.Sprintf("h%d", j))
			base[j] = n.I
		}
		for v := 0; v < pw.Period; v++ {
			op := make([]int64, len(p.hvars))
			for j, n := range p.hvars {
				op[j] = base[j] + int64(v)*pw.Stride // wraps: still an int64
				n.I = op[j]
			}
			var wants []val
			failed := false
			for _, n := range pw.Trees {
				st := &stats{}
				wv, werr := refEval(n, st)
				if st.tooLong {
					for j, n := range p.hvars {
						n.I = base[j]
					}
					o.Excluded = "string_result_too_long"
					return nil
				}
				if st.outside || st.wrapped {
					anyOutside = true
				}
				failed = failed || werr
				wants = append(wants, wv)
			}
			pp.opnds = append(pp.opnds, op)
			pp.want = append(pp.want, wants)
			pp.failed = append(pp.failed, failed)
		}
		for j, n := range p.hvars {
			n.I = base[j]
		}
		stmt, err := parser.ParseSrc(pp.src)
		if err != nil {
			return h.Failf("C05|parallel|unexpected-error|parse", "source:\n%s\nparse error: %v", pp.src, err)
		}
		pp.stmt = stmt
		progs[w] = pp
		fmt.Fprintf(&key, "worker %d (stride %d, period %d):\n%s\n", w, pw.Stride, pw.Period, pp.src)
	}
	o.Key = key.String()
	o.NonTrivial = len(c.Workers) >= 2 && anyOutside
	o.Class("parallel_workers_%d", len(c.Workers))
	if c.Mode != "" {
		o.Class("parallel_" + c.Mode)
	}
	nhv := 0
	for _, pp := range progs {
		nhv += len(pp.names)
	}
	if nhv > 0 {
		o.Class("parallel_with_host_variables")
	}

	// first each program alone, every variant once: a wrong result here has nothing to do with the others
	for w, pp := range progs {
		e := newEnv()
		for v := range pp.opnds {
			if clause, detail := pp.run(e, v); clause != "" {
				return h.Failf("C05|parallel|alone|"+clause, "program of worker %d, run alone, operands %s\nsource:\n%s\nreference (native Go): %s\nanko: %s", w, pp.operands(v), pp.src, pp.wantText(v), detail)
			}
		}
	}

	// then all of them at the same time
	var stop atomic.Bool
	var mu sync.Mutex
	var first *h.Fail
	start := make(chan struct{})
	var wg sync.WaitGroup
	for w, pp := range progs {
		wg.Add(1)
		go func(w int, pp *parProg) {
			defer wg.Done()
			e := newEnv()
			<-start
			for r := 0; r < c.Rounds && !stop.Load(); r++ {
				v := r % len(pp.opnds)
				clause, detail := pp.run(e, v)
				if clause == "" {
					continue
				}
				stop.Store(true)
				mu.Lock()
				if first == nil {
					first = h.Failf("C05|parallel|"+clause, "%d independent interpreters (own environment, own program) running at the same time: a run of worker %d does not give what its operands dictate, although the same program gave it when run alone\noperands %s\nsource of worker %d:\n%s\nreference (native Go): %s\nanko: %s\nall programs:\n%s", len(progs), w, pp.operands(v), w, pp.src, pp.wantText(v), detail, o.Key)
					first.NoShrink = true // depends on the schedule: not reproducible at will
				}
				mu.Unlock()
				return
			}
		}(w, pp)
	}
	close(start)
	wg.Wait()
	if first != nil {
		o.Class("parallel_disagreement")
	}
	return first
}
