package c05

import (
	"context"
	"fmt"
	"math"
	"strings"
	"time"

	"pgregory.net/rapid"

	"verif/internal/ank"
	"verif/internal/h"
	"verif/internal/vals"
)

// ---------- sub-check "repeat": `string * n` over the whole range of counts ----------

// The other sub-checks keep the count of a string repeat in -2..6: a resource guard, because the
// result of `"ab" * 4294967296` cannot be built. The guard is needed for the RESULT, not for the
// count: the empty string repeated any number of times is the empty string (so says
// strings.Repeat, and so says "repeats the string n times" - n times nothing is nothing), a
// string of 3 bytes repeated 4096 times is 12 KB, and a negative count is refused whatever its
// size. "No result depends on operand magnitude" covers the count like every other operand. Here
// the count comes from the int64 edges (2^31-1, 2^31, 2^32, 2^53+-1, 2^63-1, their negatives,
// any int64, computed ones such as `1 << 40`) and the pairing with the string decides what can be
// judged: a result of at most 20000 bytes is judged, everything else is excluded BEFORE anything
// runs (never handed to the interpreter).
type RepCase struct {
	Form  string  `json:"form"` // expr | site
	Root  *Node   `json:"root,omitempty"`
	Flat  bool    `json:"flat,omitempty"`
	Pairs []*Node `json:"pairs,omitempty"` // form site: each {Op "*", L string leaf, R integer leaf}
}

// repStats: what the `string * n` nodes of a tree were given (filled by refEval).
type repStats struct {
	nodes        int
	emptyAbove31 bool // "" * n, n > 2^31-1
	emptyAbove32 bool // "" * n, n > 2^32-1
	emptyAbove53 bool // "" * n, n > 2^53
	emptyMid     bool // "" * n, 6 < n <= 2^31-1
	fullMid      bool // non-empty string, 6 < n, result affordable
	fullLong     bool // non-empty string, result of 1000..20000 bytes
	fullGuard    bool // non-empty string, result above 20000 bytes (resource guard)
	zero         bool
	negSmall     bool // -6 <= n < 0
	negBig       bool // n < -6
	negBelow31   bool // n < -2^31
}

func (st *stats) noteRepeat(s string, n int64) {
	r := &st.rep
	r.nodes++
	switch {
	case n < 0:
		if n < -6 {
			r.negBig = true
		} else {
			r.negSmall = true
		}
		if n < math.MinInt32 {
			r.negBelow31 = true
		}
	case n == 0:
		r.zero = true
	case s == "":
		if n > math.MaxInt32 {
			r.emptyAbove31 = true
		} else if n > 6 {
			r.emptyMid = true
		}
		if n > math.MaxUint32 {
			r.emptyAbove32 = true
		}
		if n > 1<<53 {
			r.emptyAbove53 = true
		}
	default:
		if n > int64(20000/len(s)) {
			r.fullGuard = true
			return
		}
		if n > 6 {
			r.fullMid = true
		}
		if int64(len(s))*n >= 1000 {
			r.fullLong = true
		}
	}
}

// region names the part of the count range a failing case sits in (for the signature).
func (r repStats) region() string {
	switch {
	case r.emptyAbove31:
		return "empty-string-count-above-2^31-1"
	case r.negBelow31:
		return "count-below--2^31"
	case r.negBig:
		return "count-below--6"
	case r.emptyMid:
		return "empty-string-count-7..2^31-1"
	case r.fullMid:
		return "count-7..20000"
	case r.negSmall:
		return "small-negative-count"
	case r.zero:
		return "count-zero"
	}
	return "small-count"
}

func (r repStats) classes(o *h.Obs) {
	mark := func(b bool, name string) {
		if b {
			o.Class(name)
		}
	}
	mark(r.emptyAbove31, "repeat_empty_string_count_above_2^31-1")
	mark(r.emptyAbove32, "repeat_empty_string_count_above_2^32-1")
	mark(r.emptyAbove53, "repeat_empty_string_count_above_2^53")
	mark(r.emptyMid, "repeat_empty_string_count_7..2^31-1")
	mark(r.fullMid, "repeat_nonempty_string_count_7..20000")
	mark(r.fullLong, "repeat_nonempty_string_result_1000..20000_bytes")
	mark(r.zero, "repeat_count_zero")
	mark(r.negSmall, "repeat_count_-6..-1")
	mark(r.negBig, "repeat_count_below_-6")
	mark(r.negBelow31, "repeat_count_below_-2^31")
	mark(r.nodes >= 2, "repeat_two_or_more_repeat_nodes")
}

// repCountsPos: counts around every width a count might be narrowed to on its way to strings.Repeat.
var repCountsPos = []int64{
	1<<31 - 2, 1<<31 - 1, 1 << 31, 1<<31 + 1, 1<<31 + 2,
	1<<32 - 2, 1<<32 - 1, 1 << 32, 1<<32 + 1, 1<<32 + 2, 1<<32 + 6, 1 << 33, 3 << 31, 1 << 40, 1<<40 + 1,
	1<<53 - 1, 1 << 53, 1<<53 + 1, 9007199254740993, 1 << 62, 1<<62 + 1, math.MaxInt64 - 1, math.MaxInt64,
	1<<15 - 1, 1 << 15, 1<<16 - 1, 1 << 16, 1<<16 + 1, 1 << 24, 1<<24 + 1, 1000000000, 123456789012,
	7, 8, 100, 4095, 4096, 4097,
}

// repCountsNeg: negative counts; several of them have a small positive number in their low 32 bits.
var repCountsNeg = []int64{
	-1, -2, -7, -4096, -(1 << 31) + 1, -(1 << 31), -(1 << 31) - 1, -(1 << 32) + 3, -(1 << 32) + 1, -(1 << 32), -(1 << 32) - 1,
	-(1 << 40), -(1 << 53), -(1 << 53) - 1, -(1 << 62), math.MinInt64 + 3, math.MinInt64 + 1, math.MinInt64,
}

// repCountProvs: where a count comes from (coal needs its F, drawn by genLeaf).
func repLeafI(t *rapid.T, v int64) *Node {
	n := genLeaf(t, "i")
	n.I = v
	return n
}

// repWideCount: a count from the whole int64 range, most of them above 2^31-1.
func repWideCount(t *rapid.T) *Node {
	switch rapid.IntRange(0, 13).Draw(t, "wide") {
	case 0, 1, 2, 3, 4:
		return repLeafI(t, rapid.SampledFrom(repCountsPos).Draw(t, "cpos"))
	case 5:
		return repLeafI(t, rapid.SampledFrom(repCountsPos).Draw(t, "cpos")+rapid.Int64Range(-3, 3).Draw(t, "d")) // wraps at the top: a negative count, an error
	case 6:
		return repLeafI(t, vals.Int().Draw(t, "cany"))
	case 7:
		return repLeafI(t, rapid.SampledFrom(repCountsNeg).Draw(t, "cneg"))
	case 8:
		return repLeafI(t, int64(1)<<uint(rapid.IntRange(31, 62).Draw(t, "sh"))+rapid.Int64Range(-2, 2).Draw(t, "d"))
	case 9:
		return repLeafI(t, rapid.Int64Range(math.MaxInt32-3, math.MaxInt32+3).Draw(t, "around31"))
	case 10:
		// computed: 1 << k
		return &Node{Op: "<<", L: repLeafI(t, rapid.Int64Range(1, 3).Draw(t, "one")), R: repLeafI(t, int64(rapid.IntRange(29, 62).Draw(t, "k")))}
	case 11:
		// computed: 2^31-1 + d, 2^32-1 + d
		return &Node{Op: "+", L: repLeafI(t, rapid.SampledFrom([]int64{math.MaxInt32, math.MaxUint32, 1<<53 - 1, math.MaxInt64 - 3}).Draw(t, "edge")), R: repLeafI(t, rapid.Int64Range(0, 3).Draw(t, "d"))}
	case 12:
		// computed: a product beyond 2^32
		return &Node{Op: "*", L: repLeafI(t, rapid.SampledFrom([]int64{1 << 16, 1<<16 + 1, 1 << 20, 1 << 31, 100000}).Draw(t, "fa")), R: repLeafI(t, rapid.SampledFrom([]int64{1 << 16, 1 << 15, 1<<16 - 1, 1 << 31, 3, 100000}).Draw(t, "fb"))}
	default:
		return genNum(t, "i", 1)
	}
}

// repEmpty: an operand whose value is the empty string: the literal through every provenance, or computed.
func repEmpty(t *rapid.T, depth int) *Node {
	leaf := func() *Node {
		n := genLeaf(t, "s")
		n.S = ""
		return n
	}
	if depth <= 0 {
		return leaf()
	}
	switch rapid.IntRange(0, 7).Draw(t, "empty") {
	case 0:
		return &Node{Op: "+", L: repEmpty(t, depth-1), R: repEmpty(t, depth-1)}
	case 1:
		// any string repeated zero times
		return &Node{Op: "*", L: genLeaf(t, "s"), R: repLeafI(t, 0)}
	case 2:
		// the empty string repeated a huge number of times
		return &Node{Op: "*", L: repEmpty(t, depth-1), R: repWideCountPos(t)}
	default:
		return leaf()
	}
}

// repWideCountPos: as repWideCount, but a leaf that is not negative (so that the node gives a value).
func repWideCountPos(t *rapid.T) *Node {
	return repLeafI(t, rapid.SampledFrom(repCountsPos).Draw(t, "cpos"))
}

// repFull: a non-empty string leaf.
func repFull(t *rapid.T) *Node {
	n := genLeaf(t, "s")
	if n.S == "" {
		n.S = rapid.SampledFrom([]string{"ab", "a", "-", "0", "日本", "xyz "}).Draw(t, "nonempty")
	}
	return n
}

// repAffordable: a count above 6 with len(s) * count <= 20000.
func repAffordable(t *rapid.T, s string) *Node {
	max := int64(20000 / len(s))
	var v int64
	if rapid.IntRange(0, 2).Draw(t, "edgecount") > 0 {
		v = rapid.SampledFrom([]int64{7, 8, 9, 10, 15, 16, 17, 31, 32, 33, 63, 64, 65, 100, 127, 128, 129, 255, 256, 257, 1000, 1023, 1024, 4094, 4095, 4096, 4097, 10000, max - 1, max, max}).Draw(t, "edge")
		if v > max {
			v = max - v%7
		}
	} else {
		v = rapid.Int64Range(7, max).Draw(t, "mid")
	}
	return repLeafI(t, v)
}

func smallCountLeaf(t *rapid.T) *Node {
	return repLeafI(t, rapid.Int64Range(-2, 6).Draw(t, "cnt"))
}

// repNode builds one `string * n` node; the pairing of string and count decides whether the
// result can be built.
func repNode(t *rapid.T, depth int) *Node {
	switch rapid.IntRange(0, 19).Draw(t, "pairing") {
	case 0, 1, 2, 3, 4, 5, 6, 7, 8:
		// the empty string with any count
		return &Node{Op: "*", L: repEmpty(t, depth), R: repWideCount(t)}
	case 9, 10, 11, 12, 13:
		// a non-empty string with a count the result of which is at most 20000 bytes
		s := repFull(t)
		return &Node{Op: "*", L: s, R: repAffordable(t, s.S)}
	case 14, 15:
		// a non-empty string with zero or a negative count of any size: "" and an error
		if rapid.IntRange(0, 3).Draw(t, "zero") == 0 {
			return &Node{Op: "*", L: repFull(t), R: repLeafI(t, 0)}
		}
		return &Node{Op: "*", L: repFull(t), R: repLeafI(t, rapid.SampledFrom(repCountsNeg).Draw(t, "cneg"))}
	case 16, 17:
		// as the other sub-checks have it
		return &Node{Op: "*", L: genStr(t, 1), R: smallCountLeaf(t)}
	case 18:
		// a string tree (mostly non-empty) with an affordable count worked out for a leaf of 9 bytes at most
		return &Node{Op: "*", L: genStr(t, 1), R: repLeafI(t, rapid.Int64Range(7, 300).Draw(t, "mid"))}
	default:
		// outside the domain: a non-empty string with any count (the guard counts these; never run)
		return &Node{Op: "*", L: repFull(t), R: repWideCount(t)}
	}
}

func genRepeat(t *rapid.T) RepCase {
	if rapid.IntRange(0, 3).Draw(t, "form") == 0 {
		// one operator site called for a row of (string, count) pairs of different magnitudes
		c := RepCase{Form: "site"}
		n := rapid.IntRange(2, 5).Draw(t, "npairs")
		// a row either holds counts of any size - then every string of it is the empty one - or
		// non-empty strings - then every count of it is affordable with every string of it (see repSafe)
		hugeRow := rapid.Bool().Draw(t, "hugerow")
		for i := 0; i < n; i++ {
			var l, r *Node
			pairing := rapid.IntRange(0, 5).Draw(t, "pairing")
			switch {
			case hugeRow:
				l = &Node{Op: "leaf", K: "s", Prov: "lit"}
				r = repWideCount(t)
				if r.Op != "leaf" {
					r = repWideCountPos(t)
				}
			case pairing <= 2:
				l = repFull(t)
				r = repAffordable(t, l.S)
			case pairing == 3:
				l = repFull(t)
				r = repLeafI(t, rapid.SampledFrom(repCountsNeg).Draw(t, "cneg"))
			case pairing == 4:
				l = &Node{Op: "leaf", K: "s", Prov: "lit"}
				r = repLeafI(t, rapid.SampledFrom([]int64{7, 8, 100, 255, 256, 4095, 4096, 4097, 20000}).Draw(t, "emptymid"))
			default:
				l = genLeaf(t, "s")
				r = smallCountLeaf(t)
			}
			l.Prov, r.Prov = "lit", "lit"
			if rapid.IntRange(0, 4).Draw(t, "goint") == 0 {
				r.Prov = "goint"
			}
			c.Pairs = append(c.Pairs, &Node{Op: "*", L: l, R: r})
		}
		return c
	}
	c := RepCase{Form: "expr", Flat: rapid.IntRange(0, 2).Draw(t, "flat") == 0}
	rn := repNode(t, rapid.IntRange(0, 2).Draw(t, "depth"))
	switch rapid.IntRange(0, 9).Draw(t, "embed") {
	case 0:
		c.Root = &Node{Op: "+", L: genLeaf(t, "s"), R: rn}
	case 1:
		c.Root = &Node{Op: "+", L: rn, R: genLeaf(t, rapid.SampledFrom([]string{"i", "f", "s"}).Draw(t, "rk"))}
	case 2:
		c.Root = &Node{Op: "+", L: genLeaf(t, rapid.SampledFrom([]string{"i", "f"}).Draw(t, "lk")), R: rn}
	case 3:
		// the repeat repeated
		c.Root = &Node{Op: "*", L: rn, R: repLeafI(t, rapid.Int64Range(0, 3).Draw(t, "again"))}
	case 4:
		c.Root = &Node{Op: "+", L: rn, R: repNode(t, 0)}
	default:
		c.Root = rn
	}
	repSanitize(c.Root)
	return c
}

// ---------- resource guard against a MISROUTED operand ----------

// The guard computed from the reference bounds what a correct interpreter builds. An interpreter
// that hands an operator a wrong operand of the same program (the left operand of another
// operator, what the same site saw before) is not bounded by it: `"" * (("s" + nosuchname) ?? 1099511627776)`
// is "" by the reference, and one terabyte once the `*` is given the "s". So the guard is on the
// PROGRAM: a count above 20000 never stands in one program with a non-empty string (a leaf, or a
// string literal inside the failing left side of a `??`) or with a `+` under a `*` (which makes a
// non-empty string of "" and any number it is wrongly given: seen with seeded change C05-24,
// `(((X ?? "") * 123456789012) + ((1 < nosuchname) ?? "")) * id(6442450944)` repeated "1"). Then
// whatever pairing of the program's own operand values a `*` is given, it repeats the empty
// string or multiplies numbers; without such a count the largest operands are 20000 bytes and 20000.
const repBudget = 20000

func coalHasString(f int) bool {
	return f >= 0 && f < len(coalLeft) && strings.Contains(coalLeft[f], "\"")
}

type repSafety struct {
	nonEmpty    bool    // a non-empty string leaf, a string literal in a ?? left side, or a `+` under a `*`
	hugeInCount bool    // a value above repBudget in (or under) a count position, or computed anywhere
	hugeOutside []*Node // integer leaves above repBudget elsewhere (operands of +)
}

func (rs *repSafety) walk(n *Node, underCount, underStar bool) {
	if n == nil {
		return
	}
	if n.Op == "leaf" {
		if n.Prov == "coal" && coalHasString(n.F) {
			rs.nonEmpty = true
		}
		switch n.K {
		case "s":
			if n.S != "" {
				rs.nonEmpty = true
			}
		case "i":
			if n.I > repBudget {
				if underCount {
					rs.hugeInCount = true
				} else {
					rs.hugeOutside = append(rs.hugeOutside, n)
				}
			}
		}
		return
	}
	if v, failed := refEval(n, &stats{}); !failed && v.k == "i" && v.i > repBudget {
		rs.hugeInCount = true // computed: cannot be clamped
	}
	if n.Op == "+" && underStar {
		// a `+` whose result is (part of) an operand of a `*`: given a wrong operand - any number of
		// the program - it makes a non-empty string ("" + 1 is "1") BEFORE the `*` is evaluated. A `+`
		// above every `*` is harmless: its result is made when all repeats are done.
		rs.nonEmpty = true
	}
	if n.Op == "*" && n.R != nil {
		// the right operand of every `*` counts as a count position (which it is in the trees of this sub-check)
		rs.walk(n.L, underCount, true)
		rs.walk(n.R, true, true)
		return
	}
	rs.walk(n.L, underCount, underStar)
	rs.walk(n.R, underCount, underStar)
}

// repSafe: no count above the budget in one program with a non-empty string.
func repSafe(root *Node) bool {
	rs := &repSafety{}
	rs.walk(root, false, false)
	return !rs.nonEmpty || (!rs.hugeInCount && len(rs.hugeOutside) == 0)
}

// repSanitize makes a generated tree safe: where a count above the budget meets non-empty strings,
// the strings become empty ones, the left sides of ?? lose their string literals and a `+` under
// a `*` is replaced by its left operand; a large number that is only an operand of `+` is brought
// into 0..20000 instead.
func repSanitize(root *Node) {
	st := &stats{}
	refEval(root, st)
	if st.tooLong {
		return // excluded by the reference guard: never run
	}
	rs := &repSafety{}
	rs.walk(root, false, false)
	if !rs.nonEmpty {
		return
	}
	if rs.hugeInCount {
		repEmptyAll(root, false)
		return
	}
	for _, n := range rs.hugeOutside {
		n.I %= repBudget + 1
	}
}

func repEmptyAll(n *Node, underStar bool) {
	if n == nil {
		return
	}
	for n.Op == "+" && underStar && n.L != nil {
		*n = *n.L // a `+` under a `*` goes: its left operand stands for it
	}
	if n.Op == "leaf" {
		if n.K == "s" {
			n.S = ""
		}
		if n.Prov == "coal" && coalHasString(n.F) {
			n.F = 1 // (2 + nosuchname)
		}
		return
	}
	repEmptyAll(n.L, underStar || n.Op == "*")
	repEmptyAll(n.R, underStar || n.Op == "*")
}

// repExec runs one program of this sub-check with a time limit (a spinning interpreter is not judged).
func repExec(src string) (got interface{}, err error, timedOut bool) {
	ctx, cancel := context.WithTimeout(context.Background(), 5*time.Second)
	defer cancel()
	got, err = ank.ExecCtx(ctx, newEnv(), src)
	return got, err, ctx.Err() != nil
}

const repUnsafe = "repeat: a count above 20000 in one program with a non-empty string or a + under a * (resource guard against a misrouted operand, never run)"
const repSlow = "repeat: did not finish within 5 s (not judged)"

// repOutOfRange: the count of the node (a leaf) lies outside the -2..6 of the other sub-checks.
func repOutOfRange(r repStats) bool {
	return r.emptyAbove31 || r.emptyMid || r.fullMid || r.negBig
}

func oracleRepeat(c RepCase, o *h.Obs) *h.Fail {
	switch c.Form {
	case "expr":
		if c.Root == nil {
			o.Excluded = "malformed_case"
			return nil
		}
		src := source(Case{Root: c.Root, Flat: c.Flat})
		o.Key = src
		st := &stats{}
		want, wantErr := refEval(c.Root, st)
		if st.tooLong {
			// resource guard: nothing is run
			if st.rep.fullGuard {
				o.Excluded = "repeat: non-empty string with a count that makes more than 20000 bytes (resource guard, never run)"
			} else {
				o.Excluded = "string_result_too_long"
			}
			return nil
		}
		if !repSafe(c.Root) {
			o.Excluded = repUnsafe
			return nil
		}
		if st.rep.nodes == 0 && !wantErr {
			// an error in an operand (`%` by zero inside a computed count) ends the evaluation before the repeat: fine; a tree without a repeat is not a case of this sub-check
			o.Excluded = "malformed_case"
			return nil
		}
		o.NonTrivial = repOutOfRange(st.rep)
		o.Class("repeat_form_expr")
		st.rep.classes(o)
		if wantErr {
			o.Class("repeat_reference_error")
		}
		if c.Root.Op == "*" && c.Root.R != nil && c.Root.R.Op != "leaf" {
			o.Class("repeat_count_computed_by_an_operator")
		}
		if c.Root.Op == "+" {
			o.Class("repeat_as_operand_of_+")
		}
		// the root operator is part of the signature: under a `+` the concatenation may be what fails, not the repeat
		region := "root" + c.Root.Op + "|" + st.rep.region()
		got, err, slow := repExec(src)
		if slow {
			o.Excluded = repSlow
			return nil
		}
		if hp, ok := ank.IsHostPanic(err); ok {
			return h.Failf("C05|host-panic|"+ank.NormPanic(hp.Value), "source:\n%s\nescaped panic: %v", src, hp.Value)
		}
		if wantErr {
			if err == nil {
				return h.Failf("C05|repeat|missing-error|"+region, "source:\n%s\nreference: error expected (a string repeated a negative number of times, or `%%` by zero in the count)\nanko: %s", src, ank.Describe(got))
			}
			return nil
		}
		if err != nil {
			return h.Failf("C05|repeat|unexpected-error|"+region, "`string * n` repeats the string n times, whatever the magnitude of n, as long as the result can be built\nsource:\n%s\nreference (strings.Repeat): %v\nanko error: %v", src, want, err)
		}
		if !sameVal(want, got) {
			return h.Failf("C05|repeat|wrong-result|"+region+"|"+want.k, "source:\n%s\nreference (strings.Repeat): %s\nanko: %s", src, clip(want.String()), clip(ank.Describe(got)))
		}
		return nil
	case "site":
		if len(c.Pairs) == 0 {
			o.Excluded = "malformed_case"
			return nil
		}
		var sb strings.Builder
		sb.WriteString("f = func(s, n) { return s * n }\nr = []\n")
		p := &printer{}
		type exp struct {
			want    val
			wantErr bool
			region  string
		}
		var exps []exp
		all := repStats{}
		regions := map[string]bool{}
		for _, n := range c.Pairs {
			if n == nil || n.Op != "*" || n.L == nil || n.R == nil || n.L.Op != "leaf" || n.R.Op != "leaf" || n.L.K != "s" || n.R.K != "i" {
				o.Excluded = "malformed_case"
				return nil
			}
			st := &stats{}
			want, wantErr := refEval(n, st)
			if st.tooLong {
				// resource guard, BEFORE anything runs: the whole row is left out
				o.Excluded = "repeat: non-empty string with a count that makes more than 20000 bytes (resource guard, never run)"
				return nil
			}
			exps = append(exps, exp{want, wantErr, st.rep.region()})
			regions[st.rep.region()] = true
			st.rep.classes(o)
			if repOutOfRange(st.rep) {
				all.emptyMid = true
			}
			cnt := p.leafLit(n.R)
			if n.R.Prov == "goint" {
				cnt = "gi(" + cnt + ")"
			}
			sb.WriteString("try {\n r += [f(" + p.leafLit(n.L) + ", " + cnt + ")]\n} catch e {\n r += [\"ERR\"]\n}\n")
		}
		rowHuge, rowNonEmpty := false, false
		for _, n := range c.Pairs {
			rowHuge = rowHuge || n.R.I > repBudget
			rowNonEmpty = rowNonEmpty || n.L.S != ""
		}
		if rowHuge && rowNonEmpty {
			o.Excluded = repUnsafe
			return nil
		}
		sb.WriteString("r")
		src := sb.String()
		o.Key = src
		o.NonTrivial = all.emptyMid
		o.Class("repeat_form_site")
		if len(regions) >= 2 {
			o.Class("repeat_site_counts_of_two_or_more_regions")
		}
		got, err, slow := repExec(src)
		if slow {
			o.Excluded = repSlow
			return nil
		}
		if hp, ok := ank.IsHostPanic(err); ok {
			return h.Failf("C05|host-panic|"+ank.NormPanic(hp.Value), "source:\n%s\nescaped panic: %v", src, hp.Value)
		}
		list, isList := got.([]interface{})
		if err != nil || !isList || len(list) != len(c.Pairs) {
			return h.Failf("C05|repeat|site|unexpected-error", "source:\n%s\nanko: %v %s", src, err, clip(ank.Describe(got)))
		}
		for i, e := range exps {
			g := list[i]
			s, isStr := g.(string)
			if e.wantErr {
				if !isStr || s != "ERR" {
					return h.Failf("C05|repeat|missing-error|"+e.region, "call %d of\n%s\nreference: error expected (negative count)\nanko: %s", i+1, src, clip(ank.Describe(g)))
				}
				continue
			}
			// no string of the pools repeats to "ERR" (the marker is not a repetition of a pool string)
			if isStr && s == "ERR" && e.want.s != "ERR" {
				return h.Failf("C05|repeat|unexpected-error|"+e.region, "one `s * n` site called for a row of operand pairs: call %d fails where strings.Repeat gives a value\nsource:\n%s\nreference (strings.Repeat) for call %d: %s", i+1, src, i+1, clip(e.want.String()))
			}
			if !sameVal(e.want, g) {
				return h.Failf("C05|repeat|wrong-result|"+e.region+"|"+e.want.k, "one `s * n` site called for a row of operand pairs: call %d gives another result than the operands alone dictate\nsource:\n%s\nreference (strings.Repeat) for call %d: %s\nanko: %s", i+1, src, i+1, clip(e.want.String()), clip(ank.Describe(g)))
			}
		}
		return nil
	}
	o.Excluded = "malformed_case"
	return nil
}

// clip shortens a long rendering for a message (deterministically).
func clip(s string) string {
	if len(s) <= 300 {
		return s
	}
	return fmt.Sprintf("%s ... (%d bytes in all)", s[:300], len(s))
}
