// C04 — names follow lexical block scope; closures capture their defining scope.
// Oracle: reference interpreter (internal/prog) — trace, result, error and final
// top-level bindings must equal the model's under an admitted parameterisation.
package c04

import (
	"strings"
	"testing"

	"pgregory.net/rapid"

	"verif/internal/h"
	"verif/internal/prog"
)

type Case struct {
	Prog []*prog.N `json:"prog"`
	// Feat: what the generator put into the program by construction (pattern counters)
	Feat map[string]int `json:"feat,omitempty"`
}

var profile = prog.Profile{Scopes: true, MaxDepth: 4, MaxStmts: 4}

func gen(t *rapid.T) Case {
	p, f := prog.Generate(t, profile)
	return Case{Prog: p, Feat: patternFeats(f)}
}

// union profile: scopes together with error handling and break/continue/return at every
// position, so that scopes are left through every kind of exit (e.g. a catch block left by
// continue inside a loop)
var unionProfile = prog.Profile{Scopes: true, Control: true, Errors: true, MaxDepth: 4, MaxStmts: 4}

// by-construction scope patterns (binder x block cross product, own-name rebinding, closure
// factories) on top of the scopes profile and of the union profile; kept in sub-checks of their
// own so that they do not thin out what the first two sub-checks generate
var crossProfile = prog.Profile{Scopes: true, Cross: true, HostChan: true, MaxDepth: 4, MaxStmts: 4}
var crossUnionProfile = prog.Profile{Scopes: true, Control: true, Errors: true, Cross: true, HostChan: true, MaxDepth: 3, MaxStmts: 4}

func genCross(t *rapid.T) Case {
	pr := crossProfile
	if rapid.IntRange(0, 2).Draw(t, "union") == 0 {
		pr = crossUnionProfile
	}
	p, f := prog.Generate(t, pr)
	return Case{Prog: p, Feat: patternFeats(f)}
}

// assigning forms on names bound in an enclosing scope, inside every block form (pattern assignCross),
// on top of the scopes profile and of the union profile; a sub-check of its own for the same reason
var assignProfile = prog.Profile{Scopes: true, Assign: true, HostChan: true, MaxDepth: 3, MaxStmts: 3}
var assignUnionProfile = prog.Profile{Scopes: true, Control: true, Errors: true, Assign: true, HostChan: true, MaxDepth: 3, MaxStmts: 3}

func genAssign(t *rapid.T) Case {
	pr := assignProfile
	if rapid.IntRange(0, 3).Draw(t, "union") == 0 {
		pr = assignUnionProfile
	}
	p, f := prog.Generate(t, pr)
	return Case{Prog: p, Feat: patternFeats(f)}
}

// a module statement for a name that an enclosing scope binds to a module (pattern moduleAgain), on top of
// the scopes profile and of the union profile; a sub-check of its own for the same reason
var modAgainProfile = prog.Profile{Scopes: true, ModAgain: true, MaxDepth: 3, MaxStmts: 3}
var modAgainUnionProfile = prog.Profile{Scopes: true, Control: true, Errors: true, ModAgain: true, MaxDepth: 3, MaxStmts: 3}

func genModAgain(t *rapid.T) Case {
	pr := modAgainProfile
	if rapid.IntRange(0, 3).Draw(t, "union") == 0 {
		pr = modAgainUnionProfile
	}
	p, f := prog.Generate(t, pr)
	return Case{Prog: p, Feat: patternFeats(f)}
}

func genUnion(t *rapid.T) Case {
	p, f := prog.Generate(t, unionProfile)
	return Case{Prog: p, Feat: patternFeats(f)}
}

func patternFeats(f map[string]int) map[string]int {
	out := map[string]int{}
	for k, n := range f {
		if strings.HasPrefix(k, "cross_") || strings.HasPrefix(k, "binder_") || strings.HasPrefix(k, "closure_") || strings.HasPrefix(k, "assign_") || strings.HasPrefix(k, "modagain") || k == "self_name" || k == "scope_cross" {
			out[k] = n
		}
	}
	return out
}

func oracle(c Case, o *h.Obs) *h.Fail {
	v := prog.Judge(c.Prog)
	o.Key = v.Src
	if v.Excluded != "" {
		o.Excluded = "unspecified: " + v.Excluded
		return nil
	}
	f := v.Out.Feat
	o.NonTrivial = (f["shadow_define"] > 0 || f["local_create"] > 0) && f["read_after_scope_end"] > 0
	for k, n := range f {
		if n > 0 && (len(k) > 5 && k[:5] == "exit_") {
			o.Class(k)
		}
	}
	for _, k := range []string{"shadow_define", "local_create", "assign_updates_outer", "read_after_scope_end", "closure_created", "undefined_name", "error_caught", "go_function_wrote_through_address_of_name"} {
		if f[k] > 0 {
			o.Class(k)
		}
	}
	for k := range c.Feat {
		o.Class("pattern_" + k)
	}
	if !v.OK {
		clause := v.Clause
		if c.Feat["assign_cross"] > 0 && (clause == "trace" || clause == "value" || clause == "bindings") {
			// programs of the sub-check `assigns`: a signature of its own
			clause = "assigned-name|" + clause
		}
		if c.Feat["modagain"] > 0 && (clause == "trace" || clause == "value" || clause == "bindings") {
			// programs of the sub-check `modules`: a signature of its own
			clause = "module-name-bound-further-out|" + clause
		}
		f := h.Failf("C04|"+clause, "program:\n%s\n%s", v.Src, v.Detail)
		f.NoShrink = v.Clause == "no-termination"
		return f
	}
	if v.Cfg != (prog.Cfg{}) {
		o.Class("matched_alternative_parameterisation")
	}
	return nil
}

func TestC04(t *testing.T) {
	c := h.New(t, "C04")
	defer c.Finish()
	if c.Thorough() {
		// the thorough tier also explores larger programs
		profile.MaxDepth++
		profile.MaxStmts += 2
		crossProfile.MaxStmts += 2
		unionProfile.MaxDepth++
		unionProfile.MaxStmts += 2
	}
	c.Rule("constructive generator, profile 'scopes': nested blocks of every kind over the name pool {a,b,c,d} with x=e, var x=e, reads p(id,x), existence probes, closures (named, stored, escaping), modules, recursion; non-trivial = the run contains a shadowing var/parameter/loop variable or an assignment creating a block-local binding AND a read of such a name after its scope ended; distinct by source text")
	h.Run(c, "scopes", c.N(12000, 120000), gen, oracle)
	c.Rule("exits: the same oracle over programs from the union of the scopes, control and errors profiles (scopes left by break/continue/return/throw from try bodies, catch and finally blocks, deferred calls)")
	h.Run(c, "exits", c.N(8000, 80000), genUnion, oracle)
	c.Rule("patterns: the same oracle over programs that also contain the by-construction patterns: every binder form on a fresh name inside every block form (observed inside and after), a named function rebinding or recursing through its own name, closure factories called several times")
	h.Run(c, "patterns", c.N(10000, 100000), genCross, oracle)
	c.Rule("assigns: the same oracle over programs that contain the pattern assignCross: a name bound in the current scope (fresh or from the pool, by assignment or var) is given a new value by one of the assigning forms (x = e; x, y = e1, e2; x, y = [e1, e2]; x, y = m[k]; x = <-ch; x, y = <-ch; a Go function storing through &x) inside one of thirteen block forms - one level, two levels, two levels with a var of the name in between, or a closure called from inside a block - and is read inside, after every block and at the end; a second target is either bound outside too or created in the block")
	h.Run(c, "assigns", c.N(3000, 30000), genAssign, oracle)
	c.Rule("overlap: one function value (0-7 fixed parameters, with or without a variadic one; named or assigned literal) is called by 2-8 callers at the same time - go statements on closures, go statements on one shared worker function, or host goroutines running scripts in child scopes of the defining scope - each caller with its own argument values, 10-240 calls each, optionally with all callers meeting at a barrier before each call or all invocations meeting in mid-body, optionally calling itself once more with other arguments; the body copies its parameters into locals by var / plain assignment / from inside if, for-in, for, C-for, catch, finally, switch and a closure, and returns the observations as a list; the host compares each returned list with what that caller passed; non-trivial = every such run that completed; distinct by source text")
	h.Run(c, "overlap", c.N(overlapQuick, overlapThorough), genOverlap, oracleOverlap)
	c.Rule("modules: the same oracle over programs that contain the pattern moduleAgain (internal/prog/gen_modagain.go): a module M with a member ma (or a plain value M) is bound in the current scope; then a second `module M { var mb = v ... }` is executed in the same block, inside one of thirteen block forms (one or two levels), in a named function called twice (here and from inside a block), in a closure called from inside a block, or in a block inside the outer module's own body; the inner body reads a local of the declaring block / function, probes the outer module's member name and optionally assigns it; M.mb and M.ma are read inside the block, and afterwards M.ma, M.mb, M.getma() (a function member of the outer module), mb and the local are read or probed: the statement binds M in the current block only, its body runs in a child of that block, and afterwards M is what it was before")
	h.Run(c, "modules", c.N(3000, 30000), genModAgain, oracle)
}
