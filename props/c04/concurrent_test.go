// C04, sub-check `overlap`: invocations of ONE function value that overlap in time - started by
// go statements or by host goroutines running scripts in child scopes of the defining scope -
// each see their own arguments in their parameters and keep their own locals ("function
// parameters always bind in the current ... invocation", "every invocation runs in a fresh scope,
// so recursion and re-entrant calls never clobber each other's locals"). The expectation is
// computed in Go from what each caller passed; nothing is taken from the implementation.
package c04

import (
	"context"
	"fmt"
	"strings"
	"sync"
	"sync/atomic"
	"time"

	"github.com/mattn/anko/env"
	"pgregory.net/rapid"

	"verif/internal/ank"
	"verif/internal/h"
)

// OStep is one observation made by the function body; it fills one slot of the returned list.
type OStep struct {
	// Kind: param (the parameter read in the return expression), var, assign (fresh local made by
	// var / by plain assignment), if, forin, loop, cfor, catch, finally, switch, closure (local set
	// from inside that block form), getter (a closure made early returns the operand late),
	// restlen (len of the variadic parameter)
	Kind string `json:"kind"`
	// K: which parameter is observed: 1..Fixed, or 0 = rest[0]
	K int `json:"k"`
	// Post: the statement stands after the middle section (barrier / nested call of the same function)
	Post bool `json:"post"`
}

// OCase is one program of the sub-check.
type OCase struct {
	Fixed   int     `json:"fixed"`   // number of fixed parameters
	VarArg  bool    `json:"vararg"`  // a variadic parameter `rest...` follows
	Named   bool    `json:"named"`   // func work(...) {...} or work = func(...) {...}
	Steps   []OStep `json:"steps"`   // observations
	Nest    bool    `json:"nest"`    // the invocation calls the same function value again with other arguments
	Gate    string  `json:"gate"`    // "", "call" (all callers meet right before each call), "body" (all invocations meet in mid-body)
	Workers int     `json:"workers"` // concurrent callers
	Rounds  int     `json:"rounds"`  // calls per caller
	Launch  string  `json:"launch"`  // go-closures, go-shared, host
	Extras  []int   `json:"extras"`  // per caller: number of variadic arguments (>= 1 when VarArg)
}

const nestOffset = 5000

var oStepKinds = []string{"param", "var", "assign", "if", "forin", "loop", "cfor", "catch", "finally", "switch", "closure", "getter"}

func genOverlap(t *rapid.T) OCase {
	var c OCase
	c.VarArg = rapid.Bool().Draw(t, "vararg")
	lo := 1
	if c.VarArg {
		lo = 0
	}
	// 0..4 fixed parameters without a variadic one, 5..7, and any number with a variadic one:
	// the statement does not distinguish them
	c.Fixed = rapid.IntRange(lo, 7).Draw(t, "fixed")
	c.Named = rapid.Bool().Draw(t, "named")
	ns := rapid.IntRange(1, 5).Draw(t, "nsteps")
	for i := 0; i < ns; i++ {
		var s OStep
		kinds := len(oStepKinds)
		if c.VarArg && rapid.IntRange(0, 5).Draw(t, "restlen") == 0 {
			s.Kind = "restlen"
		} else {
			s.Kind = oStepKinds[rapid.IntRange(0, kinds-1).Draw(t, "kind")]
		}
		s.K = rapid.IntRange(lo, max(c.Fixed, lo)).Draw(t, "k")
		if c.Fixed == 0 {
			s.K = 0
		}
		if s.K == 0 && !c.VarArg {
			s.K = 1
		}
		s.Post = rapid.Bool().Draw(t, "post")
		c.Steps = append(c.Steps, s)
	}
	c.Nest = rapid.IntRange(0, 3).Draw(t, "nest") == 0
	c.Gate = []string{"", "", "call", "body"}[rapid.IntRange(0, 3).Draw(t, "gate")]
	c.Workers = rapid.IntRange(2, 8).Draw(t, "workers")
	c.Rounds = rapid.IntRange(40, 240).Draw(t, "rounds")
	if c.Gate != "" {
		// a meeting of all callers per round costs far more than a call
		c.Rounds = rapid.IntRange(10, 40).Draw(t, "gated_rounds")
	}
	c.Launch = []string{"go-closures", "go-shared", "host"}[rapid.IntRange(0, 2).Draw(t, "launch")]
	c.Extras = make([]int, c.Workers)
	if c.VarArg {
		e0 := rapid.IntRange(1, 3).Draw(t, "extras")
		for w := range c.Extras {
			c.Extras[w] = e0
			if c.Launch != "go-shared" {
				c.Extras[w] = rapid.IntRange(1, 3).Draw(t, "extras_w")
			}
		}
	}
	return c
}

// argument values: caller w passes (w+1)*100+k for fixed parameter k and (w+1)*100+50+j for the
// j-th variadic argument; a nested call adds nestOffset to the fixed ones
func oFixedVal(w, k int) int64 { return int64((w+1)*100 + k) }
func oRestVal(w, j int) int64  { return int64((w+1)*100 + 50 + j) }

func (c OCase) operand(k int) string {
	if k == 0 {
		return "rest[0]"
	}
	return fmt.Sprintf("p%d", k)
}

// funcSrc renders the definition of work.
func (c OCase) funcSrc() string {
	var ps []string
	for k := 1; k <= c.Fixed; k++ {
		ps = append(ps, fmt.Sprintf("p%d", k))
	}
	if c.VarArg {
		ps = append(ps, "rest...")
	}
	var b strings.Builder
	if c.Named {
		fmt.Fprintf(&b, "func work(%s) {\n", strings.Join(ps, ", "))
	} else {
		fmt.Fprintf(&b, "work = func(%s) {\n", strings.Join(ps, ", "))
	}
	var slots []string
	emit := func(post bool) {
		for j, s := range c.Steps {
			if s.Post != post {
				continue
			}
			op := c.operand(s.K)
			n := fmt.Sprintf("s%d", j)
			switch s.Kind {
			case "var":
				fmt.Fprintf(&b, "\tvar %s = %s\n", n, op)
			case "assign":
				fmt.Fprintf(&b, "\t%s = %s\n", n, op)
			case "if":
				fmt.Fprintf(&b, "\tvar %s = 0\n\tif %s != 0 {\n\t\t%s = %s\n\t}\n", n, op, n, op)
			case "forin":
				fmt.Fprintf(&b, "\tvar %s = 0\n\tfor x%d in [1, 2] {\n\t\t%s = %s\n\t}\n", n, j, n, op)
			case "loop":
				fmt.Fprintf(&b, "\tvar %s = 0\n\tfor {\n\t\t%s = %s\n\t\tbreak\n\t}\n", n, n, op)
			case "cfor":
				fmt.Fprintf(&b, "\tvar %s = 0\n\tfor x%d = 0; x%d < 2; x%d++ {\n\t\t%s = %s\n\t}\n", n, j, j, j, n, op)
			case "catch":
				fmt.Fprintf(&b, "\tvar %s = 0\n\ttry {\n\t\tthrow \"t\"\n\t} catch e%d {\n\t\t%s = %s\n\t}\n", n, j, n, op)
			case "finally":
				fmt.Fprintf(&b, "\tvar %s = 0\n\ttry {\n\t\t%s = 0\n\t} catch e%d {\n\t\t%s = -1\n\t} finally {\n\t\t%s = %s\n\t}\n", n, n, j, n, n, op)
			case "switch":
				fmt.Fprintf(&b, "\tvar %s = 0\n\tswitch 1 {\n\tcase 1:\n\t\t%s = %s\n\t}\n", n, n, op)
			case "closure":
				fmt.Fprintf(&b, "\tvar %s = 0\n\tfunc() {\n\t\t%s = %s\n\t}()\n", n, n, op)
			case "getter":
				fmt.Fprintf(&b, "\tvar g%d = func() {\n\t\treturn %s\n\t}\n", j, op)
			case "restlen":
				fmt.Fprintf(&b, "\tvar %s = len(rest)\n", n)
			}
		}
	}
	emit(false)
	ident := c.operand(1)
	if c.Fixed == 0 {
		ident = c.operand(0)
	}
	if c.Nest {
		var as []string
		for k := 1; k <= c.Fixed; k++ {
			as = append(as, fmt.Sprintf("p%d + %d", k, nestOffset))
		}
		if c.VarArg {
			if c.Fixed == 0 {
				as = append(as, fmt.Sprintf("rest[0] + %d", nestOffset))
			} else {
				as = append(as, "rest...")
			}
		}
		fmt.Fprintf(&b, "\tvar inner = 0\n\tif %s < %d {\n", ident, nestOffset)
		if c.Gate == "body" {
			b.WriteString("\t\tgate()\n")
		}
		fmt.Fprintf(&b, "\t\tinner = work(%s)\n\t}\n", strings.Join(as, ", "))
	} else if c.Gate == "body" {
		b.WriteString("\tgate()\n")
	}
	emit(true)
	for j, s := range c.Steps {
		switch s.Kind {
		case "param":
			slots = append(slots, c.operand(s.K))
		case "getter":
			slots = append(slots, fmt.Sprintf("g%d()", j))
		default:
			slots = append(slots, fmt.Sprintf("s%d", j))
		}
	}
	if c.Nest {
		slots = append(slots, "inner")
	}
	fmt.Fprintf(&b, "\treturn [%s]\n}\n", strings.Join(slots, ", "))
	return b.String()
}

// callArgs renders the arguments caller w passes, as literals or relative to a variable b = (w+1)*100.
func (c OCase) callArgs(w int, literal bool) string {
	var as []string
	val := func(v int64) string {
		if literal {
			return fmt.Sprint(v)
		}
		return fmt.Sprintf("b + %d", v-int64((w+1)*100))
	}
	for k := 1; k <= c.Fixed; k++ {
		as = append(as, val(oFixedVal(w, k)))
	}
	for j := 0; j < c.Extras[w]; j++ {
		as = append(as, val(oRestVal(w, j)))
	}
	return strings.Join(as, ", ")
}

// loopSrc renders the calling loop of caller w (wv: how the caller's number is spelt).
func (c OCase) loopSrc(w int, wv string, literal bool, ind string) string {
	var b strings.Builder
	fmt.Fprintf(&b, "%stry {\n%s\tfor i = 0; i < %d; i++ {\n", ind, ind, c.Rounds)
	if c.Gate == "call" {
		fmt.Fprintf(&b, "%s\t\tgate()\n", ind)
	}
	fmt.Fprintf(&b, "%s\t\trep(%s, work(%s))\n%s\t}\n%s} catch e {\n%s\traised(%s)\n%s}\n%sdone(%s)\n", ind, wv, c.callArgs(w, literal), ind, ind, ind, wv, ind, ind, wv)
	return b.String()
}

// sources: the script run in the defining scope, and (host launch) the scripts the host goroutines run.
func (c OCase) sources() (main string, perHost []string) {
	var b strings.Builder
	b.WriteString(c.funcSrc())
	switch c.Launch {
	case "go-closures":
		for w := 0; w < c.Workers; w++ {
			fmt.Fprintf(&b, "go func() {\n%s}()\n", c.loopSrc(w, fmt.Sprint(w), true, "\t"))
		}
	case "go-shared":
		fmt.Fprintf(&b, "func worker(w) {\n\tvar b = (w + 1) * 100\n%s}\n", c.loopSrc(0, "w", false, "\t"))
		for w := 0; w < c.Workers; w++ {
			fmt.Fprintf(&b, "go worker(%d)\n", w)
		}
	case "host":
		for w := 0; w < c.Workers; w++ {
			perHost = append(perHost, c.loopSrc(w, fmt.Sprint(w), true, ""))
		}
	}
	return b.String(), perHost
}

// expected list returned to caller w (nested: the list of the nested invocation).
func (c OCase) expected(w int, nested bool) []interface{} {
	fixed := func(k int) int64 {
		v := oFixedVal(w, k)
		if nested {
			v += nestOffset
		}
		return v
	}
	var rest []int64
	for j := 0; j < c.Extras[w]; j++ {
		rest = append(rest, oRestVal(w, j))
	}
	if nested && c.Fixed == 0 {
		rest = []int64{oRestVal(w, 0) + nestOffset}
	}
	var out []interface{}
	for _, s := range c.Steps {
		switch {
		case s.Kind == "restlen":
			out = append(out, int64(len(rest)))
		case s.K == 0:
			out = append(out, rest[0])
		default:
			out = append(out, fixed(s.K))
		}
	}
	if c.Nest {
		if nested {
			out = append(out, int64(0))
		} else {
			out = append(out, c.expected(w, true))
		}
	}
	return out
}

// slotName says what the i-th slot observes, for the signature.
func (c OCase) slotName(i int) string {
	if i >= len(c.Steps) {
		return "nested-call"
	}
	s := c.Steps[i]
	switch s.Kind {
	case "param":
		if s.K == 0 {
			return "variadic-parameter"
		}
		return "parameter"
	case "restlen":
		return "variadic-parameter"
	case "getter":
		return "captured-by-closure"
	}
	return "local"
}

// firstDiff compares a returned list with the expectation: -1 = equal, -2 = not a list of that
// length, else the first differing slot and the value found there (for the slot of the nested
// call: the first differing value inside it).
func firstDiff(got interface{}, want []interface{}) (int, interface{}) {
	l, ok := got.([]interface{})
	if !ok || len(l) != len(want) {
		return -2, nil
	}
	for i := range want {
		switch wv := want[i].(type) {
		case int64:
			if gv, ok := l[i].(int64); !ok || gv != wv {
				return i, l[i]
			}
		case []interface{}:
			if d, v := firstDiff(l[i], wv); d != -1 {
				return i, v
			}
		}
	}
	return -1, nil
}

type oBarrier struct {
	mu    sync.Mutex
	n     int
	count int
	gen   chan struct{}
	abort chan struct{}
	once  sync.Once
	// stalled: a meeting was given up after 3 s
	stalled atomic.Bool
}

func (b *oBarrier) wait() {
	b.mu.Lock()
	b.count++
	if b.count == b.n {
		b.count = 0
		close(b.gen)
		b.gen = make(chan struct{})
		b.mu.Unlock()
		return
	}
	g := b.gen
	b.mu.Unlock()
	// the meeting only arranges that invocations overlap; when a party does not come (its loop ended
	// early, or an invocation went another way than intended) the meetings are given up and the
	// callers run on freely - what they observe is judged all the same
	tm := time.NewTimer(3 * time.Second)
	defer tm.Stop()
	select {
	case <-g:
	case <-b.abort:
	case <-tm.C:
		b.stalled.Store(true)
		b.stop()
	}
}

func (b *oBarrier) stop() { b.once.Do(func() { close(b.abort) }) }

func oracleOverlap(c OCase, o *h.Obs) *h.Fail {
	main, perHost := c.sources()
	o.Key = fmt.Sprintf("%s|%s|%v", main, strings.Join(perHost, "|"), c.Workers)
	o.Note = main
	if c.Workers < 2 || c.Workers > 16 || len(c.Extras) != c.Workers || c.Rounds < 1 || c.Rounds > 100000 {
		o.Excluded = "malformed case"
		return nil
	}
	want := make([][]interface{}, c.Workers)
	for w := range want {
		want[w] = c.expected(w, false)
	}
	// every value that some invocation legitimately observes
	passed := map[int64]bool{}
	var collect func(l []interface{})
	collect = func(l []interface{}) {
		for _, x := range l {
			switch xv := x.(type) {
			case int64:
				passed[xv] = true
			case []interface{}:
				collect(xv)
			}
		}
	}
	for w := range want {
		collect(want[w])
	}
	bar := &oBarrier{n: c.Workers, gen: make(chan struct{}), abort: make(chan struct{})}
	var (
		calls   = make([]int64, c.Workers)
		dones   int64
		raisedN int64
		badW    int64 // a caller number outside 0..Workers-1 arrived
		mu      sync.Mutex
		diff    = -1 // smallest differing slot seen
		foreign bool // a differing slot held a value that some caller passed in some call (or its length of rest)
		other   bool // a differing slot held something else
		shape   bool
		finish  = make(chan struct{}, c.Workers+1)
	)
	e := env.NewEnv()
	e.Define("gate", func() { bar.wait() })
	e.Define("rep", func(w int64, r interface{}) {
		if w < 0 || int(w) >= c.Workers {
			atomic.AddInt64(&badW, 1)
			return
		}
		atomic.AddInt64(&calls[w], 1)
		d, v := firstDiff(r, want[w])
		if d == -1 {
			return
		}
		mu.Lock()
		if d == -2 {
			shape = true
		} else {
			if diff == -1 || d < diff {
				diff = d
			}
			if iv, ok := v.(int64); ok && passed[iv] {
				foreign = true
			} else {
				other = true
			}
		}
		mu.Unlock()
	})
	e.Define("raised", func(w int64) {
		atomic.AddInt64(&raisedN, 1)
		bar.stop()
	})
	e.Define("done", func(w int64) {
		atomic.AddInt64(&dones, 1)
		finish <- struct{}{}
	})
	ctx, cancel := context.WithCancel(context.Background())
	defer cancel()
	if _, err := ank.ExecCtx(ctx, e, main); err != nil {
		bar.stop()
		if _, ok := ank.IsHostPanic(err); ok {
			return h.Failf("C04|overlapping-invocations|host-panic", "a Go panic escaped while the program below ran:\n%s", main)
		}
		return h.Failf("C04|overlapping-invocations|definition-error", "the program below (definitions and go statements only) ended with an error: %v\n%s", err, main)
	}
	var hostErr int64
	for w := range perHost {
		src := perHost[w]
		go func() {
			if _, err := ank.ExecCtx(ctx, e.NewEnv(), src); err != nil {
				atomic.AddInt64(&hostErr, 1)
				bar.stop()
				finish <- struct{}{}
			}
		}()
	}
	timeout := time.After(90 * time.Second)
	for n := 0; n < c.Workers; n++ {
		select {
		case <-finish:
		case <-timeout:
			bar.stop()
			cancel()
			o.Excluded = "callers did not finish within 90 s (machine load): not judged"
			return nil
		}
	}
	bar.stop()
	o.NonTrivial = true
	if bar.stalled.Load() {
		o.Class("overlap_meetings_given_up_after_3s")
	}
	o.Class("overlap_launch_%s", c.Launch)
	o.Class("overlap_gate_%s", map[string]string{"": "none", "call": "before_each_call", "body": "mid_body"}[c.Gate])
	switch {
	case c.VarArg:
		o.Class("overlap_function_variadic")
	case c.Fixed > 4:
		o.Class("overlap_function_5_to_7_parameters")
	default:
		o.Class("overlap_function_1_to_4_parameters")
	}
	if c.Nest {
		o.Class("overlap_nested_call_of_same_function")
	}
	for _, s := range c.Steps {
		o.Class("overlap_step_%s", s.Kind)
	}
	prog := main
	for w, s := range perHost {
		prog += fmt.Sprintf("// host goroutine %d runs, in a child scope of the scope above:\n%s", w, s)
	}
	head := fmt.Sprintf("%d callers, %d calls each, of one function value at the same time; caller w passes (w+1)*100+k as k-th fixed argument and (w+1)*100+50+j as j-th variadic argument", c.Workers, c.Rounds)
	mu.Lock()
	defer mu.Unlock()
	if diff >= 0 {
		what, sig := "a value that belongs to another invocation (an argument some other call passed)", "value-of-another-invocation"
		if other && !foreign {
			what, sig = "a value that no call passed", "unexpected-value"
		}
		return noShrink(h.Failf("C04|overlapping-invocations|"+sig, "%s.\na list returned to a caller differs from what that caller passed: an observation (%s, slot %d is the first differing slot over all calls) held %s; expected lists per caller: %v\n%s", head, c.slotName(diff), diff, what, want, prog))
	}
	if shape {
		return noShrink(h.Failf("C04|overlapping-invocations|result-shape", "%s.\na call returned something other than the list of %d observations\n%s", head, len(want[0]), prog))
	}
	if raisedN > 0 || hostErr > 0 {
		return noShrink(h.Failf("C04|overlapping-invocations|raised", "%s.\na caller's loop ended with an error although every call on its own is valid\n%s", head, prog))
	}
	if badW > 0 {
		return noShrink(h.Failf("C04|overlapping-invocations|caller-number", "%s.\na caller reported under a number no caller was started with\n%s", head, prog))
	}
	for w := range calls {
		if atomic.LoadInt64(&calls[w]) != int64(c.Rounds) {
			return noShrink(h.Failf("C04|overlapping-invocations|call-count", "%s.\na caller did not report exactly its %d calls under its own number\n%s", head, c.Rounds, prog))
		}
	}
	return nil
}

// the failure depends on how the goroutines interleave: the case is recorded as found, not shrunk
func noShrink(f *h.Fail) *h.Fail {
	f.NoShrink = true
	return f
}

const (
	overlapQuick    = 150
	overlapThorough = 1500
)
