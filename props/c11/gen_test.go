package c11

import (
	"math"
	"reflect"
	"strings"
	"unicode/utf8"

	"pgregory.net/rapid"

	"verif/internal/vals"
)

// ---------- generators of script values ----------

func genInt(t *rapid.T) int64 {
	switch rapid.IntRange(0, 5).Draw(t, "ik") {
	case 0, 1:
		return rapid.Int64Range(-3, 300).Draw(t, "small")
	case 2:
		return intEdges[rapid.IntRange(0, len(intEdges)-1).Draw(t, "edge")]
	case 3:
		return rapid.Int64Range(0, 0x110005).Draw(t, "cp")
	default:
		return vals.Int().Draw(t, "int")
	}
}

func genFloatBits(t *rapid.T) uint64 {
	var f float64
	switch rapid.IntRange(0, 5).Draw(t, "fk") {
	case 0, 1:
		f = float64(rapid.Int64Range(-2400, 2400).Draw(t, "eighths")) / 8
	case 2:
		f = floatEdges[rapid.IntRange(0, len(floatEdges)-1).Draw(t, "edge")]
	case 3:
		f = float64(genInt(t)) + 0.5
	default:
		f = vals.Float().Draw(t, "float")
	}
	if math.IsNaN(f) {
		f = 0.75
	}
	return math.Float64bits(f)
}

func genStr(t *rapid.T) string {
	if rapid.IntRange(0, 2).Draw(t, "sk") == 0 {
		// script source is read as UTF-8 runes: only valid UTF-8 can be spelled in a literal
		if s := strEdges[rapid.IntRange(0, len(strEdges)-1).Draw(t, "edge")]; utf8.ValidString(s) && !strings.Contains(s, "\x00") {
			return s
		}
		return "é"
	}
	return vals.Str().Draw(t, "str")
}

func genGo(t *rapid.T, cands []int) SV {
	ti := cands[rapid.IntRange(0, len(cands)-1).Draw(t, "gtype")]
	return SV{K: "g", T: ti, Seed: rapid.IntRange(0, 60).Draw(t, "gseed")}
}

// genSV draws a free-form script value.
func genSV(t *rapid.T, depth int) SV {
	k := rapid.IntRange(0, 11).Draw(t, "svk")
	if depth <= 0 && (k == 5 || k == 6) {
		k = 0
	}
	switch k {
	case 0, 1:
		return SV{K: "i", I: genInt(t)}
	case 2:
		return SV{K: "f", FB: genFloatBits(t)}
	case 3:
		return SV{K: "s", S: genStr(t)}
	case 4:
		return SV{K: "b", B: rapid.Bool().Draw(t, "b")}
	case 5:
		n := rapid.IntRange(0, 3).Draw(t, "ln")
		sv := SV{K: "l", L: []SV{}}
		for i := 0; i < n; i++ {
			sv.L = append(sv.L, genSV(t, depth-1))
		}
		return sv
	case 6:
		n := rapid.IntRange(0, 3).Draw(t, "mn")
		sv := SV{K: "m", L: []SV{}, MK: []SV{}}
		for i := 0; i < n; i++ {
			sv.MK = append(sv.MK, genKey(t))
			sv.L = append(sv.L, genSV(t, depth-1))
		}
		return sv
	case 7:
		return SV{K: "n"}
	default:
		return genGo(t, idxAll)
	}
}

func genKey(t *rapid.T) SV {
	switch rapid.IntRange(0, 5).Draw(t, "kk") {
	case 0:
		return SV{K: "i", I: rapid.Int64Range(-2, 130).Draw(t, "ki")}
	case 1:
		return SV{K: "f", FB: math.Float64bits(float64(rapid.Int64Range(-8, 40).Draw(t, "kf")) / 4)}
	default:
		return SV{K: "s", S: rapid.SampledFrom([]string{"a", "b", "k", "A", "", "x y", "é"}).Draw(t, "ks")}
	}
}

// typed Go sources offered for a target kind
var (
	goSlices = []int{18, 19, 20, 21, 22, 23, 24, 25, 26, 27, 36, 40, 42, 44, 45}
	goMaps   = []int{28, 29, 30, 31, 32, 41, 43}
	goStrs   = []int{13, 17, 18, 20, 7, 4, 5, 16, 10}
	goRefs   = []int{33, 34, 35, 37, 38, 39, 15}
)

var (
	tByte = reflect.TypeOf(uint8(0))
	tRune = reflect.TypeOf(int32(0))
	// oneCharStrs are strings of exactly one character, of every UTF-8 length
	oneCharStrs = []string{"a", "Z", "0", " ", "~", "\x7f", "\u0080", "é", "ß", "ÿ", "Ā", "λ", "€", "日", "\uffff", "😀", "\U0010ffff"}
)

// genSVFor draws a script value aimed at a parameter of type T: mostly something Go can
// convert to T, sometimes nil, sometimes anything.
func genSVFor(t *rapid.T, T reflect.Type, depth int) SV {
	r := rapid.IntRange(0, 99).Draw(t, "aim")
	if r < 5 {
		return SV{K: "n"}
	}
	if r < 13 {
		return genSV(t, depth)
	}
	if T == tIface {
		return genSV(t, depth)
	}
	if T == tError {
		return SV{K: "g", T: 15, Seed: rapid.IntRange(0, 60).Draw(t, "gseed")}
	}
	switch T.Kind() {
	case reflect.Bool:
		if r < 80 {
			return SV{K: "b", B: rapid.Bool().Draw(t, "b")}
		}
		return genGo(t, []int{0})
	case reflect.Int, reflect.Int8, reflect.Int16, reflect.Int32, reflect.Int64,
		reflect.Uint, reflect.Uint8, reflect.Uint16, reflect.Uint32, reflect.Uint64,
		reflect.Float32, reflect.Float64:
		switch {
		case r < 50:
			return SV{K: "i", I: genInt(t)}
		case r < 72:
			return SV{K: "f", FB: genFloatBits(t)}
		case r >= 90 && (T == tByte || T == tRune):
			// a string for a byte / rune parameter: one character (ASCII and not), sometimes any string
			if rapid.IntRange(0, 4).Draw(t, "charstr") == 0 {
				return SV{K: "s", S: genStr(t)}
			}
			return SV{K: "s", S: rapid.SampledFrom(oneCharStrs).Draw(t, "char")}
		default:
			return genGo(t, idxNumeric)
		}
	case reflect.String:
		switch {
		case r < 50:
			return SV{K: "s", S: genStr(t)}
		case r < 70:
			return SV{K: "i", I: genInt(t)}
		default:
			return genGo(t, goStrs)
		}
	case reflect.Slice, reflect.Array:
		switch {
		case r < 65 && depth > 0:
			max := 3
			if T.Kind() == reflect.Array {
				max = T.Len() + 1
			}
			n := rapid.IntRange(0, max).Draw(t, "ln")
			sv := SV{K: "l", L: []SV{}}
			for i := 0; i < n; i++ {
				sv.L = append(sv.L, genSVFor(t, T.Elem(), depth-1))
			}
			return sv
		case r < 72:
			return SV{K: "s", S: genStr(t)}
		default:
			return genGo(t, goSlices)
		}
	case reflect.Map:
		if r < 65 && depth > 0 {
			n := rapid.IntRange(0, 3).Draw(t, "mn")
			sv := SV{K: "m", L: []SV{}, MK: []SV{}}
			for i := 0; i < n; i++ {
				var k SV
				if T.Key().Kind() == reflect.String || T.Key() == tIface {
					k = genKey(t)
				} else {
					k = genSVFor(t, T.Key(), 0)
					if k.K == "n" || k.K == "l" || k.K == "m" || k.K == "g" {
						k = genKey(t)
					}
				}
				sv.MK = append(sv.MK, k)
				sv.L = append(sv.L, genSVFor(t, T.Elem(), depth-1))
			}
			return sv
		}
		return genGo(t, goMaps)
	default:
		// pointers, structs, channels, funcs: the same Go type, or a neighbour
		if r < 75 {
			if i := poolIndex(T); i >= 0 {
				return SV{K: "g", T: i, Seed: rapid.IntRange(0, 60).Draw(t, "gseed")}
			}
		}
		return genGo(t, goRefs)
	}
}

// paramTypes: weights favour scalars, every pool type is reachable.
var scalarIdx = []int{0, 1, 2, 3, 4, 5, 6, 7, 8, 9, 10, 11, 12, 13, 14, 16, 17}

func genTypeIdx(t *rapid.T, label string) int {
	if rapid.IntRange(0, 9).Draw(t, label+"-cls") < 6 {
		return scalarIdx[rapid.IntRange(0, len(scalarIdx)-1).Draw(t, label)]
	}
	return rapid.IntRange(0, len(Pool)-1).Draw(t, label)
}

// argSet is a generated argument list.
type argSet struct {
	Args   []SV
	Spread SV
}

// genArgs draws the arguments for a function with the given fixed parameter types and
// optional variadic element type, in plain or spread shape; delta -1/+1 asks for too few /
// too many arguments.
func genArgs(t *rapid.T, fixedT []reflect.Type, varElem reflect.Type, hasSpread bool, delta int) argSet {
	as := genArgsPlain(t, fixedT, varElem, hasSpread, delta)
	// hops: ordinary arguments sometimes, the spread operand half of the time
	for i := range as.Args {
		if rapid.IntRange(0, 4).Draw(t, "arghop") == 0 {
			as.Args[i].Hop = rapid.SampledFrom(hopNames).Draw(t, "hop")
		}
	}
	if hasSpread && rapid.Bool().Draw(t, "spreadhop") {
		as.Spread.Hop = rapid.SampledFrom(hopNames).Draw(t, "hop")
	}
	return as
}

func genArgsPlain(t *rapid.T, fixedT []reflect.Type, varElem reflect.Type, hasSpread bool, delta int) argSet {
	as := argSet{Args: []SV{}}
	nFixed := len(fixedT)
	switch {
	case varElem == nil && !hasSpread:
		n := nFixed + delta
		for i := 0; i < n; i++ {
			if i < nFixed {
				as.Args = append(as.Args, genSVFor(t, fixedT[i], 2))
			} else {
				as.Args = append(as.Args, genSV(t, 1))
			}
		}
	case varElem != nil && !hasSpread:
		for i := 0; i < nFixed; i++ {
			as.Args = append(as.Args, genSVFor(t, fixedT[i], 2))
		}
		if delta < 0 && nFixed > 0 {
			as.Args = as.Args[:nFixed-1]
			break
		}
		nt := rapid.IntRange(0, 3).Draw(t, "ntail")
		for i := 0; i < nt; i++ {
			as.Args = append(as.Args, genSVFor(t, varElem, 2))
		}
	case varElem == nil && hasSpread:
		maxPlain := nFixed
		if nFixed > 0 && rapid.IntRange(0, 9).Draw(t, "fullplain") > 0 {
			maxPlain = nFixed - 1 // leave at least one parameter to the spread list
		}
		m := rapid.IntRange(0, maxPlain).Draw(t, "nplain")
		for i := 0; i < m; i++ {
			as.Args = append(as.Args, genSVFor(t, fixedT[i], 2))
		}
		sk := rapid.IntRange(0, 19).Draw(t, "spreadkind")
		switch {
		case sk == 0:
			as.Spread = genSV(t, 1) // often not a list
		case sk < 4:
			as.Spread = genGo(t, goSlices) // a typed Go slice or array
		default:
			sp := SV{K: "l", L: []SV{}}
			n := nFixed - m + delta
			for i := 0; i < n; i++ {
				if m+i < nFixed {
					sp.L = append(sp.L, genSVFor(t, fixedT[m+i], 1))
				} else {
					sp.L = append(sp.L, genSV(t, 1))
				}
			}
			as.Spread = sp
		}
	default:
		m := nFixed + delta
		for i := 0; i < m; i++ {
			if i < nFixed {
				as.Args = append(as.Args, genSVFor(t, fixedT[i], 2))
			} else {
				as.Args = append(as.Args, genSV(t, 1))
			}
		}
		as.Spread = genSVFor(t, reflect.SliceOf(varElem), 2)
	}
	return as
}
