// C11 — values and calls cross the Go boundary faithfully.
//
// Four sub-checks, all against references written in the harness with Go's own
// conversion rules (conv.go) and Go's own calls (reflect.MakeFunc hosts that record what
// arrived): identity, calls, members, callbacks.
package c11

import (
	"fmt"
	"os"
	"reflect"
	"sort"
	"strconv"
	"strings"
	"testing"

	"github.com/mattn/anko/env"
	"pgregory.net/rapid"

	"verif/internal/ank"
	"verif/internal/h"
)

// ====================================================================
// (1) identity
// ====================================================================

// IdCase: the Go pool value (T, Seed) is bound to x and read back through Path.
type IdCase struct {
	T    int      `json:"t"`
	Seed int      `json:"seed"`
	Path []string `json:"path"`
}

var idSteps = []string{"list", "map", "mapidx", "id", "fn", "fn2", "vfn", "var", "tern", "paren", "idv", "list2", "fnlist", "let2"}

func genIdCase(t *rapid.T) IdCase {
	c := IdCase{T: rapid.IntRange(0, len(Pool)-1).Draw(t, "type"), Seed: rapid.IntRange(0, 60).Draw(t, "seed"), Path: []string{}}
	n := rapid.IntRange(0, 4).Draw(t, "steps")
	for i := 0; i < n; i++ {
		c.Path = append(c.Path, rapid.SampledFrom(idSteps).Draw(t, "step"))
	}
	return c
}

func idSource(path []string) string {
	var pre []string
	e := "x"
	for i, st := range path {
		switch st {
		case "list":
			e = "[" + e + "][0]"
		case "list2":
			e = "[0, " + e + ", \"z\"][1]"
		case "map":
			e = "{\"k\": " + e + "}.k"
		case "mapidx":
			e = "{\"k\": " + e + "}[\"k\"]"
		case "id":
			e = "id(" + e + ")"
		case "idv":
			e = "idv(0, " + e + ")"
		case "fn":
			e = "func(a) { return a }(" + e + ")"
		case "fn2":
			e = "func(a, b) { return b }(1, " + e + ")"
		case "vfn":
			e = "func(a...) { return a[0] }(" + e + ")"
		case "fnlist":
			e = "func(a) { return [a] }(" + e + ")[0]"
		case "var":
			name := "v" + strconv.Itoa(i)
			pre = append(pre, name+" = "+e)
			e = name
		case "let2":
			name := "w" + strconv.Itoa(i)
			pre = append(pre, name+", u"+strconv.Itoa(i)+" = "+e+", 1")
			e = name
		case "tern":
			e = "(true ? " + e + " : 0)"
		case "paren":
			e = "(" + e + ")"
		}
	}
	return strings.Join(append(pre, e), "\n")
}

func idOracle(c IdCase, o *h.Obs) *h.Fail {
	if c.T < 0 || c.T >= len(Pool) {
		o.Excluded = "bad_case"
		return nil
	}
	src := idSource(c.Path)
	T := Pool[c.T].T
	v := mkVal(c.T, c.Seed)
	want := unwrap(v)
	o.Key = fmt.Sprintf("%d/%d/%s", c.T, c.Seed, src)
	o.Note = fmt.Sprintf("x = %s; %s", desc(want), strings.ReplaceAll(src, "\n", "; "))
	kn := kindName(T)
	o.Class("identity:type:" + kn)
	for _, st := range c.Path {
		o.Class("identity:step:" + st)
	}
	if !want.IsValid() {
		o.Class("identity:nil-interface")
	} else if isNilable(want) && want.IsNil() {
		o.Class("identity:typed-nil")
	}
	o.NonTrivial = len(c.Path) > 0

	e := env.NewEnv()
	e.Define("id", func(a interface{}) interface{} { return a })
	e.Define("idv", func(n int64, a ...interface{}) interface{} { return a[n] })
	if want.IsValid() {
		e.Define("x", want.Interface())
	} else {
		e.Define("x", nil)
	}
	got, err := ank.Exec(e, src)
	if hp, ok := ank.IsHostPanic(err); ok {
		return h.Failf("C11|panic|identity|"+ank.NormPanic(hp.Value), "x = %s (%s)\nsource:\n%s\nescaped panic: %v", desc(want), T, src, hp.Value)
	}
	if err != nil {
		return h.Failf("C11|identity|error|"+kn, "x = %s (%s)\nsource:\n%s\nunexpected error: %v", desc(want), T, src, err)
	}
	gv := reflect.ValueOf(got)
	if dynType(gv) != dynType(want) {
		return h.Failf("C11|identity|type|"+kn, "x = %s\nsource:\n%s\nread back with dynamic type %v, bound with %v", desc(want), src, dynType(gv), dynType(want))
	}
	if !same(gv, want, false) {
		return h.Failf("C11|identity|value|"+kn, "x = %s\nsource:\n%s\nread back %s", desc(want), src, desc(gv))
	}
	return nil
}

func isNilable(v reflect.Value) bool {
	switch v.Kind() {
	case reflect.Slice, reflect.Map, reflect.Ptr, reflect.Chan, reflect.Func, reflect.Interface:
		return true
	}
	return false
}

// ====================================================================
// (2) calls
// ====================================================================

// CallCase: a Go function type (In, optional variadic element VarElem, Out) whose host
// body records its parameters and returns the pool values (Out[i], OutSeed[i]); called
// from script with Args and, if HasSpread, a final `Spread...` expression.
type CallCase struct {
	In        []int  `json:"in"`
	VarElem   int    `json:"var"` // -1: not variadic
	Out       []int  `json:"out"`
	OutSeed   []int  `json:"outseed"`
	Args      []SV   `json:"args"`
	HasSpread bool   `json:"has_spread"`
	Spread    SV     `json:"spread"`
	Route     string `json:"route"` // name | var | member | anon
}

func (c *CallCase) funcType() (reflect.Type, bool) {
	var in []reflect.Type
	for _, i := range c.In {
		if i < 0 || i >= len(Pool) {
			return nil, false
		}
		in = append(in, Pool[i].T)
	}
	variadic := c.VarElem >= 0
	if variadic {
		if c.VarElem >= len(Pool) {
			return nil, false
		}
		in = append(in, reflect.SliceOf(Pool[c.VarElem].T))
	}
	var out []reflect.Type
	if len(c.OutSeed) != len(c.Out) {
		return nil, false
	}
	for _, i := range c.Out {
		if i < 0 || i >= len(Pool) {
			return nil, false
		}
		out = append(out, Pool[i].T)
	}
	return reflect.FuncOf(in, out, variadic), true
}

func genCallCase(t *rapid.T) CallCase {
	c := CallCase{VarElem: -1, In: []int{}, Out: []int{}, OutSeed: []int{}, Args: []SV{}}
	nFixed := rapid.IntRange(0, 4).Draw(t, "nfixed")
	for i := 0; i < nFixed; i++ {
		c.In = append(c.In, genTypeIdx(t, "ptype"))
	}
	if rapid.IntRange(0, 9).Draw(t, "variadic") < 4 {
		c.VarElem = genTypeIdx(t, "vtype")
	}
	nOut := rapid.SampledFrom([]int{0, 1, 1, 1, 2, 2, 3}).Draw(t, "nout")
	for i := 0; i < nOut; i++ {
		c.Out = append(c.Out, genTypeIdx(t, "rtype"))
		c.OutSeed = append(c.OutSeed, rapid.IntRange(0, 60).Draw(t, "rseed"))
	}
	c.Route = rapid.SampledFrom([]string{"name", "name", "name", "var", "member", "anon"}).Draw(t, "route")
	c.HasSpread = rapid.IntRange(0, 9).Draw(t, "spread") < 4
	if nFixed == 0 && c.VarElem < 0 && c.HasSpread {
		// a parameterless function ignores its arguments (nothing asserted): keep this rare
		c.HasSpread = rapid.IntRange(0, 9).Draw(t, "spread0") == 0
	}
	// count: 0 exact, -1 too few, +1 too many
	delta := rapid.SampledFrom([]int{0, 0, 0, 0, 0, 0, 0, 0, -1, 1}).Draw(t, "delta")

	fixedT := make([]reflect.Type, nFixed)
	for i, ti := range c.In {
		fixedT[i] = Pool[ti].T
	}
	var varT reflect.Type
	if c.VarElem >= 0 {
		varT = Pool[c.VarElem].T
	}
	as := genArgs(t, fixedT, varT, c.HasSpread, delta)
	c.Args, c.Spread = as.Args, as.Spread
	return c
}

// renderCall builds "callee(args…)" plus the statements that must precede it.
func renderCall(b *binder, callee string, args []SV, hasSpread bool, spread *SV) (pre []string, call string, argV []reflect.Value, spreadV reflect.Value) {
	parts := make([]string, 0, len(args)+1)
	for i := range args {
		s, v := b.render(&args[i])
		parts = append(parts, s)
		argV = append(argV, v)
	}
	if hasSpread {
		s, v := b.render(spread)
		spreadV = v
		if spread.K != "l" && spread.K != "g" && spread.Hop == "" {
			// `5...` does not lex; bind anything that is not a list literal or a variable
			pre = append(pre, "sp = "+s)
			s = "sp"
		}
		parts = append(parts, s+"...")
	}
	return pre, callee + "(" + strings.Join(parts, ", ") + ")", argV, spreadV
}

func defineAll(e *env.Env, b *binder) {
	for i, n := range b.names {
		e.Define(n, b.goVs[i].Interface())
	}
}

func dedupe(a []string) []string {
	sort.Strings(a)
	out := a[:0]
	for i, s := range a {
		if i == 0 || s != a[i-1] {
			out = append(out, s)
		}
	}
	return out
}

func callOracle(c CallCase, o *h.Obs) *h.Fail {
	ft, ok := c.funcType()
	if !ok || len(c.In) > 6 || len(c.Args) > 12 {
		o.Excluded = "bad_case"
		return nil
	}
	b := newBinder()
	callee := "f"
	var pre []string
	switch c.Route {
	case "var":
		pre = append(pre, "hh = f")
		callee = "hh"
	case "member":
		pre = append(pre, "mm = {\"f\": f}")
		callee = "mm.f"
	case "anon":
		callee = "(f)"
	}
	pre2, call, argV, spreadV := renderCall(b, callee, c.Args, c.HasSpread, &c.Spread)
	src := strings.Join(append(append(pre, pre2...), call), "\n")

	results := make([]reflect.Value, len(c.Out))
	for i := range c.Out {
		results[i] = mkVal(c.Out[i], c.OutSeed[i])
	}
	rec := &recorder{results: results}
	p := planCall(ft, argV, c.HasSpread, spreadV)

	var gd []string
	for i, n := range b.names {
		gd = append(gd, n+"="+desc(b.goVs[i]))
	}
	o.Key = ft.String() + "\x00" + src + "\x00" + strings.Join(gd, ";")
	o.Note = fmt.Sprintf("f %s; %s; %s", ft, strings.Join(gd, "; "), strings.ReplaceAll(src, "\n", "; "))
	o.NonTrivial = p.nonIdent || ft.IsVariadic() || c.HasSpread || len(c.Out) >= 2
	o.Class("calls:shape:%s:%s", p.shape, p.out)
	o.Class("calls:count:%s:%s", p.shape, p.count)
	o.Class("calls:nres:%d", len(c.Out))
	o.Class("calls:nparams:%d", ft.NumIn())
	o.Class("calls:route:" + c.Route)
	if c.HasSpread && c.Spread.Hop != "" {
		o.Class("calls:spread-hop:%s:%s:%s", c.Spread.Hop, p.shape, p.out)
	}
	for i := range c.Args {
		if c.Args[i].Hop != "" {
			o.Class("calls:arg-hop:" + c.Args[i].Hop)
		}
	}
	if p.why != "" {
		w := p.why
		if i := strings.Index(w, ":"); i >= 0 && strings.HasPrefix(w, "unasserted") {
			w = w[:i] + ":" + strings.SplitN(w[i+1:], ":", 2)[0]
		}
		o.Class("calls:why:" + w)
	}
	for _, cell := range dedupe(append([]string{}, p.cells...)) {
		o.Class("conv:" + cell)
	}

	if p.nilPtr && knownNilPtrPanic {
		o.Excluded = "nil_pointer_retyping"
		return nil
	}
	e := env.NewEnv()
	e.Define("id", func(a interface{}) interface{} { return a })
	e.Define("f", rec.fn(ft).Interface())
	defineAll(e, b)
	got, err := ank.Exec(e, src)
	ctx := func() string {
		return fmt.Sprintf("host function f of type %s\n%s\nsource:\n%s", ft, strings.Join(gd, "\n"), src)
	}
	if hp, ok := ank.IsHostPanic(err); ok {
		return h.Failf("C11|panic|calls|"+ank.NormPanic(hp.Value), "%s\nescaped panic: %v", ctx(), hp.Value)
	}
	if len(rec.calls) > 1 {
		return h.Failf("C11|calls|invoked-twice|"+p.shape, "%s\nhost function invoked %d times", ctx(), len(rec.calls))
	}
	if err != nil && len(rec.calls) > 0 && p.out != oNoCrash {
		return h.Failf("C11|calls|error-after-invocation|"+p.shape, "%s\nthe host function was invoked and the call still failed: %v", ctx(), err)
	}
	switch p.out {
	case oNoCrash:
		return nil
	case oErr:
		if err == nil {
			return h.Failf("C11|calls|missing-error|"+p.shape+"|"+p.why+":"+p.whyCell, "%s\nreference: the call must fail (%s %s)\nanko returned %s, host invoked %d times", ctx(), p.why, p.whyCell, ank.Describe(got), len(rec.calls))
		}
		if len(rec.calls) != 0 {
			return h.Failf("C11|calls|invoked-despite-error|"+p.shape+"|"+p.why, "%s\nreference: the call must fail (%s) without invoking the host\nhost was invoked; error: %v", ctx(), p.why, err)
		}
		return nil
	case oWeak:
		if err != nil {
			return nil // error without invocation (checked above) is admitted
		}
	case oOK:
		if err != nil {
			return h.Failf("C11|calls|unexpected-error|"+p.shape+"|"+firstCell(&p), "%s\nreference: the call succeeds\nanko error: %v", ctx(), err)
		}
	}
	if len(rec.calls) != 1 {
		return h.Failf("C11|calls|not-invoked|"+p.shape, "%s\nthe call returned %s without error but the host function was not invoked", ctx(), ank.Describe(got))
	}
	if i, msg := checkParams(ft, rec.calls[0], &p); msg != "" {
		cell := "arity"
		if i >= 0 {
			cell = kindName(ft.In(i))
		}
		if i >= 0 && p.either[i] {
			return h.Failf("C11|calls|one-char-string|"+p.shape+"|->"+cell, "%s\nGo has no conversion from a string to a byte / rune: the call fails with an error, or (the documented special case) the one character of the string arrives\n%s", ctx(), msg)
		}
		return h.Failf("C11|calls|wrong-arg|"+p.shape+"|->"+cell, "%s\n%s", ctx(), msg)
	}
	want := expectResult(results)
	if !same(reflect.ValueOf(got), want, false) {
		return h.Failf("C11|calls|wrong-result|nres="+strconv.Itoa(len(results)), "%s\nhost returned %s\nscript received %s, want %s", ctx(), descList(results), desc(reflect.ValueOf(got)), desc(want))
	}
	return nil
}

func firstCell(p *plan) string {
	if len(p.cells) > 0 {
		return p.cells[0]
	}
	return "-"
}

func descList(vs []reflect.Value) string {
	parts := make([]string, len(vs))
	for i, v := range vs {
		parts[i] = desc(v)
	}
	return "(" + strings.Join(parts, ", ") + ")"
}

// ====================================================================

func TestC11(t *testing.T) {
	c := h.New(t, "C11")
	defer c.Finish()
	// C11_ONLY=<sub-check>[,<sub-check>] generates cases for those sub-checks only (development aid; the
	// driver never sets it)
	only := func(name string, n int) int {
		v := os.Getenv("C11_ONLY")
		if v == "" {
			return n
		}
		for _, s := range strings.Split(v, ",") {
			if s == name {
				return n
			}
		}
		return 0
	}
	c.Rule("calls: reflect.FuncOf signature over the pool (0-4 fixed parameters, optional variadic tail, 0-3 results) with a recording MakeFunc host; arguments are script literals (int, float, string, bool, nil, list, map) or bound Go pool values, aimed at the parameter types 87% of the time; shapes fixed/variadic x plain/spread, 20% wrong counts; non-trivial = some argument needs a non-identity conversion or the function is variadic or the call spreads or there are >= 2 results; distinct by (signature, source, bound values)")
	h.Run(c, "calls", only("calls", c.N(100000, 400000)), genCallCase, callOracle)
	c.Rule("members: struct pool value S reached by value, by pointer, as addressable slice element, as map value, inside a script list, through a pointer field; field read, field write (value aimed at the field type), method call (8 value-receiver and 4 pointer-receiver methods incl. variadic and multi-result, arguments as in calls, also through a bound method value), unknown member; reference = Go's own field access / method call on a copy with goConvert'ed parameters; non-trivial = everything except a plain field read on a by-value receiver")
	h.Run(c, "members", only("members", c.N(40000, 160000)), genMemCase, memOracle)
	c.Rule("history: 2-3 values of struct types that share the field names A,B,C,D,E at different positions (4 unnamed struct literals, 3 reflect.StructOf types, 3 function-local types all named P, script-made make(struct{...}) with drawn field order), bound by pointer or by value; 2-4 member reads/writes in drawn order (the same field name is preferred on consecutive steps), every read judged against Go's own field access on a reference copy, final states compared; non-trivial = at least two distinct struct types in the history")
	h.Run(c, "history", only("history", c.N(20000, 80000)), genHistCase, histOracle)
	c.Rule("callbacks: script function (fixed arity, variadic, fixed+variadic, wrong arity) passed where a MakeFunc host expects func(T1..Tn)(R1..Rm), n<=3 (n = 4..7 one time in five), m<=2; host invokes it 1-2 times with pool values; the function reports its parameters to a Go recorder and returns literals / its own parameters / wrong counts, throws or hits a runtime error; with and without try/catch around the enclosing call; all cases non-trivial")
	h.Run(c, "callbacks", only("callbacks", c.N(40000, 160000)), genCbCase, cbOracle)
	c.Rule("identity: Go pool value (46 types x seeds) bound to x and read back through 0-4 of: list element, map member/index, Go id(x), Go variadic idv, script identity functions (fixed, 2-ary, variadic, list-returning), variable, multi-assignment, ternary, parentheses; non-trivial = at least one step; distinct by (type, seed, source)")
	h.Run(c, "identity", only("identity", c.N(25000, 100000)), genIdCase, idOracle)
	c.Rule("named: a named slice, integer or map Go type with value- and pointer-receiver methods, bound by pointer, by value, or as a pointer held in a script list / map; 1-4 method calls in a row judged against Go's own calls on a twin (results and the value left behind the pointer); a pointer-receiver method on a by-value binding must be an error; all cases non-trivial")
	h.Run(c, "named", only("named", c.N(6000, 40000)), genNamed, oracleNamed)
	c.Rule("nilbind: 2-4 names bound to nil with Env.Define in one or in two unrelated environments, optionally one more bound after the write; a script writes a value to the first one (through a pointer, a pointer passed to a function, a pointer to the pointer, or by assignment); every other name must still read nil, from the host and from a script; all cases non-trivial")
	h.Run(c, "nilbind", only("nilbind", c.N(3000, 20000)), genNilBind, oracleNilBind)
	c.Rule("parallel: a script function (1-3 parameters; returns its first parameter, their sum, or their joined text) handed to a Go function as func(int64...) interface{} and invoked from 2/4/8 goroutines at once, 200-3000 calls each with arguments unique to the call, GOMAXPROCS 2/4/16; every invocation must return the value computed from its own arguments; non-trivial = at least 2 goroutines")
	h.Run(c, "parallel", only("parallel", c.N(60, 400)), genParallel, oracleParallel)
	c.Rule("reconv: one script list or map handed to a Go function ([]int64 / []float64 / []string / map[string]int64 parameter) 2-4 times and changed in place between the calls; every call must receive the container as it is at that moment; all cases non-trivial. arrayptr: a list of 0-5 elements (untyped or []int64) passed to a Go parameter of type [3]int64, [0]int64, *[3]int64 or *[3]interface{}: an error or an exact image, never a panic")
	h.Run(c, "reconv", only("reconv", c.N(4000, 30000)), genReconv, oracleReconv)
	h.Run(c, "arrayptr", only("arrayptr", c.N(1500, 8000)), genArrayPtr, oracleArrayPtr)
	c.Rule("gocall: the signatures, arguments and reference of `calls` (0-3 fixed parameters, variadic tail half of the time, spread half of the time, 15% wrong counts) with the call launched by the go statement, through the routes name / variable / map member / parenthesised; the recording host hands its parameters to the oracle over a channel; judged when the reference says the call succeeds: no error, the host is invoked (waited for, 20 s before 'never') with exactly the planned parameters; all cases non-trivial")
	h.Run(c, "gocall", only("gocall", c.N(2500, 12000)), genGoCallCase, goCallOracle)
	c.Rule("vcallbacks: script function passed where a MakeFunc host expects a VARIADIC func type func(T1..Tk, ...E) [interface{} | int64], k = 0-3, E = int64 / string / interface{} (70%) or any pool type; directly, as second parameter, bound to a variable first, or as the element of a []func parameter; the host invokes it 1-3 times with 0, 1 or several (up to 4) variadic arguments, written one by one or handed over as a slice (f(a, xs...)); the script function is variadic from the same position (60%), from an earlier position (30%) or not variadic (10%: only its fixed parameters are judged); it reports its parameters to a Go recorder and returns nothing, its variadic list, the length of that list, or throws; all cases non-trivial")
	h.Run(c, "vcallbacks", only("vcallbacks", c.N(9000, 40000)), genVCbCase, vcbOracle)
	c.Rule("liveargs: a Go function (recording MakeFunc host reached by name / variable / map member / deferred, or a pointer-receiver method with interface{} parameters; fixed or variadic, plain or with a spread last argument) called with 2-4 argument expressions over 1-2 places (element of a bound or script-made typed slice, element of a bound []interface{}, field of a bound *S, field of an element of a bound []S, dereferenced bound pointer; controls: variable, script list element, map entry): an argument reads a place, calls a script function or a Go function that overwrites a place and returns a number (or a list that is spread), or is a literal; parameter types are the value's own type, interface{}, or a converting type; reference: one left-to-right walk over the list; non-trivial = some place is read and overwritten by a later argument (80% by construction)")
	h.Run(c, "liveargs", only("liveargs", c.N(7000, 30000)), genLiveCase, liveOracle)
	c.Rule("goseq: a script of 2-4 calls of 1-4 recording MakeFunc hosts (signatures, arguments and reference of `calls`: 0-3 fixed parameters, variadic tail six times in ten, spread half of the time, counts always fitting), every call plain (30%) or launched with go (70%), through the routes name / variable / map member / parenthesised; a later call uses the host of an earlier one six times in ten (same function, new arguments); between two calls sometimes an unrelated statement (a Go call, a variadic Go call, a variadic or fixed script function call, an assignment); calls whose own reference is not 'succeeds' are left out of the script (counted); judged: no error, and per host the invocations received (waited for, 20 s before 'never') are exactly the planned ones, one per call, in any order; non-trivial = at least two judged calls")
	h.Run(c, "goseq", only("goseq", c.N(6000, 30000)), genGoSeqCase, goSeqOracle)
	c.Rule("laterargs: a function body (named, anonymous, or the top level) of 1-2 calls of Go functions - deferred (60%), launched with go (30%) or plain; recording MakeFunc host by name / variable / map member / parenthesised, or a pointer-receiver method; fixed arity (70%) or variadic; 1-3 arguments, each the read of a place (kinds of liveargs: element of a bound or script-made typed slice, of a bound []interface{}, field of a bound *S, field of an element of a bound []S, dereferenced bound pointer; controls: variable, script list element, map entry) or a literal; parameter types: the value's own type, interface{}, or a converting type - and, after every call statement, 0-3 stores into the places (assignment, a script function that assigns, a Go function that stores Go-side), nine times in ten first of all into the place the LAST argument read; reference: one walk over the body, a call receives the values its places held when its statement was executed; go calls are waited for (20 s before 'never'); non-trivial = a place read by a deferred or go call is stored into afterwards")
	h.Run(c, "laterargs", only("laterargs", c.N(6000, 30000)), genLaterCase, laterOracle)
	c.Rule("ptrmix: a recording MakeFunc host with 1-3 parameters of type T, *T or **T over 13 base types (int64, int32, float64, string, MyInt, MyStr, S, []int64, map[string]int64, bool, uint8, [2]int64, interface{}), one time in five as element type of a slice or value type of a map parameter, one time in four with a variadic tail; every argument (element) is a value or literal, a pointer 1-3 levels deep, a typed nil pointer or nil, of the same base type (60%), of a base type Go converts (25%) or of any other; pointer depth equal to the parameter's (35%), one less / one more (53%); four call shapes, routes name / variable / map member / parenthesised, hops as in calls; reference: planCall / goConvert, where a value for a pointer parameter and a non-nil pointer for a non-pointer, non-interface parameter have no conversion; non-trivial = some argument's pointer depth differs from its parameter's")
	h.Run(c, "ptrmix", only("ptrmix", c.N(6000, 30000)), genPmCase, pmOracle)
	c.Rule("retained: a script function (0-3 parameters over the pool, or variadic; 0-2 declared results; returns parameters / values aimed at the result types, or throws; written in place or bound to a name first) is handed to a Go function that KEEPS it - as the only or the second parameter, in a variadic tail, as element of a []func, as value of a map[string]func, through a spread list - by a run whose context is context.Background(), a context that stays live (controls), or a context that is cancelled / released / whose parent is cancelled once that run has returned (75%); then Go invokes it 1-3 times: during the receiving call (first invocation only), directly from Go, or from a later run (vm.Execute, a run with a live context of its own, a run in another environment; with try/catch one time in four); every invocation judged like one of `callbacks`: the function sees the arguments Go passes, the Go caller receives the converted results, an error surfaces as an error of the enclosing call of the later run; non-trivial = an invocation after the context of the handing run was cancelled")
	h.Run(c, "retained", only("retained", c.N(4000, 20000)), genRetCase, retOracle)
}
