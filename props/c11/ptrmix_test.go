package c11

import (
	"fmt"
	"reflect"
	"strconv"
	"strings"

	"github.com/mattn/anko/env"
	"pgregory.net/rapid"

	"verif/internal/ank"
	"verif/internal/h"
)

// ====================================================================
// ptrmix: arguments whose pointer-ness differs from the parameter's
// ====================================================================
//
// "a script value passed to a Go parameter of type T arrives as the value Go's own conversion to T
// would produce …, or the call fails with an error when no conversion exists." Go has no conversion
// between a type and a pointer to it, in either direction: a value handed where *T is declared, or
// a (non-nil) pointer handed where the value type is declared, must make the call fail, and the Go
// function must not run. `calls` reaches these cells only through the "neighbour" draw of its
// argument generator and (until the eighth round) did not judge them. Here they are the subject:
// parameter types T, *T, **T over a dozen base types (also as element type of a slice, value type
// of a map, variadic tail), arguments that are values, literals, pointers one to three levels deep,
// typed nil pointers or nil, of the same base type, of a base type Go converts, or of any other; in
// the four call shapes. Controls: equal pointer depth and type (the very pointer arrives), nil,
// interface{} parameters (a pointer is a value like any other). The reference is goConvert / planCall
// of `calls`; pointer-to-pointer re-typing (*int64 for *float64) stays unasserted.

// PmType describes a parameter type: Ptr levels of pointer over pool type T, optionally wrapped.
type PmType struct {
	T    int    `json:"t"`
	Ptr  int    `json:"ptr"`
	Wrap string `json:"wrap,omitempty"` // "" | slice ([]X) | map (map[string]X)
}

func (p PmType) elem() (reflect.Type, bool) {
	if p.T < 0 || p.T >= len(Pool) || p.Ptr < 0 || p.Ptr > 3 {
		return nil, false
	}
	t := Pool[p.T].T
	for i := 0; i < p.Ptr; i++ {
		t = reflect.PtrTo(t)
	}
	return t, true
}

func (p PmType) typ() (reflect.Type, bool) {
	t, ok := p.elem()
	if !ok {
		return nil, false
	}
	switch p.Wrap {
	case "":
		return t, true
	case "slice":
		return reflect.SliceOf(t), true
	case "map":
		return reflect.MapOf(reflect.TypeOf(""), t), true
	}
	return nil, false
}

// PmCase is one call.
type PmCase struct {
	In        []PmType `json:"in"`
	HasVar    bool     `json:"has_var"`
	Var       PmType   `json:"var"`
	Args      []SV     `json:"args"`
	HasSpread bool     `json:"has_spread"`
	Spread    SV       `json:"spread"`
	Route     string   `json:"route"`
}

// the base types: int64 int32 float64 string MyInt MyStr S []int64 map[string]int64 bool uint8 [2]int64 interface{}
var pmBases = []int{5, 4, 12, 13, 16, 17, 35, 19, 28, 0, 7, 26, 14}

// pmGroup: base types Go converts into each other
func pmGroup(ti int) []int {
	switch ti {
	case 5, 4, 12, 16, 7:
		return []int{5, 4, 12, 16, 7}
	case 13, 17:
		return []int{13, 17}
	}
	return []int{ti}
}

func genPmType(t *rapid.T, wraps bool) PmType {
	p := PmType{T: rapid.SampledFrom(pmBases).Draw(t, "base"), Ptr: rapid.SampledFrom([]int{0, 0, 1, 1, 1, 1, 2}).Draw(t, "ptr")}
	if wraps {
		p.Wrap = rapid.SampledFrom([]string{"", "", "", "", "", "", "", "slice", "slice", "map"}).Draw(t, "wrap")
	}
	return p
}

// genPmElem draws an argument for a parameter (element) of pointer depth pd over base type ti.
func genPmElem(t *rapid.T, ti, pd int) SV {
	base := ti
	switch r := rapid.IntRange(0, 99).Draw(t, "argbase"); {
	case r < 60:
	case r < 85:
		g := pmGroup(ti)
		base = g[rapid.IntRange(0, len(g)-1).Draw(t, "neighbour")]
	default:
		base = rapid.SampledFrom(pmBases).Draw(t, "anybase")
	}
	ad, typedNil := pd, false
	switch r := rapid.IntRange(0, 99).Draw(t, "argdepth"); {
	case r < 35:
	case r < 65:
		if pd > 0 {
			ad = pd - 1
		} else {
			ad = 1
		}
	case r < 88:
		ad = pd + 1
	case r < 94:
		return SV{K: "n"}
	default:
		typedNil = true
		if ad == 0 {
			ad = 1
		}
	}
	if ad > 3 {
		ad = 3
	}
	var sv SV
	if ad == 0 {
		sv = SV{K: "g", T: base, Seed: rapid.IntRange(0, 60).Draw(t, "gseed")}
		if rapid.Bool().Draw(t, "literal") {
			switch base {
			case 5, 4, 16, 7:
				sv = SV{K: "i", I: rapid.Int64Range(0, 200).Draw(t, "ilit")}
			case 12:
				sv = SV{K: "f", FB: genFloatBits(t)}
			case 13, 17:
				sv = SV{K: "s", S: rapid.SampledFrom([]string{"", "a", "ab", "é"}).Draw(t, "slit")}
			case 0:
				sv = SV{K: "b", B: rapid.Bool().Draw(t, "blit")}
			}
		}
	} else {
		sv = SV{K: "p", T: base, Seed: rapid.IntRange(0, 60).Draw(t, "pseed"), I: int64(ad), B: typedNil}
	}
	if rapid.IntRange(0, 4).Draw(t, "hop") == 0 {
		sv.Hop = rapid.SampledFrom(hopNames).Draw(t, "hopname")
	}
	return sv
}

func genPmArg(t *rapid.T, p PmType) SV {
	switch p.Wrap {
	case "slice":
		n := rapid.IntRange(1, 2).Draw(t, "ln")
		sv := SV{K: "l", L: []SV{}}
		for i := 0; i < n; i++ {
			sv.L = append(sv.L, genPmElem(t, p.T, p.Ptr))
		}
		return sv
	case "map":
		n := rapid.IntRange(1, 2).Draw(t, "mn")
		sv := SV{K: "m", L: []SV{}, MK: []SV{}}
		for i := 0; i < n; i++ {
			sv.MK = append(sv.MK, SV{K: "s", S: []string{"a", "b"}[i]})
			sv.L = append(sv.L, genPmElem(t, p.T, p.Ptr))
		}
		return sv
	}
	return genPmElem(t, p.T, p.Ptr)
}

func genPmCase(t *rapid.T) PmCase {
	c := PmCase{In: []PmType{}, Args: []SV{}}
	nFixed := rapid.SampledFrom([]int{1, 1, 1, 2, 2, 3}).Draw(t, "nfixed")
	c.HasVar = rapid.IntRange(0, 3).Draw(t, "variadic") == 0
	if c.HasVar {
		nFixed--
		c.Var = genPmType(t, false)
	}
	for i := 0; i < nFixed; i++ {
		c.In = append(c.In, genPmType(t, true))
	}
	c.HasSpread = rapid.IntRange(0, 3).Draw(t, "spread") == 0
	c.Route = rapid.SampledFrom([]string{"name", "name", "name", "var", "member", "anon"}).Draw(t, "route")
	switch {
	case c.HasVar && c.HasSpread:
		for _, p := range c.In {
			c.Args = append(c.Args, genPmArg(t, p))
		}
		c.Spread = genPmArg(t, PmType{T: c.Var.T, Ptr: c.Var.Ptr, Wrap: "slice"})
	case c.HasVar:
		for _, p := range c.In {
			c.Args = append(c.Args, genPmArg(t, p))
		}
		for n := rapid.IntRange(1, 2).Draw(t, "ntail"); n > 0; n-- {
			c.Args = append(c.Args, genPmArg(t, c.Var))
		}
	case c.HasSpread:
		m := rapid.IntRange(0, nFixed-1).Draw(t, "nplain")
		for i := 0; i < m; i++ {
			c.Args = append(c.Args, genPmArg(t, c.In[i]))
		}
		c.Spread = SV{K: "l", L: []SV{}}
		for i := m; i < nFixed; i++ {
			c.Spread.L = append(c.Spread.L, genPmArg(t, c.In[i]))
		}
	default:
		for _, p := range c.In {
			c.Args = append(c.Args, genPmArg(t, p))
		}
	}
	return c
}

// pmDepth names the pointer depth of a script-side value.
func pmDepth(v reflect.Value) string {
	v = unwrap(v)
	if !v.IsValid() {
		return "nil"
	}
	d := 0
	t := v.Type()
	for t.Kind() == reflect.Ptr {
		d++
		t = t.Elem()
	}
	if d > 0 {
		// the nil-ness of the outermost pointer
		if v.IsNil() {
			return "nilptr" + strconv.Itoa(d)
		}
		return "ptr" + strconv.Itoa(d)
	}
	return "value"
}

// pmPairClass counts one (argument, parameter) meeting.
func pmPairClass(o *h.Obs, where string, v reflect.Value, T reflect.Type) bool {
	switch T.Kind() {
	case reflect.Slice:
		if l := unwrap(v); l.IsValid() && l.Kind() == reflect.Slice && l.Type() == reflect.TypeOf([]interface{}(nil)) {
			differs := false
			for i := 0; i < l.Len(); i++ {
				if pmPairClass(o, where+":slice-element", l.Index(i), T.Elem()) {
					differs = true
				}
			}
			return differs
		}
	case reflect.Map:
		if m := unwrap(v); m.IsValid() && m.Kind() == reflect.Map && m.Type() == reflect.TypeOf(map[interface{}]interface{}(nil)) {
			differs := false
			it := m.MapRange()
			for it.Next() {
				if pmPairClass(o, where+":map-value", it.Value(), T.Elem()) {
					differs = true
				}
			}
			return differs
		}
	}
	pd := 0
	bt := T
	for bt.Kind() == reflect.Ptr {
		pd++
		bt = bt.Elem()
	}
	ps := "value"
	if pd > 0 {
		ps = "ptr" + strconv.Itoa(pd)
	}
	if bt == tIface && pd == 0 {
		ps = "iface"
	}
	as := pmDepth(v)
	rel := "-"
	if u := unwrap(v); u.IsValid() {
		at := u.Type()
		for at.Kind() == reflect.Ptr {
			at = at.Elem()
		}
		switch {
		case at == bt:
			rel = "same-base"
		case at.ConvertibleTo(bt) && bt.Kind() != reflect.Interface:
			rel = "convertible-base"
		default:
			rel = "other-base"
		}
	}
	o.Class("ptrmix:%s:%s->%s:%s", where, as, ps, rel)
	return as != "nil" && ps != "iface" && strings.TrimPrefix(as, "nil") != ps
}

func pmOracle(c PmCase, o *h.Obs) *h.Fail {
	if len(c.In) > 4 || len(c.Args) > 8 {
		o.Excluded = "bad_case"
		return nil
	}
	var in []reflect.Type
	for _, p := range c.In {
		t, ok := p.typ()
		if !ok {
			o.Excluded = "bad_case"
			return nil
		}
		in = append(in, t)
	}
	if c.HasVar {
		t, ok := c.Var.elem()
		if !ok {
			o.Excluded = "bad_case"
			return nil
		}
		in = append(in, reflect.SliceOf(t))
	}
	if len(in) == 0 {
		o.Excluded = "bad_case"
		return nil
	}
	ft := reflect.FuncOf(in, []reflect.Type{reflect.TypeOf(int64(0))}, c.HasVar)

	b := newBinder()
	callee := "f"
	var pre []string
	switch c.Route {
	case "name":
	case "var":
		pre = append(pre, "hh = f")
		callee = "hh"
	case "member":
		pre = append(pre, "mm = {\"f\": f}")
		callee = "mm.f"
	case "anon":
		callee = "(f)"
	default:
		o.Excluded = "bad_case"
		return nil
	}
	pre2, call, argV, spreadV := renderCall(b, callee, c.Args, c.HasSpread, &c.Spread)
	src := strings.Join(append(append(pre, pre2...), call), "\n")
	results := []reflect.Value{reflect.ValueOf(int64(77))}
	rec := &recorder{results: results}
	p := planCall(ft, argV, c.HasSpread, spreadV)

	var gd []string
	for i, n := range b.names {
		gd = append(gd, n+"="+desc(b.goVs[i]))
	}
	o.Key = ft.String() + "\x00" + src + "\x00" + strings.Join(gd, ";")
	o.Note = fmt.Sprintf("f %s; %s; %s", ft, strings.Join(gd, "; "), strings.ReplaceAll(src, "\n", "; "))
	o.Class("ptrmix:shape:%s:%s", p.shape, p.out)
	o.Class("ptrmix:route:" + c.Route)
	if p.why != "" {
		w := p.why
		if i := strings.Index(w, ":"); i >= 0 && strings.HasPrefix(w, "unasserted") {
			w = w[:i] + ":" + strings.SplitN(w[i+1:], ":", 2)[0]
		}
		o.Class("ptrmix:why:" + w)
	}
	for _, cell := range dedupe(append([]string{}, p.cells...)) {
		o.Class("ptrmix:cell:" + cell)
	}
	// the meetings, position by position (the supplied values in the order planCall lines them up)
	supplied := append([]reflect.Value{}, argV...)
	k := ft.NumIn()
	if c.HasVar {
		k--
	}
	switch {
	case c.HasSpread && !c.HasVar:
		if sp := unwrap(spreadV); sp.IsValid() && sp.Kind() == reflect.Slice {
			for i := 0; i < sp.Len(); i++ {
				supplied = append(supplied, sp.Index(i))
			}
		}
	case c.HasSpread:
		if pmPairClass(o, "spread-tail", spreadV, ft.In(k)) {
			o.NonTrivial = true
		}
	}
	for i, v := range supplied {
		where, T := "fixed", reflect.Type(nil)
		switch {
		case i < k:
			T = ft.In(i)
			if c.HasSpread && !c.HasVar && i >= len(argV) {
				where = "spread-element"
			}
		case c.HasVar:
			where, T = "variadic-tail", ft.In(k).Elem()
		default:
			continue
		}
		if pmPairClass(o, where, v, T) {
			o.NonTrivial = true
		}
	}

	e := env.NewEnv()
	e.Define("id", func(a interface{}) interface{} { return a })
	e.Define("f", rec.fn(ft).Interface())
	defineAll(e, b)
	got, err := ank.Exec(e, src)
	ctx := func() string {
		return fmt.Sprintf("host function f of type %s\n%s\nsource:\n%s", ft, strings.Join(gd, "\n"), src)
	}
	if hp, ok := ank.IsHostPanic(err); ok {
		return h.Failf("C11|panic|ptrmix|"+ank.NormPanic(hp.Value), "%s\nescaped panic: %v", ctx(), hp.Value)
	}
	if len(rec.calls) > 1 {
		return h.Failf("C11|ptrmix|invoked-twice|"+p.shape, "%s\nhost function invoked %d times", ctx(), len(rec.calls))
	}
	if err != nil && len(rec.calls) > 0 && p.out != oNoCrash {
		return h.Failf("C11|ptrmix|error-after-invocation|"+p.shape, "%s\nthe host function was invoked and the call still failed: %v", ctx(), err)
	}
	switch p.out {
	case oNoCrash:
		return nil
	case oErr:
		if err == nil {
			return h.Failf("C11|ptrmix|missing-error|"+p.shape+"|"+p.why+":"+p.whyCell, "%s\nreference: the call must fail (%s %s): Go has no conversion between a type and a pointer to it\nanko returned %s, host invoked %d times", ctx(), p.why, p.whyCell, ank.Describe(got), len(rec.calls))
		}
		if len(rec.calls) != 0 {
			return h.Failf("C11|ptrmix|invoked-despite-error|"+p.shape+"|"+p.why, "%s\nreference: the call must fail (%s) without invoking the host\nhost was invoked; error: %v", ctx(), p.why, err)
		}
		return nil
	case oWeak:
		if err != nil {
			return nil
		}
	case oOK:
		if err != nil {
			return h.Failf("C11|ptrmix|unexpected-error|"+p.shape+"|"+firstCell(&p), "%s\nreference: the call succeeds\nanko error: %v", ctx(), err)
		}
	}
	if len(rec.calls) != 1 {
		return h.Failf("C11|ptrmix|not-invoked|"+p.shape, "%s\nthe call returned %s without error but the host function was not invoked", ctx(), ank.Describe(got))
	}
	if i, msg := checkParams(ft, rec.calls[0], &p); msg != "" {
		cell := "arity"
		if i >= 0 {
			cell = kindName(ft.In(i))
		}
		return h.Failf("C11|ptrmix|wrong-arg|"+p.shape+"|->"+cell, "%s\n%s", ctx(), msg)
	}
	if !same(reflect.ValueOf(got), results[0], false) {
		return h.Failf("C11|ptrmix|wrong-result", "%s\nhost returned int64(77), script received %s", ctx(), ank.Describe(got))
	}
	return nil
}
