package c11

import (
	"fmt"
	"reflect"
	"strconv"
	"strings"

	"github.com/mattn/anko/env"
	"pgregory.net/rapid"

	"verif/internal/ank"
	"verif/internal/h"
)

// ====================================================================
// (2b) calls whose argument list reads AND overwrites a place
// ====================================================================

// LiveCase: a Go function is called with 2-4 argument expressions that are evaluated left to right.
// An argument reads a place (a typed-slice element, a struct field behind a pointer, a dereferenced
// pointer, …), calls a function that overwrites a place and returns a number, or is a literal.
// "Called with exactly the supplied arguments": every parameter is the value its argument
// expression had when it was evaluated — the reference walks the list once, left to right.
type LiveCase struct {
	Slots   []LiveSlot `json:"slots"`
	Args    []LiveArg  `json:"args"`
	VarFrom int        `json:"varfrom"` // -1: the function is not variadic; else its number of fixed parameters
	Spread  int        `json:"spread"`  // > 0: the last argument is a writer that returns a list of this many numbers and is spread (`w()...`)
	TailI   bool       `json:"taili"`   // variadic tail / spread elements meet interface{} instead of int64
	Route   string     `json:"route"`   // name | var | member | method | defer
}

// LiveSlot is one place. Kind:
//
//	ss []string elem   ii []int64 elem   ff []float64 elem   aa []interface{} elem (all bound Go slices)
//	ts / ti: element of a typed slice made by the script ([]string{…} / []int64{…})
//	fB / fA / fE: field B (string) / A (int64) / E (interface{}) of a bound *S
//	xB: field B of an element of a bound []S
//	dS / dI: *p of a bound *string / *int64
//	var: a plain variable   list: element of a script list   map: entry of a script map   (controls)
type LiveSlot struct {
	Kind string `json:"kind"`
	Idx  int    `json:"idx"`
	Init int    `json:"init"`
}

// LiveArg is one argument expression.
type LiveArg struct {
	Op   string `json:"op"`   // read | write | lit
	Slot int    `json:"slot"` // read, write: which place
	Val  int    `json:"val"`  // write: id of the value stored; lit: the number
	Ret  int    `json:"ret"`  // write: the number the writer returns
	Go   bool   `json:"go"`   // write: a Go host function stores Go-side (bound places only)
	P    string `json:"p"`    // parameter type: nat (the value's own type) | iface | conv (string->MyStr, int64->float64, float64->float32)
}

var liveKinds = []string{"ss", "ii", "ff", "aa", "ts", "ti", "fB", "fA", "fE", "xB", "dS", "dI", "var", "list", "map"}

func liveBound(kind string) bool {
	switch kind {
	case "ss", "ii", "ff", "aa", "fB", "fA", "fE", "xB", "dS", "dI":
		return true
	}
	return false
}

// liveSlotClass groups the kinds for signatures.
func liveSlotClass(kind string) string {
	switch kind {
	case "ss", "ii", "ff", "ts", "ti":
		return "typed-slice-element"
	case "aa":
		return "interface-slice-element"
	case "fB", "fA", "fE":
		return "struct-field"
	case "xB":
		return "field-of-slice-element"
	case "dS", "dI":
		return "dereferenced-pointer"
	}
	switch kind {
	case "list":
		return "script-list-element"
	case "map":
		return "map-entry"
	}
	return "variable"
}

// liveVal is the value with the given id as the place of this kind holds it.
func liveVal(kind string, id int) interface{} {
	switch kind {
	case "ss", "ts", "fB", "xB", "dS":
		return "v" + strconv.Itoa(id)
	case "ii", "ti", "fA", "dI":
		return int64(id)
	case "ff":
		return float64(id) + 0.25
	}
	if id%2 == 0 {
		return "v" + strconv.Itoa(id)
	}
	return int64(id)
}

func liveLit(v interface{}) string {
	switch x := v.(type) {
	case string:
		return strconv.Quote(x)
	case int64:
		return strconv.FormatInt(x, 10)
	case float64:
		return strconv.FormatFloat(x, 'f', 2, 64)
	}
	return "nil"
}

func genLiveCase(t *rapid.T) LiveCase {
	c := LiveCase{VarFrom: -1}
	ns := rapid.SampledFrom([]int{1, 1, 2}).Draw(t, "nslots")
	for i := 0; i < ns; i++ {
		kind := rapid.SampledFrom(liveKinds).Draw(t, "kind")
		c.Slots = append(c.Slots, LiveSlot{Kind: kind, Idx: rapid.IntRange(0, 2).Draw(t, "idx"), Init: rapid.IntRange(0, 9).Draw(t, "init")})
	}
	n := rapid.IntRange(2, 4).Draw(t, "nargs")
	next := 10
	for i := 0; i < n; i++ {
		a := LiveArg{Slot: rapid.IntRange(0, ns-1).Draw(t, "slot"), P: rapid.SampledFrom([]string{"nat", "nat", "iface", "iface", "conv"}).Draw(t, "p")}
		switch rapid.IntRange(0, 9).Draw(t, "op") {
		case 0:
			a.Op, a.Val = "lit", rapid.IntRange(0, 99).Draw(t, "lit")
		case 1, 2, 3, 4:
			a.Op = "read"
		default:
			a.Op = "write"
		}
		if a.Op == "write" {
			a.Val, a.Ret = next, 100+next
			next++
			a.Go = liveBound(c.Slots[a.Slot].Kind) && rapid.IntRange(0, 3).Draw(t, "gowriter") == 0
		}
		c.Args = append(c.Args, a)
	}
	// most of the time: make sure some place is read and overwritten later in the list
	if rapid.IntRange(0, 9).Draw(t, "force") < 8 {
		i := rapid.IntRange(0, n-2).Draw(t, "readat")
		j := rapid.IntRange(i+1, n-1).Draw(t, "writeat")
		s := c.Args[i].Slot
		c.Args[i].Op = "read"
		c.Args[j] = LiveArg{Op: "write", Slot: s, Val: next, Ret: 100 + next, P: c.Args[j].P,
			Go: liveBound(c.Slots[s].Kind) && rapid.IntRange(0, 3).Draw(t, "gowriter2") == 0}
	}
	c.TailI = rapid.Bool().Draw(t, "taili")
	if c.Args[n-1].Op == "write" && rapid.IntRange(0, 3).Draw(t, "spread") == 0 {
		c.Spread = rapid.IntRange(1, 2).Draw(t, "spreadn")
		c.Args[n-1].Go = false
	}
	if rapid.IntRange(0, 9).Draw(t, "variadic") < 4 {
		if c.Spread > 0 {
			c.VarFrom = n - 1
		} else {
			c.VarFrom = rapid.IntRange(0, n).Draw(t, "varfrom")
		}
	}
	c.Route = rapid.SampledFrom([]string{"name", "name", "name", "var", "member", "method", "method", "defer"}).Draw(t, "route")
	return c
}

// liveObj carries the pointer-receiver methods of route "method"; every parameter is interface{}.
type liveObj struct {
	calls [][]reflect.Value
	// arrived, when set, is told about every invocation (calls made on another goroutine: `laterargs`)
	arrived chan struct{}
}

func (o *liveObj) tell() {
	if o.arrived != nil {
		select {
		case o.arrived <- struct{}{}:
		default:
		}
	}
}

func (o *liveObj) rec(ps ...*interface{}) int64 {
	in := make([]reflect.Value, len(ps))
	for i, p := range ps {
		in[i] = reflect.ValueOf(p).Elem()
	}
	o.calls = append(o.calls, in)
	o.tell()
	return 77
}
func (o *liveObj) recv(rest []interface{}, ps ...*interface{}) int64 {
	in := make([]reflect.Value, len(ps), len(ps)+1)
	for i, p := range ps {
		in[i] = reflect.ValueOf(p).Elem()
	}
	o.calls = append(o.calls, append(in, reflect.ValueOf(rest)))
	o.tell()
	return 77
}
func (o *liveObj) M1(a interface{}) int64                   { return o.rec(&a) }
func (o *liveObj) M2(a, b interface{}) int64                { return o.rec(&a, &b) }
func (o *liveObj) M3(a, b, c interface{}) int64             { return o.rec(&a, &b, &c) }
func (o *liveObj) M4(a, b, c, d interface{}) int64          { return o.rec(&a, &b, &c, &d) }
func (o *liveObj) M5(a, b, c, d, e interface{}) int64       { return o.rec(&a, &b, &c, &d, &e) }
func (o *liveObj) V0(r ...interface{}) int64                { return o.recv(r) }
func (o *liveObj) V1(a interface{}, r ...interface{}) int64 { return o.recv(r, &a) }
func (o *liveObj) V2(a, b interface{}, r ...interface{}) int64 {
	return o.recv(r, &a, &b)
}
func (o *liveObj) V3(a, b, c interface{}, r ...interface{}) int64 {
	return o.recv(r, &a, &b, &c)
}
func (o *liveObj) V4(a, b, c, d interface{}, r ...interface{}) int64 {
	return o.recv(r, &a, &b, &c, &d)
}

func liveOracle(c LiveCase, o *h.Obs) *h.Fail {
	n := len(c.Args)
	if len(c.Slots) < 1 || len(c.Slots) > 4 || n < 1 || n > 6 || c.Spread < 0 || c.Spread > 3 || c.VarFrom > n {
		o.Excluded = "bad_case"
		return nil
	}
	if c.Spread > 0 && (c.Args[n-1].Op != "write" || c.Args[n-1].Go || (c.VarFrom >= 0 && c.VarFrom != n-1)) {
		o.Excluded = "bad_case"
		return nil
	}
	e := env.NewEnv()

	// ---- the places: bound to / made under the names s0, s1, …; cur is the reference's state
	cur, expr, goStore, pre, okPlaces := livePlaces(e, c.Slots)
	if !okPlaces {
		o.Excluded = "bad_case"
		return nil
	}
	initial := append([]interface{}{}, cur...)

	// ---- the argument list, walked once from left to right
	argV := make([]reflect.Value, 0, n)
	var spreadV reflect.Value
	parts := make([]string, 0, n)
	pkind := make([]string, 0, n) // wanted parameter kind per supplied plain argument
	readAt := map[int]int{}       // place -> position of its first read that is still followed by …
	pattern := "no-read-before-write"
	staleClass, staleP := "", ""
	staleAt := make([]string, n) // per argument: the class of its place if it reads a place that a later argument overwrites
	for i, a := range c.Args {
		if a.Slot < 0 || a.Slot >= len(c.Slots) {
			o.Excluded = "bad_case"
			return nil
		}
		kind := c.Slots[a.Slot].Kind
		switch a.Op {
		case "lit":
			parts = append(parts, strconv.Itoa(a.Val))
			argV = append(argV, reflect.ValueOf(int64(a.Val)))
		case "read":
			parts = append(parts, expr[a.Slot])
			argV = append(argV, reflect.ValueOf(cur[a.Slot]))
			if _, ok := readAt[a.Slot]; !ok {
				readAt[a.Slot] = i
			}
		case "write":
			if a.Go && (!liveBound(kind) || goStore[a.Slot] == nil) {
				o.Excluded = "bad_case"
				return nil
			}
			nv := liveVal(kind, a.Val)
			w := "w" + strconv.Itoa(i)
			ret := strconv.Itoa(a.Ret)
			if c.Spread > 0 && i == n-1 {
				rs := make([]string, c.Spread)
				list := make([]interface{}, c.Spread)
				for j := range rs {
					rs[j] = strconv.Itoa(a.Ret + j)
					list[j] = int64(a.Ret + j)
				}
				ret = "[" + strings.Join(rs, ", ") + "]"
				spreadV = reflect.ValueOf(list)
			} else {
				argV = append(argV, reflect.ValueOf(int64(a.Ret)))
			}
			if a.Go {
				store, r := goStore[a.Slot], int64(a.Ret)
				e.Define(w, func() int64 { store(nv); return r })
			} else {
				pre = append(pre, w+" = func() { "+expr[a.Slot]+" = "+liveLit(nv)+"; return "+ret+" }")
			}
			parts = append(parts, w+"()")
			cur[a.Slot] = nv
			for j := 0; j < i; j++ {
				if c.Args[j].Op == "read" && c.Args[j].Slot == a.Slot {
					staleAt[j] = liveSlotClass(kind)
				}
			}
			if at, ok := readAt[a.Slot]; ok && staleClass == "" {
				pattern = "read-then-overwritten"
				staleClass, staleP = liveSlotClass(kind), c.Args[at].P
				if c.Route == "method" {
					staleP = "iface"
				}
			}
		default:
			o.Excluded = "bad_case"
			return nil
		}
		if !(c.Spread > 0 && i == n-1) {
			p := a.P
			if c.Route == "method" {
				p = "iface"
			}
			pkind = append(pkind, p)
		}
	}
	if c.Spread > 0 {
		parts[n-1] += "..."
	}

	// ---- the function type
	typeFor := func(v reflect.Value, p string) reflect.Type {
		switch p {
		case "iface":
			return tIface
		case "conv":
			switch v.Kind() {
			case reflect.String:
				return reflect.TypeOf(MyStr(""))
			case reflect.Int64:
				return reflect.TypeOf(float64(0))
			case reflect.Float64:
				return reflect.TypeOf(float32(0))
			}
		}
		return v.Type()
	}
	tailElem := reflect.TypeOf(int64(0))
	if c.TailI || c.Route == "method" {
		tailElem = tIface
	}
	var in []reflect.Type
	nFixedArgs := len(argV)
	if c.VarFrom >= 0 && c.VarFrom < nFixedArgs {
		nFixedArgs = c.VarFrom
	}
	for i := 0; i < nFixedArgs; i++ {
		in = append(in, typeFor(argV[i], pkind[i]))
	}
	if c.VarFrom >= 0 {
		if c.Spread == 0 {
			// the arguments after the fixed ones go to the tail: one element type for all of them
			for i := nFixedArgs; i < len(argV); i++ {
				if argV[i].Kind() != reflect.Int64 {
					tailElem = tIface
				}
			}
		}
		in = append(in, reflect.SliceOf(tailElem))
	} else {
		for j := 0; j < c.Spread; j++ {
			in = append(in, tailElem)
		}
	}
	if c.Route == "method" && (len(in) < 1 || len(in) > 5) {
		o.Excluded = "bad_case"
		return nil
	}
	ft := reflect.FuncOf(in, []reflect.Type{reflect.TypeOf(int64(0))}, c.VarFrom >= 0)
	p := planCall(ft, argV, c.Spread > 0, spreadV)

	// ---- host and call
	rec := &recorder{results: []reflect.Value{reflect.ValueOf(int64(77))}}
	obj := &liveObj{}
	callee := "f"
	switch c.Route {
	case "name", "defer":
		e.Define("f", rec.fn(ft).Interface())
	case "var":
		e.Define("f", rec.fn(ft).Interface())
		pre = append(pre, "hh = f")
		callee = "hh"
	case "member":
		e.Define("f", rec.fn(ft).Interface())
		pre = append(pre, "mm = {\"f\": f}")
		callee = "mm.f"
	case "method":
		e.Define("obj", obj)
		if c.VarFrom >= 0 {
			callee = "obj.V" + strconv.Itoa(len(in)-1)
		} else {
			callee = "obj.M" + strconv.Itoa(len(in))
		}
	default:
		o.Excluded = "bad_case"
		return nil
	}
	call := callee + "(" + strings.Join(parts, ", ") + ")"
	if c.Route == "defer" {
		call = "func() { defer " + call + " }()"
	}
	src := strings.Join(append(pre, call), "\n")

	var gd []string
	for i, sl := range c.Slots {
		if liveBound(sl.Kind) {
			gd = append(gd, fmt.Sprintf("s%d: Go place %s, holds %s", i, liveSlotClass(sl.Kind), desc(reflect.ValueOf(initial[i]))))
		}
	}
	for i, a := range c.Args {
		if a.Op == "write" && a.Go {
			gd = append(gd, fmt.Sprintf("w%d: Go func() int64 that stores %s in %s and returns %d", i, desc(reflect.ValueOf(liveVal(c.Slots[a.Slot].Kind, a.Val))), expr[a.Slot], a.Ret))
		}
	}
	fdesc := "host function f of type " + ft.String()
	if c.Route == "method" {
		fdesc = "method " + callee + " of type " + ft.String()
	}
	o.Key = ft.String() + "\x00" + src + "\x00" + strings.Join(gd, ";")
	o.Note = fmt.Sprintf("%s; %s; %s", fdesc, strings.Join(gd, "; "), strings.ReplaceAll(src, "\n", "; "))
	o.NonTrivial = pattern == "read-then-overwritten"
	o.Class("liveargs:pattern:" + pattern)
	o.Class("liveargs:shape:" + p.shape)
	o.Class("liveargs:route:" + c.Route)
	for _, sl := range c.Slots {
		o.Class("liveargs:place:" + sl.Kind)
	}
	if staleClass != "" {
		o.Class("liveargs:overwritten:%s:->%s", staleClass, staleP)
		o.Class("liveargs:overwritten:%s:%s", staleClass, p.shape)
	}
	for _, a := range c.Args {
		if a.Op == "write" {
			if a.Go {
				o.Class("liveargs:writer:go")
			} else {
				o.Class("liveargs:writer:script")
			}
		}
	}
	if c.Spread > 0 {
		o.Class("liveargs:writer:spread")
	}
	ctx := func() string {
		return fmt.Sprintf("%s\n%s\nsource:\n%s", fdesc, strings.Join(gd, "\n"), src)
	}
	if p.out != oOK {
		// the generator only builds calls the reference accepts
		o.Excluded = "bad_case"
		return nil
	}

	got, err := ank.Exec(e, src)
	if hp, ok := ank.IsHostPanic(err); ok {
		return h.Failf("C11|panic|liveargs|"+ank.NormPanic(hp.Value), "%s\nescaped panic: %v", ctx(), hp.Value)
	}
	if err != nil {
		return h.Failf("C11|liveargs|unexpected-error|"+p.shape, "%s\nreference: the call succeeds\nanko error: %v", ctx(), err)
	}
	calls := rec.calls
	if c.Route == "method" {
		calls = obj.calls
	}
	if len(calls) != 1 {
		return h.Failf("C11|liveargs|invocations|"+p.shape, "%s\nthe Go function was invoked %d times, want once", ctx(), len(calls))
	}
	if pi, msg := checkParams(ft, calls[0], &p); msg != "" {
		// name the place behind the parameter that differs
		cls := ""
		switch {
		case pi >= 0 && pi < nFixedArgs:
			cls = staleAt[pi]
		case pi >= 0 && c.VarFrom < 0 && pi < n:
			cls = staleAt[pi]
		case pi >= 0 && c.VarFrom >= 0 && c.Spread == 0 && p.params[pi].IsValid():
			// the tail: the first element that differs
			gt, wt := calls[0][pi], p.params[pi]
			for j := 0; j < gt.Len() && j < wt.Len() && nFixedArgs+j < n; j++ {
				if !same(gt.Index(j), wt.Index(j), false) {
					cls = staleAt[nFixedArgs+j]
					break
				}
			}
		}
		if cls == "" {
			cls = "no-overwrite"
		}
		return h.Failf("C11|liveargs|argument-not-as-evaluated|"+cls, "%s\nthe arguments are evaluated from left to right; a parameter is the value its argument had when it was evaluated: %s\n%s", ctx(), descList(argVWithSpread(argV, spreadV)), msg)
	}
	if c.Route != "defer" && !same(reflect.ValueOf(got), reflect.ValueOf(int64(77)), false) {
		return h.Failf("C11|liveargs|wrong-result", "%s\nthe Go function returned int64(77), the script received %s", ctx(), ank.Describe(got))
	}
	return nil
}

func argVWithSpread(argV []reflect.Value, spread reflect.Value) []reflect.Value {
	out := append([]reflect.Value{}, argV...)
	if spread.IsValid() {
		for i := 0; i < spread.Len(); i++ {
			out = append(out, spread.Index(i))
		}
	}
	return out
}

// livePlaces binds / makes the places of a case under the names s0, s1, …: cur is the value every
// place holds at the start, expr the expression that reads (and, on the left of `=`, stores into)
// it, goStore a Go-side store for the bound places, pre the statements that make the script-made ones.
func livePlaces(e *env.Env, slots []LiveSlot) (cur []interface{}, expr []string, goStore []func(interface{}), pre []string, ok bool) {
	cur = make([]interface{}, len(slots))
	expr = make([]string, len(slots))
	goStore = make([]func(interface{}), len(slots))
	for i, sl := range slots {
		i, sl := i, sl
		if sl.Idx < 0 || sl.Idx > 2 || sl.Init < 0 {
			return nil, nil, nil, nil, false
		}
		name := "s" + strconv.Itoa(i)
		idx := strconv.Itoa(sl.Idx)
		cur[i] = liveVal(sl.Kind, sl.Init)
		other := func(j int) interface{} { return liveVal(sl.Kind, 1000+10*i+j) }
		elems := []interface{}{other(0), other(1), other(2)}
		elems[sl.Idx] = cur[i]
		lits := []string{liveLit(elems[0]), liveLit(elems[1]), liveLit(elems[2])}
		switch sl.Kind {
		case "ss":
			g := []string{elems[0].(string), elems[1].(string), elems[2].(string)}
			e.Define(name, g)
			expr[i] = name + "[" + idx + "]"
			goStore[i] = func(v interface{}) { g[sl.Idx] = v.(string) }
		case "ii":
			g := []int64{elems[0].(int64), elems[1].(int64), elems[2].(int64)}
			e.Define(name, g)
			expr[i] = name + "[" + idx + "]"
			goStore[i] = func(v interface{}) { g[sl.Idx] = v.(int64) }
		case "ff":
			g := []float64{elems[0].(float64), elems[1].(float64), elems[2].(float64)}
			e.Define(name, g)
			expr[i] = name + "[" + idx + "]"
			goStore[i] = func(v interface{}) { g[sl.Idx] = v.(float64) }
		case "aa":
			g := []interface{}{elems[0], elems[1], elems[2]}
			e.Define(name, g)
			expr[i] = name + "[" + idx + "]"
			goStore[i] = func(v interface{}) { g[sl.Idx] = v }
		case "ts":
			pre = append(pre, name+" = []string{"+strings.Join(lits, ", ")+"}")
			expr[i] = name + "[" + idx + "]"
		case "ti":
			pre = append(pre, name+" = []int64{"+strings.Join(lits, ", ")+"}")
			expr[i] = name + "[" + idx + "]"
		case "fB":
			g := &S{B: cur[i].(string), A: 5}
			e.Define(name, g)
			expr[i] = name + ".B"
			goStore[i] = func(v interface{}) { g.B = v.(string) }
		case "fA":
			g := &S{A: cur[i].(int64), B: "b"}
			e.Define(name, g)
			expr[i] = name + ".A"
			goStore[i] = func(v interface{}) { g.A = v.(int64) }
		case "fE":
			g := &S{E: cur[i], B: "b"}
			e.Define(name, g)
			expr[i] = name + ".E"
			goStore[i] = func(v interface{}) { g.E = v }
		case "xB":
			g := []S{{B: elems[0].(string)}, {B: elems[1].(string)}, {B: elems[2].(string)}}
			e.Define(name, g)
			expr[i] = name + "[" + idx + "].B"
			goStore[i] = func(v interface{}) { g[sl.Idx].B = v.(string) }
		case "dS":
			g := new(string)
			*g = cur[i].(string)
			e.Define(name, g)
			expr[i] = "*" + name
			goStore[i] = func(v interface{}) { *g = v.(string) }
		case "dI":
			g := new(int64)
			*g = cur[i].(int64)
			e.Define(name, g)
			expr[i] = "*" + name
			goStore[i] = func(v interface{}) { *g = v.(int64) }
		case "var":
			pre = append(pre, name+" = "+liveLit(cur[i]))
			expr[i] = name
		case "list":
			pre = append(pre, name+" = ["+strings.Join(lits, ", ")+"]")
			expr[i] = name + "[" + idx + "]"
		case "map":
			pre = append(pre, name+" = {\"k\": "+liveLit(cur[i])+", \"j\": "+lits[(sl.Idx+1)%3]+"}")
			expr[i] = name + ".k"
		default:
			return nil, nil, nil, nil, false
		}
	}
	return cur, expr, goStore, pre, true
}
