package c11

// Three small sub-checks over parts of the Go boundary the pool-driven checks do not reach:
//
//	named     methods (value- and pointer-receiver) of named NON-struct Go types (a slice, an
//	          integer, a map) reached by value, by pointer and through containers
//	nilbind   names bound to nil by the host are separate bindings: writing through a pointer to
//	          one of them, in this or another environment, changes that one only
//	parallel  one script callback invoked by Go from several goroutines at once gets, in every
//	          invocation, exactly the arguments of that invocation

import (
	"fmt"
	"reflect"
	"runtime"
	"sort"
	"strings"
	"sync"

	"github.com/mattn/anko/env"
	"pgregory.net/rapid"

	"verif/internal/ank"
	"verif/internal/h"
)

// ---------------------------------------------------------------- named

type NSlice []int64

func (s NSlice) Len() int64       { return int64(len(s)) }
func (s NSlice) At(i int64) int64 { return s[i] }
func (s *NSlice) Push(x int64) int64 {
	*s = append(*s, x)
	return int64(len(*s))
}
func (s *NSlice) Reset() { *s = (*s)[:0] }

// IsNil and the other *OrZero methods can be called on a nil pointer, as Go allows
func (s *NSlice) IsNil() bool { return s == nil }

type NInt int64

func (n NInt) Twice() int64 { return int64(n) * 2 }
func (n *NInt) OrZero() int64 {
	if n == nil {
		return 0
	}
	return int64(*n)
}
func (n *NInt) Inc(by int64) int64 {
	*n += NInt(by)
	return int64(*n)
}

type NMap map[string]int64

func (m NMap) Get(k string) int64 { return m[k] }
func (m *NMap) LenOrZero() int64 {
	if m == nil {
		return 0
	}
	return int64(len(*m))
}
func (m *NMap) Put(k string, v int64) int64 {
	if *m == nil {
		*m = NMap{}
	}
	(*m)[k] = v
	return int64(len(*m))
}

type NamedCase struct {
	Type string   `json:"type"` // slice | int | map
	Recv string   `json:"recv"` // ptr | val | ptrlist (the pointer read back from a script list) | ptrmap (from a script map)
	Ops  []string `json:"ops"`  // method calls, in order
	Args []int64  `json:"args"`
}

var namedMethods = map[string][]string{
	"slice": {"Len", "At", "Push", "Push", "Reset", "IsNil"},
	"int":   {"Twice", "Inc", "Inc", "OrZero"},
	"map":   {"Get", "Put", "Put", "LenOrZero"},
}

func genNamed(t *rapid.T) NamedCase {
	c := NamedCase{Type: rapid.SampledFrom([]string{"slice", "int", "map"}).Draw(t, "type"), Recv: rapid.SampledFrom([]string{"ptr", "ptr", "val", "ptrlist", "ptrmap", "nilptr"}).Draw(t, "recv")}
	n := rapid.IntRange(1, 4).Draw(t, "nops")
	for i := 0; i < n; i++ {
		c.Ops = append(c.Ops, rapid.SampledFrom(namedMethods[c.Type]).Draw(t, "op"))
		c.Args = append(c.Args, rapid.Int64Range(0, 5).Draw(t, "arg"))
	}
	return c
}

func isPtrRecv(m string) bool {
	return m == "Push" || m == "Reset" || m == "Inc" || m == "Put" || m == "IsNil" || m == "OrZero" || m == "LenOrZero"
}

func nilSafe(m string) bool { return m == "IsNil" || m == "OrZero" || m == "LenOrZero" }

func oracleNamed(c NamedCase, o *h.Obs) *h.Fail {
	if len(c.Ops) == 0 || len(c.Ops) != len(c.Args) || len(c.Ops) > 8 {
		o.Excluded = "malformed_case"
		return nil
	}
	// the object and its reference twin
	var obj, ref reflect.Value
	switch c.Type {
	case "slice":
		a, b := NSlice{7, 8}, NSlice{7, 8}
		obj, ref = reflect.ValueOf(&a), reflect.ValueOf(&b)
	case "int":
		a, b := NInt(3), NInt(3)
		obj, ref = reflect.ValueOf(&a), reflect.ValueOf(&b)
	case "map":
		a, b := NMap{"a": 1}, NMap{"a": 1}
		obj, ref = reflect.ValueOf(&a), reflect.ValueOf(&b)
	default:
		o.Excluded = "malformed_case"
		return nil
	}
	e := env.NewEnv()
	recv := "x"
	var pre string
	switch c.Recv {
	case "ptr":
		e.Define("x", obj.Interface())
	case "val":
		e.Define("x", obj.Elem().Interface())
	case "ptrlist":
		e.Define("y", obj.Interface())
		pre = "l = [y]\n"
		recv = "l[0]"
	case "ptrmap":
		e.Define("y", obj.Interface())
		pre = "m = {\"k\": y}\n"
		recv = "m.k"
	case "nilptr":
		// a typed nil pointer: Go calls pointer-receiver methods on it (the method decides what nil means)
		obj = reflect.Zero(obj.Type())
		ref = reflect.Zero(ref.Type())
		e.Define("x", obj.Interface())
	default:
		o.Excluded = "malformed_case"
		return nil
	}
	byValue := c.Recv == "val"
	var lines []string
	var want []string
	expectErr := false
	for i, m := range c.Ops {
		if _, ok := reflect.PtrTo(obj.Type().Elem()).MethodByName(m); !ok {
			o.Excluded = "malformed_case"
			return nil
		}
		if c.Recv == "nilptr" && !nilSafe(m) {
			continue // every other method dereferences its receiver
		}
		arg := c.Args[i]
		var call string
		var in []reflect.Value
		switch m {
		case "At":
			if ln := ref.Elem().Len(); ln == 0 {
				continue // At on an empty slice would panic inside the method: not part of this check
			} else {
				arg = arg % int64(ln)
			}
			call, in = fmt.Sprintf("%s.At(%d)", recv, arg), []reflect.Value{reflect.ValueOf(arg)}
		case "Push", "Inc":
			call, in = fmt.Sprintf("%s.%s(%d)", recv, m, arg), []reflect.Value{reflect.ValueOf(arg)}
		case "Get":
			call, in = fmt.Sprintf("%s.Get(\"k%d\")", recv, arg%2), []reflect.Value{reflect.ValueOf(fmt.Sprintf("k%d", arg%2))}
		case "Put":
			call, in = fmt.Sprintf("%s.Put(\"k%d\", %d)", recv, arg%2, arg), []reflect.Value{reflect.ValueOf(fmt.Sprintf("k%d", arg%2)), reflect.ValueOf(arg)}
		default:
			call = fmt.Sprintf("%s.%s()", recv, m)
		}
		if byValue && isPtrRecv(m) {
			// a value that is not addressable has no pointer-receiver methods in Go: the member is unknown
			lines = append(lines, call)
			expectErr = true
			break
		}
		lines = append(lines, "out += ["+call+"]")
		res := ref.MethodByName(m).Call(in)
		if len(res) == 0 {
			want = append(want, "nil")
		} else {
			want = append(want, ank.Describe(res[0].Interface()))
		}
	}
	if len(lines) == 0 {
		o.Excluded = "no operation left"
		return nil
	}
	src := pre + "out = []\n" + strings.Join(lines, "\n") + "\nout"
	o.Key = c.Type + "|" + c.Recv + "|" + src
	o.NonTrivial = true
	o.Class("named:" + c.Type + "_" + c.Recv)
	got, err := ank.Exec(e, src)
	if hp, ok := ank.IsHostPanic(err); ok {
		return h.Failf("C11|named|host-panic", "receiver: %s of named %s type\nsource:\n%s\nescaped panic: %v", c.Recv, c.Type, src, hp.Value)
	}
	if expectErr {
		o.Class("named:pointer_method_on_value_receiver->error")
		if err == nil {
			return h.Failf("C11|named|missing-error|"+c.Type, "a pointer-receiver method was called on a %s bound by value (Go has no such method there); expected an error\nsource:\n%s\ngot %s", c.Type, src, ank.Describe(got))
		}
		return nil
	}
	if err != nil {
		return h.Failf("C11|named|unexpected-error|"+c.Type+"|"+c.Recv, "methods of a named %s type reached through %s\nsource:\n%s\nGo results: %v\nanko error: %v", c.Type, c.Recv, src, want, err)
	}
	list, ok := got.([]interface{})
	if !ok || len(list) != len(want) {
		return h.Failf("C11|named|result-shape|"+c.Type, "source:\n%s\nGo results: %v\nanko: %s", src, want, ank.Describe(got))
	}
	for i := range want {
		if g := ank.Describe(list[i]); g != want[i] {
			return h.Failf("C11|named|wrong-result|"+c.Type+"|"+c.Recv, "call %d\nsource:\n%s\nGo results: %v\nanko: %s", i+1, src, want, ank.Describe(got))
		}
	}
	if !byValue && c.Recv != "nilptr" {
		if g, w := ank.Describe(obj.Elem().Interface()), ank.Describe(ref.Elem().Interface()); g != w {
			return h.Failf("C11|named|receiver-state|"+c.Type+"|"+c.Recv, "after the calls the Go value behind the pointer differs from the one Go's own calls leave\nsource:\n%s\nGo:   %s\nanko: %s", src, w, g)
		}
	}
	return nil
}

// ---------------------------------------------------------------- nilbind

type NilBindCase struct {
	Names  int    `json:"names"`  // 2..4 names bound to nil by the host (n0..)
	Second bool   `json:"second"` // the other names live in a second, unrelated environment
	Late   bool   `json:"late"`   // one more name is bound to nil AFTER the write
	Write  string `json:"write"`  // ptr (*p = v through p = &n0) | assign (n0 = v) | incr (n0 = 0; n0++) | elem
	Val    string `json:"val"`    // the value written: 5 | "s" | true | [1]
}

func genNilBind(t *rapid.T) NilBindCase {
	return NilBindCase{Names: rapid.IntRange(2, 4).Draw(t, "names"), Second: rapid.Bool().Draw(t, "second"), Late: rapid.Bool().Draw(t, "late"),
		Write: rapid.SampledFrom([]string{"ptr", "ptr", "ptr", "assign", "fnptr", "ptrptr"}).Draw(t, "write"),
		Val:   rapid.SampledFrom([]string{"5", "\"s\"", "true", "[1]"}).Draw(t, "val")}
}

func oracleNilBind(c NilBindCase, o *h.Obs) *h.Fail {
	if c.Names < 2 || c.Names > 6 {
		o.Excluded = "malformed_case"
		return nil
	}
	a, b := env.NewEnv(), env.NewEnv()
	holder := a
	if c.Second {
		holder = b
	}
	a.Define("n0", nil)
	for i := 1; i < c.Names; i++ {
		holder.Define(fmt.Sprintf("n%d", i), nil)
	}
	var src string
	switch c.Write {
	case "ptr":
		src = "p = &n0\n*p = " + c.Val
	case "assign":
		src = "n0 = " + c.Val
	case "fnptr":
		src = "func set(q) { *q = " + c.Val + " }\nset(&n0)"
	case "ptrptr":
		src = "p = &n0\npp = &p\n**pp = " + c.Val
	default:
		o.Excluded = "malformed_case"
		return nil
	}
	o.Key = fmt.Sprintf("%+v", c)
	o.NonTrivial = true
	o.Class("nilbind:" + c.Write)
	if _, err := ank.Exec(a, src); err != nil {
		if hp, ok := ank.IsHostPanic(err); ok {
			return h.Failf("C11|nilbind|host-panic", "source:\n%s\nescaped panic: %v", src, hp.Value)
		}
		o.Excluded = "the write failed: " + err.Error()
		o.NonTrivial = false
		return nil
	}
	if c.Late {
		holder.Define("late", nil)
	}
	names := []string{}
	for i := 1; i < c.Names; i++ {
		names = append(names, fmt.Sprintf("n%d", i))
	}
	if c.Late {
		names = append(names, "late")
	}
	for _, n := range names {
		// read back both ways: by the host and by a script
		v, err := holder.Get(n)
		if err != nil || v != nil {
			return h.Failf("C11|nilbind|host-read", "the host bound n0 and %s to nil (%s); a script then ran\n%s\nEnv.Get(%q) now gives %s (err %v), it was bound to nil and never assigned", n, map[bool]string{true: "in two unrelated environments", false: "in one environment"}[c.Second], src, n, ank.Describe(v), err)
		}
		sv, err := ank.Exec(holder, n)
		if err != nil || sv != nil {
			return h.Failf("C11|nilbind|script-read", "the host bound n0 and %s to nil; a script then ran\n%s\nthe expression %s now evaluates to %s (err %v)", n, src, n, ank.Describe(sv), err)
		}
	}
	return nil
}

// ---------------------------------------------------------------- parallel

type ParallelCase struct {
	G     int    `json:"g"`     // goroutines calling the callback at once (2..8)
	K     int    `json:"k"`     // calls per goroutine
	Arity int    `json:"arity"` // parameters of the func type (1..3)
	Body  string `json:"body"`  // what the script function returns: first | sum | str
	Procs int    `json:"procs"`
}

func genParallel(t *rapid.T) ParallelCase {
	return ParallelCase{G: rapid.SampledFrom([]int{2, 4, 8}).Draw(t, "g"), K: rapid.SampledFrom([]int{200, 1000, 3000}).Draw(t, "k"),
		Arity: rapid.IntRange(1, 3).Draw(t, "arity"), Body: rapid.SampledFrom([]string{"first", "sum", "str"}).Draw(t, "body"), Procs: rapid.SampledFrom([]int{2, 4, 16}).Draw(t, "procs")}
}

func oracleParallel(c ParallelCase, o *h.Obs) *h.Fail {
	if c.G < 1 || c.G > 16 || c.K < 1 || c.K > 5000 || c.Arity < 1 || c.Arity > 3 {
		o.Excluded = "malformed_case"
		return nil
	}
	params := []string{"a", "b", "c"}[:c.Arity]
	var ret string
	switch c.Body {
	case "first":
		ret = "a"
	case "sum":
		ret = strings.Join(params, " + ")
	case "str":
		ret = "\"\" + " + strings.Join(params, " + \":\" + ")
	default:
		o.Excluded = "malformed_case"
		return nil
	}
	src := "cb = func(" + strings.Join(params, ", ") + ") { return " + ret + " }\nrun(cb)"
	o.Key = fmt.Sprintf("%s|%d|%d|%d", src, c.G, c.K, c.Procs)
	o.NonTrivial = c.G >= 2
	o.Class(fmt.Sprintf("parallel:arity_%d_%s", c.Arity, c.Body))
	var mu sync.Mutex
	var wrong []string
	nwrong := 0
	check := func(g, i int, args []int64, res interface{}) {
		var want interface{}
		switch c.Body {
		case "first":
			want = args[0]
		case "sum":
			var s int64
			for _, x := range args {
				s += x
			}
			want = s
		default:
			parts := make([]string, len(args))
			for j, x := range args {
				parts[j] = fmt.Sprint(x)
			}
			want = strings.Join(parts, ":")
		}
		if !reflect.DeepEqual(res, want) {
			mu.Lock()
			nwrong++
			if len(wrong) < 5 {
				wrong = append(wrong, fmt.Sprintf("goroutine %d call %d: arguments %v, result %s, want %s", g, i, args, ank.Describe(res), ank.Describe(want)))
			}
			mu.Unlock()
		}
	}
	drive := func(call func(args []int64) interface{}) {
		var wg sync.WaitGroup
		for g := 0; g < c.G; g++ {
			wg.Add(1)
			go func(g int) {
				defer wg.Done()
				defer func() {
					// a panic out of the converted function, on a goroutine of the host
					if r := recover(); r != nil {
						mu.Lock()
						nwrong++
						if len(wrong) < 5 {
							wrong = append(wrong, fmt.Sprintf("goroutine %d: the call panicked: %v", g, r))
						}
						mu.Unlock()
					}
				}()
				for i := 0; i < c.K; i++ {
					args := make([]int64, c.Arity)
					for j := range args {
						args[j] = int64(g*1000000 + i*10 + j)
					}
					check(g, i, args, call(args))
				}
			}(g)
		}
		wg.Wait()
	}
	e := env.NewEnv()
	switch c.Arity {
	case 1:
		e.Define("run", func(f func(int64) interface{}) { drive(func(a []int64) interface{} { return f(a[0]) }) })
	case 2:
		e.Define("run", func(f func(int64, int64) interface{}) { drive(func(a []int64) interface{} { return f(a[0], a[1]) }) })
	default:
		e.Define("run", func(f func(int64, int64, int64) interface{}) {
			drive(func(a []int64) interface{} { return f(a[0], a[1], a[2]) })
		})
	}
	var err error
	withProcsC11(c.Procs, func() { _, err = ank.Exec(e, src) })
	if hp, ok := ank.IsHostPanic(err); ok {
		return h.Failf("C11|parallel|host-panic", "source:\n%s\n%d goroutines x %d calls\nescaped panic: %v", src, c.G, c.K, hp.Value)
	}
	if err != nil {
		return h.Failf("C11|parallel|error", "source:\n%s\n%d goroutines x %d calls\nerror: %v", src, c.G, c.K, err)
	}
	if nwrong > 0 {
		sort.Strings(wrong)
		return h.Failf("C11|parallel|wrong-arguments-or-result", "a script callback invoked by Go from %d goroutines at once (%d calls each, GOMAXPROCS=%d) did not see, or not return, the values of its own invocation in %d calls\nsource:\n%s\nfirst ones:\n%s", c.G, c.K, c.Procs, nwrong, src, strings.Join(wrong, "\n"))
	}
	return nil
}

var procsMu sync.Mutex

// withProcsC11 runs f under the given GOMAXPROCS and restores the previous setting.
func withProcsC11(n int, f func()) {
	procsMu.Lock()
	defer procsMu.Unlock()
	old := runtime.GOMAXPROCS(n)
	defer runtime.GOMAXPROCS(old)
	f()
}

// ---------------------------------------------------------------- reconv

// ReconvCase: one script container is handed to a Go function several times, and changed in place
// between the calls. Every call converts the container as it is THEN (element by element).
type ReconvCase struct {
	Kind  string  `json:"kind"`  // ints ([]int64 parameter) | strs ([]string) | mapsi (map[string]int64) | floats ([]float64)
	Init  []int64 `json:"init"`  // initial elements (1..5)
	Edits []int64 `json:"edits"` // one in-place change before each further call: index*1000 + value
}

func genReconv(t *rapid.T) ReconvCase {
	c := ReconvCase{Kind: rapid.SampledFrom([]string{"ints", "ints", "strs", "mapsi", "floats"}).Draw(t, "kind")}
	n := rapid.IntRange(1, 5).Draw(t, "n")
	for i := 0; i < n; i++ {
		c.Init = append(c.Init, rapid.Int64Range(0, 9).Draw(t, "init"))
	}
	for k := rapid.IntRange(1, 3).Draw(t, "calls"); k > 0; k-- {
		c.Edits = append(c.Edits, int64(rapid.IntRange(0, n-1).Draw(t, "at"))*1000+rapid.Int64Range(10, 99).Draw(t, "to"))
	}
	return c
}

func oracleReconv(c ReconvCase, o *h.Obs) *h.Fail {
	if len(c.Init) < 1 || len(c.Init) > 8 || len(c.Edits) < 1 || len(c.Edits) > 6 {
		o.Excluded = "malformed_case"
		return nil
	}
	cur := append([]int64{}, c.Init...)
	var seen []string // what Go receives, call by call
	e := env.NewEnv()
	e.Define("ints", func(xs []int64) int64 { seen = append(seen, fmt.Sprint(xs)); return int64(len(xs)) })
	e.Define("floats", func(xs []float64) int64 { seen = append(seen, fmt.Sprint(xs)); return int64(len(xs)) })
	e.Define("strs", func(xs []string) int64 { seen = append(seen, fmt.Sprint(xs)); return int64(len(xs)) })
	e.Define("mapsi", func(m map[string]int64) int64 {
		keys := make([]string, 0, len(m))
		for k := range m {
			keys = append(keys, k)
		}
		sort.Strings(keys)
		parts := make([]string, len(keys))
		for i, k := range keys {
			parts[i] = fmt.Sprintf("%s:%d", k, m[k])
		}
		seen = append(seen, "["+strings.Join(parts, " ")+"]")
		return int64(len(m))
	})
	render := func(xs []int64) string {
		parts := make([]string, len(xs))
		for i, x := range xs {
			switch c.Kind {
			case "strs":
				parts[i] = fmt.Sprintf("s%d", x)
			case "mapsi":
				parts[i] = fmt.Sprintf("k%d:%d", i, x)
			default:
				parts[i] = fmt.Sprint(x)
			}
		}
		return "[" + strings.Join(parts, " ") + "]"
	}
	var src strings.Builder
	switch c.Kind {
	case "strs":
		parts := make([]string, len(cur))
		for i, x := range cur {
			parts[i] = fmt.Sprintf("\"s%d\"", x)
		}
		src.WriteString("l = [" + strings.Join(parts, ", ") + "]\n")
	case "mapsi":
		parts := make([]string, len(cur))
		for i, x := range cur {
			parts[i] = fmt.Sprintf("\"k%d\": %d", i, x)
		}
		src.WriteString("l = {" + strings.Join(parts, ", ") + "}\n")
	default:
		parts := make([]string, len(cur))
		for i, x := range cur {
			parts[i] = fmt.Sprint(x)
		}
		src.WriteString("l = [" + strings.Join(parts, ", ") + "]\n")
	}
	want := []string{render(cur)}
	src.WriteString(c.Kind + "(l)\n")
	for _, ed := range c.Edits {
		at, to := int(ed/1000), ed%1000
		if at < 0 || at >= len(cur) {
			o.Excluded = "malformed_case"
			return nil
		}
		cur[at] = to
		switch c.Kind {
		case "strs":
			fmt.Fprintf(&src, "l[%d] = \"s%d\"\n", at, to)
		case "mapsi":
			fmt.Fprintf(&src, "l.k%d = %d\n", at, to)
		default:
			fmt.Fprintf(&src, "l[%d] = %d\n", at, to)
		}
		src.WriteString(c.Kind + "(l)\n")
		want = append(want, render(cur))
	}
	o.Key = src.String()
	o.NonTrivial = true
	o.Class("reconv:" + c.Kind)
	_, err := ank.Exec(e, src.String())
	if hp, ok := ank.IsHostPanic(err); ok {
		return h.Failf("C11|reconv|host-panic", "source:\n%s\nescaped panic: %v", src.String(), hp.Value)
	}
	if err != nil {
		return h.Failf("C11|reconv|error|"+c.Kind, "source:\n%s\nerror: %v", src.String(), err)
	}
	if fmt.Sprint(seen) != fmt.Sprint(want) {
		return h.Failf("C11|reconv|stale-or-wrong-conversion|"+c.Kind, "one script container handed to a Go function several times and changed in place between the calls: every call must receive the container as it is at that moment\nsource:\n%s\nGo received: %v\nexpected:    %v", src.String(), seen, want)
	}
	return nil
}

// ---------------------------------------------------------------- arrayptr

// ArrayPtrCase: a Go parameter of array or pointer-to-array type given a script list of another length.
type ArrayPtrCase struct {
	Param string `json:"param"` // arr3 ([3]int64) | parr3 (*[3]int64) | parr3i (*[3]interface{}) | arr0 ([0]int64)
	Len   int    `json:"len"`   // elements of the list passed (0..5)
	Typed bool   `json:"typed"` // the list is a []int64 literal instead of an untyped one
}

func genArrayPtr(t *rapid.T) ArrayPtrCase {
	return ArrayPtrCase{Param: rapid.SampledFrom([]string{"arr3", "parr3", "parr3", "parr3i", "arr0"}).Draw(t, "param"), Len: rapid.IntRange(0, 5).Draw(t, "len"), Typed: rapid.Bool().Draw(t, "typed")}
}

func oracleArrayPtr(c ArrayPtrCase, o *h.Obs) *h.Fail {
	if c.Len < 0 || c.Len > 8 {
		o.Excluded = "malformed_case"
		return nil
	}
	got := ""
	e := env.NewEnv()
	e.Define("arr3", func(a [3]int64) int64 { got = fmt.Sprint(a); return 1 })
	e.Define("arr0", func(a [0]int64) int64 { got = fmt.Sprint(a); return 1 })
	e.Define("parr3", func(a *[3]int64) int64 {
		if a == nil {
			got = "nil"
		} else {
			got = fmt.Sprint(*a)
		}
		return 1
	})
	e.Define("parr3i", func(a *[3]interface{}) int64 {
		if a == nil {
			got = "nil"
		} else {
			got = fmt.Sprint(*a)
		}
		return 1
	})
	parts := make([]string, c.Len)
	for i := range parts {
		parts[i] = fmt.Sprint(i + 1)
	}
	lit := "[" + strings.Join(parts, ", ") + "]"
	if c.Typed {
		lit = "[]int64{" + strings.Join(parts, ", ") + "}"
	}
	src := c.Param + "(" + lit + ")"
	o.Key = src
	o.NonTrivial = true
	o.Class(fmt.Sprintf("arrayptr:%s_len%d", c.Param, c.Len))
	_, err := ank.Exec(e, src)
	if hp, ok := ank.IsHostPanic(err); ok {
		return h.Failf("C11|arrayptr|host-panic|"+c.Param, "a list of %d element(s) passed to a Go parameter of array / pointer-to-array type: the call must fail with an error when no conversion exists, not panic\nsource:\n%s\nescaped panic: %v", c.Len, src, hp.Value)
	}
	if err != nil {
		o.Class("arrayptr:error")
		return nil
	}
	// the call went through: what arrived must be a prefix-exact image of the list
	n := 3
	if c.Param == "arr0" {
		n = 0
	}
	wantParts := make([]string, n)
	for i := range wantParts {
		if i < c.Len {
			wantParts[i] = fmt.Sprint(i + 1)
		} else if c.Param == "parr3i" {
			wantParts[i] = "<nil>"
		} else {
			wantParts[i] = "0"
		}
	}
	want := "[" + strings.Join(wantParts, " ") + "]"
	if got != want {
		return h.Failf("C11|arrayptr|wrong-value|"+c.Param, "source:\n%s\nthe Go function received %s, the list spells %s (shorter lists are padded with zero values where the call is accepted at all)", src, got, want)
	}
	return nil
}
