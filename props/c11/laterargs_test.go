package c11

import (
	"fmt"
	"reflect"
	"strconv"
	"strings"
	"time"

	"github.com/mattn/anko/env"
	"pgregory.net/rapid"

	"verif/internal/ank"
	"verif/internal/h"
)

// ====================================================================
// laterargs: deferred and go calls of Go functions whose arguments are stored into afterwards
// ====================================================================
//
// `defer f(args…)` and `go f(args…)` are calls of the Go function f like any other: "called with
// exactly the supplied arguments". What the statement supplies is what its argument expressions
// give when the statement is executed (the language evaluates the arguments of a deferred call at
// the defer statement and those of a go call before the goroutine starts); the call itself happens
// later, after the launching code has gone on. `liveargs` has a deferred route, but nothing runs
// between its defer statement and the return; `gocall` / `goseq` draw their arguments from
// literals and bound values that nothing stores into. Here every argument reads a place - an
// element of a bound or script-made typed slice, a field behind a pointer, a dereferenced pointer,
// … - and the body goes on to store other values into those places (by assignment, through a script
// function, Go-side) before the function returns. The reference walks the body once: a call
// receives the values its places held when its statement was executed.
//
// The LAST argument is the one aimed at (nine times in ten the place it reads is stored into right
// after the statement): the argument list of a fixed-arity call is built by a loop over all but
// the last argument and a separate step for the last one.

// LaterCase is a function body of call statements and stores.
type LaterCase struct {
	Slots []LiveSlot  `json:"slots"`
	Items []LaterItem `json:"items"`
	Wrap  string      `json:"wrap"` // fn: `func run() { … }; run()` | anon: `func() { … }()` | top: at the top level (no deferred calls)
}

// LaterItem is one statement: a call of a Go function (Kind "call") or a store into a place (Kind "store").
type LaterItem struct {
	Kind string `json:"kind"`
	// call
	Mode    string     `json:"mode,omitempty"`  // defer | go | plain
	Route   string     `json:"route,omitempty"` // name | var | member | anon | method
	Args    []LaterArg `json:"args,omitempty"`
	VarFrom int        `json:"varfrom"` // -1: not variadic; else the number of fixed parameters
	TailI   bool       `json:"taili,omitempty"`
	// store
	Slot int    `json:"slot"`
	Val  int    `json:"val,omitempty"`
	How  string `json:"how,omitempty"` // assign | fn (a script function stores) | go (a Go function stores Go-side; bound places only)
}

// LaterArg is one argument expression: the read of a place or a literal.
type LaterArg struct {
	Op   string `json:"op"` // read | lit
	Slot int    `json:"slot"`
	Val  int    `json:"val,omitempty"`
	P    string `json:"p"` // nat | iface | conv (as in liveargs)
}

func genLaterCase(t *rapid.T) LaterCase {
	c := LaterCase{}
	ns := rapid.SampledFrom([]int{1, 2, 2, 3}).Draw(t, "nslots")
	for i := 0; i < ns; i++ {
		kind := rapid.SampledFrom(liveKinds).Draw(t, "kind")
		c.Slots = append(c.Slots, LiveSlot{Kind: kind, Idx: rapid.IntRange(0, 2).Draw(t, "idx"), Init: rapid.IntRange(0, 9).Draw(t, "init")})
	}
	next := 10
	store := func(slot int) LaterItem {
		it := LaterItem{Kind: "store", Slot: slot, Val: next, VarFrom: -1}
		next++
		it.How = rapid.SampledFrom([]string{"assign", "assign", "assign", "fn", "go"}).Draw(t, "how")
		if it.How == "go" && !liveBound(c.Slots[slot].Kind) {
			it.How = "assign"
		}
		return it
	}
	ncalls := rapid.SampledFrom([]int{1, 1, 1, 2}).Draw(t, "ncalls")
	anyDefer := false
	for k := 0; k < ncalls; k++ {
		call := LaterItem{Kind: "call", VarFrom: -1}
		call.Mode = rapid.SampledFrom([]string{"defer", "defer", "defer", "defer", "defer", "defer", "go", "go", "go", "plain"}).Draw(t, "mode")
		anyDefer = anyDefer || call.Mode == "defer"
		call.Route = rapid.SampledFrom([]string{"name", "name", "name", "var", "member", "anon", "method", "method"}).Draw(t, "route")
		n := rapid.IntRange(1, 3).Draw(t, "nargs")
		for i := 0; i < n; i++ {
			a := LaterArg{Op: "read", Slot: rapid.IntRange(0, ns-1).Draw(t, "slot"), P: rapid.SampledFrom([]string{"nat", "nat", "iface", "iface", "conv"}).Draw(t, "p")}
			if rapid.IntRange(0, 9).Draw(t, "lit") == 0 {
				a.Op, a.Val = "lit", rapid.IntRange(0, 99).Draw(t, "litv")
			}
			call.Args = append(call.Args, a)
		}
		if rapid.IntRange(0, 9).Draw(t, "variadic") < 3 {
			call.VarFrom = rapid.IntRange(0, n).Draw(t, "varfrom")
		}
		call.TailI = rapid.Bool().Draw(t, "taili")
		c.Items = append(c.Items, call)
		// what the body does next: nine times in ten the place behind the last argument is stored into first
		if last := call.Args[n-1]; last.Op == "read" && rapid.IntRange(0, 9).Draw(t, "aim") < 9 {
			c.Items = append(c.Items, store(last.Slot))
		}
		for m := rapid.IntRange(0, 2).Draw(t, "more"); m > 0; m-- {
			c.Items = append(c.Items, store(rapid.IntRange(0, ns-1).Draw(t, "sslot")))
		}
	}
	c.Wrap = rapid.SampledFrom([]string{"fn", "fn", "anon", "top"}).Draw(t, "wrap")
	if anyDefer && c.Wrap == "top" {
		c.Wrap = "fn"
	}
	return c
}

// laterPlanned is one call statement as the reference sees it.
type laterPlanned struct {
	item   int
	mode   string
	ft     reflect.Type
	p      plan
	argV   []reflect.Value
	nFixed int
	slotOf []int // per argument: the place it reads, -1 for a literal
	pOf    []string
	stmt   string
	obj    *liveObj
	calls  [][]reflect.Value
	ch     chan struct{} // told about every invocation
}

func laterOracle(c LaterCase, o *h.Obs) *h.Fail {
	if len(c.Slots) < 1 || len(c.Slots) > 4 || len(c.Items) < 1 || len(c.Items) > 16 {
		o.Excluded = "bad_case"
		return nil
	}
	e := env.NewEnv()
	cur, expr, goStore, pre, okPlaces := livePlaces(e, c.Slots)
	if !okPlaces {
		o.Excluded = "bad_case"
		return nil
	}
	initial := append([]interface{}{}, cur...)
	typeFor := func(v reflect.Value, p string) reflect.Type {
		switch p {
		case "iface":
			return tIface
		case "conv":
			switch v.Kind() {
			case reflect.String:
				return reflect.TypeOf(MyStr(""))
			case reflect.Int64:
				return reflect.TypeOf(float64(0))
			case reflect.Float64:
				return reflect.TypeOf(float32(0))
			}
		}
		return v.Type()
	}

	var planned []*laterPlanned
	var body, gd []string
	nGo := 0
	for k := range c.Items {
		it := &c.Items[k]
		ks := strconv.Itoa(k)
		switch it.Kind {
		case "store":
			if it.Slot < 0 || it.Slot >= len(c.Slots) {
				o.Excluded = "bad_case"
				return nil
			}
			kind := c.Slots[it.Slot].Kind
			nv := liveVal(kind, it.Val)
			switch it.How {
			case "assign":
				body = append(body, expr[it.Slot]+" = "+liveLit(nv))
			case "fn":
				pre = append(pre, "st"+ks+" = func() { "+expr[it.Slot]+" = "+liveLit(nv)+" }")
				body = append(body, "st"+ks+"()")
			case "go":
				if !liveBound(kind) || goStore[it.Slot] == nil {
					o.Excluded = "bad_case"
					return nil
				}
				st := goStore[it.Slot]
				e.Define("gs"+ks, func() { st(nv) })
				gd = append(gd, fmt.Sprintf("gs%s: Go func() that stores %s in %s", ks, desc(reflect.ValueOf(nv)), expr[it.Slot]))
				body = append(body, "gs"+ks+"()")
			default:
				o.Excluded = "bad_case"
				return nil
			}
			cur[it.Slot] = nv
			// every earlier deferred / go call that read this place now has a stale place behind it
			for _, pl := range planned {
				if pl.mode == "plain" {
					continue
				}
				for ai, s := range pl.slotOf {
					if s == it.Slot {
						pos := "earlier"
						if ai == len(pl.slotOf)-1 {
							pos = "last"
						}
						shape := "fixed"
						if pl.ft.IsVariadic() {
							shape = "variadic"
						}
						o.Class("laterargs:stored-after:%s:%s-argument:%s:%s:->%s", pl.mode, pos, shape, liveSlotClass(kind), pl.pOf[ai])
						o.NonTrivial = true
					}
				}
			}
		case "call":
			n := len(it.Args)
			if n < 1 || n > 5 || it.VarFrom > n {
				o.Excluded = "bad_case"
				return nil
			}
			pl := &laterPlanned{item: k, mode: it.Mode, ch: make(chan struct{}, 4)}
			parts := make([]string, n)
			for i, a := range it.Args {
				p := a.P
				if it.Route == "method" {
					p = "iface"
				}
				pl.pOf = append(pl.pOf, p)
				switch a.Op {
				case "lit":
					parts[i] = strconv.Itoa(a.Val)
					pl.argV = append(pl.argV, reflect.ValueOf(int64(a.Val)))
					pl.slotOf = append(pl.slotOf, -1)
				case "read":
					if a.Slot < 0 || a.Slot >= len(c.Slots) {
						o.Excluded = "bad_case"
						return nil
					}
					parts[i] = expr[a.Slot]
					pl.argV = append(pl.argV, reflect.ValueOf(cur[a.Slot]))
					pl.slotOf = append(pl.slotOf, a.Slot)
				default:
					o.Excluded = "bad_case"
					return nil
				}
			}
			pl.nFixed = n
			if it.VarFrom >= 0 {
				pl.nFixed = it.VarFrom
			}
			var in []reflect.Type
			for i := 0; i < pl.nFixed; i++ {
				in = append(in, typeFor(pl.argV[i], pl.pOf[i]))
			}
			if it.VarFrom >= 0 {
				tailElem := reflect.TypeOf(int64(0))
				if it.TailI || it.Route == "method" {
					tailElem = tIface
				}
				for i := pl.nFixed; i < n; i++ {
					if pl.argV[i].Kind() != reflect.Int64 {
						tailElem = tIface
					}
				}
				in = append(in, reflect.SliceOf(tailElem))
			}
			if it.Route == "method" && (len(in) < 1 || len(in) > 5) {
				o.Excluded = "bad_case"
				return nil
			}
			pl.ft = reflect.FuncOf(in, []reflect.Type{reflect.TypeOf(int64(0))}, it.VarFrom >= 0)
			pl.p = planCall(pl.ft, pl.argV, false, reflect.Value{})
			if pl.p.out != oOK {
				o.Excluded = "bad_case"
				return nil
			}
			callee := "f" + ks
			switch it.Route {
			case "name", "var", "member", "anon":
				host := reflect.MakeFunc(pl.ft, func(in []reflect.Value) []reflect.Value {
					cp := make([]reflect.Value, len(in))
					copy(cp, in)
					pl.calls = append(pl.calls, cp)
					select {
					case pl.ch <- struct{}{}:
					default:
					}
					return []reflect.Value{reflect.ValueOf(int64(77))}
				})
				e.Define(callee, host.Interface())
				gd = append(gd, fmt.Sprintf("f%s: host function of type %s", ks, pl.ft))
				switch it.Route {
				case "var":
					pre = append(pre, "hh"+ks+" = "+callee)
					callee = "hh" + ks
				case "member":
					pre = append(pre, "mm"+ks+" = {\"f\": "+callee+"}")
					callee = "mm" + ks + ".f"
				case "anon":
					callee = "(" + callee + ")"
				}
			case "method":
				pl.obj = &liveObj{arrived: pl.ch}
				e.Define("obj"+ks, pl.obj)
				if it.VarFrom >= 0 {
					callee = "obj" + ks + ".V" + strconv.Itoa(len(in)-1)
				} else {
					callee = "obj" + ks + ".M" + strconv.Itoa(len(in))
				}
				gd = append(gd, fmt.Sprintf("%s: pointer-receiver method of type %s", callee, pl.ft))
			default:
				o.Excluded = "bad_case"
				return nil
			}
			pl.stmt = callee + "(" + strings.Join(parts, ", ") + ")"
			switch it.Mode {
			case "defer":
				if c.Wrap == "top" {
					o.Excluded = "bad_case"
					return nil
				}
				pl.stmt = "defer " + pl.stmt
			case "go":
				pl.stmt = "go " + pl.stmt
				nGo++
			case "plain":
			default:
				o.Excluded = "bad_case"
				return nil
			}
			body = append(body, pl.stmt)
			planned = append(planned, pl)
			o.Class("laterargs:call:%s:%s:%s", it.Mode, it.Route, pl.p.shape)
		default:
			o.Excluded = "bad_case"
			return nil
		}
	}
	if len(planned) == 0 {
		o.Excluded = "bad_case"
		return nil
	}
	var src string
	switch c.Wrap {
	case "fn":
		src = strings.Join(append(pre, "func run() {\n\t"+strings.Join(body, "\n\t")+"\n}", "run()"), "\n")
	case "anon":
		src = strings.Join(append(pre, "func() {\n\t"+strings.Join(body, "\n\t")+"\n}()"), "\n")
	case "top":
		src = strings.Join(append(pre, body...), "\n")
	default:
		o.Excluded = "bad_case"
		return nil
	}
	for i, sl := range c.Slots {
		o.Class("laterargs:place:" + sl.Kind)
		if liveBound(sl.Kind) {
			gd = append(gd, fmt.Sprintf("s%d: Go place %s, holds %s", i, liveSlotClass(sl.Kind), desc(reflect.ValueOf(initial[i]))))
		}
	}
	o.Class("laterargs:wrap:" + c.Wrap)
	o.Class("laterargs:calls:%d", len(planned))
	o.Key = src + "\x00" + strings.Join(gd, ";")
	o.Note = strings.Join(gd, "; ") + "; " + strings.ReplaceAll(src, "\n", "; ")
	ctx := func() string { return fmt.Sprintf("%s\nsource:\n%s", strings.Join(gd, "\n"), src) }

	_, err := ank.Exec(e, src)
	if hp, ok := ank.IsHostPanic(err); ok {
		return h.Failf("C11|panic|laterargs|"+ank.NormPanic(hp.Value), "%s\nescaped panic: %v", ctx(), hp.Value)
	}
	if err != nil {
		return h.Failf("C11|laterargs|unexpected-error", "%s\nreference: every call has fitting arguments, every store is an assignment of a value of the place's own type\nanko error: %v", ctx(), err)
	}

	// the go calls are waited for (the deferred and the plain ones have happened)
	received := func(pl *laterPlanned) [][]reflect.Value {
		if pl.obj != nil {
			return pl.obj.calls
		}
		return pl.calls
	}
	if nGo > 0 {
		sigNot := "C11|laterargs|not-invoked|go"
		wait := goCallGrace
		goCallReportedMu.Lock()
		if goCallReported[sigNot] {
			wait = 10 * time.Millisecond
		}
		goCallReportedMu.Unlock()
		timer := time.NewTimer(wait)
		for _, pl := range planned {
			if pl.mode != "go" {
				continue
			}
			timedOut := false
			select {
			case <-pl.ch:
			case <-timer.C:
				timedOut = true
			}
			if timedOut {
				timer.Stop()
				goCallReportedMu.Lock()
				goCallReported[sigNot] = true
				goCallReportedMu.Unlock()
				f := h.Failf(sigNot, "%s\nthe script returned without error and the call `%s` never happened (waited %s)", ctx(), pl.stmt, goCallGrace)
				f.NoShrink = true
				return f
			}
		}
		timer.Stop()
	}

	for _, pl := range planned {
		calls := received(pl)
		if len(calls) != 1 {
			return h.Failf("C11|laterargs|invocations|"+pl.mode, "%s\n`%s`: the Go function was invoked %d times, want once", ctx(), pl.stmt, len(calls))
		}
		pi, msg := checkParams(pl.ft, calls[0], &pl.p)
		if msg == "" {
			continue
		}
		// name the place behind the parameter that differs
		arg := -1
		switch {
		case pi >= 0 && pi < pl.nFixed:
			arg = pi
		case pi >= 0 && pl.ft.IsVariadic() && pl.p.params[pi].IsValid():
			gt, wt := calls[0][pi], pl.p.params[pi]
			for j := 0; j < gt.Len() && j < wt.Len(); j++ {
				if !same(gt.Index(j), wt.Index(j), false) {
					arg = pl.nFixed + j
					break
				}
			}
		}
		cls, pos := "-", "-"
		if arg >= 0 && arg < len(pl.slotOf) {
			cls = "literal"
			if s := pl.slotOf[arg]; s >= 0 {
				cls = liveSlotClass(c.Slots[s].Kind)
			}
			pos = "earlier-argument"
			if arg == len(pl.slotOf)-1 {
				pos = "last-argument"
			}
		}
		return h.Failf("C11|laterargs|argument-not-as-at-the-statement|"+pl.mode+"|"+pos+"|"+cls, "%s\n`%s`: the supplied arguments are the values the argument expressions had when the statement was executed: %s\n%s", ctx(), pl.stmt, descList(pl.argV), msg)
	}
	return nil
}
