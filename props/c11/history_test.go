package c11

import (
	"reflect"
	"strconv"
	"strings"

	"github.com/mattn/anko/env"
	"pgregory.net/rapid"

	"verif/internal/ank"
	"verif/internal/h"
)

// ====================================================================
// (3b) member histories over struct types that share field names
// ====================================================================
//
// Several struct types carry the same field names (A int64, B string, C float64, D bool,
// E int64) at different positions: unnamed struct literals, reflect.StructOf types,
// function-local named types that share one name ("P") although they are different
// types, and script-made make(struct { … }) values with a drawn field order. A case is a
// short history of member reads and writes on values of different types; every read is
// judged against Go's own field access on a reference copy, and the final state of every
// value is compared with the reference.

var histFieldType = map[string]reflect.Type{
	"A": reflect.TypeOf(int64(0)),
	"B": reflect.TypeOf(""),
	"C": reflect.TypeOf(float64(0)),
	"D": reflect.TypeOf(false),
	"E": reflect.TypeOf(int64(0)),
}

var histAnkoType = map[string]string{"A": "int64", "B": "string", "C": "float64", "D": "bool", "E": "int64"}

func localP1() reflect.Type {
	type P struct {
		A int64
		E int64
		B string
		C float64
	}
	return reflect.TypeOf(P{})
}

func localP2() reflect.Type {
	type P struct {
		E int64
		A int64
		C float64
		B string
	}
	return reflect.TypeOf(P{})
}

func localP3() reflect.Type {
	type P struct {
		B string
		D bool
		A int64
	}
	return reflect.TypeOf(P{})
}

func structOf(names ...string) reflect.Type {
	fs := make([]reflect.StructField, len(names))
	for i, n := range names {
		fs[i] = reflect.StructField{Name: n, Type: histFieldType[n]}
	}
	return reflect.StructOf(fs)
}

type histType struct {
	Class string // anon | structof | local
	T     reflect.Type
}

// histTypes is the fixed list of Go-side struct types; the index is what cases store.
var histTypes = []histType{
	{"anon", reflect.TypeOf(struct {
		A int64
		B string
		C float64
		D bool
	}{})},
	{"anon", reflect.TypeOf(struct {
		D bool
		C float64
		B string
		A int64
	}{})},
	{"anon", reflect.TypeOf(struct {
		B string
		A int64
		E int64
	}{})},
	{"anon", reflect.TypeOf(struct {
		E int64
		A int64
		B string
	}{})},
	{"structof", structOf("C", "A", "E", "B")},
	{"structof", structOf("B", "E", "C", "A", "D")},
	{"structof", structOf("E", "D", "A")},
	{"local", localP1()},
	{"local", localP2()},
	{"local", localP3()},
}

// HVal is one value of a history: a Go-side value of histTypes[T] bound by pointer or by
// value (Script == nil), or a script-made make(struct{…}) with the field order Script.
type HVal struct {
	T      int      `json:"t"`
	Ptr    bool     `json:"ptr"`
	Seed   int      `json:"seed"`
	Script []string `json:"script,omitempty"`
}

// HOp is one member access: read V.Field, or write V.Field = Val.
type HOp struct {
	V     int    `json:"v"`
	Field string `json:"field"`
	Write bool   `json:"write"`
	Val   SV     `json:"val"`
}

type HistCase struct {
	Vals []HVal `json:"vals"`
	Ops  []HOp  `json:"ops"`
}

func (v *HVal) typ() (reflect.Type, bool) {
	if len(v.Script) > 0 {
		seen := map[string]bool{}
		for _, n := range v.Script {
			if histFieldType[n] == nil || seen[n] {
				return nil, false
			}
			seen[n] = true
		}
		return structOf(v.Script...), true
	}
	if v.T < 0 || v.T >= len(histTypes) {
		return nil, false
	}
	return histTypes[v.T].T, true
}

func (v *HVal) class() string {
	if len(v.Script) > 0 {
		return "script"
	}
	return histTypes[v.T].Class
}

func genHistCase(t *rapid.T) HistCase {
	c := HistCase{Vals: []HVal{}, Ops: []HOp{}}
	nv := rapid.IntRange(2, 3).Draw(t, "nvals")
	for i := 0; i < nv; i++ {
		v := HVal{Seed: rapid.IntRange(0, 40).Draw(t, "seed")}
		if rapid.IntRange(0, 3).Draw(t, "scriptmade") == 0 {
			names := rapid.Permutation([]string{"A", "B", "C", "D", "E"}).Draw(t, "order")
			k := rapid.IntRange(2, 5).Draw(t, "nfields")
			v.Script = append([]string{}, names[:k]...)
		} else {
			v.T = rapid.IntRange(0, len(histTypes)-1).Draw(t, "htype")
			v.Ptr = rapid.IntRange(0, 2).Draw(t, "ptr") > 0
		}
		c.Vals = append(c.Vals, v)
	}
	nops := rapid.IntRange(2, 4).Draw(t, "nops")
	prevField := ""
	for i := 0; i < nops; i++ {
		op := HOp{V: rapid.IntRange(0, nv-1).Draw(t, "which")}
		T, _ := c.Vals[op.V].typ()
		var names []string
		for j := 0; j < T.NumField(); j++ {
			names = append(names, T.Field(j).Name)
		}
		// prefer the field name used by the previous step, on whatever type this value has
		op.Field = names[rapid.IntRange(0, len(names)-1).Draw(t, "field")]
		if prevField != "" && rapid.IntRange(0, 2).Draw(t, "samefield") > 0 {
			for _, n := range names {
				if n == prevField {
					op.Field = n
				}
			}
		}
		prevField = op.Field
		writable := c.Vals[op.V].Ptr || len(c.Vals[op.V].Script) > 0
		if writable && rapid.IntRange(0, 2).Draw(t, "write") == 0 {
			op.Write = true
			switch histFieldType[op.Field].Kind() {
			case reflect.Int64:
				op.Val = SV{K: "i", I: rapid.Int64Range(-1000, 1000).Draw(t, "wi")}
			case reflect.String:
				op.Val = SV{K: "s", S: rapid.SampledFrom([]string{"w", "x1", "", "zz"}).Draw(t, "ws")}
			case reflect.Float64:
				op.Val = SV{K: "i", I: rapid.Int64Range(-50, 50).Draw(t, "wf")}
			default:
				op.Val = SV{K: "b", B: rapid.Bool().Draw(t, "wb")}
			}
		}
		c.Ops = append(c.Ops, op)
	}
	return c
}

// histFill gives every field a value that differs from every other field's.
func histFill(v reflect.Value, seed int) {
	T := v.Type()
	for i := 0; i < T.NumField(); i++ {
		f := v.Field(i)
		switch T.Field(i).Name {
		case "A":
			f.SetInt(int64(100 + seed))
		case "E":
			f.SetInt(int64(5000 + 3*seed))
		case "B":
			f.SetString("b" + strconv.Itoa(seed))
		case "C":
			f.SetFloat(float64(seed) + 0.5)
		case "D":
			f.SetBool(seed%2 == 0)
		}
	}
}

func histOracle(c HistCase, o *h.Obs) *h.Fail {
	if len(c.Vals) == 0 || len(c.Vals) > 6 || len(c.Ops) == 0 || len(c.Ops) > 8 {
		o.Excluded = "bad_case"
		return nil
	}
	e := env.NewEnv()
	var seen []interface{}
	e.Define("rec", func(v interface{}) { seen = append(seen, v) })
	b := newBinder()
	var lines, vdesc []string
	refs := make([]reflect.Value, len(c.Vals))  // reference copies (addressable)
	lives := make([]reflect.Value, len(c.Vals)) // the Go-side objects the script works on (invalid for script-made)
	typeSet := map[reflect.Type]bool{}
	for i := range c.Vals {
		v := &c.Vals[i]
		T, ok := v.typ()
		if !ok {
			o.Excluded = "bad_case"
			return nil
		}
		typeSet[T] = true
		name := "h" + strconv.Itoa(i)
		refs[i] = reflect.New(T).Elem()
		o.Class("history:type:" + v.class())
		if len(v.Script) > 0 {
			parts := make([]string, len(v.Script))
			for j, n := range v.Script {
				parts[j] = n + " " + histAnkoType[n]
			}
			lines = append(lines, name+" = make(struct { "+strings.Join(parts, ", ")+" })")
			vdesc = append(vdesc, name+": script-made "+T.String())
			continue
		}
		histFill(refs[i], v.Seed)
		p := reflect.New(T)
		p.Elem().Set(refs[i])
		lives[i] = p.Elem()
		if v.Ptr {
			e.Define(name, p.Interface())
			vdesc = append(vdesc, name+": pointer to "+histTypes[v.T].Class+" "+desc(refs[i]))
		} else {
			e.Define(name, p.Elem().Interface())
			vdesc = append(vdesc, name+": "+histTypes[v.T].Class+" "+desc(refs[i]))
		}
	}

	// the history, against the reference
	var wants []reflect.Value
	var wantOp []int
	var results []string
	sameFieldOnTwoTypes := false
	fieldTypes := map[string]reflect.Type{}
	for k := range c.Ops {
		op := &c.Ops[k]
		if op.V < 0 || op.V >= len(c.Vals) {
			o.Excluded = "bad_case"
			return nil
		}
		ref := refs[op.V]
		f := ref.FieldByName(op.Field)
		if !f.IsValid() {
			o.Excluded = "bad_case"
			return nil
		}
		if t0, seen := fieldTypes[op.Field]; seen && t0 != ref.Type() {
			sameFieldOnTwoTypes = true
		}
		fieldTypes[op.Field] = ref.Type()
		name := "h" + strconv.Itoa(op.V)
		if op.Write {
			if !c.Vals[op.V].Ptr && len(c.Vals[op.V].Script) == 0 {
				o.Excluded = "bad_case" // writes only through pointers and on script-made values
				return nil
			}
			src, vv := b.render(&op.Val)
			r := goConvert(vv, f.Type())
			if r.st != cOK {
				o.Excluded = "bad_case"
				return nil
			}
			f.Set(r.v)
			lines = append(lines, name+"."+op.Field+" = "+src)
			o.Class("history:op:write")
			continue
		}
		// the value is handed to a Go recorder at once: a variable would keep a reference
		// to the field itself and show later writes
		lines = append(lines, "rec("+name+"."+op.Field+")")
		cp := reflect.New(f.Type()).Elem()
		cp.Set(f)
		wants = append(wants, cp)
		wantOp = append(wantOp, k)
		o.Class("history:op:read")
	}
	// final states of the script-made values are returned too
	var scriptIdx []int
	for i := range c.Vals {
		if len(c.Vals[i].Script) > 0 {
			results = append(results, "h"+strconv.Itoa(i))
			scriptIdx = append(scriptIdx, i)
		}
	}
	lines = append(lines, "["+strings.Join(results, ", ")+"]")
	src := strings.Join(lines, "\n")
	defineAll(e, b)

	o.Key = strings.Join(vdesc, ";") + "\x00" + src
	o.Note = strings.Join(vdesc, "; ") + " || " + strings.ReplaceAll(src, "\n", "; ")
	o.NonTrivial = len(typeSet) >= 2
	if sameFieldOnTwoTypes {
		o.Class("history:same-field-on-two-types")
	}
	o.Class("history:distinct-types:%d", len(typeSet))
	head := func() string { return strings.Join(vdesc, "\n") + "\nsource:\n" + src }

	got, err := ank.Exec(e, src)
	if hp, ok := ank.IsHostPanic(err); ok {
		return h.Failf("C11|panic|history|"+ank.NormPanic(hp.Value), "%s\nescaped panic: %v", head(), hp.Value)
	}
	if err != nil {
		return h.Failf("C11|history|error", "%s\nunexpected error: %v", head(), err)
	}
	list, ok := got.([]interface{})
	if !ok || len(list) != len(scriptIdx) || len(seen) != len(wants) {
		return h.Failf("C11|history|result-shape", "%s\nscript result %s, %d reads recorded", head(), ank.Describe(got), len(seen))
	}
	for j, w := range wants {
		op := c.Ops[wantOp[j]]
		if !same(reflect.ValueOf(seen[j]), w, false) {
			return h.Failf("C11|history|read|"+c.Vals[op.V].class(), "%s\nstep %d reads h%d.%s: script got %s, Go's own field access gives %s", head(), wantOp[j], op.V, op.Field, desc(reflect.ValueOf(seen[j])), desc(w))
		}
	}
	for j, i := range scriptIdx {
		g := reflect.ValueOf(list[j])
		if g.IsValid() && g.Kind() == reflect.Ptr && !g.IsNil() {
			g = g.Elem()
		}
		if !same(g, refs[i], false) {
			return h.Failf("C11|history|final-state|script", "%s\nh%d ends as %s, reference %s", head(), i, desc(g), desc(refs[i]))
		}
	}
	for i := range c.Vals {
		if !lives[i].IsValid() {
			continue
		}
		want := refs[i]
		if !c.Vals[i].Ptr {
			// bound by value: the Go-side original cannot change
			want = reflect.New(want.Type()).Elem()
			histFill(want, c.Vals[i].Seed)
		}
		if !same(lives[i], want, false) {
			return h.Failf("C11|history|final-state|"+c.Vals[i].class(), "%s\nGo-side h%d ends as %s, reference %s", head(), i, desc(lives[i]), desc(want))
		}
	}
	return nil
}
