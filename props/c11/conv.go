package c11

import (
	"math"
	"reflect"
	"unicode/utf8"
)

// cstat is the verdict of the reference conversion table.
type cstat int

const (
	cOK         cstat = iota // Go has a conversion; the value is given
	cNone                    // Go has no conversion: the call must fail with an error
	cUnasserted              // the statement is silent for this cell; nothing is asserted
	// cEither: Go has no conversion (the strict reading of the statement asks for an error) but the
	// code documents a special case for it (a one-character string for a byte / rune). The two
	// readings are both admitted and nothing else is: the call fails with an error, or the value
	// given here arrives.
	cEither
)

// whyNilPtr marks the shape of a reported host panic (nil pointer passed where another
// pointer type is wanted); cases containing it are excluded while knownNilPtrPanic is set.
const whyNilPtr = "nil pointer re-typing"

// knownNilPtrPanic: set to true to exclude that shape by construction. /repo panicked on it
// ("C11|panic|calls|reflect: call of reflect.Value.Type on zero Value") until commit
// d32215c; now the shape is executed and only "no panic" is asserted for it.
const knownNilPtrPanic = false

// assertPtrMismatch: a value met by a pointer parameter, or a non-nil pointer met by a non-pointer,
// non-interface parameter, has no Go conversion and the call must fail (eighth round; before, the
// cell was left unasserted together with pointer-to-pointer re-typing, which still is).
const assertPtrMismatch = true

// whyPtrMismatch starts the reason text of those cells.
const whyPtrMismatch = "pointer-ness differs"

var stName = []string{" ok", " none", " unasserted", " either"}

// convRes is the result of goConvert.
type convRes struct {
	st       cstat
	v        reflect.Value // of type T when st == cOK
	identity bool          // the value crossed unchanged (same dynamic type, or T is interface{})
	loose    bool          // a fresh container was built: nil and empty are not distinguished
	why      string        // reason for cNone / cUnasserted
	cell     string        // "<source kind>-><target kind>" of the outermost step
	sub      []string      // cells of the element conversions (bounded)
}

// goConvert is the reference: what Go's own conversion of the script-side value v
// (invalid Value = nil) to the parameter type T produces. It is written with Go
// conversion syntax per (dynamic type, T); it never calls anko and never uses
// reflect.Value.Convert.
//
//	nil                       -> T's zero value
//	T == interface{}          -> the value itself
//	dynamic type == T         -> the value itself
//	number -> number          -> Go numeric conversion (float->int truncates)
//	integer -> string kind    -> the rune's UTF-8 string, "�" outside Unicode
//	string <-> []byte/[]rune  -> Go string conversions
//	slice/array -> slice/array, map -> map -> element-wise (a fresh container)
//	value -> error            -> only when the dynamic type implements error
//	anything else             -> no conversion
//
// string -> byte/rune: see convStrChar (error for several characters, "error or that
// character" for one). Unasserted cells (statement silent, code special-cases): the empty and
// the non-UTF-8 string -> byte/rune, pointer-to-pointer re-typing, a typed nil pointer for a non-pointer parameter,
// a slice for a pointer-to-array parameter (a value for a pointer parameter and a non-nil pointer for a non-pointer
// parameter otherwise have no conversion: assertPtrMismatch), float outside the target integer range,
// integer -> float32 where single and double rounding differ, maps whose converted keys collide.
func goConvert(v reflect.Value, T reflect.Type) convRes {
	v = unwrap(v)
	cell := kindName(dynType(v)) + "->" + kindName(T)
	if !v.IsValid() {
		return convRes{st: cOK, v: reflect.Zero(T), identity: false, cell: cell}
	}
	vt := v.Type()
	if T == tIface {
		return convRes{st: cOK, v: v, identity: true, cell: cell}
	}
	if vt == T {
		return convRes{st: cOK, v: v, identity: true, cell: cell}
	}
	none := func(why string) convRes { return convRes{st: cNone, why: why, cell: cell} }
	unas := func(why string) convRes { return convRes{st: cUnasserted, why: why, cell: cell} }

	if T.Kind() == reflect.Interface {
		// non-empty interface (error)
		if vt.Implements(T) {
			out := reflect.New(T).Elem()
			out.Set(v)
			return convRes{st: cOK, v: out, identity: true, cell: cell}
		}
		return none("type does not implement " + T.String())
	}
	if vt.Kind() == reflect.Ptr || T.Kind() == reflect.Ptr {
		if vt.Kind() == reflect.Ptr && T.Kind() == reflect.Ptr && v.IsNil() {
			if knownNilPtrPanic {
				return unas(whyNilPtr)
			}
			// a nil pointer is nil: T's zero value (the typed nil pointer)
			return convRes{st: cOK, v: reflect.Zero(T), cell: cell}
		}
		if assertPtrMismatch {
			// exactly one side is a pointer. Go has no conversion between T and *T in either
			// direction (the only conversion from a non-pointer to a pointer type is slice ->
			// pointer to array, judged by `arrayptr`; a typed nil pointer met by a non-pointer
			// parameter is left open: "T's zero value for nil" can be read to include it)
			switch {
			case T.Kind() == reflect.Ptr && vt.Kind() != reflect.Ptr:
				if !(vt.Kind() == reflect.Slice && T.Elem().Kind() == reflect.Array) {
					return none(whyPtrMismatch + ": no Go conversion from the value " + vt.String() + " to the pointer " + T.String())
				}
			case vt.Kind() == reflect.Ptr && T.Kind() != reflect.Ptr && !v.IsNil():
				return none(whyPtrMismatch + ": no Go conversion from the pointer " + vt.String() + " to the value " + T.String())
			}
		}
		return unas("pointer re-typing")
	}

	sk, tk := vt.Kind(), T.Kind()
	switch {
	case isNumKind(sk) && isNumKind(tk):
		out, ok, why := convNum(v, T)
		if !ok {
			return unas(why)
		}
		return convRes{st: cOK, v: out, cell: cell}
	case (isIntKind(sk) || isUintKind(sk)) && tk == reflect.String:
		var s string
		if isIntKind(sk) {
			s = runeString(v.Int() >= 0, uint64(v.Int()))
		} else {
			s = runeString(true, v.Uint())
		}
		out := reflect.New(T).Elem()
		out.SetString(s)
		return convRes{st: cOK, v: out, cell: cell}
	case sk == reflect.String && tk == reflect.String:
		out := reflect.New(T).Elem()
		out.SetString(v.String())
		return convRes{st: cOK, v: out, cell: cell}
	case sk == reflect.String && (T == reflect.TypeOf(uint8(0)) || T == reflect.TypeOf(int32(0))):
		return convStrChar(v.String(), T, cell)
	case sk == reflect.String && tk == reflect.Slice && T.Elem().Kind() == reflect.Uint8 && T.Elem().PkgPath() == "":
		bs := []byte(v.String())
		out := reflect.MakeSlice(T, len(bs), len(bs))
		for i, c := range bs {
			out.Index(i).SetUint(uint64(c))
		}
		return convRes{st: cOK, v: out, loose: true, cell: cell}
	case sk == reflect.String && tk == reflect.Slice && T.Elem().Kind() == reflect.Int32 && T.Elem().PkgPath() == "":
		rs := []rune(v.String())
		out := reflect.MakeSlice(T, len(rs), len(rs))
		for i, c := range rs {
			out.Index(i).SetInt(int64(c))
		}
		return convRes{st: cOK, v: out, loose: true, cell: cell}
	case sk == reflect.Slice && tk == reflect.String && vt.Elem().Kind() == reflect.Uint8 && vt.Elem().PkgPath() == "":
		bs := make([]byte, v.Len())
		for i := range bs {
			bs[i] = byte(v.Index(i).Uint())
		}
		out := reflect.New(T).Elem()
		out.SetString(string(bs))
		return convRes{st: cOK, v: out, cell: cell}
	case sk == reflect.Slice && tk == reflect.String && vt.Elem().Kind() == reflect.Int32 && vt.Elem().PkgPath() == "":
		rs := make([]rune, v.Len())
		for i := range rs {
			rs[i] = rune(v.Index(i).Int())
		}
		out := reflect.New(T).Elem()
		out.SetString(string(rs))
		return convRes{st: cOK, v: out, cell: cell}
	case (sk == reflect.Slice || sk == reflect.Array) && (tk == reflect.Slice || tk == reflect.Array):
		n := v.Len()
		var out reflect.Value
		if tk == reflect.Slice {
			out = reflect.MakeSlice(T, n, n)
		} else {
			if n > T.Len() {
				return none("more elements than the array holds")
			}
			out = reflect.New(T).Elem()
		}
		st := cOK
		why := ""
		var sub []string
		for i := 0; i < n; i++ {
			r := goConvert(v.Index(i), T.Elem())
			if len(sub) < 64 {
				sub = append(append(sub, r.cell+stName[r.st]), r.sub...)
			}
			switch r.st {
			case cNone:
				return none("element: " + r.why)
			case cUnasserted:
				st, why = cUnasserted, "element: "+r.why
			case cEither:
				if st == cOK {
					st, why = cEither, "element: "+r.why
				}
				out.Index(i).Set(r.v)
			default:
				out.Index(i).Set(r.v)
			}
		}
		if st == cUnasserted {
			return unas(why)
		}
		return convRes{st: st, v: out, loose: true, cell: cell, sub: sub, why: why}
	case sk == reflect.Map && tk == reflect.Map:
		out := reflect.MakeMap(T)
		st := cOK
		why := ""
		var sub []string
		it := v.MapRange()
		for it.Next() {
			rk := goConvert(it.Key(), T.Key())
			rv := goConvert(it.Value(), T.Elem())
			if len(sub) < 64 {
				sub = append(append(sub, "key:"+rk.cell+stName[rk.st], rv.cell+stName[rv.st]), rv.sub...)
			}
			if rk.st == cNone {
				return none("key: " + rk.why)
			}
			if rv.st == cNone {
				return none("value: " + rv.why)
			}
			if rk.st == cUnasserted {
				st, why = cUnasserted, "key: "+rk.why
				continue
			}
			if rv.st == cUnasserted || rk.st == cEither {
				st, why = cUnasserted, "value: "+rv.why+rk.why
				continue
			}
			if rv.st == cEither && st == cOK {
				st, why = cEither, "value: "+rv.why
			}
			if rk.v.Kind() == reflect.Interface && !rk.v.IsNil() && !rk.v.Elem().Type().Comparable() {
				return unas("unhashable key")
			}
			if !isHashableVal(rk.v) {
				return unas("unhashable key")
			}
			if out.MapIndex(rk.v).IsValid() {
				st, why = cUnasserted, "converted keys collide"
				continue
			}
			out.SetMapIndex(rk.v, rv.v)
		}
		if st == cUnasserted {
			return unas(why)
		}
		return convRes{st: st, v: out, loose: true, cell: cell, sub: sub, why: why}
	}
	return none("no Go conversion from " + vt.String() + " to " + T.String())
}

// whyOneChar is the reason text of the cEither cell.
const whyOneChar = "one-character string to byte/rune"

// convStrChar is the cell string -> byte / rune (T is exactly uint8 or int32). Go has no such
// conversion, so by the statement the call fails with an error; the code documents one special
// case, "a one-character string gives that character". What is asserted:
//
//	""                                        nothing (the code passes the zero value; statement silent)
//	not valid UTF-8                           nothing (which "character" is meant is open)
//	two or more characters                    no conversion under either reading: error
//	one character, rune target                error, or the character as Go decodes it ([]rune(s)[0])
//	one ASCII character, byte target          error, or that byte
//	one non-ASCII character, byte target      nothing (the character does not fit a byte as such)
func convStrChar(s string, T reflect.Type, cell string) convRes {
	if s == "" {
		return convRes{st: cUnasserted, why: "empty string to byte/rune", cell: cell}
	}
	if !utf8.ValidString(s) {
		return convRes{st: cUnasserted, why: "string to byte/rune, not UTF-8", cell: cell}
	}
	rs := []rune(s)
	if len(rs) >= 2 {
		return convRes{st: cNone, why: "no Go conversion from a string of several characters to " + T.String(), cell: cell}
	}
	out := reflect.New(T).Elem()
	if T.Kind() == reflect.Int32 {
		out.SetInt(int64(rs[0]))
		return convRes{st: cEither, v: out, why: whyOneChar, cell: cell}
	}
	if rs[0] < utf8.RuneSelf {
		out.SetUint(uint64(byte(rs[0])))
		return convRes{st: cEither, v: out, why: whyOneChar, cell: cell}
	}
	return convRes{st: cUnasserted, why: "one non-ASCII character to byte", cell: cell}
}

func isHashableVal(v reflect.Value) bool {
	v = unwrap(v)
	if !v.IsValid() {
		return true
	}
	if !v.Type().Comparable() {
		return false
	}
	switch v.Kind() {
	case reflect.Struct:
		for i := 0; i < v.NumField(); i++ {
			if !isHashableVal(v.Field(i)) {
				return false
			}
		}
	case reflect.Array:
		for i := 0; i < v.Len(); i++ {
			if !isHashableVal(v.Index(i)) {
				return false
			}
		}
	case reflect.Float32, reflect.Float64:
		return !math.IsNaN(v.Float())
	}
	return true
}

func isIntKind(k reflect.Kind) bool {
	switch k {
	case reflect.Int, reflect.Int8, reflect.Int16, reflect.Int32, reflect.Int64:
		return true
	}
	return false
}
func isUintKind(k reflect.Kind) bool {
	switch k {
	case reflect.Uint, reflect.Uint8, reflect.Uint16, reflect.Uint32, reflect.Uint64:
		return true
	}
	return false
}
func isFloatKind(k reflect.Kind) bool { return k == reflect.Float32 || k == reflect.Float64 }
func isNumKind(k reflect.Kind) bool   { return isIntKind(k) || isUintKind(k) || isFloatKind(k) }

// runeString is Go's string(integer): the UTF-8 encoding of the code point, "�"
// for values that are not valid code points.
func runeString(nonNeg bool, u uint64) string {
	if !nonNeg || u > utf8.MaxRune || (u >= 0xD800 && u <= 0xDFFF) {
		return "�"
	}
	return string(rune(u))
}

// convNum converts between numeric kinds with Go conversion syntax. ok=false: the cell
// is not asserted (why says which).
func convNum(v reflect.Value, T reflect.Type) (reflect.Value, bool, string) {
	out := reflect.New(T).Elem()
	sk, tk := v.Kind(), T.Kind()
	switch {
	case isIntKind(sk):
		x := v.Int()
		switch tk {
		case reflect.Int:
			out.SetInt(int64(int(x)))
		case reflect.Int8:
			out.SetInt(int64(int8(x)))
		case reflect.Int16:
			out.SetInt(int64(int16(x)))
		case reflect.Int32:
			out.SetInt(int64(int32(x)))
		case reflect.Int64:
			out.SetInt(x)
		case reflect.Uint:
			out.SetUint(uint64(uint(x)))
		case reflect.Uint8:
			out.SetUint(uint64(uint8(x)))
		case reflect.Uint16:
			out.SetUint(uint64(uint16(x)))
		case reflect.Uint32:
			out.SetUint(uint64(uint32(x)))
		case reflect.Uint64:
			out.SetUint(uint64(x))
		case reflect.Float32:
			if float32(x) != float32(float64(x)) {
				return out, false, "integer to float32 rounds differently in one and two steps"
			}
			out.SetFloat(float64(float32(x)))
		case reflect.Float64:
			out.SetFloat(float64(x))
		}
	case isUintKind(sk):
		x := v.Uint()
		switch tk {
		case reflect.Int:
			out.SetInt(int64(int(x)))
		case reflect.Int8:
			out.SetInt(int64(int8(x)))
		case reflect.Int16:
			out.SetInt(int64(int16(x)))
		case reflect.Int32:
			out.SetInt(int64(int32(x)))
		case reflect.Int64:
			out.SetInt(int64(x))
		case reflect.Uint:
			out.SetUint(uint64(uint(x)))
		case reflect.Uint8:
			out.SetUint(uint64(uint8(x)))
		case reflect.Uint16:
			out.SetUint(uint64(uint16(x)))
		case reflect.Uint32:
			out.SetUint(uint64(uint32(x)))
		case reflect.Uint64:
			out.SetUint(x)
		case reflect.Float32:
			if float32(x) != float32(float64(x)) {
				return out, false, "integer to float32 rounds differently in one and two steps"
			}
			out.SetFloat(float64(float32(x)))
		case reflect.Float64:
			out.SetFloat(float64(x))
		}
	default: // float source
		f := v.Float()
		if isFloatKind(tk) {
			if tk == reflect.Float32 {
				out.SetFloat(float64(float32(f)))
			} else {
				out.SetFloat(f)
			}
			return out, true, ""
		}
		if math.IsNaN(f) || math.IsInf(f, 0) {
			return out, false, "float outside the target integer range"
		}
		t := math.Trunc(f)
		lo, hi := intRange(tk, T.Bits()) // lo <= t < hi required
		if !(t >= lo && t < hi) {
			return out, false, "float outside the target integer range"
		}
		switch tk {
		case reflect.Int:
			out.SetInt(int64(int(f)))
		case reflect.Int8:
			out.SetInt(int64(int8(f)))
		case reflect.Int16:
			out.SetInt(int64(int16(f)))
		case reflect.Int32:
			out.SetInt(int64(int32(f)))
		case reflect.Int64:
			out.SetInt(int64(f))
		case reflect.Uint:
			out.SetUint(uint64(uint(f)))
		case reflect.Uint8:
			out.SetUint(uint64(uint8(f)))
		case reflect.Uint16:
			out.SetUint(uint64(uint16(f)))
		case reflect.Uint32:
			out.SetUint(uint64(uint32(f)))
		case reflect.Uint64:
			out.SetUint(uint64(f))
		}
	}
	return out, true, ""
}

// intRange gives [lo, hi) as floats for an integer kind of the given width.
func intRange(k reflect.Kind, bits int) (float64, float64) {
	if isUintKind(k) {
		return 0, math.Ldexp(1, bits)
	}
	return -math.Ldexp(1, bits-1), math.Ldexp(1, bits-1)
}
