package c11

import (
	"context"
	"fmt"
	"reflect"
	"strconv"
	"strings"
	"time"

	"github.com/mattn/anko/env"
	"pgregory.net/rapid"

	"verif/internal/ank"
	"verif/internal/h"
)

// ====================================================================
// retained: a callback that Go keeps and invokes after the run that handed it over
// ====================================================================
//
// "A script function handed to Go as a callback of a func type is invoked with the arguments Go
// passes and its result is converted to the declared return types; an error inside it surfaces as
// an error of the enclosing call." The sentence has no "while the run lasts": a host registers a
// handler in one run (started, as hosts do, with a context of its own that is released when the run
// is over: `ctx, cancel := context.WithTimeout(…); defer cancel()`) and Go invokes the handler later
// - from another run, or directly. `callbacks` / `vcallbacks` / `parallel` invoke the function
// during the call that received it, in a run under context.Background(). Here the run that hands
// the function over has a context that is cancelled (or not: controls) once that run has
// RETURNED, and every later invocation must still be a faithful call: the script function sees
// exactly the arguments Go passes, the Go caller receives the results converted to the declared
// types, an error surfaces as an error of the enclosing call of the LATER run.
//
// Not generated (other properties decide it): an invocation while the context of the run that makes
// it is cancelled (C02: how fast a cancelled run returns), and what an error inside a callback does
// when Go invokes it with no script call around it (§4 O8; only what the function saw is judged there).

// RetCase: the callback type is func(In…) (Out…); run 1 hands the script function to the Go
// function register in the way Hand says, under the context Ctx; then the Fires happen in order.
type RetCase struct {
	In     []int     `json:"in"`
	Out    []int     `json:"out"`
	Params int       `json:"params"` // number of parameters of the script function (= len(In)), or -1: func(a...)
	Body   string    `json:"body"`   // ret | throw
	Ret    []SV      `json:"ret"`    // K "a": parameter number I
	Inline bool      `json:"inline"` // the function literal is written in the argument list
	Hand   string    `json:"hand"`   // direct | second | tail | slice | map | spread
	Ctx    string    `json:"ctx"`    // background | live | cancel | timeout | child
	Fires  []RetFire `json:"fires"`
}

// RetFire is one invocation by Go. Via:
//
//	now      during the call that receives the function (first fire only)
//	go       directly from Go, after run 1 has returned
//	run      from a later run under context.Background(): vm.Execute(e, `fire(i)`)
//	runctx   from a later run that has a live context of its own
//	runother from a later run in another environment
type RetFire struct {
	Via   string `json:"via"`
	Try   bool   `json:"try"`
	Seeds []int  `json:"seeds"`
}

func genRetCase(t *rapid.T) RetCase {
	c := RetCase{In: []int{}, Out: []int{}, Ret: []SV{}, Fires: []RetFire{}}
	n := rapid.SampledFrom([]int{0, 1, 1, 2, 2, 3}).Draw(t, "nin")
	for i := 0; i < n; i++ {
		c.In = append(c.In, genTypeIdx(t, "ptype"))
	}
	m := rapid.SampledFrom([]int{0, 1, 1, 1, 2}).Draw(t, "nout")
	for i := 0; i < m; i++ {
		c.Out = append(c.Out, genTypeIdx(t, "rtype"))
	}
	c.Params = n
	if rapid.IntRange(0, 5).Draw(t, "variadicfn") == 0 {
		c.Params = -1
	}
	c.Body = rapid.SampledFrom([]string{"ret", "ret", "ret", "ret", "ret", "throw"}).Draw(t, "body")
	if c.Body == "ret" {
		for j := 0; j < m; j++ {
			if n > 0 && c.Params == n && rapid.IntRange(0, 2).Draw(t, "retparam") == 0 {
				c.Ret = append(c.Ret, SV{K: "a", I: int64(rapid.IntRange(0, n-1).Draw(t, "which"))})
			} else {
				c.Ret = append(c.Ret, genSVFor(t, Pool[c.Out[j]].T, 2))
			}
		}
	}
	c.Inline = rapid.IntRange(0, 2).Draw(t, "inline") == 0
	c.Hand = rapid.SampledFrom([]string{"direct", "direct", "direct", "second", "tail", "slice", "map", "spread"}).Draw(t, "hand")
	c.Ctx = rapid.SampledFrom([]string{"background", "live", "cancel", "cancel", "cancel", "timeout", "timeout", "child"}).Draw(t, "ctx")
	nf := rapid.IntRange(1, 3).Draw(t, "nfires")
	for i := 0; i < nf; i++ {
		f := RetFire{Seeds: []int{}}
		f.Via = rapid.SampledFrom([]string{"go", "go", "run", "run", "run", "runctx", "runother"}).Draw(t, "via")
		if i == 0 && rapid.IntRange(0, 3).Draw(t, "now") == 0 {
			f.Via = "now"
		}
		f.Try = rapid.IntRange(0, 3).Draw(t, "try") == 0
		for j := 0; j < n; j++ {
			f.Seeds = append(f.Seeds, rapid.IntRange(0, 60).Draw(t, "aseed"))
		}
		c.Fires = append(c.Fires, f)
	}
	return c
}

func retOracle(c RetCase, o *h.Obs) *h.Fail {
	if len(c.In) > 4 || len(c.Out) > 3 || len(c.Fires) == 0 || len(c.Fires) > 5 || (c.Params != -1 && c.Params != len(c.In)) {
		o.Excluded = "bad_case"
		return nil
	}
	var inT, outT []reflect.Type
	for _, i := range append(append([]int{}, c.In...), c.Out...) {
		if i < 0 || i >= len(Pool) {
			o.Excluded = "bad_case"
			return nil
		}
	}
	for _, i := range c.In {
		inT = append(inT, Pool[i].T)
	}
	for _, i := range c.Out {
		outT = append(outT, Pool[i].T)
	}
	n, m := len(inT), len(outT)
	cbT := reflect.FuncOf(inT, outT, false)
	goArgs := make([][]reflect.Value, len(c.Fires))
	for i, f := range c.Fires {
		if len(f.Seeds) != n || (f.Via == "now" && i != 0) {
			o.Excluded = "bad_case"
			return nil
		}
		goArgs[i] = []reflect.Value{}
		for j, s := range f.Seeds {
			goArgs[i] = append(goArgs[i], mkVal(c.In[j], s))
		}
	}

	// ---- the script function
	b := newBinder()
	var params []string
	recArgs := "a..."
	if c.Params == -1 {
		params = []string{"a..."}
	} else {
		for i := 0; i < n; i++ {
			params = append(params, "a"+strconv.Itoa(i))
		}
		recArgs = strings.Join(params, ", ")
	}
	retSrc := make([]string, len(c.Ret))
	retStatic := make([]reflect.Value, len(c.Ret))
	for j := range c.Ret {
		if c.Ret[j].K == "a" {
			idx := int(c.Ret[j].I)
			if idx < 0 || idx >= n || c.Params != n {
				o.Excluded = "bad_case"
				return nil
			}
			retSrc[j] = "a" + strconv.Itoa(idx)
			continue
		}
		retSrc[j], retStatic[j] = b.render(&c.Ret[j])
	}
	var body string
	switch c.Body {
	case "throw":
		body = "throw \"boom\""
	case "ret":
		if len(c.Ret) != m {
			o.Excluded = "bad_case"
			return nil
		}
		body = "return " + strings.Join(retSrc, ", ")
		if m == 0 {
			body = "return"
		}
	default:
		o.Excluded = "bad_case"
		return nil
	}
	fn := "func(" + strings.Join(params, ", ") + ") { rec(" + recArgs + "); " + body + " }"
	var lines []string
	cbExpr := "cb"
	if c.Inline {
		cbExpr = fn
	} else {
		lines = append(lines, "cb = "+fn)
	}
	var hostIn []reflect.Type
	switch c.Hand {
	case "direct":
		hostIn = []reflect.Type{cbT}
		lines = append(lines, "register("+cbExpr+")")
	case "second":
		hostIn = []reflect.Type{reflect.TypeOf(int64(0)), cbT}
		lines = append(lines, "register(7, "+cbExpr+")")
	case "tail":
		hostIn = []reflect.Type{reflect.SliceOf(cbT)}
		lines = append(lines, "register("+cbExpr+")")
	case "slice":
		hostIn = []reflect.Type{reflect.SliceOf(cbT)}
		lines = append(lines, "register(["+cbExpr+"])")
	case "map":
		hostIn = []reflect.Type{reflect.MapOf(reflect.TypeOf(""), cbT)}
		lines = append(lines, "register({\"k\": "+cbExpr+"})")
	case "spread":
		hostIn = []reflect.Type{reflect.TypeOf(int64(0)), cbT}
		lines = append(lines, "register([7, "+cbExpr+"]...)")
	default:
		o.Excluded = "bad_case"
		return nil
	}
	lines = append(lines, "\"done\"")
	src := strings.Join(lines, "\n")

	// ---- the Go side
	var saved reflect.Value
	hostGot := make([][]reflect.Value, len(c.Fires))
	returned := make([]bool, len(c.Fires)) // the call of the func value came back to its Go caller
	hostT := reflect.FuncOf(hostIn, nil, c.Hand == "tail")
	register := reflect.MakeFunc(hostT, func(in []reflect.Value) []reflect.Value {
		last := in[len(in)-1]
		switch c.Hand {
		case "tail", "slice":
			if last.Len() > 0 {
				saved = last.Index(0)
			}
		case "map":
			saved = last.MapIndex(reflect.ValueOf("k"))
		default:
			saved = last
		}
		if c.Fires[0].Via == "now" && saved.IsValid() && !saved.IsNil() {
			hostGot[0] = saved.Call(goArgs[0])
			returned[0] = true
		}
		return nil
	})
	var seen [][]interface{}
	fire := func(i int64) {
		if i >= 0 && int(i) < len(goArgs) && saved.IsValid() {
			hostGot[i] = saved.Call(goArgs[i])
			returned[i] = true
		}
	}
	e := env.NewEnv()
	e.Define("register", register.Interface())
	e.Define("fire", fire)
	e.Define("rec", func(a ...interface{}) { seen = append(seen, append([]interface{}{}, a...)) })
	e.Define("id", func(a interface{}) interface{} { return a })
	defineAll(e, b)

	var gd, ad, vias []string
	for i, nm := range b.names {
		gd = append(gd, nm+"="+desc(b.goVs[i]))
	}
	for i := range goArgs {
		ad = append(ad, "invocation "+strconv.Itoa(i)+" ("+c.Fires[i].Via+"): "+descList(goArgs[i]))
		vias = append(vias, c.Fires[i].Via)
	}
	o.Key = cbT.String() + "\x00" + c.Hand + "\x00" + c.Ctx + "\x00" + src + "\x00" + strings.Join(gd, ";") + "\x00" + strings.Join(ad, ";")
	o.Note = fmt.Sprintf("callback %s; run 1 under %s; %s; %s; %s", cbT, c.Ctx, strings.Join(ad, "; "), strings.Join(gd, "; "), strings.ReplaceAll(src, "\n", "; "))
	head := func() string {
		return fmt.Sprintf("register keeps the callback (%s) it is handed, fire(i) invokes it with the arguments of invocation i\nrun 1 (context: %s):\n%s\n%s\n%s", cbT, retCtxText(c.Ctx), src, strings.Join(ad, "\n"), strings.Join(gd, "\n"))
	}
	o.Class("retained:hand:" + c.Hand)
	o.Class("retained:run1-context:" + c.Ctx)
	o.Class("retained:body:" + c.Body)
	o.Class("retained:nin:%d", n)
	o.Class("retained:nout:%d", m)
	if c.Params == -1 {
		o.Class("retained:variadic-script-func")
	}
	later := 0
	for _, f := range c.Fires {
		o.Class("retained:via:%s:after-run1-context:%s", f.Via, c.Ctx)
		if f.Via != "now" {
			later++
		}
	}
	o.NonTrivial = later > 0 && c.Ctx != "background" && c.Ctx != "live"

	// ---- the reference for one invocation: what the Go caller must receive
	type rplan struct {
		out   outcome
		why   string
		vals  []reflect.Value
		loose []bool
	}
	planRet := func(inv int) rplan {
		rp := rplan{vals: make([]reflect.Value, m), loose: make([]bool, m)}
		if c.Body == "throw" {
			rp.out, rp.why = oErr, "throw"
			return rp
		}
		rv := make([]reflect.Value, m)
		for j := range c.Ret {
			if c.Ret[j].K == "a" {
				rv[j] = goArgs[inv][int(c.Ret[j].I)]
			} else {
				rv[j] = retStatic[j]
			}
		}
		for j := 0; j < m; j++ {
			r := goConvert(rv[j], outT[j])
			switch r.st {
			case cOK:
				rp.vals[j], rp.loose[j] = r.v, r.loose
			case cNone:
				if rp.out != oErr {
					rp.out, rp.why = oErr, "noconv:"+r.cell
				}
			default:
				if rp.out == oOK {
					rp.out, rp.why = oNoCrash, "unasserted"
				}
			}
		}
		return rp
	}

	// ---- run 1
	var cancels []context.CancelFunc
	defer func() {
		for _, cf := range cancels {
			cf()
		}
	}()
	ctx1 := context.Background()
	var release func()
	switch c.Ctx {
	case "background":
	case "live":
		cx, cf := context.WithCancel(context.Background())
		ctx1 = cx
		cancels = append(cancels, cf)
	case "cancel":
		cx, cf := context.WithCancel(context.Background())
		ctx1, release = cx, cf
	case "timeout":
		cx, cf := context.WithTimeout(context.Background(), time.Hour)
		ctx1, release = cx, cf
	case "child":
		parent, pcf := context.WithCancel(context.Background())
		cx, cf := context.WithCancel(parent)
		ctx1, release = cx, pcf
		cancels = append(cancels, cf)
	default:
		o.Excluded = "bad_case"
		return nil
	}
	got1, err1 := ank.ExecCtx(ctx1, e, src)
	if release != nil {
		release() // the host's `defer cancel()`: run 1 is over
	}
	if hp, ok := ank.IsHostPanic(err1); ok {
		return h.Failf("C11|panic|retained|"+ank.NormPanic(hp.Value), "%s\nescaped panic in run 1: %v", head(), hp.Value)
	}
	if !saved.IsValid() || saved.Kind() != reflect.Func || saved.IsNil() {
		return h.Failf("C11|retained|not-handed-over|"+c.Hand, "%s\nregister did not receive a function (run 1: %s, error %v)", head(), ank.Describe(got1), err1)
	}

	// ---- the invocations, in order
	for i, f := range c.Fires {
		rp := planRet(i)
		before := len(seen)
		var err error
		var got interface{}
		var panicked interface{}
		fsrc := "fire(" + strconv.Itoa(i) + ")"
		if f.Try {
			fsrc = "out = \"done\"\ntry { fire(" + strconv.Itoa(i) + ") } catch e { out = \"caught\" }\nout"
		}
		where := "during the call that received it"
		switch f.Via {
		case "now":
			// it happened during run 1, before anything else
			before, err, got = 0, err1, got1
		case "go":
			where = "directly from Go after run 1 returned"
			func() {
				defer func() { panicked = recover() }()
				hostGot[i] = saved.Call(goArgs[i])
				returned[i] = true
			}()
		case "run":
			where = "from the later run `" + strings.ReplaceAll(fsrc, "\n", "; ") + "` (vm.Execute)"
			got, err = ank.Exec(e, fsrc)
		case "runctx":
			where = "from the later run `" + strings.ReplaceAll(fsrc, "\n", "; ") + "` (under a live context of its own)"
			cx, cf := context.WithCancel(context.Background())
			got, err = ank.ExecCtx(cx, e, fsrc)
			cf()
		case "runother":
			where = "from the later run `" + strings.ReplaceAll(fsrc, "\n", "; ") + "` in another environment"
			e2 := env.NewEnv()
			e2.Define("fire", fire)
			got, err = ank.Exec(e2, fsrc)
		default:
			o.Excluded = "bad_case"
			return nil
		}
		if hp, ok := ank.IsHostPanic(err); ok {
			return h.Failf("C11|panic|retained|"+ank.NormPanic(hp.Value), "%s\ninvocation %d %s: escaped panic: %v", head(), i, where, hp.Value)
		}
		outcomeText := fmt.Sprintf("result %s, error %v", ank.Describe(got), err)
		if f.Via == "go" {
			outcomeText = fmt.Sprintf("the call of the Go func value panicked with: %v", panicked)
			if panicked == nil {
				outcomeText = "the call of the Go func value returned " + descList(hostGot[i])
			}
		}
		if len(seen) == before {
			return h.Failf("C11|retained|not-invoked|"+f.Via, "%s\ninvocation %d, %s: the body of the script function did not run\n%s", head(), i, where, outcomeText)
		}
		if len(seen) != before+1 {
			return h.Failf("C11|retained|invoked-too-often|"+f.Via, "%s\ninvocation %d, %s: the script function ran %d times", head(), i, where, len(seen)-before)
		}
		okSeen := len(seen[before]) == n
		if okSeen {
			for j := 0; j < n; j++ {
				if !same(reflect.ValueOf(seen[before][j]), goArgs[i][j], false) {
					okSeen = false
				}
			}
		}
		if !okSeen {
			return h.Failf("C11|retained|script-saw|"+f.Via, "%s\ninvocation %d, %s: the script function saw %s, Go passed %s", head(), i, where, desc(reflect.ValueOf(seen[before])), descList(goArgs[i]))
		}
		switch rp.out {
		case oNoCrash:
			o.Class("retained:outcome:nocrash")
			return nil
		case oErr:
			o.Class("retained:outcome:error:" + f.Via)
			if f.Via == "go" {
				// no enclosing script call: what the error does is not stated (O8)
				if returned[i] {
					return h.Failf("C11|retained|missing-error|go|"+rp.why, "%s\ninvocation %d, %s, must fail (%s) but the Go caller received %s", head(), i, where, rp.why, descList(hostGot[i]))
				}
				continue
			}
			if returned[i] {
				return h.Failf("C11|retained|missing-error|"+f.Via+"|"+rp.why, "%s\ninvocation %d, %s, must fail (%s) but the Go caller received %s", head(), i, where, rp.why, descList(hostGot[i]))
			}
			if f.Via == "now" {
				if err == nil {
					return h.Failf("C11|retained|error-lost|now|"+rp.why, "%s\ninvocation %d: the failure (%s) must surface as an error of the enclosing call; run 1 returned %s", head(), i, rp.why, ank.Describe(got))
				}
				continue
			}
			if f.Try {
				if err != nil || got != "caught" {
					return h.Failf("C11|retained|error-not-catchable|"+f.Via+"|"+rp.why, "%s\ninvocation %d, %s: the failure (%s) must surface as an error of fire(%d) and reach catch; %s", head(), i, where, rp.why, i, outcomeText)
				}
			} else if err == nil {
				return h.Failf("C11|retained|error-lost|"+f.Via+"|"+rp.why, "%s\ninvocation %d, %s: the failure (%s) must surface as an error of the enclosing call; %s", head(), i, where, rp.why, outcomeText)
			}
			continue
		}
		o.Class("retained:outcome:ok:" + f.Via)
		if !returned[i] {
			return h.Failf("C11|retained|unexpected-error|"+f.Via+"|nout="+strconv.Itoa(m), "%s\ninvocation %d, %s: reference: the results %s reach the Go caller\n%s", head(), i, where, descList(rp.vals), outcomeText)
		}
		if len(hostGot[i]) != m {
			return h.Failf("C11|retained|result-count", "%s\ninvocation %d: the Go caller received %d results, declared %d", head(), i, len(hostGot[i]), m)
		}
		for j := 0; j < m; j++ {
			if hg := hostGot[i][j]; hg.Type() != outT[j] || !same(hg, rp.vals[j], rp.loose[j]) {
				return h.Failf("C11|retained|wrong-result|"+f.Via+"|->"+kindName(outT[j]), "%s\ninvocation %d, %s, result %d (%s): the Go caller received %s, Go conversion gives %s", head(), i, where, j, outT[j], desc(hg), desc(rp.vals[j]))
			}
		}
		switch f.Via {
		case "go":
		case "now":
			if err != nil {
				return h.Failf("C11|retained|unexpected-error-after|now", "%s\ninvocation %d succeeded but run 1 failed: %v", head(), i, err)
			}
		default:
			if err != nil || (f.Try && got != "done") {
				return h.Failf("C11|retained|unexpected-error-after|"+f.Via, "%s\ninvocation %d, %s, succeeded but the run did not: %s", head(), i, where, outcomeText)
			}
		}
	}
	return nil
}

func retCtxText(k string) string {
	switch k {
	case "background":
		return "context.Background()"
	case "live":
		return "context.WithCancel, not cancelled before the case ends"
	case "cancel":
		return "context.WithCancel, cancelled when run 1 has returned"
	case "timeout":
		return "context.WithTimeout(1h), released with its cancel function when run 1 has returned"
	case "child":
		return "context.WithCancel derived from a parent context; the parent is cancelled when run 1 has returned"
	}
	return k
}
