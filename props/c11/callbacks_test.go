package c11

import (
	"fmt"
	"reflect"
	"strconv"
	"strings"

	"github.com/mattn/anko/env"
	"pgregory.net/rapid"

	"verif/internal/ank"
	"verif/internal/h"
)

// ====================================================================
// (4) callbacks
// ====================================================================

// CbCase: a script function is passed where the host expects func(In...) (Out...). The
// host (reflect.MakeFunc) invokes it once per entry of Calls with the pool values
// (In[j], Calls[i][j]) and records what came back. The script function reports its
// parameters to the Go recorder rec(...) and then runs Body:
//
//	ret:   return Ret[0], Ret[1], …   (K "a" in a Ret refers to parameter number I)
//	throw: throw "boom"
//	undef: evaluates an undefined name
//
// Params is the script function's parameter count (-1: `func(a...)`, -2: `func(a0, b...)`,
// -3: all but the last parameter fixed, `func(a0, …, a<n-2>, b...)`).
type CbCase struct {
	In     []int   `json:"in"`
	Out    []int   `json:"out"`
	Calls  [][]int `json:"calls"`
	Params int     `json:"params"`
	Body   string  `json:"body"`
	Ret    []SV    `json:"ret"`
	Try    bool    `json:"try"`
	Second bool    `json:"second"` // the callback is the second host parameter
}

// assertVariadicScriptCallback: variadic script functions used as Go callbacks are judged
// like fixed-arity ones. (It was false while /repo handed them reflect.Value wrappers —
// fixed by /repo commit a912156; a regression shows as
// "C11|callbacks|script-saw|variadic-script-func".)
const assertVariadicScriptCallback = true

func genCbCase(t *rapid.T) CbCase {
	c := CbCase{In: []int{}, Out: []int{}, Calls: [][]int{}, Ret: []SV{}}
	// 0-3 parameters mostly; 4-7 one time in five (script functions of five and more parameters are
	// built by another route than the small ones)
	n := rapid.SampledFrom([]int{0, 1, 1, 2, 2, 2, 3, 3, 3, 3, 3, 3, 4, 5, 6, 7}).Draw(t, "nin")
	for i := 0; i < n; i++ {
		c.In = append(c.In, genTypeIdx(t, "ptype"))
	}
	m := rapid.SampledFrom([]int{0, 1, 1, 1, 2, 2}).Draw(t, "nout")
	for i := 0; i < m; i++ {
		c.Out = append(c.Out, genTypeIdx(t, "rtype"))
	}
	nc := rapid.SampledFrom([]int{1, 1, 2}).Draw(t, "ncalls")
	for i := 0; i < nc; i++ {
		seeds := []int{}
		for j := 0; j < n; j++ {
			seeds = append(seeds, rapid.IntRange(0, 60).Draw(t, "aseed"))
		}
		c.Calls = append(c.Calls, seeds)
	}
	c.Params = n
	switch rapid.IntRange(0, 19).Draw(t, "paramshape") {
	case 0:
		c.Params = n + 1
	case 1:
		if n > 0 {
			c.Params = n - 1
		}
	case 2, 3:
		c.Params = -1
	case 4:
		if n > 0 {
			c.Params = -2
		}
	case 5:
		if n > 1 {
			c.Params = -3
		}
	}
	c.Body = rapid.SampledFrom([]string{"ret", "ret", "ret", "ret", "ret", "ret", "ret", "throw", "undef"}).Draw(t, "body")
	c.Try = rapid.IntRange(0, 4).Draw(t, "try") == 0
	c.Second = rapid.IntRange(0, 4).Draw(t, "second") == 0
	if c.Body == "ret" {
		k := m
		switch rapid.IntRange(0, 9).Draw(t, "retcount") {
		case 0:
			k = m - 1
		case 1:
			k = m + 1
		}
		if k < 0 {
			k = 0
		}
		for j := 0; j < k; j++ {
			// a returned parameter, or a value aimed at the declared result type
			if n > 0 && c.Params >= n && rapid.IntRange(0, 3).Draw(t, "retparam") == 0 {
				c.Ret = append(c.Ret, SV{K: "a", I: int64(rapid.IntRange(0, n-1).Draw(t, "which"))})
			} else if j < m {
				c.Ret = append(c.Ret, genSVFor(t, Pool[c.Out[j]].T, 2))
			} else {
				c.Ret = append(c.Ret, genSV(t, 1))
			}
		}
	}
	return c
}

func cbOracle(c CbCase, o *h.Obs) *h.Fail {
	if len(c.In) > 8 || len(c.Out) > 4 || len(c.Calls) == 0 || len(c.Calls) > 4 {
		o.Excluded = "bad_case"
		return nil
	}
	var inT, outT []reflect.Type
	for _, i := range c.In {
		if i < 0 || i >= len(Pool) {
			o.Excluded = "bad_case"
			return nil
		}
		inT = append(inT, Pool[i].T)
	}
	for _, i := range c.Out {
		if i < 0 || i >= len(Pool) {
			o.Excluded = "bad_case"
			return nil
		}
		outT = append(outT, Pool[i].T)
	}
	for _, s := range c.Calls {
		if len(s) != len(c.In) {
			o.Excluded = "bad_case"
			return nil
		}
	}
	cbT := reflect.FuncOf(inT, outT, false)
	n, m := len(inT), len(outT)

	// the Go arguments of every invocation, built once
	goArgs := make([][]reflect.Value, len(c.Calls))
	for i, seeds := range c.Calls {
		for j, s := range seeds {
			goArgs[i] = append(goArgs[i], mkVal(c.In[j], s))
		}
	}

	// script function text
	b := newBinder()
	var params []string
	var recArgs string
	switch {
	case c.Params == -1:
		params = []string{"a..."}
		recArgs = "a..."
	case c.Params == -2:
		params = []string{"a0", "b..."}
		recArgs = "a0, b"
	case c.Params == -3:
		if n < 2 {
			o.Excluded = "bad_case"
			return nil
		}
		for i := 0; i < n-1; i++ {
			params = append(params, "a"+strconv.Itoa(i))
		}
		recArgs = strings.Join(params, ", ") + ", b"
		params = append(params, "b...")
	default:
		for i := 0; i < c.Params; i++ {
			params = append(params, "a"+strconv.Itoa(i))
		}
		recArgs = strings.Join(params, ", ")
	}
	// returned expressions; retV(i) gives the script-side values for invocation i
	retSrc := make([]string, len(c.Ret))
	retStatic := make([]reflect.Value, len(c.Ret))
	for j := range c.Ret {
		if c.Ret[j].K == "a" {
			idx := int(c.Ret[j].I)
			if idx < 0 || idx >= n || c.Params < n {
				o.Excluded = "bad_case"
				return nil
			}
			retSrc[j] = "a" + strconv.Itoa(idx)
			continue
		}
		retSrc[j], retStatic[j] = b.render(&c.Ret[j])
	}
	retV := func(inv int) []reflect.Value {
		out := make([]reflect.Value, len(c.Ret))
		for j := range c.Ret {
			if c.Ret[j].K == "a" {
				out[j] = goArgs[inv][int(c.Ret[j].I)]
			} else {
				out[j] = retStatic[j]
			}
		}
		return out
	}
	var body string
	switch c.Body {
	case "throw":
		body = "throw \"boom\""
	case "undef":
		body = "return undefinedName + 1"
	default:
		body = "return " + strings.Join(retSrc, ", ")
		if len(retSrc) == 0 {
			body = "return"
		}
	}
	fn := "func(" + strings.Join(params, ", ") + ") { rec(" + recArgs + "); " + body + " }"
	call := "call(cb)"
	if c.Second {
		call = "call(7, cb)"
	}
	var src string
	if c.Try {
		src = "cb = " + fn + "\nout = \"done\"\ntry { " + call + " } catch e { out = \"caught\" }\nout"
	} else {
		src = "cb = " + fn + "\n" + call + "\n\"done\""
	}

	// host
	var hostGot [][]reflect.Value
	hostIn := []reflect.Type{cbT}
	if c.Second {
		hostIn = []reflect.Type{reflect.TypeOf(int64(0)), cbT}
	}
	hostT := reflect.FuncOf(hostIn, nil, false)
	host := reflect.MakeFunc(hostT, func(in []reflect.Value) []reflect.Value {
		cb := in[len(in)-1]
		for i := range goArgs {
			hostGot = append(hostGot, cb.Call(goArgs[i]))
		}
		return nil
	})
	var seen [][]interface{}
	e := env.NewEnv()
	e.Define("call", host.Interface())
	e.Define("rec", func(a ...interface{}) { seen = append(seen, append([]interface{}{}, a...)) })
	defineAll(e, b)

	var gd []string
	for i, nm := range b.names {
		gd = append(gd, nm+"="+desc(b.goVs[i]))
	}
	var ad []string
	for i := range goArgs {
		ad = append(ad, "invocation "+strconv.Itoa(i)+": "+descList(goArgs[i]))
	}
	o.Key = cbT.String() + "\x00" + src + "\x00" + strings.Join(gd, ";") + "\x00" + strings.Join(ad, ";")
	o.Note = fmt.Sprintf("callback %s; %s; %s; %s", cbT, strings.Join(ad, "; "), strings.Join(gd, "; "), strings.ReplaceAll(src, "\n", "; "))
	head := func() string {
		return fmt.Sprintf("host call(cb %s) invokes cb with\n%s\n%s\nsource:\n%s", cbT, strings.Join(ad, "\n"), strings.Join(gd, "\n"), src)
	}

	// ----- reference -----
	paramShape := "exact"
	switch {
	case c.Params == -1:
		paramShape = "variadic"
	case c.Params == -2:
		paramShape = "fixed+variadic"
	case c.Params == -3:
		paramShape = "fixed+variadic-last"
	case c.Params < n:
		paramShape = "fewer"
	case c.Params > n:
		paramShape = "more"
	}
	o.Class("callbacks:params:" + paramShape)
	o.Class("callbacks:nin:%d", n)
	o.Class("callbacks:nout:%d", m)
	o.Class("callbacks:body:" + c.Body)
	if c.Try {
		o.Class("callbacks:try")
	}
	o.NonTrivial = true

	// what the script function must see at invocation i
	wantSeen := func(inv int) []reflect.Value {
		if (c.Params == -2 && n > 0) || c.Params == -3 {
			// func(a0, b...) reports rec(a0, b): the first argument and the list of the rest;
			// func(a0, …, a<n-2>, b...) the first n-1 arguments and the list holding the last
			k := 1
			if c.Params == -3 {
				k = n - 1
			}
			rest := make([]interface{}, 0, n-k)
			for _, v := range goArgs[inv][k:] {
				v = unwrap(v)
				if v.IsValid() {
					rest = append(rest, v.Interface())
				} else {
					rest = append(rest, nil)
				}
			}
			return append(append([]reflect.Value{}, goArgs[inv][:k]...), reflect.ValueOf(rest))
		}
		return goArgs[inv]
	}

	// plan the results of invocation i: out, expected values
	type rplan struct {
		out    outcome
		why    string
		vals   []reflect.Value
		loose  []bool
		either []bool // result j went through a one-character string -> byte/rune step: error or that character
		nilPtr bool
	}
	planRet := func(inv int) rplan {
		rp := rplan{vals: make([]reflect.Value, m), loose: make([]bool, m), either: make([]bool, m)}
		if c.Body != "ret" {
			rp.out, rp.why = oErr, c.Body
			return rp
		}
		rv := retV(inv)
		var RV reflect.Value // the single script value the function returns
		switch len(rv) {
		case 0:
			RV = reflect.Value{}
		case 1:
			RV = rv[0]
		default:
			list := make([]interface{}, len(rv))
			for j, v := range rv {
				v = unwrap(v)
				if v.IsValid() {
					list[j] = v.Interface()
				}
			}
			RV = reflect.ValueOf(list)
		}
		conv := func(j int, v reflect.Value) {
			r := goConvert(v, outT[j])
			o.Class("conv:ret:" + r.cell + stName[r.st])
			switch r.st {
			case cNone:
				if rp.out != oErr {
					rp.out, rp.why = oErr, "noconv:"+r.cell
				}
			case cUnasserted:
				if strings.Contains(r.why, whyNilPtr) {
					rp.nilPtr = true
				}
				if rp.out == oOK {
					rp.out, rp.why = oNoCrash, "unasserted:"+r.why
				}
			case cEither:
				rp.vals[j], rp.loose[j], rp.either[j] = r.v, r.loose, true
			default:
				rp.vals[j], rp.loose[j] = r.v, r.loose
			}
		}
		switch {
		case m == 0:
		case m == 1:
			conv(0, RV)
		default:
			L := unwrap(RV)
			if !L.IsValid() || (L.Kind() != reflect.Slice && L.Kind() != reflect.Array) {
				rp.out, rp.why = oErr, "retcount:not-a-list"
				return rp
			}
			if L.Len() < m {
				rp.out, rp.why = oErr, "retcount:few"
				return rp
			}
			if L.Len() > m {
				rp.out, rp.why = oNoCrash, "unasserted:more results than declared"
			}
			for j := 0; j < m; j++ {
				conv(j, L.Index(j))
			}
		}
		return rp
	}

	got, err := ank.Exec(e, src)
	if hp, ok := ank.IsHostPanic(err); ok {
		return h.Failf("C11|panic|callbacks|"+ank.NormPanic(hp.Value), "%s\nescaped panic: %v", head(), hp.Value)
	}

	if paramShape == "fewer" || paramShape == "more" {
		// the statement does not say what a script function of another arity does
		o.Class("callbacks:outcome:nocrash")
		return nil
	}
	sigShape := "fixed-script-func"
	if c.Params < 0 {
		sigShape = "variadic-script-func"
		if !assertVariadicScriptCallback {
			// known deviation, reported: a variadic script function used as a callback
			// receives reflect.Value wrappers; excluded and counted (host panics still count)
			o.Excluded = "variadic_script_callback"
			return nil
		}
	}

	// walk the invocations in order
	for inv := range goArgs {
		if len(seen) <= inv {
			return h.Failf("C11|callbacks|not-invoked|"+sigShape, "%s\nthe script function ran %d times, the host invoked it at least %d times (error: %v)", head(), len(seen), inv+1, err)
		}
		ws := wantSeen(inv)
		okSeen := len(seen[inv]) == len(ws)
		if okSeen {
			for j := range ws {
				if !same(reflect.ValueOf(seen[inv][j]), ws[j], false) {
					okSeen = false
				}
			}
		}
		if !okSeen {
			return h.Failf("C11|callbacks|script-saw|"+sigShape, "%s\ninvocation %d: the script function saw %s, Go passed %s", head(), inv, desc(reflect.ValueOf(seen[inv])), descList(ws))
		}
		rp := planRet(inv)
		switch rp.out {
		case oNoCrash:
			o.Class("callbacks:outcome:nocrash")
			return nil
		case oErr:
			o.Class("callbacks:outcome:error")
			why := rp.why
			if i := strings.Index(why, ":"); i >= 0 {
				why = why[:i]
			}
			o.Class("callbacks:why:" + why)
			if len(hostGot) > inv {
				return h.Failf("C11|callbacks|missing-error|"+rp.why, "%s\ninvocation %d must fail (%s) but the host received %s", head(), inv, rp.why, descList(hostGot[inv]))
			}
			if c.Try {
				if err != nil || got != "caught" {
					return h.Failf("C11|callbacks|error-not-catchable|"+rp.why, "%s\nthe failure (%s) must surface as an error of call(cb) and reach catch; result %s, error %v", head(), rp.why, ank.Describe(got), err)
				}
			} else if err == nil {
				return h.Failf("C11|callbacks|error-lost|"+rp.why, "%s\nthe failure (%s) must surface as an error of the enclosing call; anko returned %s", head(), rp.why, ank.Describe(got))
			}
			if len(seen) > inv+1 {
				return h.Failf("C11|callbacks|ran-after-error", "%s\nthe script function ran %d times although invocation %d failed", head(), len(seen), inv)
			}
			return nil
		}
		// success of this invocation
		anyEither := false
		for _, e := range rp.either {
			anyEither = anyEither || e
		}
		if anyEither && len(hostGot) <= inv {
			// "error or that character": the error reading
			o.Class("callbacks:outcome:either-error")
			if !c.Try && err == nil {
				return h.Failf("C11|callbacks|error-lost|either", "%s\ninvocation %d: the host received nothing and no error surfaced; anko returned %s", head(), inv, ank.Describe(got))
			}
			return nil
		}
		if len(hostGot) <= inv {
			return h.Failf("C11|callbacks|unexpected-error|"+sigShape+"|nout="+strconv.Itoa(m), "%s\ninvocation %d: reference: results %s reach the host\nanko: the host received nothing, error: %v", head(), inv, descList(rp.vals), err)
		}
		hg := hostGot[inv]
		if len(hg) != m {
			return h.Failf("C11|callbacks|result-count", "%s\ninvocation %d: host received %d results, declared %d", head(), inv, len(hg), m)
		}
		for j := 0; j < m; j++ {
			if rp.either[j] && (hg[j].Type() != outT[j] || !same(hg[j], rp.vals[j], rp.loose[j])) {
				return h.Failf("C11|callbacks|one-char-string|->"+kindName(outT[j]), "%s\ninvocation %d result %d (%s): Go has no conversion from a string to a byte / rune: the enclosing call fails with an error, or (the documented special case) the one character of the string arrives\nhost received %s, the character is %s", head(), inv, j, outT[j], desc(hg[j]), desc(rp.vals[j]))
			}
			if hg[j].Type() != outT[j] || !same(hg[j], rp.vals[j], rp.loose[j]) {
				return h.Failf("C11|callbacks|wrong-result|->"+kindName(outT[j]), "%s\ninvocation %d result %d (%s): host received %s, Go conversion gives %s", head(), inv, j, outT[j], desc(hg[j]), desc(rp.vals[j]))
			}
		}
	}
	o.Class("callbacks:outcome:ok")
	if err != nil {
		return h.Failf("C11|callbacks|unexpected-error-after|"+sigShape, "%s\nevery invocation succeeded but the script failed: %v", head(), err)
	}
	if got != "done" {
		return h.Failf("C11|callbacks|script-result", "%s\nscript result %s, want \"done\"", head(), ank.Describe(got))
	}
	if len(seen) != len(goArgs) {
		return h.Failf("C11|callbacks|invocation-count", "%s\nthe script function ran %d times, the host invoked it %d times", head(), len(seen), len(goArgs))
	}
	return nil
}
