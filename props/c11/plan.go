package c11

import (
	"fmt"
	"reflect"
	"strings"
)

// outcome of the reference for one call.
type outcome int

const (
	oOK      outcome = iota // must succeed; params are what the host must receive
	oErr                    // must fail with an error, host not invoked
	oWeak                   // statement silent on this shape: error (host not invoked) or success with params (prefix law)
	oNoCrash                // nothing asserted beyond "no host panic"
)

// plan is what the reference says about calling a Go function of type ft with the
// supplied script-side values.
type plan struct {
	out      outcome
	why      string          // reason for oErr / oWeak / oNoCrash
	nilPtr   bool            // contains the nil-pointer re-typing shape (known host panic)
	whyCell  string          // the cell without conversion when why == "noconv"
	params   []reflect.Value // expected parameters, len == ft.NumIn() (variadic tail as its slice)
	loose    []bool          // per parameter: nil/empty containers not distinguished
	either   []bool          // per parameter: holds a one-character string -> byte/rune step ("error or that character")
	nonIdent bool            // some argument needed a non-identity conversion
	cells    []string        // conversion cells touched
	shape    string          // fixed|variadic x plain|spread
	count    string          // exact|few|many
}

// planCall computes the reference for f(args..., spread...) where spread (if has) is the
// value of the last, `...`-marked expression.
//
// fixed x plain:     as many arguments as parameters, parameter i = goConvert(arg i, T i).
// variadic x plain:  at least the fixed parameters; the rest is collected, each converted to the element type.
// fixed x spread:    the supplied arguments are the plain ones followed by the elements of the spread list.
// variadic x spread: the plain arguments fill exactly the fixed parameters, the spread value is converted to the tail type as a whole (Go's f(a, xs...)).
func planCall(ft reflect.Type, args []reflect.Value, hasSpread bool, spread reflect.Value) plan {
	p := plan{}
	nIn := ft.NumIn()
	variadic := ft.IsVariadic()
	switch {
	case !variadic && !hasSpread:
		p.shape = "fixed-plain"
	case variadic && !hasSpread:
		p.shape = "variadic-plain"
	case !variadic && hasSpread:
		p.shape = "fixed-spread"
	default:
		p.shape = "variadic-spread"
	}
	p.count = "exact"
	p.params = make([]reflect.Value, nIn)
	p.loose = make([]bool, nIn)
	p.either = make([]bool, nIn)

	conv := func(i int, v reflect.Value, T reflect.Type) (reflect.Value, bool) {
		r := goConvert(v, T)
		p.cells = append(append(p.cells, r.cell+stName[r.st]), r.sub...)
		switch r.st {
		case cNone:
			if p.out != oErr {
				p.out = oErr
				p.why = "noconv"
				p.whyCell = r.cell
			}
			return reflect.Value{}, false
		case cUnasserted:
			if strings.Contains(r.why, whyNilPtr) {
				p.nilPtr = true
			}
			if p.out == oOK || p.out == oWeak {
				p.out = oNoCrash
				p.why = "unasserted:" + r.why
			}
			return reflect.Value{}, false
		case cEither:
			// error or this value: the weak outcome (an error without invocation is admitted,
			// a call that goes through is compared)
			if p.out == oOK {
				p.out = oWeak
				p.why = "either:" + whyOneChar
			}
			if i >= 0 {
				p.either[i] = true
			} else {
				p.either[nIn-1] = true
			}
		}
		if !r.identity {
			p.nonIdent = true
		}
		if r.loose && i >= 0 {
			p.loose[i] = true
		}
		return r.v, true
	}

	// the reported nil-pointer shape can be reached before anko checks the count: flag it
	// whenever a supplied nil pointer could meet a parameter of another pointer type
	for _, a := range append(append([]reflect.Value{}, args...), spread) {
		for i := 0; i < nIn; i++ {
			if nilPtrMeets(a, ft.In(i), 0) {
				p.nilPtr = true
			}
		}
	}
	supplied := args
	if !variadic && nIn == 0 && (hasSpread || len(args) > 0) {
		// the repository's own tests pin that a parameterless function ignores whatever
		// is supplied (a(true, [true]...) runs); the statement is silent
		p.out, p.why, p.count = oWeak, "arguments to a parameterless function", "many"
		return p
	}
	if !variadic && hasSpread {
		// the spread value must be a list; its elements are appended
		sp := unwrap(spread)
		if !sp.IsValid() {
			p.out, p.why = oNoCrash, "unasserted:spread of nil into a fixed function"
			return p
		}
		if sp.Kind() != reflect.Slice && sp.Kind() != reflect.Array {
			p.out, p.why, p.count = oErr, "spread-nonlist", "exact"
			return p
		}
		supplied = append([]reflect.Value{}, args...)
		for i := 0; i < sp.Len(); i++ {
			supplied = append(supplied, sp.Index(i))
		}
	}

	if !variadic {
		switch {
		case len(supplied) < nIn:
			p.out, p.why, p.count = oErr, "count", "few"
			return p
		case len(supplied) > nIn:
			p.count = "many"
			if hasSpread || nIn == 0 {
				// the repository's own tests pin that surplus spread elements (and any
				// argument of a parameterless function) are dropped; the statement is silent
				p.out, p.why = oWeak, "surplus arguments"
			} else {
				p.out, p.why = oErr, "count"
				return p
			}
		case hasSpread && len(args) == nIn && nIn > 0:
			// f(a, b, []...): the supplied arguments are exactly a, b; anko counts expressions
			p.out, p.why = oWeak, "empty spread after a full argument list"
		}
		for i := 0; i < nIn; i++ {
			v, ok := conv(i, supplied[i], ft.In(i))
			if ok {
				p.params[i] = v
			}
		}
		return p
	}

	// variadic function
	k := nIn - 1
	tailT := ft.In(k)
	if !hasSpread {
		if len(args) < k {
			p.out, p.why, p.count = oErr, "count", "few"
			return p
		}
		for i := 0; i < k; i++ {
			v, ok := conv(i, args[i], ft.In(i))
			if ok {
				p.params[i] = v
			}
		}
		n := len(args) - k
		tail := reflect.MakeSlice(tailT, n, n)
		okAll := true
		for j := 0; j < n; j++ {
			v, ok := conv(-1, args[k+j], tailT.Elem())
			if ok {
				tail.Index(j).Set(v)
			} else {
				okAll = false
			}
		}
		if okAll {
			p.params[k] = tail
		}
		p.loose[k] = true
		return p
	}
	// variadic x spread
	switch {
	case len(args) == k:
	case len(args) == k-1:
		// the repository's tests pin that the spread value then lands, unspread, in the last
		// fixed parameter; Go rejects such a call. Nothing is asserted.
		p.out, p.why, p.count = oNoCrash, "unasserted:spread value in a fixed slot of a variadic function", "few"
		return p
	case len(args) < k:
		p.out, p.why, p.count = oErr, "count", "few"
		return p
	default:
		p.out, p.why, p.count = oErr, "count", "many"
		return p
	}
	for i := 0; i < k; i++ {
		v, ok := conv(i, args[i], ft.In(i))
		if ok {
			p.params[i] = v
		}
	}
	v, ok := conv(k, spread, tailT)
	if ok {
		p.params[k] = v
	}
	p.loose[k] = true
	return p
}

func (o outcome) String() string {
	switch o {
	case oOK:
		return "ok"
	case oErr:
		return "error"
	case oWeak:
		return "weak"
	}
	return "nocrash"
}

// recorder is the harness-side body of a host function built with reflect.MakeFunc: it
// records exactly what arrived and returns the prepared results.
type recorder struct {
	calls   [][]reflect.Value
	results []reflect.Value
}

func (r *recorder) fn(ft reflect.Type) reflect.Value {
	return reflect.MakeFunc(ft, func(in []reflect.Value) []reflect.Value {
		cp := make([]reflect.Value, len(in))
		copy(cp, in)
		r.calls = append(r.calls, cp)
		return r.results
	})
}

// expectResult is what a script sees as the value of a call with the given Go results:
// none -> nil, one -> that value, several -> []interface{} of them in order.
func expectResult(results []reflect.Value) reflect.Value {
	switch len(results) {
	case 0:
		return reflect.Value{}
	case 1:
		return results[0]
	}
	list := make([]interface{}, len(results))
	for i, r := range results {
		r = unwrap(r)
		if r.IsValid() {
			list[i] = r.Interface()
		}
	}
	return reflect.ValueOf(list)
}

// checkParams compares what the host received with the plan. Returns "" or a description.
func checkParams(ft reflect.Type, got []reflect.Value, p *plan) (int, string) {
	if len(got) != ft.NumIn() {
		return -1, fmt.Sprintf("host received %d parameters, type has %d", len(got), ft.NumIn())
	}
	for i := range got {
		if got[i].Type() != ft.In(i) {
			return i, fmt.Sprintf("parameter %d has static type %s, want %s", i, got[i].Type(), ft.In(i))
		}
		if !p.params[i].IsValid() {
			continue // not computed (unasserted)
		}
		if !same(got[i], p.params[i], p.loose[i]) {
			return i, fmt.Sprintf("parameter %d (%s): host received %s, Go conversion gives %s", i, ft.In(i), desc(got[i]), desc(p.params[i]))
		}
	}
	return -1, ""
}

// nilPtrMeets reports whether v is (or, for lists, contains) a nil pointer and T is (or
// contains as element type) a pointer type other than v's.
func nilPtrMeets(v reflect.Value, T reflect.Type, d int) bool {
	v = unwrap(v)
	if !v.IsValid() || d > 3 {
		return false
	}
	switch v.Kind() {
	case reflect.Ptr:
		if !v.IsNil() {
			return false
		}
		for t := T; ; t = t.Elem() {
			if t.Kind() == reflect.Ptr {
				return t != v.Type()
			}
			if t.Kind() != reflect.Slice && t.Kind() != reflect.Array {
				return false
			}
		}
	case reflect.Slice, reflect.Array:
		for i := 0; i < v.Len(); i++ {
			if nilPtrMeets(v.Index(i), T, d+1) {
				return true
			}
		}
	}
	return false
}
