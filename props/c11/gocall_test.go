package c11

import (
	"fmt"
	"reflect"
	"strings"
	"sync"
	"time"

	"github.com/mattn/anko/env"
	"pgregory.net/rapid"

	"verif/internal/ank"
	"verif/internal/h"
)

// ====================================================================
// gocall: the calls of sub-check (2) launched with the go statement
// ====================================================================
//
// `go f(args…)` is a call of the Go function f like any other: the statement's "are called
// with exactly the supplied arguments - including variadic parameters and `...` spreading"
// does not depend on the goroutine the call runs on. The case type, the signature pool, the
// argument generators and the reference (planCall) are those of `calls`; only the
// observation differs: the recording host hands what arrived to the oracle over a channel,
// because the call happens on a goroutine of the interpreter.
//
// Judged: calls whose reference outcome is "succeeds" (every argument has a Go conversion,
// the count fits). The go statement itself must not fail, the host must be invoked and
// must receive exactly the planned parameters. Not judged (statement silent): where the
// error of a go call without conversion surfaces, the dropped results, and every shape
// that `calls` itself only judges weakly.

// goCallGrace is how long the oracle waits for the invocation before it calls the host "not
// invoked". On the unchanged tree the invocation arrives within microseconds; the wait is
// only ever spent when the call really never happens (the goroutine died on a swallowed
// panic), so it is long enough to be out of reach of scheduling delays on a loaded machine.
const goCallGrace = 20 * time.Second

// goCallReported remembers the "not invoked" signatures this process has already established
// with the full wait. A later case with the same signature - which the harness only counts,
// it is already recorded - is given a short wait, so that a tree on which go calls never
// happen does not cost 20 s per case. It never shortens the wait behind a first report.
var (
	goCallReportedMu sync.Mutex
	goCallReported   = map[string]bool{}
)

func genGoCallCase(t *rapid.T) CallCase {
	c := CallCase{VarElem: -1, In: []int{}, Out: []int{}, OutSeed: []int{}, Args: []SV{}}
	nFixed := rapid.IntRange(0, 3).Draw(t, "nfixed")
	for i := 0; i < nFixed; i++ {
		c.In = append(c.In, genTypeIdx(t, "ptype"))
	}
	if rapid.IntRange(0, 9).Draw(t, "variadic") < 5 {
		c.VarElem = genTypeIdx(t, "vtype")
		if rapid.IntRange(0, 2).Draw(t, "vany") == 0 {
			c.VarElem = 14 // ...interface{}
		}
	}
	nOut := rapid.SampledFrom([]int{0, 0, 1, 2}).Draw(t, "nout")
	for i := 0; i < nOut; i++ {
		c.Out = append(c.Out, genTypeIdx(t, "rtype"))
		c.OutSeed = append(c.OutSeed, rapid.IntRange(0, 60).Draw(t, "rseed"))
	}
	c.Route = rapid.SampledFrom([]string{"name", "name", "name", "var", "member", "anon"}).Draw(t, "route")
	c.HasSpread = rapid.IntRange(0, 9).Draw(t, "spread") < 5
	if nFixed == 0 && c.VarElem < 0 {
		c.HasSpread = false
	}
	delta := rapid.SampledFrom([]int{0, 0, 0, 0, 0, 0, 0, 0, 0, 0, 0, -1, 1}).Draw(t, "delta")
	fixedT := make([]reflect.Type, nFixed)
	for i, ti := range c.In {
		fixedT[i] = Pool[ti].T
	}
	var varT reflect.Type
	if c.VarElem >= 0 {
		varT = Pool[c.VarElem].T
	}
	as := genArgs(t, fixedT, varT, c.HasSpread, delta)
	c.Args, c.Spread = as.Args, as.Spread
	return c
}

func goCallOracle(c CallCase, o *h.Obs) *h.Fail {
	ft, ok := c.funcType()
	if !ok || len(c.In) > 6 || len(c.Args) > 12 {
		o.Excluded = "bad_case"
		return nil
	}
	b := newBinder()
	callee := "f"
	var pre []string
	switch c.Route {
	case "var":
		pre = append(pre, "hh = f")
		callee = "hh"
	case "member":
		pre = append(pre, "mm = {\"f\": f}")
		callee = "mm.f"
	case "anon":
		callee = "(f)"
	}
	pre2, call, argV, spreadV := renderCall(b, callee, c.Args, c.HasSpread, &c.Spread)
	src := strings.Join(append(append(pre, pre2...), "go "+call), "\n")

	results := make([]reflect.Value, len(c.Out))
	for i := range c.Out {
		results[i] = mkVal(c.Out[i], c.OutSeed[i])
	}
	p := planCall(ft, argV, c.HasSpread, spreadV)

	var gd []string
	for i, n := range b.names {
		gd = append(gd, n+"="+desc(b.goVs[i]))
	}
	o.Key = ft.String() + "\x00" + src + "\x00" + strings.Join(gd, ";")
	o.Note = fmt.Sprintf("f %s; %s; %s", ft, strings.Join(gd, "; "), strings.ReplaceAll(src, "\n", "; "))
	o.NonTrivial = true
	o.Class("gocall:shape:%s:%s", p.shape, p.out)
	o.Class("gocall:route:" + c.Route)
	o.Class("gocall:nparams:%d", ft.NumIn())
	if c.HasSpread && c.Spread.Hop != "" {
		o.Class("gocall:spread-hop:%s", p.shape)
	}
	if ft.IsVariadic() && p.out == oOK {
		if ft.In(ft.NumIn()-1).Elem() == tIface {
			o.Class("gocall:tail:iface:" + p.shape)
		} else {
			o.Class("gocall:tail:typed:" + p.shape)
		}
	}

	// the host: hands what arrived to the oracle; the channel never blocks the goroutine
	arrived := make(chan []reflect.Value, 8)
	host := reflect.MakeFunc(ft, func(in []reflect.Value) []reflect.Value {
		cp := make([]reflect.Value, len(in))
		copy(cp, in)
		select {
		case arrived <- cp:
		default:
		}
		return results
	})
	e := env.NewEnv()
	e.Define("id", func(a interface{}) interface{} { return a })
	e.Define("f", host.Interface())
	defineAll(e, b)
	_, err := ank.Exec(e, src)
	ctx := func() string {
		return fmt.Sprintf("host function f of type %s\n%s\nsource:\n%s", ft, strings.Join(gd, "\n"), src)
	}
	if hp, ok := ank.IsHostPanic(err); ok {
		return h.Failf("C11|panic|gocall|"+ank.NormPanic(hp.Value), "%s\nescaped panic: %v", ctx(), hp.Value)
	}
	if p.out != oOK {
		// error cases, weakly judged shapes, unasserted cells: where the outcome of a go call
		// surfaces is not stated; only "no host panic"
		return nil
	}
	if err != nil {
		return h.Failf("C11|gocall|unexpected-error|"+p.shape+"|"+firstCell(&p), "%s\nreference: every argument has a Go conversion and the count fits, the call is made\nanko error: %v", ctx(), err)
	}
	sigNot := "C11|gocall|not-invoked|" + p.shape
	wait := goCallGrace
	goCallReportedMu.Lock()
	if goCallReported[sigNot] {
		wait = 50 * time.Millisecond
	}
	goCallReportedMu.Unlock()
	var got []reflect.Value
	timer := time.NewTimer(wait)
	select {
	case got = <-arrived:
		timer.Stop()
	case <-timer.C:
		goCallReportedMu.Lock()
		goCallReported[sigNot] = true
		goCallReportedMu.Unlock()
		f := h.Failf(sigNot, "%s\nreference: the Go function is called with the supplied arguments (every one has a Go conversion)\nanko: the go statement returned without error and the function was never invoked (waited %s)", ctx(), goCallGrace)
		f.NoShrink = true
		return f
	}
	if i, msg := checkParams(ft, got, &p); msg != "" {
		cell := "arity"
		if i >= 0 {
			cell = kindName(ft.In(i))
		}
		return h.Failf("C11|gocall|wrong-arg|"+p.shape+"|->"+cell, "%s\n%s", ctx(), msg)
	}
	select {
	case again := <-arrived:
		return h.Failf("C11|gocall|invoked-twice|"+p.shape, "%s\nthe host function was invoked a second time, with %s", ctx(), descList(again))
	default:
	}
	return nil
}
