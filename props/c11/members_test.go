package c11

import (
	"fmt"
	"reflect"
	"strings"

	"github.com/mattn/anko/env"
	"pgregory.net/rapid"

	"verif/internal/ank"
	"verif/internal/h"
)

// ====================================================================
// (3) members
// ====================================================================

// MemCase: the struct pool value S(Seed) is reached as Recv and used with member syntax.
//
//	Recv: val (S bound by value), ptr (*S), elem (xs[0] of a []S: addressable), mapval
//	      (mp.k of a map[string]S), listval ([r][0], a copy inside a script list),
//	      pfield (o.F of an outer *S: pointer read through a field), ptrlist ([r][0] holding the pointer)
//	Op:   read | write | call | bound (m = recv.M; m(args)) | unknown
type MemCase struct {
	Seed      int    `json:"seed"`
	Recv      string `json:"recv"`
	Op        string `json:"op"`
	Field     string `json:"field"`
	Val       SV     `json:"val"`
	Method    string `json:"method"`
	Args      []SV   `json:"args"`
	HasSpread bool   `json:"has_spread"`
	Spread    SV     `json:"spread"`
	Unknown   string `json:"unknown"` // read | write | call (which syntax uses the unknown name)
}

var (
	memRecvs   = []string{"val", "ptr", "ptr", "elem", "mapval", "listval", "pfield", "ptrlist"}
	memFields  = []string{"A", "B", "C", "D", "E", "F", "G", "H", "I", "ID", "Tag", "ID", "Tag", "Base"}
	valMethods = []string{"GetA", "Cat", "Sum", "Pair", "Triple", "Nothing", "Echo", "Mix"}
	ptrMethods = []string{"SetA", "Bump", "Fill", "SetD"}
	tPtrS      = reflect.PtrTo(tS)
)

func isPtrMethod(name string) bool {
	for _, m := range ptrMethods {
		if m == name {
			return true
		}
	}
	return false
}

func genMemCase(t *rapid.T) MemCase {
	c := MemCase{Seed: rapid.IntRange(0, 60).Draw(t, "seed"), Args: []SV{}}
	c.Recv = rapid.SampledFrom(memRecvs).Draw(t, "recv")
	c.Op = rapid.SampledFrom([]string{"read", "write", "write", "call", "call", "call", "bound", "unknown"}).Draw(t, "op")
	switch c.Op {
	case "read":
		c.Field = rapid.SampledFrom(memFields).Draw(t, "field")
	case "write":
		c.Field = rapid.SampledFrom(memFields).Draw(t, "field")
		f, _ := tS.FieldByName(c.Field)
		c.Val = genSVFor(t, f.Type, 2)
	case "call", "bound":
		c.Method = rapid.SampledFrom(append(append([]string{}, valMethods...), ptrMethods...)).Draw(t, "method")
		m, _ := tPtrS.MethodByName(c.Method)
		mt := m.Type // receiver is In(0)
		var fixedT []reflect.Type
		var varT reflect.Type
		n := mt.NumIn()
		for i := 1; i < n; i++ {
			if mt.IsVariadic() && i == n-1 {
				varT = mt.In(i).Elem()
			} else {
				fixedT = append(fixedT, mt.In(i))
			}
		}
		c.HasSpread = rapid.IntRange(0, 9).Draw(t, "spread") < 3 && n > 1
		delta := rapid.SampledFrom([]int{0, 0, 0, 0, 0, 0, 0, 0, -1, 1}).Draw(t, "delta")
		as := genArgs(t, fixedT, varT, c.HasSpread, delta)
		c.Args, c.Spread = as.Args, as.Spread
	case "unknown":
		c.Field = rapid.SampledFrom([]string{"Nope", "a", "geta", "Z", "seta"}).Draw(t, "uname")
		c.Unknown = rapid.SampledFrom([]string{"read", "write", "call"}).Draw(t, "usyntax")
	}
	return c
}

// memSetup binds the receiver and returns the receiver expression plus accessors to the
// Go-side struct the script works on (cur) — nil when the script only ever holds a copy.
type memEnv struct {
	e       *env.Env
	base    string
	pre     []string
	cur     func() reflect.Value // the Go-side struct after the run (S value)
	pointer bool                 // member syntax goes through a pointer
	addr    bool                 // the receiver expression is addressable (slice element)
}

func memSetup(recv string, sv reflect.Value) *memEnv {
	m := &memEnv{e: env.NewEnv()}
	m.e.Define("id", func(a interface{}) interface{} { return a })
	switch recv {
	case "ptr", "ptrlist":
		p := reflect.New(tS)
		p.Elem().Set(sv)
		m.e.Define("r", p.Interface())
		m.base = "r"
		if recv == "ptrlist" {
			m.pre = []string{"lst = [r]"}
			m.base = "lst[0]"
		}
		m.cur = func() reflect.Value { return p.Elem() }
		m.pointer = true
	case "pfield":
		inner := reflect.New(tS)
		inner.Elem().Set(sv)
		outer := &S{A: 1, F: inner.Interface().(*S)}
		m.e.Define("o", outer)
		m.base = "o.F"
		m.cur = func() reflect.Value { return inner.Elem() }
		m.pointer = true
	case "elem":
		xs := reflect.MakeSlice(reflect.SliceOf(tS), 2, 2)
		xs.Index(0).Set(sv)
		m.e.Define("xs", xs.Interface())
		m.base = "xs[0]"
		m.cur = func() reflect.Value { return xs.Index(0) }
		m.addr = true
	case "mapval":
		mp := reflect.MakeMap(reflect.MapOf(reflect.TypeOf(""), tS))
		mp.SetMapIndex(reflect.ValueOf("k"), sv)
		m.e.Define("mp", mp.Interface())
		m.base = "mp.k"
		m.cur = func() reflect.Value { return mp.MapIndex(reflect.ValueOf("k")) }
	case "listval":
		m.e.Define("r", sv.Interface())
		m.pre = []string{"lst = [r]"}
		m.base = "lst[0]"
		m.cur = func() reflect.Value { return sv }
	default: // val
		m.e.Define("r", sv.Interface())
		m.base = "r"
		m.cur = func() reflect.Value { return sv }
	}
	return m
}

func copyS(v reflect.Value) reflect.Value {
	c := reflect.New(tS)
	c.Elem().Set(v)
	return c // *S pointing at a copy
}

func memOracle(c MemCase, o *h.Obs) *h.Fail {
	sv := mkVal(35, c.Seed) // S
	orig := copyS(sv).Elem()
	m := memSetup(c.Recv, sv)
	b := newBinder()
	o.Class("members:recv:" + c.Recv)
	o.Class("members:op:" + c.Op)
	o.NonTrivial = c.Op != "read" || c.Recv != "val"
	defer func() {
		if o.Note == "" && o.Key != "" {
			o.Note = "S seed " + strings.ReplaceAll(o.Key, "\n", "; ")
		}
	}()

	fail := func(clause, detail, format string, args ...interface{}) *h.Fail {
		return h.Failf("C11|members|"+clause+"|"+c.Recv+"|"+detail, format, args...)
	}
	run := func(src string) (interface{}, error, *h.Fail) {
		defineAll(m.e, b)
		got, err := ank.Exec(m.e, src)
		if hp, ok := ank.IsHostPanic(err); ok {
			return nil, err, h.Failf("C11|panic|members|"+ank.NormPanic(hp.Value), "receiver %s = %s\nsource:\n%s\nescaped panic: %v", c.Recv, desc(orig), src, hp.Value)
		}
		return got, err, nil
	}
	join := func(lines ...string) string {
		return strings.Join(append(append([]string{}, m.pre...), lines...), "\n")
	}
	head := func(src string) string {
		var gd []string
		for i, n := range b.names {
			gd = append(gd, n+"="+desc(b.goVs[i]))
		}
		return fmt.Sprintf("receiver (%s) = %s\n%s\nsource:\n%s", c.Recv, desc(orig), strings.Join(gd, "\n"), src)
	}

	switch c.Op {
	case "read":
		f, ok := tS.FieldByName(c.Field)
		if !ok {
			o.Excluded = "bad_case"
			return nil
		}
		src := join(m.base + "." + c.Field)
		o.Key = fmt.Sprintf("%d|%s", c.Seed, src)
		o.Class("members:read:" + kindName(f.Type))
		got, err, hf := run(src)
		if hf != nil {
			return hf
		}
		want := orig.FieldByIndex(f.Index)
		if err != nil {
			return fail("read-error", c.Field, "%s\nunexpected error: %v", head(src), err)
		}
		if !same(reflect.ValueOf(got), want, false) {
			return fail("read-value", c.Field, "%s\nread %s, the Go field holds %s", head(src), desc(reflect.ValueOf(got)), desc(want))
		}
		if !same(m.cur(), orig, false) {
			return fail("read-mutates", c.Field, "%s\nreading changed the struct to %s", head(src), desc(m.cur()))
		}
		return nil

	case "write":
		f, ok := tS.FieldByName(c.Field)
		if !ok {
			o.Excluded = "bad_case"
			return nil
		}
		vs, vv := b.render(&c.Val)
		src := join(m.base+"."+c.Field+" = "+vs, m.base+"."+c.Field)
		var gd []string
		for i, n := range b.names {
			gd = append(gd, n+"="+desc(b.goVs[i]))
		}
		o.Key = fmt.Sprintf("%d|%s|%s", c.Seed, src, strings.Join(gd, ";"))
		r := goConvert(vv, f.Type)
		o.Class("members:write:%s:%s", map[bool]string{true: "pointer", false: "nonpointer"}[m.pointer], strings.TrimSpace(stName[r.st]))
		o.Class("conv:" + r.cell + stName[r.st])
		if r.st == cUnasserted && strings.Contains(r.why, whyNilPtr) && knownNilPtrPanic {
			o.Excluded = "nil_pointer_retyping"
			return nil
		}
		got, err, hf := run(src)
		if hf != nil {
			return hf
		}
		if !m.pointer {
			// the statement speaks of writes through a pointer only; a copy held by value
			// can never reach the Go-side original
			if !m.addr && !same(m.cur(), orig, false) {
				return fail("write-through-copy", c.Field, "%s\nthe Go-side value changed to %s although the script only held a copy", head(src), desc(m.cur()))
			}
			return nil
		}
		switch r.st {
		case cUnasserted, cEither:
			// (the statement's conversion clause speaks of parameters; a one-character string written
			// to a byte field stays unjudged)
			return nil
		case cNone:
			if err == nil {
				return fail("write-missing-error", r.cell, "%s\nreference: no Go conversion to %s (%s), the assignment must fail\nanko: no error, field now %s", head(src), f.Type, r.why, desc(m.cur().FieldByIndex(f.Index)))
			}
			if !same(m.cur(), orig, false) {
				return fail("write-failed-but-changed", r.cell, "%s\nthe assignment failed (%v) but the struct changed to %s", head(src), err, desc(m.cur()))
			}
			return nil
		}
		if err != nil {
			return fail("write-error", r.cell, "%s\nreference: field %s becomes %s\nanko error: %v", head(src), c.Field, desc(r.v), err)
		}
		exp := copyS(orig).Elem()
		exp.FieldByIndex(f.Index).Set(r.v)
		// compare the written field (loosely when a container was rebuilt), the others strictly
		for i := 0; i < tS.NumField(); i++ {
			loose := r.loose && tS.Field(i).Name == c.Field
			if !same(m.cur().Field(i), exp.Field(i), loose) {
				return fail("write-value", r.cell, "%s\nGo-side field %s is %s after the assignment, Go conversion gives %s", head(src), tS.Field(i).Name, desc(m.cur().Field(i)), desc(exp.Field(i)))
			}
		}
		if !same(reflect.ValueOf(got), r.v, r.loose) {
			return fail("write-readback", r.cell, "%s\nscript reads %s back, Go conversion gives %s", head(src), desc(reflect.ValueOf(got)), desc(r.v))
		}
		return nil

	case "call", "bound":
		meth, ok := tPtrS.MethodByName(c.Method)
		if !ok {
			o.Excluded = "bad_case"
			return nil
		}
		_ = meth
		ref := copyS(orig) // *S, the reference receiver
		bound := ref.MethodByName(c.Method)
		ft := bound.Type()
		callee := m.base + "." + c.Method
		var preb []string
		if c.Op == "bound" {
			preb = []string{"bm = " + callee}
			callee = "bm"
		}
		pre2, call, argV, spreadV := renderCall(b, callee, c.Args, c.HasSpread, &c.Spread)
		src := join(append(append(preb, pre2...), call)...)
		var gd []string
		for i, n := range b.names {
			gd = append(gd, n+"="+desc(b.goVs[i]))
		}
		o.Key = fmt.Sprintf("%d|%s|%s", c.Seed, src, strings.Join(gd, ";"))
		p := planCall(ft, argV, c.HasSpread, spreadV)
		recvKind := "value-method"
		if isPtrMethod(c.Method) {
			recvKind = "pointer-method"
		}
		o.Class("members:call:%s:%s:%s", recvKind, c.Recv, p.out)
		o.Class("members:method:" + c.Method)
		o.Class("members:callshape:%s:%s", p.shape, p.out)
		if c.HasSpread && c.Spread.Hop != "" {
			o.Class("members:spread-hop:%s:%s:%s", c.Spread.Hop, p.shape, p.out)
		}
		for _, cell := range dedupe(append([]string{}, p.cells...)) {
			o.Class("conv:" + cell)
		}
		if p.nilPtr && knownNilPtrPanic {
			o.Excluded = "nil_pointer_retyping"
			return nil
		}
		got, err, hf := run(src)
		if hf != nil {
			return hf
		}
		detail := c.Method + "|" + p.shape
		switch p.out {
		case oNoCrash, oWeak:
			return nil
		case oErr:
			if err == nil {
				return fail("call-missing-error", detail+"|"+p.why+":"+p.whyCell, "%s\nreference: the call must fail (%s %s)\nanko returned %s", head(src), p.why, p.whyCell, ank.Describe(got))
			}
			if !same(m.cur(), orig, false) {
				return fail("call-failed-but-changed", detail, "%s\nthe call failed (%v) but the receiver changed to %s", head(src), err, desc(m.cur()))
			}
			return nil
		}
		if err != nil {
			return fail("call-error", detail, "%s\nreference: the call succeeds\nanko error: %v", head(src), err)
		}
		// the reference: Go's own call on the reference receiver with the converted parameters
		var outs []reflect.Value
		if ft.IsVariadic() {
			outs = bound.CallSlice(p.params)
		} else {
			outs = bound.Call(p.params)
		}
		want := expectResult(outs)
		anyLooseR := false
		for _, l := range p.loose {
			anyLooseR = anyLooseR || l
		}
		if !same(reflect.ValueOf(got), want, anyLooseR) {
			return fail("call-result", detail, "%s\nscript received %s, Go's own call returns %s", head(src), desc(reflect.ValueOf(got)), desc(want))
		}
		// receiver state afterwards: through a pointer or on an addressable element the
		// method works on the Go-side struct itself; otherwise on a copy
		after := orig
		if m.pointer || m.addr {
			after = ref.Elem()
		}
		// a parameter that was rebuilt element-wise may end up in the receiver (SetD): nil and empty
		// containers are then not distinguished, as for the parameter itself
		anyLoose := false
		for _, l := range p.loose {
			anyLoose = anyLoose || l
		}
		if !same(m.cur(), after, anyLoose) {
			return fail("call-receiver-state", detail, "%s\nGo-side receiver afterwards: %s\nreference: %s", head(src), desc(m.cur()), desc(after))
		}
		return nil

	case "unknown":
		var src string
		switch c.Unknown {
		case "write":
			src = join(m.base + "." + c.Field + " = 1")
		case "call":
			src = join(m.base + "." + c.Field + "()")
		default:
			src = join(m.base + "." + c.Field)
		}
		if _, ok := tS.FieldByName(c.Field); ok {
			o.Excluded = "bad_case"
			return nil
		}
		if _, ok := tPtrS.MethodByName(c.Field); ok {
			o.Excluded = "bad_case"
			return nil
		}
		o.Key = fmt.Sprintf("%d|%s", c.Seed, src)
		o.Class("members:unknown:" + c.Unknown)
		got, err, hf := run(src)
		if hf != nil {
			return hf
		}
		if err == nil {
			return fail("unknown-member-accepted", c.Unknown, "%s\nthe struct has no member %q; anko returned %s without error", head(src), c.Field, ank.Describe(got))
		}
		if !same(m.cur(), orig, false) {
			return fail("unknown-member-changed", c.Unknown, "%s\nthe failed access changed the struct to %s", head(src), desc(m.cur()))
		}
		return nil
	}
	o.Excluded = "bad_case"
	return nil
}
