package c11

import (
	"fmt"
	"reflect"
	"strconv"
	"strings"

	"github.com/mattn/anko/env"
	"pgregory.net/rapid"

	"verif/internal/ank"
	"verif/internal/h"
)

// ====================================================================
// (4b) callbacks of VARIADIC Go func types
// ====================================================================

// VCbCase: a script function is passed where the host expects the variadic func type
// func(Fixed..., ...Var) [result]. The host invokes it once per entry of Calls, with the fixed
// pool values and 0..4 variadic ones — written out one by one (Go's f(a, x, y)) or handed over as
// a slice (Go's f(a, xs...)). The script function reports its parameters to the Go recorder rec.
//
//	Shape "same":    func(a0, …, a<k-1>, b...) with k = len(Fixed): b is the list of the variadic arguments
//	Shape "earlier": func(a0, …, a<At-1>, b...) with At < len(Fixed): b is the list of every argument from At on
//	Shape "fixed":   func(a0, …, a<k>) (not variadic): only a0 … a<k-1> are judged
//
//	Ret "none": func type without result; "xs": result interface{}, the function returns b;
//	"len": result int64, the function returns len(b); "throw": the function throws.
type VCbCase struct {
	Fixed  []int  `json:"fixed"`
	Var    int    `json:"var"`
	Calls  []VInv `json:"calls"`
	Shape  string `json:"shape"`
	At     int    `json:"at"`
	Ret    string `json:"ret"`
	Route  string `json:"route"`  // direct: call(cb) | second: call(7, cb) | list: call([cb]) (parameter []func…) | var: call(cb) with cb bound first
	Spread bool   `json:"spread"` // a script function that is variadic from its first parameter reports rec(b...) instead of rec(b)
}

// VInv is one invocation by the host.
type VInv struct {
	Fixed []int `json:"fixed"` // value seeds of the fixed arguments
	Var   []int `json:"var"`   // value seeds of the variadic arguments
	Slice bool  `json:"slice"` // the host passes the variadic arguments as one slice (CallSlice)
}

// the element types of the variadic tail that are drawn most of the time
var vcbElems = []int{5, 13, 14}

func genVCbCase(t *rapid.T) VCbCase {
	c := VCbCase{Fixed: []int{}, Calls: []VInv{}}
	k := rapid.SampledFrom([]int{0, 1, 1, 2, 2, 3}).Draw(t, "nfixed")
	for i := 0; i < k; i++ {
		c.Fixed = append(c.Fixed, genTypeIdx(t, "ptype"))
	}
	if rapid.IntRange(0, 9).Draw(t, "velem-cls") < 7 {
		c.Var = rapid.SampledFrom(vcbElems).Draw(t, "velem")
	} else {
		c.Var = genTypeIdx(t, "vtype")
	}
	nc := rapid.SampledFrom([]int{1, 1, 2, 3}).Draw(t, "ncalls")
	for i := 0; i < nc; i++ {
		inv := VInv{Fixed: []int{}, Var: []int{}}
		for j := 0; j < k; j++ {
			inv.Fixed = append(inv.Fixed, rapid.IntRange(0, 60).Draw(t, "aseed"))
		}
		nv := rapid.SampledFrom([]int{0, 0, 1, 1, 2, 3, 3, 4}).Draw(t, "nvar")
		for j := 0; j < nv; j++ {
			inv.Var = append(inv.Var, rapid.IntRange(0, 60).Draw(t, "vseed"))
		}
		inv.Slice = rapid.IntRange(0, 3).Draw(t, "slice") == 0
		c.Calls = append(c.Calls, inv)
	}
	c.Shape = "same"
	switch rapid.IntRange(0, 9).Draw(t, "shape") {
	case 0, 1, 2:
		if k > 0 {
			c.Shape = "earlier"
			c.At = rapid.IntRange(0, k-1).Draw(t, "at")
		}
	case 3:
		c.Shape = "fixed"
	}
	c.Ret = rapid.SampledFrom([]string{"none", "none", "xs", "xs", "xs", "len", "len", "throw"}).Draw(t, "ret")
	c.Route = rapid.SampledFrom([]string{"direct", "direct", "direct", "second", "list", "var"}).Draw(t, "route")
	c.Spread = rapid.IntRange(0, 3).Draw(t, "recspread") == 0
	return c
}

func ifaceOf(v reflect.Value) interface{} {
	v = unwrap(v)
	if !v.IsValid() {
		return nil
	}
	return v.Interface()
}

// sameList: got is a list ([]interface{}) with exactly the elements want (an empty list may be nil).
func sameList(got reflect.Value, want []reflect.Value) bool {
	got = unwrap(got)
	if !got.IsValid() {
		return false
	}
	if got.Type() != reflect.TypeOf([]interface{}(nil)) || got.Len() != len(want) {
		return false
	}
	for i := range want {
		if !same(got.Index(i), want[i], false) {
			return false
		}
	}
	return true
}

func vcbOracle(c VCbCase, o *h.Obs) *h.Fail {
	k := len(c.Fixed)
	if k > 6 || c.Var < 0 || c.Var >= len(Pool) || len(c.Calls) == 0 || len(c.Calls) > 6 {
		o.Excluded = "bad_case"
		return nil
	}
	var inT []reflect.Type
	for _, i := range c.Fixed {
		if i < 0 || i >= len(Pool) {
			o.Excluded = "bad_case"
			return nil
		}
		inT = append(inT, Pool[i].T)
	}
	elemT := Pool[c.Var].T
	inT = append(inT, reflect.SliceOf(elemT))
	var outT []reflect.Type
	switch c.Ret {
	case "none", "throw":
	case "xs":
		outT = []reflect.Type{tIface}
	case "len":
		outT = []reflect.Type{reflect.TypeOf(int64(0))}
	default:
		o.Excluded = "bad_case"
		return nil
	}
	at := k // where the script function's variadic parameter starts
	switch c.Shape {
	case "same", "fixed":
	case "earlier":
		if c.At < 0 || c.At >= k {
			o.Excluded = "bad_case"
			return nil
		}
		at = c.At
	default:
		o.Excluded = "bad_case"
		return nil
	}
	if c.Shape == "fixed" && (c.Ret == "xs" || c.Ret == "len") {
		// what a non-variadic parameter at the variadic position holds is not stated
		c.Ret = "none"
		outT = nil
	}
	cbT := reflect.FuncOf(inT, outT, true)

	// the Go arguments of every invocation, built once
	type goInv struct {
		fixed, vars []reflect.Value
		call        []reflect.Value // what is handed to Call / CallSlice
	}
	invs := make([]goInv, len(c.Calls))
	for i, inv := range c.Calls {
		if len(inv.Fixed) != k || len(inv.Var) > 8 {
			o.Excluded = "bad_case"
			return nil
		}
		g := goInv{}
		for j, s := range inv.Fixed {
			g.fixed = append(g.fixed, mkVal(c.Fixed[j], s))
		}
		for _, s := range inv.Var {
			g.vars = append(g.vars, mkVal(c.Var, s))
		}
		g.call = append(g.call, g.fixed...)
		if inv.Slice {
			sl := reflect.MakeSlice(reflect.SliceOf(elemT), len(g.vars), len(g.vars))
			for j, v := range g.vars {
				sl.Index(j).Set(v)
			}
			g.call = append(g.call, sl)
		} else {
			g.call = append(g.call, g.vars...)
		}
		invs[i] = g
	}

	// script function text
	// rec is func(...interface{}): a spread call must not have plain arguments before the spread one
	recSpread := c.Spread && at == 0 && c.Shape != "fixed"
	var params []string
	switch c.Shape {
	case "fixed":
		for i := 0; i <= k; i++ {
			params = append(params, "a"+strconv.Itoa(i))
		}
	default:
		for i := 0; i < at; i++ {
			params = append(params, "a"+strconv.Itoa(i))
		}
	}
	recArgs := strings.Join(params, ", ")
	if c.Shape != "fixed" {
		if recArgs != "" {
			recArgs += ", "
		}
		recArgs += "b"
		if recSpread {
			recArgs += "..."
		}
		params = append(params, "b...")
	}
	body := "return"
	switch c.Ret {
	case "xs":
		body = "return b"
	case "len":
		body = "return len(b)"
	case "throw":
		body = "throw \"boom\""
	}
	fn := "func(" + strings.Join(params, ", ") + ") { rec(" + recArgs + "); " + body + " }"
	var src string
	switch c.Route {
	case "direct":
		src = "call(" + fn + ")\n\"done\""
	case "second":
		src = "call(7, " + fn + ")\n\"done\""
	case "list":
		src = "call([" + fn + "])\n\"done\""
	case "var":
		src = "cb = " + fn + "\ncall(cb)\n\"done\""
	default:
		o.Excluded = "bad_case"
		return nil
	}

	// host
	var hostGot [][]reflect.Value
	hostIn := []reflect.Type{cbT}
	switch c.Route {
	case "second":
		hostIn = []reflect.Type{reflect.TypeOf(int64(0)), cbT}
	case "list":
		hostIn = []reflect.Type{reflect.SliceOf(cbT)}
	}
	host := reflect.MakeFunc(reflect.FuncOf(hostIn, nil, false), func(in []reflect.Value) []reflect.Value {
		cb := in[len(in)-1]
		if c.Route == "list" {
			cb = cb.Index(0)
		}
		for i := range invs {
			if c.Calls[i].Slice {
				hostGot = append(hostGot, cb.CallSlice(invs[i].call))
			} else {
				hostGot = append(hostGot, cb.Call(invs[i].call))
			}
		}
		return nil
	})
	var seen [][]interface{}
	e := env.NewEnv()
	e.Define("call", host.Interface())
	e.Define("rec", func(a ...interface{}) { seen = append(seen, append([]interface{}{}, a...)) })

	var ad []string
	for i := range invs {
		how := "cb(" + strings.Trim(descList(append(append([]reflect.Value{}, invs[i].fixed...), invs[i].vars...)), "()") + ")"
		if c.Calls[i].Slice {
			how = "cb(" + strings.Trim(descList(invs[i].call), "()") + "...)"
		}
		ad = append(ad, "invocation "+strconv.Itoa(i)+": "+how)
	}
	o.Key = cbT.String() + "\x00" + src + "\x00" + strings.Join(ad, ";")
	o.Note = fmt.Sprintf("callback %s; %s; %s", cbT, strings.Join(ad, "; "), strings.ReplaceAll(src, "\n", "; "))
	o.NonTrivial = true
	o.Class("vcallbacks:shape:" + c.Shape)
	o.Class("vcallbacks:nfixed:%d", k)
	o.Class("vcallbacks:elem:" + kindName(elemT))
	o.Class("vcallbacks:ret:" + c.Ret)
	o.Class("vcallbacks:route:" + c.Route)
	if recSpread {
		o.Class("vcallbacks:rec-spread")
	}
	for i := range invs {
		n := "several"
		switch len(invs[i].vars) {
		case 0:
			n = "0"
		case 1:
			n = "1"
		}
		how := "one-by-one"
		if c.Calls[i].Slice {
			how = "slice"
		}
		o.Class("vcallbacks:nvar:%s:%s:%s", n, how, c.Shape)
	}
	head := func() string {
		return fmt.Sprintf("host call(cb %s) makes\n%s\nsource:\n%s", cbT, strings.Join(ad, "\n"), src)
	}

	got, err := ank.Exec(e, src)
	if hp, ok := ank.IsHostPanic(err); ok {
		return h.Failf("C11|panic|vcallbacks|"+ank.NormPanic(hp.Value), "%s\nescaped panic: %v", head(), hp.Value)
	}

	for inv := range invs {
		if len(seen) <= inv {
			return h.Failf("C11|vcallbacks|not-invoked|"+c.Shape, "%s\nthe script function ran %d times, the host invoked it at least %d times (error: %v)", head(), len(seen), inv+1, err)
		}
		all := append(append([]reflect.Value{}, invs[inv].fixed...), invs[inv].vars...)
		sn := seen[inv]
		if c.Shape == "fixed" {
			// the fixed parameters are the fixed arguments; what the parameter at the variadic position
			// holds is not stated
			ok := len(sn) == k+1
			for j := 0; ok && j < k; j++ {
				ok = same(reflect.ValueOf(sn[j]), all[j], false)
			}
			if !ok {
				return h.Failf("C11|vcallbacks|script-saw-fixed|not-variadic-script-func", "%s\ninvocation %d: the script function (not variadic, %d parameters) saw %s; its first %d parameters must be the fixed arguments Go passed %s", head(), inv, k+1, desc(reflect.ValueOf(sn)), k, descList(all[:k]))
			}
		} else {
			// a0 … a<at-1> are the first arguments, b lists every further argument Go passed, one by one
			ok := false
			if recSpread {
				ok = len(sn) == len(all)
				for j := 0; ok && j < len(all); j++ {
					ok = same(reflect.ValueOf(sn[j]), all[j], false)
				}
			} else {
				ok = len(sn) == at+1
				for j := 0; ok && j < at; j++ {
					ok = same(reflect.ValueOf(sn[j]), all[j], false)
				}
				ok = ok && sameList(reflect.ValueOf(sn[at]), all[at:])
			}
			if !ok {
				return h.Failf("C11|vcallbacks|script-saw|variadic-go-func|"+c.Shape, "%s\ninvocation %d: Go passed the %d argument(s) %s; the script function %s must see the first %d in its fixed parameters and the other %d, one by one, in b\nits report rec(%s) received %s", head(), inv, len(all), descList(all), "func("+strings.Join(params, ", ")+")", at, len(all)-at, recArgs, desc(reflect.ValueOf(sn)))
			}
		}
		if c.Ret == "throw" {
			o.Class("vcallbacks:outcome:error")
			if len(hostGot) > inv {
				return h.Failf("C11|vcallbacks|missing-error|throw", "%s\ninvocation %d must fail (throw) but the host received %s", head(), inv, descList(hostGot[inv]))
			}
			if err == nil {
				return h.Failf("C11|vcallbacks|error-lost|throw", "%s\nthe throw inside the callback must surface as an error of the enclosing call; anko returned %s", head(), ank.Describe(got))
			}
			if len(seen) > inv+1 {
				return h.Failf("C11|vcallbacks|ran-after-error", "%s\nthe script function ran %d times although invocation %d failed", head(), len(seen), inv)
			}
			return nil
		}
		if len(hostGot) <= inv {
			return h.Failf("C11|vcallbacks|unexpected-error|"+c.Shape+"|ret="+c.Ret, "%s\ninvocation %d: reference: the callback returns to the host\nanko: the host received nothing, error: %v", head(), inv, err)
		}
		hg := hostGot[inv]
		if len(hg) != len(outT) {
			return h.Failf("C11|vcallbacks|result-count", "%s\ninvocation %d: host received %d results, declared %d", head(), inv, len(hg), len(outT))
		}
		switch c.Ret {
		case "xs":
			if !sameList(hg[0], all[at:]) {
				return h.Failf("C11|vcallbacks|wrong-result|xs|"+c.Shape, "%s\ninvocation %d: the function returns b; the host received %s, the arguments from number %d on are %s", head(), inv, desc(hg[0]), at, descList(all[at:]))
			}
		case "len":
			if hg[0].Type() != outT[0] || hg[0].Int() != int64(len(all)-at) {
				return h.Failf("C11|vcallbacks|wrong-result|len|"+c.Shape, "%s\ninvocation %d: the function returns len(b); the host received %s, Go passed %d argument(s) from number %d on", head(), inv, desc(hg[0]), len(all)-at, at)
			}
		}
	}
	o.Class("vcallbacks:outcome:ok")
	if err != nil {
		return h.Failf("C11|vcallbacks|unexpected-error-after|"+c.Shape, "%s\nevery invocation succeeded but the script failed: %v", head(), err)
	}
	if got != "done" {
		return h.Failf("C11|vcallbacks|script-result", "%s\nscript result %s, want \"done\"", head(), ank.Describe(got))
	}
	if len(seen) != len(invs) {
		return h.Failf("C11|vcallbacks|invocation-count", "%s\nthe script function ran %d times, the host invoked it %d times", head(), len(seen), len(invs))
	}
	return nil
}
