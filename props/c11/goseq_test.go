package c11

import (
	"fmt"
	"reflect"
	"sort"
	"strconv"
	"strings"
	"time"

	"github.com/mattn/anko/env"
	"github.com/mattn/anko/vm"
	"pgregory.net/rapid"

	"verif/internal/ank"
	"verif/internal/h"
)

// ====================================================================
// goseq: several calls of Go functions in one run, some launched with go
// ====================================================================
//
// `gocall` ends its script with the one go statement it judges: nothing runs on the launching
// goroutine between the statement and the moment the new goroutine makes the call. The
// statement's "are called with exactly the supplied arguments - including variadic parameters
// and `...` spreading" is about every call, also about one that is followed by other calls:
// what the launcher does next (another call, of the same function or of another one, with
// its own arguments) must not change what the call already launched delivers.
//
// A case is a script of 2-4 calls of 1-4 recording hosts (a later call reuses the host of
// an earlier one six times in ten: the same function, other arguments), every call plain
// or launched with go, in one of the four shapes, optionally with an unrelated call between
// two of them. The signatures, the argument generators and the reference (planCall) are
// those of `calls`. Every call is planned on its own: calls do not share state, so the
// reference for the run is the multiset of the planned invocations.
//
// Judged: the calls whose own reference outcome is "succeeds" (the others are left out of
// the script, counted: where a failing go call surfaces is not stated, and a failing plain
// call ends the run). The script must not fail, every host must be invoked once per call of
// it, and the invocations of a host must be the planned ones, each exactly (a perfect
// matching, because go calls may arrive in any order; a call that plans the same invocation
// as an earlier call of the same host is left out too, so that every invocation received
// belongs to one call). Not judged: the order of arrival, the results.

// GoSeqSig is the type of one host: fixed parameters, optional variadic element, results.
type GoSeqSig struct {
	In      []int `json:"in"`
	VarElem int   `json:"var"` // -1: not variadic
	Out     []int `json:"out"`
	OutSeed []int `json:"outseed"`
}

// GoSeqCall is one call statement of the script.
type GoSeqCall struct {
	Host      int    `json:"host"` // index into Sigs
	Go        bool   `json:"go"`
	Route     string `json:"route"` // name | var | member | anon
	Args      []SV   `json:"args"`
	HasSpread bool   `json:"has_spread"`
	Spread    SV     `json:"spread"`
	Fill      string `json:"fill"` // unrelated statement after the call: "" | id | idv | vfn | fn | let
}

// GoSeqCase is a run of several calls.
type GoSeqCase struct {
	Sigs  []GoSeqSig  `json:"sigs"`
	Calls []GoSeqCall `json:"calls"`
}

var goSeqFills = []string{"", "", "", "", "id", "idv", "vfn", "fn", "let"}

func genGoSeqSig(t *rapid.T) GoSeqSig {
	s := GoSeqSig{VarElem: -1, In: []int{}, Out: []int{}, OutSeed: []int{}}
	nFixed := rapid.IntRange(0, 3).Draw(t, "nfixed")
	for i := 0; i < nFixed; i++ {
		s.In = append(s.In, genTypeIdx(t, "ptype"))
	}
	if rapid.IntRange(0, 9).Draw(t, "variadic") < 6 {
		s.VarElem = genTypeIdx(t, "vtype")
		if rapid.IntRange(0, 2).Draw(t, "vany") == 0 {
			s.VarElem = 14 // ...interface{}
		}
	}
	if rapid.IntRange(0, 3).Draw(t, "nout") == 0 {
		s.Out = append(s.Out, genTypeIdx(t, "rtype"))
		s.OutSeed = append(s.OutSeed, rapid.IntRange(0, 60).Draw(t, "rseed"))
	}
	return s
}

func genGoSeqCase(t *rapid.T) GoSeqCase {
	c := GoSeqCase{Sigs: []GoSeqSig{}, Calls: []GoSeqCall{}}
	n := rapid.IntRange(2, 4).Draw(t, "ncalls")
	for i := 0; i < n; i++ {
		call := GoSeqCall{Args: []SV{}}
		if i > 0 && rapid.IntRange(0, 9).Draw(t, "reuse") < 6 {
			call.Host = rapid.IntRange(0, len(c.Sigs)-1).Draw(t, "host")
		} else {
			c.Sigs = append(c.Sigs, genGoSeqSig(t))
			call.Host = len(c.Sigs) - 1
		}
		s := c.Sigs[call.Host]
		call.Go = rapid.IntRange(0, 9).Draw(t, "go") < 7
		call.Route = rapid.SampledFrom([]string{"name", "name", "name", "var", "member", "anon"}).Draw(t, "route")
		call.HasSpread = rapid.IntRange(0, 9).Draw(t, "spread") < 5
		if len(s.In) == 0 && s.VarElem < 0 {
			call.HasSpread = false
		}
		fixedT := make([]reflect.Type, len(s.In))
		for j, ti := range s.In {
			fixedT[j] = Pool[ti].T
		}
		var varT reflect.Type
		if s.VarElem >= 0 {
			varT = Pool[s.VarElem].T
		}
		as := genArgs(t, fixedT, varT, call.HasSpread, 0)
		call.Args, call.Spread = as.Args, as.Spread
		call.Fill = rapid.SampledFrom(goSeqFills).Draw(t, "fill")
		c.Calls = append(c.Calls, call)
	}
	return c
}

// goSeqArrival is one invocation of a host as the oracle receives it.
type goSeqArrival struct {
	host int
	in   []reflect.Value
}

// goSeqPlanned is one judged call of the script.
type goSeqPlanned struct {
	idx  int // index into Calls
	host int
	kind string // go | plain
	ft   reflect.Type
	p    plan
	line int // line of the call statement in the source (1-based)
}

// matchInvocations looks for a one-to-one assignment of the invocations a host received to
// the calls planned for it (checkParams decides whether an invocation is the one a call
// plans). It returns the assignment of planned call -> invocation, or nil.
func matchInvocations(ft reflect.Type, planned []*goSeqPlanned, got [][]reflect.Value) []int {
	if len(planned) != len(got) {
		return nil
	}
	assign := make([]int, len(planned))
	used := make([]bool, len(got))
	var rec func(i int) bool
	rec = func(i int) bool {
		if i == len(planned) {
			return true
		}
		for j := range got {
			if used[j] {
				continue
			}
			if _, msg := checkParams(ft, got[j], &planned[i].p); msg != "" {
				continue
			}
			used[j] = true
			assign[i] = j
			if rec(i + 1) {
				return true
			}
			used[j] = false
		}
		return false
	}
	if rec(0) {
		return assign
	}
	return nil
}

// orphanCall names, for a host whose invocations are not the planned ones, a planned call that
// has no invocation of its own under a largest partial assignment.
func orphanCall(ft reflect.Type, planned []*goSeqPlanned, got [][]reflect.Value) *goSeqPlanned {
	ok := make([][]bool, len(planned))
	strict := make([][]bool, len(planned))
	for i, pl := range planned {
		ok[i] = make([]bool, len(got))
		strict[i] = make([]bool, len(got))
		sp := pl.p
		sp.loose = make([]bool, len(pl.p.loose))
		for j := range got {
			_, msg := checkParams(ft, got[j], &pl.p)
			ok[i][j] = msg == ""
			_, msg = checkParams(ft, got[j], &sp)
			strict[i][j] = msg == ""
		}
	}
	// order of preference (the label only, never the verdict): most calls served, most of them
	// to the letter (nil and empty lists told apart), a launched call left over, the earliest one
	bestN, bestScore, bestFirst := -1, -1, -1
	var best *goSeqPlanned
	used := make([]bool, len(got))
	left := make([]bool, len(planned))
	var rec func(i, n, exact int)
	rec = func(i, n, exact int) {
		if i == len(planned) {
			score, first := exact*100, -1
			for k := range planned {
				if left[k] {
					if planned[k].kind == "go" {
						score += 10
					}
					if first < 0 || (planned[k].kind == "go" && planned[first].kind != "go") {
						first = k
					}
				}
			}
			if first >= 0 && (n > bestN || (n == bestN && score > bestScore) || (n == bestN && score == bestScore && first < bestFirst)) {
				bestN, bestScore, bestFirst, best = n, score, first, planned[first]
			}
			return
		}
		for j := range got {
			if !used[j] && ok[i][j] {
				used[j] = true
				e := exact
				if strict[i][j] {
					e++
				}
				rec(i+1, n+1, e)
				used[j] = false
			}
		}
		left[i] = true
		rec(i+1, n, exact)
		left[i] = false
	}
	rec(0, 0, 0)
	if best == nil {
		return planned[0]
	}
	return best
}

func goSeqOracle(c GoSeqCase, o *h.Obs) *h.Fail {
	if len(c.Sigs) == 0 || len(c.Sigs) > 6 || len(c.Calls) == 0 || len(c.Calls) > 6 {
		o.Excluded = "bad_case"
		return nil
	}
	fts := make([]reflect.Type, len(c.Sigs))
	results := make([][]reflect.Value, len(c.Sigs))
	for i, s := range c.Sigs {
		cc := CallCase{In: s.In, VarElem: s.VarElem, Out: s.Out, OutSeed: s.OutSeed}
		ft, ok := cc.funcType()
		if !ok || len(s.In) > 6 {
			o.Excluded = "bad_case"
			return nil
		}
		fts[i] = ft
		results[i] = make([]reflect.Value, len(s.Out))
		for j := range s.Out {
			results[i][j] = mkVal(s.Out[j], s.OutSeed[j])
		}
	}
	for i := range c.Calls {
		if c.Calls[i].Host < 0 || c.Calls[i].Host >= len(c.Sigs) || len(c.Calls[i].Args) > 12 {
			o.Excluded = "bad_case"
			return nil
		}
	}

	// render and plan every call; keep those the reference says succeed
	b := newBinder()
	var lines []string
	var planned []*goSeqPlanned
	usesVfn := false
	for i := range c.Calls {
		if c.Calls[i].Fill == "vfn" {
			usesVfn = true
		}
	}
	if usesVfn {
		lines = append(lines, "vs = func(a...) { return len(a) }")
	}
	for i := range c.Calls {
		call := &c.Calls[i]
		ft := fts[call.Host]
		n := strconv.Itoa(i)
		callee := "f" + strconv.Itoa(call.Host)
		var pre []string
		switch call.Route {
		case "var":
			pre = append(pre, "hh"+n+" = "+callee)
			callee = "hh" + n
		case "member":
			pre = append(pre, "mm"+n+" = {\"f\": "+callee+"}")
			callee = "mm" + n + ".f"
		case "anon":
			callee = "(" + callee + ")"
		}
		parts := make([]string, 0, len(call.Args)+1)
		var argV []reflect.Value
		for j := range call.Args {
			s, v := b.render(&call.Args[j])
			parts = append(parts, s)
			argV = append(argV, v)
		}
		var spreadV reflect.Value
		if call.HasSpread {
			s, v := b.render(&call.Spread)
			spreadV = v
			if call.Spread.K != "l" && call.Spread.K != "g" && call.Spread.Hop == "" {
				pre = append(pre, "sp"+n+" = "+s)
				s = "sp" + n
			}
			parts = append(parts, s+"...")
		}
		p := planCall(ft, argV, call.HasSpread, spreadV)
		kind := "plain"
		if call.Go {
			kind = "go"
		}
		if p.out != oOK || (p.nilPtr && knownNilPtrPanic) {
			o.Class("goseq:left-out:%s:%s", kind, p.out)
			continue
		}
		// two calls of one host must be told apart by what arrives: a call that plans the same
		// invocation as an earlier one is left out
		twin := false
		for _, pl := range planned {
			if pl.host != call.Host {
				continue
			}
			_, m1 := checkParams(ft, p.params, &pl.p)
			_, m2 := checkParams(ft, pl.p.params, &p)
			if m1 == "" || m2 == "" {
				twin = true
			}
		}
		if twin {
			o.Class("goseq:left-out:%s:same-invocation-as-an-earlier-call", kind)
			continue
		}
		lines = append(lines, pre...)
		stmt := callee + "(" + strings.Join(parts, ", ") + ")"
		if call.Go {
			stmt = "go " + stmt
		}
		lines = append(lines, stmt)
		planned = append(planned, &goSeqPlanned{idx: i, host: call.Host, kind: kind, ft: ft, p: p, line: len(lines)})
		switch call.Fill {
		case "id":
			lines = append(lines, "id("+n+")")
		case "idv":
			lines = append(lines, "idv(0, "+n+", \"x\")")
		case "vfn":
			lines = append(lines, "vs("+n+", \"x\", nil)")
		case "fn":
			lines = append(lines, "func(a, b) { return b }("+n+", 2)")
		case "let":
			lines = append(lines, "w"+n+" = ["+n+", 1]")
		}
	}
	if len(planned) == 0 {
		o.Excluded = "no_judged_call"
		return nil
	}
	src := strings.Join(lines, "\n")

	var gd []string
	for i, ft := range fts {
		gd = append(gd, "f"+strconv.Itoa(i)+" "+ft.String())
	}
	for i, n := range b.names {
		gd = append(gd, n+"="+desc(b.goVs[i]))
	}
	o.Key = src + "\x00" + strings.Join(gd, ";")
	o.Note = strings.Join(gd, "; ") + "; " + strings.ReplaceAll(src, "\n", "; ")
	o.NonTrivial = len(planned) >= 2
	o.Class("goseq:judged-calls:%d", len(planned))
	perHost := map[int]int{}
	nGo := 0
	for i, pl := range planned {
		perHost[pl.host]++
		if pl.kind == "go" {
			nGo++
		}
		o.Class("goseq:call:%s:%s", pl.kind, pl.p.shape)
		if i+1 < len(planned) {
			// what the launcher does next
			o.Class("goseq:%s:%s:followed-by:%s:%s", pl.kind, pl.p.shape, planned[i+1].kind, planned[i+1].p.shape)
			if planned[i+1].host == pl.host {
				o.Class("goseq:%s:%s:followed-by:same-host", pl.kind, pl.p.shape)
			}
			if f := c.Calls[pl.idx].Fill; f != "" {
				o.Class("goseq:%s:fill:%s", pl.kind, f)
			}
		} else {
			o.Class("goseq:%s:%s:last", pl.kind, pl.p.shape)
		}
	}
	o.Class("goseq:go-calls:%d", nGo)
	maxSame := 0
	for _, k := range perHost {
		if k > maxSame {
			maxSame = k
		}
	}
	o.Class("goseq:max-calls-of-one-host:%d", maxSame)

	// the hosts hand what arrived to the oracle; the channel never blocks a goroutine
	arrived := make(chan goSeqArrival, 64)
	e := env.NewEnv()
	e.Define("id", func(a interface{}) interface{} { return a })
	e.Define("idv", func(n int64, a ...interface{}) interface{} { return a[n] })
	for i, ft := range fts {
		i, res := i, results[i]
		host := reflect.MakeFunc(ft, func(in []reflect.Value) []reflect.Value {
			cp := make([]reflect.Value, len(in))
			copy(cp, in)
			select {
			case arrived <- goSeqArrival{host: i, in: cp}:
			default:
			}
			return res
		})
		e.Define("f"+strconv.Itoa(i), host.Interface())
	}
	defineAll(e, b)
	_, err := ank.Exec(e, src)
	ctx := func() string {
		return fmt.Sprintf("%s\nsource:\n%s", strings.Join(gd, "\n"), src)
	}
	if hp, ok := ank.IsHostPanic(err); ok {
		return h.Failf("C11|panic|goseq|"+ank.NormPanic(hp.Value), "%s\nescaped panic: %v", ctx(), hp.Value)
	}
	if err != nil {
		site := "-"
		if ve, ok := err.(*vm.Error); ok {
			for _, pl := range planned {
				if pl.line == ve.Pos.Line {
					site = pl.kind + "|" + pl.p.shape + "|" + firstCell(&pl.p)
				}
			}
		}
		return h.Failf("C11|goseq|unexpected-error|"+site, "%s\nreference: every call of the script has Go conversions for all its arguments and a fitting count, all of them are made\nanko error: %v", ctx(), err)
	}

	// collect the invocations: the plain ones have happened, the launched ones are waited for
	got := map[int][][]reflect.Value{}
	total := 0
	take := func(a goSeqArrival) {
		got[a.host] = append(got[a.host], a.in)
		total++
	}
	sigNot := "C11|goseq|not-invoked"
	wait := goCallGrace
	goCallReportedMu.Lock()
	if goCallReported[sigNot] {
		wait = 10 * time.Millisecond
	}
	goCallReportedMu.Unlock()
	timer := time.NewTimer(wait)
	timedOut := false
	for total < len(planned) && !timedOut {
		select {
		case a := <-arrived:
			take(a)
		case <-timer.C:
			timedOut = true
		}
	}
	timer.Stop()
	// a surplus invocation that is already there
	for more := true; more; {
		select {
		case a := <-arrived:
			take(a)
		default:
			more = false
		}
	}

	// per host: the invocations must be the planned ones
	hosts := make([]int, 0, len(perHost))
	for hi := range perHost {
		hosts = append(hosts, hi)
	}
	sort.Ints(hosts)
	describe := func(hi int) string {
		var pls []*goSeqPlanned
		for _, pl := range planned {
			if pl.host == hi {
				pls = append(pls, pl)
			}
		}
		var sb strings.Builder
		fmt.Fprintf(&sb, "host f%d %s\nplanned invocations (Go's conversions of the arguments of each call):\n", hi, fts[hi])
		for _, pl := range pls {
			fmt.Fprintf(&sb, "  line %d (%s): %s\n", pl.line, pl.kind, descList(pl.p.params))
		}
		ds := make([]string, 0, len(got[hi]))
		for _, in := range got[hi] {
			ds = append(ds, descList(in))
		}
		sort.Strings(ds)
		sb.WriteString("invocations received:\n")
		for _, d := range ds {
			sb.WriteString("  " + d + "\n")
		}
		return sb.String()
	}
	for _, hi := range hosts {
		var pls []*goSeqPlanned
		for _, pl := range planned {
			if pl.host == hi {
				pls = append(pls, pl)
			}
		}
		ins := got[hi]
		if len(ins) == len(pls) && matchInvocations(fts[hi], pls, ins) != nil {
			continue
		}
		// which planned call has no invocation of its own: the largest partial assignment decides
		// (among several, one that leaves a launched call over: the label only, not the verdict)
		orphan := orphanCall(fts[hi], pls, ins)
		follow := "the last call of the script"
		for k, pl := range planned {
			if pl == orphan && k+1 < len(planned) {
				follow = "followed by the " + planned[k+1].kind + " call in line " + strconv.Itoa(planned[k+1].line)
			}
		}
		switch {
		case len(ins) < len(pls):
			if !timedOut {
				// cannot happen: the loop above ends on the count or on the timer
				return h.Failf("C11|goseq|harness", "%s\n%s", ctx(), describe(hi))
			}
			goCallReportedMu.Lock()
			goCallReported[sigNot] = true
			goCallReportedMu.Unlock()
			f := h.Failf(sigNot+"|"+orphan.kind+"|"+orphan.p.shape, "%s\n%sreference: every call is made with its own arguments\nanko: the script returned without error and %d of the %d calls of f%d never happened (waited %s)", ctx(), describe(hi), len(pls)-len(ins), len(pls), hi, goCallGrace)
			f.NoShrink = true
			return f
		case len(ins) > len(pls):
			return h.Failf("C11|goseq|invoked-too-often|"+orphan.kind+"|"+orphan.p.shape, "%s\n%s%d calls of f%d in the script, %d invocations", ctx(), describe(hi), len(pls), hi, len(ins))
		}
		return h.Failf("C11|goseq|wrong-arg|"+orphan.kind+"|"+orphan.p.shape, "%s\n%sno invocation carries the arguments of the call in line %d (%s)", ctx(), describe(hi), orphan.line, follow)
	}
	// an invocation of a host that no judged call names
	for hi := range fts {
		if ins := got[hi]; perHost[hi] == 0 && len(ins) > 0 {
			return h.Failf("C11|goseq|invoked-too-often|uncalled-host", "%s\nf%d is not called by the script and was invoked %d times", ctx(), hi, len(ins))
		}
	}
	return nil
}
