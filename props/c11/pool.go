// Package c11 decides property C11: values and calls cross the Go boundary
// faithfully. This file holds the fixed type pool, the deterministic per-type
// value pools (a value is addressed by (type index, seed)) and the script-value
// descriptors; all of them are plain JSON so that a failing case can be replayed.
package c11

import (
	"errors"
	"fmt"
	"math"
	"reflect"
	"sort"
	"strconv"
	"strings"

	"verif/internal/vals"
)

// ---------- Go types of the pool ----------

// MyInt and MyStr are defined types: Go converts int64 <-> MyInt, string <-> MyStr.
type MyInt int64
type MyStr string

// S is the struct of the pool: exported fields only, value- and pointer-receiver methods.
type S struct {
	A int64
	B string
	C float32
	D []int64
	E interface{}
	F *S
	G map[string]int64
	H uint8
	I MyInt
	// an embedded struct declared BEFORE a field that shadows one of its fields: member syntax
	// follows Go's rule (the shallowest field wins; Tag is promoted, ID is S's own)
	Base
	ID int64
}

// Base is embedded in S.
type Base struct {
	ID  int64
	Tag string
}

// value-receiver methods
func (s S) GetA() int64 { return s.A }
func (s S) Cat(p string, n int64) string {
	return p + "|" + s.B + "|" + strconv.FormatInt(n, 10)
}
func (s S) Sum(base int64, more ...int64) int64 {
	r := base + s.A
	for _, m := range more {
		r = r*31 + m
	}
	return r
}
func (s S) Pair() (int64, string)               { return s.A, s.B }
func (s S) Triple(x float64) (float64, S, bool) { return x * 2, s, s.A > 0 }
func (s S) Nothing()                            {}
func (s S) Echo(v interface{}) interface{}      { return v }
func (s S) Mix(a int8, b uint16, c float32, d string) string {
	return fmt.Sprintf("%d/%d/%x/%q/%d", a, b, math.Float32bits(c), d, s.A)
}

// pointer-receiver methods
func (s *S) SetA(v int64) { s.A = v }
func (s *S) Bump(n int64) int64 {
	s.A += n
	return s.A
}
func (s *S) Fill(sep string, vs ...string) int64 {
	s.B = strings.Join(vs, sep)
	return int64(len(vs))
}
func (s *S) SetD(d []int64) int64 {
	s.D = d
	return int64(len(d))
}

var (
	tIface = reflect.TypeOf((*interface{})(nil)).Elem()
	tError = reflect.TypeOf((*error)(nil)).Elem()
	tS     = reflect.TypeOf(S{})
)

// poolEntry is one type of the pool.
type poolEntry struct {
	Name string
	T    reflect.Type
}

// Pool is the fixed type pool. The index of an entry is what cases store; never reorder.
var Pool = []poolEntry{
	{"bool", reflect.TypeOf(false)},                                       // 0
	{"int", reflect.TypeOf(int(0))},                                       // 1
	{"int8", reflect.TypeOf(int8(0))},                                     // 2
	{"int16", reflect.TypeOf(int16(0))},                                   // 3
	{"int32", reflect.TypeOf(int32(0))},                                   // 4
	{"int64", reflect.TypeOf(int64(0))},                                   // 5
	{"uint", reflect.TypeOf(uint(0))},                                     // 6
	{"uint8", reflect.TypeOf(uint8(0))},                                   // 7
	{"uint16", reflect.TypeOf(uint16(0))},                                 // 8
	{"uint32", reflect.TypeOf(uint32(0))},                                 // 9
	{"uint64", reflect.TypeOf(uint64(0))},                                 // 10
	{"float32", reflect.TypeOf(float32(0))},                               // 11
	{"float64", reflect.TypeOf(float64(0))},                               // 12
	{"string", reflect.TypeOf("")},                                        // 13
	{"iface", tIface},                                                     // 14
	{"error", tError},                                                     // 15
	{"MyInt", reflect.TypeOf(MyInt(0))},                                   // 16
	{"MyStr", reflect.TypeOf(MyStr(""))},                                  // 17
	{"[]byte", reflect.TypeOf([]byte(nil))},                               // 18
	{"[]int64", reflect.TypeOf([]int64(nil))},                             // 19
	{"[]int32", reflect.TypeOf([]int32(nil))},                             // 20
	{"[]float64", reflect.TypeOf([]float64(nil))},                         // 21
	{"[]string", reflect.TypeOf([]string(nil))},                           // 22
	{"[]iface", reflect.TypeOf([]interface{}(nil))},                       // 23
	{"[][]int64", reflect.TypeOf([][]int64(nil))},                         // 24
	{"[]MyInt", reflect.TypeOf([]MyInt(nil))},                             // 25
	{"[2]int64", reflect.TypeOf([2]int64{})},                              // 26
	{"[3]string", reflect.TypeOf([3]string{})},                            // 27
	{"map[string]int64", reflect.TypeOf(map[string]int64(nil))},           // 28
	{"map[string]iface", reflect.TypeOf(map[string]interface{}(nil))},     // 29
	{"map[iface]iface", reflect.TypeOf(map[interface{}]interface{}(nil))}, // 30
	{"map[int64]string", reflect.TypeOf(map[int64]string(nil))},           // 31
	{"map[string][]int64", reflect.TypeOf(map[string][]int64(nil))},       // 32
	{"*int64", reflect.TypeOf((*int64)(nil))},                             // 33
	{"*S", reflect.TypeOf((*S)(nil))},                                     // 34
	{"S", tS},                                                             // 35
	{"[]S", reflect.TypeOf([]S(nil))},                                     // 36
	{"chan int64", reflect.TypeOf((chan int64)(nil))},                     // 37
	{"func(int64)int64", reflect.TypeOf((func(int64) int64)(nil))},        // 38
	{"func(string)string", reflect.TypeOf((func(string) string)(nil))},    // 39
	{"[]uint16", reflect.TypeOf([]uint16(nil))},                           // 40
	{"map[string]float32", reflect.TypeOf(map[string]float32(nil))},       // 41
	{"[]*S", reflect.TypeOf([]*S(nil))},                                   // 42
	{"map[MyStr]MyInt", reflect.TypeOf(map[MyStr]MyInt(nil))},             // 43
	{"[]float32", reflect.TypeOf([]float32(nil))},                         // 44
	{"[]bool", reflect.TypeOf([]bool(nil))},                               // 45
}

// index groups used by the generators
var (
	idxNumeric = []int{1, 2, 3, 4, 5, 6, 7, 8, 9, 10, 11, 12, 16}
	idxInts    = []int{1, 2, 3, 4, 5, 6, 7, 8, 9, 10, 16}
	idxAll     []int
)

func init() {
	for i := range Pool {
		idxAll = append(idxAll, i)
	}
}

func poolIndex(t reflect.Type) int {
	for i, e := range Pool {
		if e.T == t {
			return i
		}
	}
	return -1
}

// kindName is the coarse class of a type used in the (source kind x target kind) counters.
func kindName(t reflect.Type) string {
	if t == nil {
		return "nil"
	}
	switch t {
	case tIface:
		return "iface"
	case tError:
		return "error"
	}
	if t.PkgPath() != "" && t.Kind() != reflect.Struct {
		return "named-" + t.Kind().String()
	}
	switch t.Kind() {
	case reflect.Slice:
		if t.Elem().Kind() == reflect.Uint8 {
			return "bytes"
		}
		if t.Elem() == tIface {
			return "list"
		}
		return "slice"
	case reflect.Map:
		if t.Key() == tIface && t.Elem() == tIface {
			return "smap"
		}
		return "map"
	case reflect.Ptr:
		if t.Elem().Kind() == reflect.Ptr || t.Elem().Kind() == reflect.Struct {
			return "ptr"
		}
		return "ptr"
	case reflect.Interface:
		return "error"
	}
	return t.Kind().String()
}

// ---------- deterministic value pools ----------

type rng struct{ s uint64 }

func (r *rng) next() uint64 {
	r.s += 0x9E3779B97F4A7C15
	z := r.s
	z = (z ^ (z >> 30)) * 0xBF58476D1CE4E5B9
	z = (z ^ (z >> 27)) * 0x94D049BB133111EB
	return z ^ (z >> 31)
}
func (r *rng) n(k int) int { return int(r.next() % uint64(k)) }

func hashStr(s string) uint64 {
	var h uint64 = 1469598103934665603
	for i := 0; i < len(s); i++ {
		h ^= uint64(s[i])
		h *= 1099511628211
	}
	return h
}

var intEdges = []int64{0, 1, -1, 2, 7, 65, 97, 100, 127, 128, 255, 256, -128, -129, 32767, 32768, 65535, 65536,
	1<<31 - 1, 1 << 31, -(1 << 31), 1<<32 - 1, 1 << 32, 1<<32 + 65, 1<<53 + 1, 0x10FFFF, 0x110000, 0xD800, 0x65E5,
	math.MaxInt64, math.MinInt64, math.MaxInt64 - 1, 1<<62 + 1, (1<<24+1)<<30 + 1, 1<<24 + 1}
var uintEdges = []uint64{0, 1, 2, 65, 97, 127, 128, 255, 256, 65535, 65536, 1<<31 - 1, 1 << 31, 1<<32 - 1, 1 << 32,
	1<<53 + 1, 1<<63 - 1, 1 << 63, math.MaxUint64, math.MaxUint64 - 1, 0x65E5, 0x110000}
var floatEdges = []float64{0, math.Copysign(0, -1), 1, -1, 1.5, -2.75, 2.5, 65, 97.9, 127, 128, 255.5, 256, -0.5, -128.9, -129,
	32767.5, 65535.9, 65536, 2147483647.5, 2147483648, 4294967295.5, 4294967296, 1e10, 16777217, 1 << 53, 9.3e18, -9.3e18, 1.9e19,
	1e300, -1e300, math.MaxFloat64, math.SmallestNonzeroFloat64, 1e-7, 0.1, 3.4028235677973366e38, 3.5e38, math.Inf(1), math.Inf(-1)}
var strEdges = []string{"", "a", "A", "ab", "abc", "héllo", "日本", "x y", "0", "1", "\xff", "a\x00b", "é"}

func rInt(r *rng) int64 {
	switch r.n(4) {
	case 0, 1:
		return intEdges[r.n(len(intEdges))]
	case 2:
		return int64(r.n(300)) - 100
	default:
		return int64(r.next())
	}
}

func rUint(r *rng) uint64 {
	switch r.n(4) {
	case 0, 1:
		return uintEdges[r.n(len(uintEdges))]
	case 2:
		return uint64(r.n(300))
	default:
		return r.next()
	}
}

func rFloat(r *rng) float64 {
	switch r.n(4) {
	case 0, 1:
		return floatEdges[r.n(len(floatEdges))]
	case 2:
		return float64(r.n(4001)-2000) / 8
	default:
		return float64(rInt(r))
	}
}

// ifaceDyn are the dynamic types put into interface{} slots of generated Go values.
var ifaceDyn = []int{5, 4, 13, 12, 0, 7, 19, 16, 11, 2, 10}

// mkVal builds the pool value (type index ti, seed). Pointers, channels and funcs are
// fresh objects on every call: callers build a value once per case and compare by identity.
func mkVal(ti, seed int) reflect.Value {
	t := Pool[ti].T
	r := &rng{s: uint64(seed)*0x2545F4914F6CDD1D + hashStr(t.String())}
	return genVal(t, r, 0)
}

func genVal(t reflect.Type, r *rng, depth int) reflect.Value {
	v := reflect.New(t).Elem()
	switch t.Kind() {
	case reflect.Bool:
		v.SetBool(r.n(2) == 1)
	case reflect.Int, reflect.Int8, reflect.Int16, reflect.Int32, reflect.Int64:
		v.SetInt(truncInt(rInt(r), t.Bits()))
	case reflect.Uint, reflect.Uint8, reflect.Uint16, reflect.Uint32, reflect.Uint64:
		v.SetUint(truncUint(rUint(r), t.Bits()))
	case reflect.Float32:
		v.SetFloat(float64(float32(rFloat(r))))
	case reflect.Float64:
		v.SetFloat(rFloat(r))
	case reflect.String:
		v.SetString(strEdges[r.n(len(strEdges))])
	case reflect.Interface:
		if t == tError {
			if r.n(4) != 0 {
				v.Set(reflect.ValueOf(errors.New("err" + strconv.Itoa(r.n(100)))))
			}
			return v
		}
		if r.n(6) == 0 || depth > 3 {
			return v // nil
		}
		dt := Pool[ifaceDyn[r.n(len(ifaceDyn))]].T
		v.Set(genVal(dt, r, depth+1))
	case reflect.Slice:
		if r.n(7) == 0 {
			return v // nil slice
		}
		n := r.n(4)
		if depth > 2 {
			n = r.n(2)
		}
		s := reflect.MakeSlice(t, n, n+r.n(2))
		for i := 0; i < n; i++ {
			s.Index(i).Set(genVal(t.Elem(), r, depth+1))
		}
		v.Set(s)
	case reflect.Array:
		for i := 0; i < t.Len(); i++ {
			v.Index(i).Set(genVal(t.Elem(), r, depth+1))
		}
	case reflect.Map:
		if r.n(7) == 0 {
			return v
		}
		m := reflect.MakeMap(t)
		n := r.n(4)
		for i := 0; i < n; i++ {
			k := genVal(t.Key(), r, depth+1)
			if k.Kind() == reflect.Interface {
				if k.IsNil() || !k.Elem().Type().Comparable() {
					k = reflect.ValueOf("k" + strconv.Itoa(i))
				}
			}
			m.SetMapIndex(k, genVal(t.Elem(), r, depth+1))
		}
		v.Set(m)
	case reflect.Ptr:
		if r.n(6) == 0 || depth > 1 {
			return v
		}
		p := reflect.New(t.Elem())
		p.Elem().Set(genVal(t.Elem(), r, depth+1))
		v.Set(p)
	case reflect.Struct:
		for i := 0; i < t.NumField(); i++ {
			v.Field(i).Set(genVal(t.Field(i).Type, r, depth+1))
		}
	case reflect.Chan:
		if r.n(6) == 0 {
			return v
		}
		v.Set(reflect.MakeChan(t, 1))
	case reflect.Func:
		if r.n(6) == 0 {
			return v
		}
		k := r.n(1000)
		v.Set(reflect.MakeFunc(t, func(in []reflect.Value) []reflect.Value {
			out := make([]reflect.Value, t.NumOut())
			for i := range out {
				out[i] = reflect.Zero(t.Out(i))
			}
			_ = k
			return out
		}))
	default:
		panic("genVal: unsupported kind " + t.Kind().String())
	}
	return v
}

func truncInt(x int64, bits int) int64 {
	switch bits {
	case 8:
		return int64(int8(x))
	case 16:
		return int64(int16(x))
	case 32:
		return int64(int32(x))
	}
	return x
}

func truncUint(x uint64, bits int) uint64 {
	switch bits {
	case 8:
		return uint64(uint8(x))
	case 16:
		return uint64(uint16(x))
	case 32:
		return uint64(uint32(x))
	}
	return x
}

// ---------- script values ----------

// SV describes an argument expression: a script literal or a reference to a Go pool value.
//
//	K: "i" int64 literal, "f" float64 literal (bits), "s" string, "b" bool, "n" nil,
//	   "l" list literal of L, "m" map literal MK[i]: L[i], "g" Go value (T, Seed) bound to a variable,
//	   "p" pointer, I levels deep, to the Go value (T, Seed) (B: the typed nil pointer), bound to a variable.
type SV struct {
	K    string `json:"k"`
	I    int64  `json:"i,omitempty"`
	FB   uint64 `json:"fb,omitempty"`
	S    string `json:"s,omitempty"`
	B    bool   `json:"b,omitempty"`
	L    []SV   `json:"l,omitempty"`
	MK   []SV   `json:"mk,omitempty"`
	T    int    `json:"t,omitempty"`
	Seed int    `json:"seed,omitempty"`
	// Hop sends the value through one more expression before it is used, so that it
	// arrives interface-wrapped: "list" [E][0], "rows" [0, E][1], "map" {"k": E}.k,
	// "mapidx" {"k": E}["k"], "fn" func(a) { return a }(E), "id" id(E) (Go func(interface{}) interface{}).
	Hop string `json:"hop,omitempty"`
}

// hopNames are the hops of SV.Hop.
var hopNames = []string{"list", "rows", "map", "mapidx", "fn", "id"}

func applyHop(hop, e string) string {
	switch hop {
	case "list":
		return "[" + e + "][0]"
	case "rows":
		return "[0, " + e + "][1]"
	case "map":
		return "{\"k\": " + e + "}.k"
	case "mapidx":
		return "{\"k\": " + e + "}[\"k\"]"
	case "fn":
		return "func(a) { return a }(" + e + ")"
	case "id":
		return "id(" + e + ")"
	}
	return e
}

// binder renders SVs to source and to the Go values the script expression denotes; Go
// pool values are built once, bound to variables g0, g1, … and shared between the
// environment and the expectation (so identity comparisons are meaningful).
type binder struct {
	names []string
	goVs  []reflect.Value
	memo  map[*SV]reflect.Value
}

func newBinder() *binder { return &binder{memo: map[*SV]reflect.Value{}} }

func (b *binder) bindGo(v reflect.Value) string {
	name := "g" + strconv.Itoa(len(b.names))
	b.names = append(b.names, name)
	b.goVs = append(b.goVs, v)
	return name
}

// render returns the source text of sv and the value it evaluates to (invalid Value = nil).
// A hop changes the text only: the value that reaches the call is the same.
func (b *binder) render(sv *SV) (string, reflect.Value) {
	src, v := b.renderBase(sv)
	return applyHop(sv.Hop, src), v
}

func (b *binder) renderBase(sv *SV) (string, reflect.Value) {
	switch sv.K {
	case "i":
		return vals.IntLit(sv.I), reflect.ValueOf(sv.I)
	case "f":
		f := math.Float64frombits(sv.FB)
		return vals.FloatLit(f), reflect.ValueOf(f)
	case "s":
		return vals.StrLit(sv.S), reflect.ValueOf(sv.S)
	case "b":
		if sv.B {
			return "true", reflect.ValueOf(true)
		}
		return "false", reflect.ValueOf(false)
	case "n":
		return "nil", reflect.Value{}
	case "l":
		parts := make([]string, len(sv.L))
		list := make([]interface{}, len(sv.L))
		for i := range sv.L {
			src, v := b.render(&sv.L[i])
			parts[i] = src
			if v.IsValid() {
				list[i] = v.Interface()
			}
		}
		return "[" + strings.Join(parts, ", ") + "]", reflect.ValueOf(list)
	case "m":
		parts := make([]string, 0, len(sv.L))
		m := map[interface{}]interface{}{}
		for i := range sv.L {
			if i >= len(sv.MK) {
				break
			}
			ks, kv := b.render(&sv.MK[i])
			if !kv.IsValid() || !kv.Type().Comparable() {
				continue
			}
			if _, dup := m[kv.Interface()]; dup {
				continue
			}
			src, v := b.render(&sv.L[i])
			parts = append(parts, ks+": "+src)
			if v.IsValid() {
				m[kv.Interface()] = v.Interface()
			} else {
				m[kv.Interface()] = nil
			}
		}
		return "{" + strings.Join(parts, ", ") + "}", reflect.ValueOf(m)
	case "g":
		ti := sv.T
		if ti < 0 || ti >= len(Pool) {
			ti = 5
		}
		v := mkVal(ti, sv.Seed)
		if v.Kind() == reflect.Interface {
			// a variable can only hold the dynamic value
			if v.IsNil() {
				return "nil", reflect.Value{}
			}
			v = v.Elem()
		}
		// pass through interface{} exactly like env.Define does
		v = reflect.ValueOf(v.Interface())
		return b.bindGo(v), v
	case "p":
		// a pointer (I levels deep, 1..3) to a fresh variable holding the pool value (T, Seed); B: the
		// typed nil pointer of that type instead. Only `ptrmix` draws it.
		ti := sv.T
		if ti < 0 || ti >= len(Pool) {
			ti = 5
		}
		v := mkVal(ti, sv.Seed)
		if v.Kind() == reflect.Interface {
			if v.IsNil() {
				v = reflect.ValueOf(int64(sv.Seed))
			} else {
				v = v.Elem()
			}
		}
		depth := int(sv.I)
		if depth < 1 || depth > 3 {
			depth = 1
		}
		for d := 0; d < depth; d++ {
			if sv.B && d == depth-1 {
				v = reflect.Zero(reflect.PtrTo(v.Type()))
				break
			}
			p := reflect.New(v.Type())
			p.Elem().Set(v)
			v = p
		}
		v = reflect.ValueOf(v.Interface())
		return b.bindGo(v), v
	}
	return "nil", reflect.Value{}
}

// dynType is the dynamic type of a script-side value (nil for nil).
func dynType(v reflect.Value) reflect.Type {
	if !v.IsValid() {
		return nil
	}
	if v.Kind() == reflect.Interface {
		if v.IsNil() {
			return nil
		}
		return v.Elem().Type()
	}
	return v.Type()
}

// ---------- comparison ----------

// same reports whether two values are the same Go value: identical dynamic type and
// equal contents; floats by bit pattern (any NaN equals any NaN), pointers, channels,
// funcs and error objects by identity. loose treats nil and empty slices/maps alike
// (used where a conversion built a fresh container).
func same(a, b reflect.Value, loose bool) bool {
	a, b = unwrap(a), unwrap(b)
	if !a.IsValid() || !b.IsValid() {
		return a.IsValid() == b.IsValid()
	}
	if a.Type() != b.Type() {
		return false
	}
	switch a.Kind() {
	case reflect.Bool:
		return a.Bool() == b.Bool()
	case reflect.Int, reflect.Int8, reflect.Int16, reflect.Int32, reflect.Int64:
		return a.Int() == b.Int()
	case reflect.Uint, reflect.Uint8, reflect.Uint16, reflect.Uint32, reflect.Uint64, reflect.Uintptr:
		return a.Uint() == b.Uint()
	case reflect.Float32, reflect.Float64:
		x, y := a.Float(), b.Float()
		if math.IsNaN(x) || math.IsNaN(y) {
			return math.IsNaN(x) && math.IsNaN(y)
		}
		return math.Float64bits(x) == math.Float64bits(y)
	case reflect.String:
		return a.String() == b.String()
	case reflect.Slice:
		if !loose && a.IsNil() != b.IsNil() {
			return false
		}
		fallthrough
	case reflect.Array:
		if a.Len() != b.Len() {
			return false
		}
		for i := 0; i < a.Len(); i++ {
			if !same(a.Index(i), b.Index(i), loose) {
				return false
			}
		}
		return true
	case reflect.Map:
		if !loose && a.IsNil() != b.IsNil() {
			return false
		}
		if a.Len() != b.Len() {
			return false
		}
		it := a.MapRange()
		for it.Next() {
			k := it.Key()
			bv := b.MapIndex(k)
			if !bv.IsValid() {
				// keys holding NaN or interface keys: fall back to a scan
				found := false
				jt := b.MapRange()
				for jt.Next() {
					if same(k, jt.Key(), loose) && same(it.Value(), jt.Value(), loose) {
						found = true
						break
					}
				}
				if !found {
					return false
				}
				continue
			}
			if !same(it.Value(), bv, loose) {
				return false
			}
		}
		return true
	case reflect.Struct:
		for i := 0; i < a.NumField(); i++ {
			if !same(a.Field(i), b.Field(i), loose) {
				return false
			}
		}
		return true
	case reflect.Ptr, reflect.Chan, reflect.Func, reflect.UnsafePointer:
		return a.Pointer() == b.Pointer()
	}
	return false
}

func unwrap(v reflect.Value) reflect.Value {
	for v.IsValid() && v.Kind() == reflect.Interface {
		if v.IsNil() {
			return reflect.Value{}
		}
		v = v.Elem()
	}
	return v
}

// desc renders a value deterministically (no addresses) for failure messages.
func desc(v reflect.Value) string { return descD(v, 0) }

func descD(v reflect.Value, d int) string {
	v = unwrap(v)
	if !v.IsValid() {
		return "nil"
	}
	if d > 5 {
		return "…"
	}
	t := v.Type().String()
	switch v.Kind() {
	case reflect.Float32, reflect.Float64:
		return fmt.Sprintf("%s(%v|%x)", t, v.Float(), math.Float64bits(v.Float()))
	case reflect.String:
		return fmt.Sprintf("%s(%q)", t, v.String())
	case reflect.Slice, reflect.Array:
		if v.Kind() == reflect.Slice && v.IsNil() {
			return t + "(nil)"
		}
		parts := make([]string, v.Len())
		for i := range parts {
			parts[i] = descD(v.Index(i), d+1)
		}
		return t + "[" + strings.Join(parts, ", ") + "]"
	case reflect.Map:
		if v.IsNil() {
			return t + "(nil)"
		}
		var parts []string
		it := v.MapRange()
		for it.Next() {
			parts = append(parts, descD(it.Key(), d+1)+": "+descD(it.Value(), d+1))
		}
		sort.Strings(parts)
		return t + "{" + strings.Join(parts, ", ") + "}"
	case reflect.Ptr:
		if v.IsNil() {
			return t + "(nil)"
		}
		return "&" + descD(v.Elem(), d+1)
	case reflect.Struct:
		if v.Type() == reflect.TypeOf(reflect.Value{}) && v.CanInterface() {
			return "reflect.Value(" + descD(v.Interface().(reflect.Value), d+1) + ")"
		}
		for i := 0; i < v.NumField(); i++ {
			if v.Type().Field(i).PkgPath != "" {
				return t + "{…}" // foreign struct with unexported fields
			}
		}
		parts := make([]string, v.NumField())
		for i := range parts {
			parts[i] = v.Type().Field(i).Name + ":" + descD(v.Field(i), d+1)
		}
		return t + "{" + strings.Join(parts, ", ") + "}"
	case reflect.Chan, reflect.Func:
		if v.IsNil() {
			return t + "(nil)"
		}
		return t + "(obj)"
	case reflect.Bool:
		return fmt.Sprintf("%s(%v)", t, v.Bool())
	case reflect.Int, reflect.Int8, reflect.Int16, reflect.Int32, reflect.Int64:
		return fmt.Sprintf("%s(%d)", t, v.Int())
	case reflect.Uint, reflect.Uint8, reflect.Uint16, reflect.Uint32, reflect.Uint64:
		return fmt.Sprintf("%s(%d)", t, v.Uint())
	}
	return t + "(?)"
}
