package c11

import (
	"fmt"
	"reflect"
	"testing"

	"github.com/mattn/anko/env"
	"verif/internal/ank"
)

type MyInt int64
type MyStr string
type PS struct {
	A int64
	B string
}

func (s PS) GetA() int64     { return s.A }
func (s *PS) Bump(n int64) int64 { s.A += n; return s.A }

func TestProbe(t *testing.T) {
	run := func(e *env.Env, src string) {
		v, err := ank.Exec(e, src)
		fmt.Printf("%-60s => %s | err=%v\n", src, ank.Describe(v), err)
	}
	e := env.NewEnv()
	e.Define("arr2", func(a [2]int64) [2]int64 { return a })
	e.Define("sl1", []int64{1})
	e.Define("sl3", []int64{1, 2, 3})
	e.Define("f0", func() string { return "a" })
	e.Define("f2", func(a, b int64) []int64 { return []int64{a, b} })
	e.Define("fv", func(a int64, b ...int64) []interface{} { return []interface{}{a, b} })
	e.Define("fb", func(a []byte) []byte { return a })
	e.Define("fs", func(a string) string { return a })
	e.Define("ff32", func(a float32) float32 { return a })
	e.Define("fi8", func(a int8) int8 { return a })
	e.Define("ferr", func(a error) error { return a })
	e.Define("fany", func(a interface{}) interface{} { return a })
	e.Define("rec", func(a ...interface{}) []interface{} { return a })
	e.Define("multi", func() (int32, error, interface{}) { return 3, nil, nil })
	e.Define("cb2", func(f func(int64, string) (int64, string)) []interface{} { a, b := f(7, "x"); return []interface{}{a, b} })
	e.Define("cb1", func(f func(int32) int8) int8 { return f(7) })
	e.Define("cb0", func(f func(int32)) { f(7) })
	e.Define("nsl", []int64(nil))
	e.Define("nfn", (func(int64) int64)(nil))
	e.Define("i8", int8(5))
	e.Define("ifs", []interface{}{int32(1), nil, "x"})
	e.Define("fm", func(a map[string]int64) map[string]int64 { return a })
	e.Define("fmi", func(a map[int64]string) map[int64]string { return a })
	e.Define("fnn", func(a func(int64) int64) bool { return a == nil })
	e.Define("fnn2", func(a int64) int64 { return a })
	e.Define("fch", func(a chan int64) chan int64 { return a })
	e.Define("ch", make(chan int64, 1))
	e.Define("fp", func(a *PS) *PS { return a })
	e.Define("fstruct", func(a PS) PS { return a })
	e.Define("fmy", func(a MyInt) MyInt { return a })
	e.Define("fmys", func(a MyStr) MyStr { return a })
	e.Define("fint", func(a int64) int64 { return a })
	e.Define("my", MyInt(66))
	e.Define("fu64", func(a uint64) uint64 { return a })
	e.Define("fu8", func(a uint8) uint8 { return a })
	e.Define("fi64", func(a int64) int64 { return a })
	e.Define("fss", func(a []string) []string { return a })
	e.Define("fii", func(a [][]int64) [][]int64 { return a })
	ps := &PS{A: 1, B: "b"}
	e.Define("p", ps)
	e.Define("s", PS{A: 5})
	e.Define("ss", []PS{{A: 9}})
	e.Define("np", (*PS)(nil))
	for _, src := range []string{
		`f2([1,2]...)`, `f2(sl3...)`, `func(a,b){ return [a,b] }([1,2]...)`, `L = 5; f2(1, L...)`, `L = "ab"; f2(L...)`, `L = "ab"; fv(1, L...)`,
		`cb2(func(a...){ seen = a; return 1, "a" }); seen`, `cb2(func(a, b...){ seen = [a, b]; return 1, "a" }); seen`,
		`nsl`, `[nsl][0]`, `func(a){return a}(nsl)`, `fany(nsl)`, `{"k": nsl}.k`, `nfn`, `fany(nfn)`, `func(a){return a}(nfn)`, `func(a...){return a[0]}(np)`,
		`x = np; x`, `true ? np : 1`, `fany(i8)`, `[i8][0]`, `fany(ifs)`, `ifs[0]`, `fany(ifs[0])`, `fany(ifs[1])`,
		`try { cb2(func(a,b){ throw "boom" }) } catch e { "caught:" + e }`,
		`fm({"a": 1, "b": 2.5})`, `fm({1: 1})`, `fm({"a": "x"})`, `fm(nil)`, `fmi({1: "a", 1.5: "b"})`,
		`fnn(fnn2)`, `fnn(fi8)`, `fch(ch)`, `fch(1)`, `fp(p)`, `fp(s)`, `fstruct(p)`, `fstruct(s)`, `fstruct({"A":1})`,
		`fmy(5)`, `fmy(5.9)`, `fmys(66)`, `fint(my)`, `fs(my)`,
		`fu64(-1)`, `fu8(-1.0)`, `fi64(9.3e18)`, `fi64(1e300)`, `ff32(1e300)`,
		`fss([1,"a"])`, `fss(["a", nil])`, `fii([[1,2.5],[nil]])`, `fii([1])`,
	} {
		run(e, src)
	}
	fmt.Println(ps, reflect.TypeOf(ps))
}
