package c14

// Sub-check "coreenv": environments that were prepared with core.Import, each its own.
//
// "Executions share no hidden mutable state: two environments never observe each other's bindings";
// "every run yields the result it would yield alone". All other sub-checks run in environments the
// test binds host functions to itself; the builtins a real host gives its scripts come from
// core.Import(e), and two of them - defined(name) and load(file) - work on an environment: the one the
// script runs in. Whether every prepared environment gets builtins of its own can only be seen in a
// history with MORE THAN ONE prepared environment: Import(e1), Import(e2), a binding made in one of
// them (by a script, by a loaded file, by the host), then defined / load called in the other.
//
// A case is 2-3 environments, each core.Import(env.NewEnv()) (the runs happen in the prepared
// environment itself or in one child scope of it), 1-3 programs (each parsed ONCE, the tree shared by all
// steps that use it) and 3-9 steps; a step runs one program in one environment, or the host defines a
// name in an environment. Environment 0 is special: it is the environment core was imported to before
// anything else happened in this process (made when the test binary starts; whatever a process-wide
// "first time" keeps, it keeps of this one); only the host binds names there, and the names of the case
// are removed from it before and after the case. The programs bind names (assignment, var, func, load of
// a small file written by the test) and ask about names (defined in eight spellings: direct, in a
// condition, in a function, through a variable, in a loop over names, from inside a loaded file, before
// and after an assignment; reading the name; calling what a loaded file defined).
//
// Asserted (no model of what defined / load answer - the reference is the same steps run alone):
//   - every environment gets, step by step, the results it gets when only ITS steps run, in a fresh
//     prepared environment, from fresh parses, nothing else in the history;
//   - the whole history gives the same results when repeated with fresh environments;
//   - afterwards the host finds in every environment exactly the names (of the pool) it finds there
//     after the steps of that environment alone; environment 0 holds what the host defined there, nothing else;
//   - all environments asking defined(...) for every name of the pool at the same moment (one shared
//     tree) get what they get one after the other;
//   - the trees do not change.

import (
	"context"
	"fmt"
	"os"
	"path/filepath"
	"strconv"
	"strings"
	"sync"
	"time"

	"github.com/mattn/anko/ast"
	"github.com/mattn/anko/core"
	"github.com/mattn/anko/env"
	"github.com/mattn/anko/parser"
	"github.com/mattn/anko/vm"
	"pgregory.net/rapid"

	"verif/internal/dump"
	"verif/internal/h"
	"verif/internal/prog"
)

// coreFirst is the environment core is imported to first in this process (package initialisation
// happens before any test function runs; no other sub-check imports core).
var coreFirst = core.Import(env.NewEnv())

var corePool = []string{"x", "y", "z", "mine", "fromLib", "libf", "libv", "cnt", "bump"}
var coreNames = []string{"x", "y", "z", "mine"}

var coreLibs = map[string]string{
	"lib0": "fromLib = 42\n",
	"lib1": "func libf() {\nreturn 7\n}\nlibv = [1, 2]\n\"lib1\"\n",
	"lib2": "[defined(\"x\"), defined(\"y\"), defined(\"mine\"), defined(\"fromLib\"), defined(\"cnt\")]\n",
	"lib3": "cnt = 0\nfunc bump() {\ncnt++\nreturn cnt\n}\n\"lib3\"\n",
	"lib4": "x = \"from lib4\"\ndefined(\"x\")\n",
}

var (
	coreLibOnce sync.Once
	coreLibDir  string
	coreLibErr  error
)

func coreLibCleanup() {
	if coreLibDir != "" {
		os.RemoveAll(coreLibDir)
	}
}

func coreLibPaths() (string, error) {
	coreLibOnce.Do(func() {
		coreLibDir, coreLibErr = os.MkdirTemp("", "c14core")
		if coreLibErr != nil {
			return
		}
		for name, body := range coreLibs {
			if err := os.WriteFile(filepath.Join(coreLibDir, name+".ank"), []byte(body), 0600); err != nil {
				coreLibErr = err
			}
		}
	})
	return coreLibDir, coreLibErr
}

// programs: {N}, {M} = names of the pool, {libK} = the quoted path of a file
var coreBinders = []string{
	"{N} = 1", "var {N} = \"v\"", "func {N}() {\nreturn 3\n}\n0", "{N} = [1, 2]\n{M} = {N}\n0", "load({lib0})", "load({lib1})", "load({lib3})", "load({lib4})",
	"module mo {\n{N} = 1\n}\n0", "func setit() {\n{N} = 5\n}\nsetit()\n0",
}
var coreQueries = []string{
	"defined(\"{N}\")", "defined(\"{N}\")", "[defined(\"{N}\"), defined(\"{M}\")]", "if defined(\"{N}\") {\n\"yes\"\n} else {\n\"no\"\n}",
	"func q(nm) {\nreturn defined(nm)\n}\n[q(\"{N}\"), q(\"{M}\"), q(\"fromLib\")]", "d = defined\nd(\"{N}\")",
	"r = []\nfor nm in [\"x\", \"y\", \"z\", \"mine\", \"fromLib\", \"libf\", \"libv\", \"cnt\", \"bump\"] {\nr += [defined(nm)]\n}\nr",
	"load({lib2})", "seen = defined(\"{N}\")\n{N} = 1\n[seen, defined(\"{N}\")]", "load({lib0})\n[defined(\"fromLib\"), fromLib]", "was = defined(\"fromLib\")\nload({lib0})\n[was, defined(\"fromLib\")]",
	"load({lib1})\n[libf(), len(libv), defined(\"libf\")]", "load({lib3})\n[bump(), bump(), cnt]", "[defined(\"bump\"), defined(\"cnt\")]", "{N}", "try {\n{N}\n\"bound\"\n} catch e {\n\"unbound\"\n}",
	"[len(range(3)), typeOf(1), kindOf(\"s\"), keys({\"a\": 1}), toString(2)]", "defined(\"{N}\") ? \"has\" : \"none\"", "load({lib4})\n[x, defined(\"x\")]",
	"func later() {\nreturn [defined(\"{N}\"), defined(\"fromLib\")]\n}\nlater()", "ld = load\nld({lib0})\ndefined(\"fromLib\")",
}

type CoreStep struct {
	Env  int    `json:"env"`            // 0: the environment core was first imported to in this process; 1..: environments of the case
	P    int    `json:"p"`              // program (Env >= 1, Name empty)
	Name string `json:"name,omitempty"` // the host defines this name in the environment
}

type CoreCase struct {
	Progs []string   `json:"progs"`
	Child []bool     `json:"child"` // per environment 1..: the runs happen in one child scope of the prepared environment
	Steps []CoreStep `json:"steps"`
}

func coreFill(t *rapid.T, tmpl string, focus string) string {
	other := rapid.SampledFrom(coreNames).Draw(t, "other")
	return strings.NewReplacer("{N}", focus, "{M}", other).Replace(tmpl)
}

func genCoreEnv(t *rapid.T) CoreCase {
	var c CoreCase
	n := rapid.IntRange(2, 3).Draw(t, "envs")
	for i := 0; i < n; i++ {
		c.Child = append(c.Child, rapid.IntRange(0, 4).Draw(t, "child") == 0)
	}
	focus := rapid.SampledFrom(coreNames).Draw(t, "focus")
	// program 0 binds, program 1 asks, program 2 is either
	c.Progs = append(c.Progs, coreFill(t, rapid.SampledFrom(coreBinders).Draw(t, "binder"), focus))
	c.Progs = append(c.Progs, coreFill(t, rapid.SampledFrom(coreQueries).Draw(t, "query"), focus))
	if rapid.Bool().Draw(t, "third") {
		if rapid.Bool().Draw(t, "third_binds") {
			c.Progs = append(c.Progs, coreFill(t, rapid.SampledFrom(coreBinders).Draw(t, "binder2"), rapid.SampledFrom(coreNames).Draw(t, "focus2")))
		} else {
			c.Progs = append(c.Progs, coreFill(t, rapid.SampledFrom(coreQueries).Draw(t, "query2"), focus))
		}
	}
	k := rapid.IntRange(3, 8).Draw(t, "steps")
	for i := 0; i < k; i++ {
		e := rapid.IntRange(0, n).Draw(t, "env")
		if e == 0 {
			if rapid.Bool().Draw(t, "first_env_step") {
				nm := focus
				if rapid.IntRange(0, 3).Draw(t, "first_env_other") == 0 {
					nm = rapid.SampledFrom(corePool).Draw(t, "first_env_name")
				}
				c.Steps = append(c.Steps, CoreStep{Env: 0, Name: nm})
				continue
			}
			e = 1
		}
		if rapid.IntRange(0, 7).Draw(t, "host_defines") == 0 {
			c.Steps = append(c.Steps, CoreStep{Env: e, Name: rapid.SampledFrom(coreNames).Draw(t, "host_name")})
			continue
		}
		c.Steps = append(c.Steps, CoreStep{Env: e, P: rapid.IntRange(0, len(c.Progs)-1).Draw(t, "p")})
	}
	// the history ends with a question in an environment of the case
	c.Steps = append(c.Steps, CoreStep{Env: rapid.IntRange(1, n).Draw(t, "last_env"), P: 1})
	return c
}

type coreWorld struct {
	prepared []*env.Env // 1..n at index 0..n-1
	scope    []*env.Env // where the runs happen
}

func newCoreWorld(child []bool) *coreWorld {
	w := &coreWorld{}
	for _, ch := range child {
		e := core.Import(env.NewEnv())
		w.prepared = append(w.prepared, e)
		if ch {
			w.scope = append(w.scope, e.NewEnv())
		} else {
			w.scope = append(w.scope, e)
		}
	}
	return w
}

func coreRun(e *env.Env, tree ast.Stmt, dir string) (out string) {
	defer func() {
		if r := recover(); r != nil {
			out = strings.ReplaceAll("PANIC: "+fmt.Sprint(r), dir, "<dir>")
		}
	}()
	ctx, cancel := context.WithTimeout(context.Background(), 10*time.Second)
	defer cancel()
	v, err := vm.RunContext(ctx, e, nil, tree)
	if err != nil {
		return strings.ReplaceAll("error: "+err.Error(), dir, "<dir>")
	}
	return prog.RenderGo(v)
}

// coreBound renders which names of the pool the host finds in e
func coreBound(e *env.Env) string {
	var out []string
	for _, nm := range corePool {
		if v, err := e.Get(nm); err == nil {
			out = append(out, nm+"="+prog.RenderGo(v))
		}
	}
	return strings.Join(out, " ")
}

func coreCleanFirst() {
	for _, nm := range corePool {
		coreFirst.Delete(nm)
	}
}

const coreHostValue = "defined by the host"

// corePlay runs the steps (all, or those of environment `only`) and returns one line per step run
func corePlay(c CoreCase, trees []ast.Stmt, only int, dir string) (lines []string, w *coreWorld) {
	w = newCoreWorld(c.Child)
	for _, st := range c.Steps {
		if only > 0 && st.Env != only {
			continue
		}
		if st.Env == 0 {
			coreFirst.Define(st.Name, coreHostValue)
			continue
		}
		if st.Name != "" {
			w.scope[st.Env-1].Define(st.Name, coreHostValue)
			lines = append(lines, "host defines "+st.Name)
			continue
		}
		lines = append(lines, coreRun(w.scope[st.Env-1], trees[st.P], dir))
	}
	return lines, w
}

var corePoolQuery = "[defined(\"x\"), defined(\"y\"), defined(\"z\"), defined(\"mine\"), defined(\"fromLib\"), defined(\"libf\"), defined(\"libv\"), defined(\"cnt\"), defined(\"bump\")]"

func oracleCoreEnv(c CoreCase, o *h.Obs) *h.Fail {
	dir, derr := coreLibPaths()
	if derr != nil {
		o.Excluded = "harness: cannot write the files to load: " + derr.Error()
		return nil
	}
	n := len(c.Child)
	if n < 1 || n > 8 || len(c.Progs) == 0 {
		o.Excluded = "harness: malformed case"
		return nil
	}
	for _, st := range c.Steps {
		if st.Env < 0 || st.Env > n || st.P < 0 || st.P >= len(c.Progs) || (st.Env == 0 && st.Name == "") {
			o.Excluded = "harness: malformed case"
			return nil
		}
	}
	o.Key = fmt.Sprintf("%q|%v|%v", c.Progs, c.Child, c.Steps)
	var pairs []string
	for name := range coreLibs {
		pairs = append(pairs, "{"+name+"}", strconv.Quote(filepath.Join(dir, name+".ank")))
	}
	rep := strings.NewReplacer(pairs...)
	srcs := make([]string, len(c.Progs))
	parseAll := func() ([]ast.Stmt, error) {
		ts := make([]ast.Stmt, len(c.Progs))
		for i := range c.Progs {
			srcs[i] = rep.Replace(c.Progs[i])
			t, err := parser.ParseSrc(srcs[i])
			if err != nil {
				return nil, err
			}
			ts[i] = t
		}
		return ts, nil
	}
	shared, perr := parseAll()
	if perr != nil {
		o.Excluded = "generator produced unparseable text (harness problem): " + perr.Error()
		return nil
	}
	before := make([]string, len(shared))
	for i, t := range shared {
		before[i] = dump.Dump(t, dump.Opts{Positions: true})
	}
	describe := func() string {
		var b strings.Builder
		for i, p := range c.Progs {
			fmt.Fprintf(&b, "--- program %d\n%s\n", i, p)
		}
		for _, name := range []string{"lib0", "lib1", "lib2", "lib3", "lib4"} {
			if strings.Contains(strings.Join(c.Progs, "\n"), "{"+name+"}") {
				fmt.Fprintf(&b, "--- file %s\n%s", name, coreLibs[name])
			}
		}
		b.WriteString("--- steps (environment 0 = the environment core was imported to first in this process; 1.. = core.Import(env.NewEnv()) each):")
		for _, st := range c.Steps {
			if st.Name != "" {
				fmt.Fprintf(&b, " [env %d: host defines %s]", st.Env, st.Name)
			} else {
				fmt.Fprintf(&b, " [env %d: program %d]", st.Env, st.P)
			}
		}
		fmt.Fprintf(&b, "\nruns happen in a child scope of the prepared environment: %v", c.Child)
		return b.String()
	}

	// classes
	ran := map[int]int{}
	firstEnvBinds := false
	for _, st := range c.Steps {
		if st.Env == 0 {
			firstEnvBinds = true
		} else {
			ran[st.Env]++
		}
	}
	all := strings.Join(c.Progs, "\n")
	if strings.Contains(all, "defined") {
		o.Class("coreenv_program_asks_defined")
	}
	if strings.Contains(all, "load(") || strings.Contains(all, "ld(") {
		o.Class("coreenv_program_loads_a_file")
	}
	if firstEnvBinds {
		o.Class("coreenv_host_binds_in_the_environment_core_was_first_imported_to")
	}
	o.Class("coreenv_environments_that_ran_%d", len(ran))
	for _, ch := range c.Child {
		if ch {
			o.Class("coreenv_runs_in_a_child_scope_of_the_prepared_environment")
			break
		}
	}
	o.NonTrivial = len(ran) >= 2 && (strings.Contains(all, "defined") || strings.Contains(all, "load("))

	coreCleanFirst()
	defer coreCleanFirst()

	mixed, world := corePlay(c, shared, -1, dir)
	firstAfter := coreBound(coreFirst)
	// environment 0 holds what the host defined there and nothing else
	wantFirst := map[string]bool{}
	for _, st := range c.Steps {
		if st.Env == 0 {
			wantFirst[st.Name] = true
		}
	}
	for _, nm := range corePool {
		v, err := coreFirst.Get(nm)
		if (err == nil) != wantFirst[nm] || (err == nil && v != interface{}(coreHostValue)) {
			return h.Failf("C14|coreenv|the-first-prepared-environment-observes-bindings-of-others", "after the steps the host finds in environment 0 (the environment core was imported to first in this process; only the host binds names there): %s - the name %s was bound there by a run in another environment, or changed\n%s\nresults: %q", firstAfter, nm, describe(), mixed)
		}
	}
	boundMixed := make([]string, n)
	for i := range boundMixed {
		boundMixed[i] = coreBound(world.scope[i])
	}
	// all environments ask at the same moment (one shared tree); first one after the other
	q := mustParse(corePoolQuery)
	qd := dump.Dump(q, dump.Opts{Positions: true})
	seq := make([]string, n)
	for i := 0; i < n; i++ {
		seq[i] = coreRun(world.scope[i], q, dir)
	}
	conc := make([]string, n)
	var wg sync.WaitGroup
	start := make(chan struct{})
	for i := 0; i < n; i++ {
		wg.Add(1)
		go func(i int) {
			defer wg.Done()
			<-start
			conc[i] = coreRun(world.scope[i], q, dir)
		}(i)
	}
	close(start)
	wg.Wait()
	for i := 0; i < n; i++ {
		if conc[i] != seq[i] {
			return h.Failf("C14|coreenv|concurrent-question-differs", "environment %d asked defined(...) for every name of the pool at the same moment as the other environments (one shared tree) and got %s; asked alone just before it got %s\n%s", i+1, conc[i], seq[i], describe())
		}
	}

	coreCleanFirst()
	again, _ := corePlay(c, shared, -1, dir)
	if strings.Join(mixed, "\n") != strings.Join(again, "\n") {
		return h.Failf("C14|coreenv|not-repeatable", "the same steps (the same trees) in fresh prepared environments give other results when repeated\nfirst:  %q\nsecond: %q\n%s", mixed, again, describe())
	}

	// every environment alone: only its steps, fresh parses, nothing bound in environment 0
	for e := 1; e <= n; e++ {
		coreCleanFirst()
		fresh, ferr := parseAll()
		if ferr != nil {
			return h.Failf("C14|second-parse-fails", "source parses once but not twice: %v", ferr)
		}
		alone, aw := corePlay(c, fresh, e, dir)
		var mine []string
		j := 0
		for _, st := range c.Steps {
			if st.Env == 0 {
				continue
			}
			if st.Env == e {
				mine = append(mine, mixed[j])
			}
			j++
		}
		if strings.Join(alone, "\n") != strings.Join(mine, "\n") {
			return h.Failf("C14|coreenv|environment-sees-the-other", "environment %d gets other results when steps happen in other prepared environments in between than when only its own steps run (fresh parses, fresh prepared environment)\nin the history: %q\nalone:          %q\n%s", e, mine, alone, describe())
		}
		if b := coreBound(aw.scope[e-1]); b != boundMixed[e-1] {
			return h.Failf("C14|coreenv|bindings-differ-from-the-run-alone", "after the history the host finds in environment %d: %s; after the steps of that environment alone: %s\n%s", e, boundMixed[e-1], b, describe())
		}
	}
	for i, t := range shared {
		if after := dump.Dump(t, dump.Opts{Positions: true}); after != before[i] {
			return h.Failf("C14|tree-modified|coreenv", "program:\n%s\nthe parsed tree changed while it was executed", c.Progs[i])
		}
	}
	if after := dump.Dump(q, dump.Opts{Positions: true}); after != qd {
		return h.Failf("C14|tree-modified|coreenv", "program:\n%s\nthe parsed tree changed while it was executed", corePoolQuery)
	}
	return nil
}
