package c14

// Sub-check "objects": programs that import a bundled package, make an object with one of the
// constructors of its table (a compiled regular expression, a byte buffer, a string reader, a
// replacer, a big integer, a parsed URL, an error value), observe it through its methods, change it
// through its methods and observe it again. Every execution runs in a fresh environment of its own.
// The statement says that executions share no hidden mutable state and that the same source in equal
// fresh environments always produces the same value: whatever ran before or runs at the same time,
// every execution of one source must give the result its first execution gave. No expectation about
// what the methods compute is needed (that is Go's business, and C19's).
//
// The constructor arguments carry a number drawn from a large range, so that most cases are the first
// in the process to construct with exactly these arguments; inside a case the programs share them.

import (
	"context"
	"fmt"
	"strings"
	"sync"
	"time"

	"github.com/mattn/anko/env"
	"github.com/mattn/anko/vm"
	"pgregory.net/rapid"

	"verif/internal/ank"
	"verif/internal/h"
)

type ObjectsCase struct {
	Family string   `json:"family"`
	Progs  []string `json:"progs"`
	Order  []int    `json:"order"` // the sequential executions: indices into Progs
	Conc   int      `json:"conc"`  // afterwards every program runs from this many goroutines at once (0 = no concurrent phase)
	// Mut[i] / ObsAfter[i]: program i calls a method that changes the object / observes it after such a call
	Mut      []bool `json:"mut"`
	ObsAfter []bool `json:"obs_after"`
}

type objOp struct {
	text   string // %s = a subject string literal, %d = a small integer
	mutate bool
}

type objFamily struct {
	name  string
	head  string                           // the import
	ctors func(t *rapid.T, n int) []string // the spellings that bind `o` to an object made from arguments carrying n (one is drawn per program)
	ops   []objOp
	subj  []string
}

var rxBases = []string{"a|ab", "ab|abcd|abc", "x|xy|xyz", "(a|ab)(c|bcd)?", "[0-9]|[0-9]+", "b*?", "(a+?)(a*)", "a|ab|abc|abcd"}

var objFamilies = []objFamily{
	{
		name: "regexp", head: "pk = import(\"regexp\")",
		ctors: func(t *rapid.T, n int) []string {
			pat := fmt.Sprintf("%s|q%d", rapid.SampledFrom(rxBases).Draw(t, "rxbase"), n)
			return []string{
				fmt.Sprintf("o = pk.MustCompile(%q)", pat),
				fmt.Sprintf("o, oe = pk.Compile(%q)", pat),
				fmt.Sprintf("o = pk.MustCompilePOSIX(%q)", pat),
				fmt.Sprintf("o, oe = pk.CompilePOSIX(%q)", pat),
				fmt.Sprintf("o = pk.MustCompile(%q)", pat),
				fmt.Sprintf("func mk() {\nreturn pk.MustCompile(%q)\n}\no = mk()", pat),
			}
		},
		ops: []objOp{
			{"r += [o.FindString(%s)]", false}, {"r += [o.MatchString(%s)]", false}, {"r += [o.FindStringIndex(%s)]", false},
			{"r += [o.ReplaceAllString(%s, \"-\")]", false}, {"r += [o.FindAllString(%s, -1)]", false}, {"r += [o.String()]", false},
			{"r += [o.NumSubexp()]", false}, {"r += [o.FindStringSubmatch(%s)]", false},
			{"o.Longest()", true}, {"o.Longest()", true}, {"o.Longest()", true},
		},
		subj: []string{"ab", "abcd", "xyz", "aab", "bbbc", "12345", "aaa", ""},
	},
	{
		name: "bytes.Buffer", head: "pk = import(\"bytes\")",
		ctors: func(t *rapid.T, n int) []string {
			return []string{fmt.Sprintf("o = pk.NewBufferString(\"s%d\")", n), fmt.Sprintf("o = pk.NewBufferString(\"s\" + \"%d\")", n)}
		},
		ops: []objOp{
			{"o.WriteString(%s)", true}, {"o.WriteString(%s)", true}, {"r += [o.ReadByte()]", true}, {"o.Reset()", true}, {"o.Truncate(0)", true}, {"o.WriteByte(65)", true},
			{"r += [o.String()]", false}, {"r += [o.Len()]", false},
		},
		subj: []string{"ab", "x", "", "hello"},
	},
	{
		name: "strings.Reader", head: "pk = import(\"strings\")",
		ctors: func(t *rapid.T, n int) []string {
			return []string{fmt.Sprintf("o = pk.NewReader(\"s%d\")", n)}
		},
		ops: []objOp{
			{"r += [o.ReadByte()]", true}, {"r += [o.ReadByte()]", true}, {"o.UnreadByte()", true}, {"r += [o.ReadRune()]", true},
			{"r += [o.Len()]", false}, {"r += [o.Size()]", false},
		},
		subj: []string{""},
	},
	{
		name: "strings.Replacer", head: "pk = import(\"strings\")",
		ctors: func(t *rapid.T, n int) []string {
			return []string{fmt.Sprintf("o = pk.NewReplacer(\"a\", \"1\", \"q%d\", \"2\")", n), fmt.Sprintf("o = pk.NewReplacer(\"ab\", \"x\", \"a\", \"y\", \"q%d\", \"\")", n)}
		},
		ops:  []objOp{{"r += [o.Replace(%s)]", false}},
		subj: []string{"ab", "abcd", "aaa", "", "xyz"},
	},
	{
		name: "big.Int", head: "pk = import(\"math/big\")",
		ctors: func(t *rapid.T, n int) []string {
			return []string{fmt.Sprintf("o = pk.NewInt(%d)", n)}
		},
		ops: []objOp{
			{"o.Add(o, pk.NewInt(%d))", true}, {"o.Mul(o, o)", true}, {"o.SetInt64(%d)", true}, {"o.Neg(o)", true},
			{"r += [o.String()]", false}, {"r += [o.Int64()]", false}, {"r += [o.Sign()]", false}, {"r += [o.Cmp(pk.NewInt(%d))]", false},
		},
		subj: []string{""},
	},
	{
		name: "url.URL", head: "pk = import(\"net/url\")",
		ctors: func(t *rapid.T, n int) []string {
			return []string{fmt.Sprintf("o, oe = pk.Parse(\"http://h%d.example/p?a=1\")", n)}
		},
		ops: []objOp{
			{"o.Path = \"/\" + %s", true}, {"o.RawQuery = \"z=\" + %s", true}, {"o.Host = \"other\"", true},
			{"r += [o.String()]", false}, {"r += [o.Path]", false}, {"r += [o.Query().Get(\"a\")]", false}, {"r += [o.Host]", false},
			{"qv = o.Query()\nqv.Set(\"k\", %s)\nr += [qv.Encode()]", false},
		},
		subj: []string{"ab", "x", ""},
	},
	{
		name: "errors.New", head: "pk = import(\"errors\")",
		ctors: func(t *rapid.T, n int) []string {
			return []string{fmt.Sprintf("o = pk.New(\"e%d\")", n)}
		},
		ops:  []objOp{{"r += [o.Error()]", false}},
		subj: []string{""},
	},
}

func genObjects(t *rapid.T) ObjectsCase {
	fam := objFamilies[0]
	if rapid.IntRange(0, 9).Draw(t, "regexp") >= 4 {
		fam = objFamilies[rapid.IntRange(0, len(objFamilies)-1).Draw(t, "family")]
	}
	n := rapid.IntRange(0, 1<<24).Draw(t, "argnumber")
	ctors := fam.ctors(t, n)
	c := ObjectsCase{Family: fam.name}
	k := rapid.IntRange(1, 3).Draw(t, "nprogs")
	for i := 0; i < k; i++ {
		lines := []string{fam.head, "r = []", rapid.SampledFrom(ctors).Draw(t, "ctor")}
		mut, obsAfter := false, false
		for j := rapid.IntRange(1, 5).Draw(t, "nops"); j > 0; j-- {
			op := rapid.SampledFrom(fam.ops).Draw(t, "op")
			txt := op.text
			if strings.Contains(txt, "%s") {
				txt = fmt.Sprintf(txt, fmt.Sprintf("%q", rapid.SampledFrom(fam.subj).Draw(t, "subject")))
			} else if strings.Contains(txt, "%d") {
				txt = fmt.Sprintf(txt, rapid.IntRange(-3, 40).Draw(t, "small"))
			}
			if op.mutate {
				mut = true
			} else if mut {
				obsAfter = true
			}
			lines = append(lines, txt)
		}
		lines = append(lines, "r")
		c.Progs = append(c.Progs, strings.Join(lines, "\n"))
		c.Mut = append(c.Mut, mut)
		c.ObsAfter = append(c.ObsAfter, obsAfter)
	}
	for j := rapid.IntRange(2, 6).Draw(t, "nruns"); j > 0; j-- {
		c.Order = append(c.Order, rapid.IntRange(0, k-1).Draw(t, "run"))
	}
	// the first program always runs again at the end
	c.Order = append(c.Order, 0, 0)
	c.Conc = rapid.SampledFrom([]int{0, 0, 2, 3}).Draw(t, "conc")
	return c
}

func runObjects(src string) (s string) {
	defer func() {
		if p := recover(); p != nil {
			s = fmt.Sprintf("PANIC %v", p)
		}
	}()
	ctx, cancel := context.WithTimeout(context.Background(), 5*time.Second)
	defer cancel()
	v, err := vm.ExecuteContext(ctx, env.NewEnv(), nil, src)
	if err != nil {
		return "error: " + err.Error()
	}
	return ank.Describe(v)
}

func oracleObjects(c ObjectsCase, o *h.Obs) *h.Fail {
	if len(c.Progs) == 0 || len(c.Mut) != len(c.Progs) || len(c.ObsAfter) != len(c.Progs) {
		o.Excluded = "malformed_case"
		return nil
	}
	for _, i := range c.Order {
		if i < 0 || i >= len(c.Progs) {
			o.Excluded = "malformed_case"
			return nil
		}
	}
	var texts []string
	for i, p := range c.Progs {
		texts = append(texts, fmt.Sprintf("--- program %d\n%s", i, p))
	}
	all := strings.Join(texts, "\n")
	o.Key = fmt.Sprintf("%s\norder %v conc %d", all, c.Order, c.Conc)
	o.Class("family_" + c.Family)
	anyMut, anyObsAfter := false, false
	for i := range c.Progs {
		anyMut = anyMut || c.Mut[i]
		anyObsAfter = anyObsAfter || c.ObsAfter[i]
	}
	if anyMut {
		o.Class("a_program_changes_its_object")
	}
	if anyObsAfter {
		o.Class("a_program_observes_after_changing")
	}
	if c.Conc > 0 {
		o.Class("concurrent_phase")
	}
	first := map[int]string{}
	firstAt := map[int]int{}
	repeated := false
	fail := func(f *h.Fail) *h.Fail {
		// a process-wide residue stays: executing the case again (to shrink it) would not show it again
		f.NoShrink = true
		return f
	}
	for step, i := range c.Order {
		got := runObjects(c.Progs[i])
		if strings.HasPrefix(got, "error") {
			o.Class("run_ends_with_error")
		}
		want, seen := first[i]
		if !seen {
			first[i], firstAt[i] = got, step
			continue
		}
		repeated = true
		if got != want {
			return fail(h.Failf("C14|objects|same-source-in-a-fresh-environment-gives-another-result", "program %d (family %s), executed in a fresh environment at step %d, gives another result than at step %d; executions in between: %v\nfirst: %s\nnow:   %s\nprograms:\n%s", i, c.Family, step, firstAt[i], c.Order[firstAt[i]+1:step], want, got, all))
		}
	}
	o.NonTrivial = repeated && anyMut && anyObsAfter
	if c.Conc > 0 {
		type res struct {
			i int
			s string
		}
		out := make([]res, 0, c.Conc*len(c.Progs))
		var mu sync.Mutex
		var wg sync.WaitGroup
		for g := 0; g < c.Conc; g++ {
			for i := range c.Progs {
				if _, ran := first[i]; !ran {
					continue
				}
				wg.Add(1)
				go func(i int) {
					defer wg.Done()
					s := runObjects(c.Progs[i])
					mu.Lock()
					out = append(out, res{i, s})
					mu.Unlock()
				}(i)
			}
		}
		wg.Wait()
		for i := range c.Progs {
			for _, r := range out {
				if r.i == i && r.s != first[i] {
					return fail(h.Failf("C14|objects|concurrent-execution-gives-another-result", "program %d (family %s), executed in fresh environments from %d goroutines while the other programs ran as well, gives another result than alone\nalone:      %s\nconcurrent: %s\nprograms:\n%s", i, c.Family, c.Conc, first[i], r.s, all))
				}
			}
		}
	}
	return nil
}
