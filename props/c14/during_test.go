package c14

// Sub-check "during": the parsed tree is looked at WHILE a run is inside a statement, and runs of one
// shared tree are inside the same statement at the same moment, each with an index of its own.
//
// "Executing a program does not modify its parsed tree" and "a tree parsed once can be run ... from many
// goroutines at once on separate environments, and every run yields the result it would yield alone".
// The other sub-checks dump the tree before and after a run: an interpreter that writes something of the
// run into a node for the duration of a statement (the evaluated index of `a[f()] += v`, a resolved
// callee, a loop counter) and puts the parsed node back when the statement ends looks untouched to them,
// and their concurrent runs compute the same thing in every environment, so a value one run left in a
// node for another run to find is the value that run would have computed itself.
//
// Here the environment of every run binds `base`, idx() and key() to a value of its own (the run
// parameter 0..3), so the index expressions of the program evaluate differently in every run, and the
// programs call the host function gate() from INSIDE statements: the right side of a compound
// assignment whose target has a computed index (every spelling: call, arithmetic, member, element,
// ternary; list / nested list / map / member targets; at top level, in a loop, in a function, in a
// deferred call, in a recursive function whose right side recurses), and - for the tree-is-unchanged
// clause in general - from inside every other kind of statement and expression. gate() (1) dumps the
// tree (its first two calls in a run do) and compares it with the dump taken before the first run, (2) in
// the concurrent phase holds the run inside the statement: "nested" - run g stays at its first gate() until
// run g+1 has run from start to end (deterministic: the whole of run g+1 happens while run g is inside the
// statement), "barrier" - all runs wait for each other at their first gate(), "free" - no waiting. Waiting
// has a time limit; a wait that ran out excludes the case. The reference is a fresh parse run alone with
// the same parameter (its own tree is dumped from inside too: the recursive form needs no second run).
// A difference between results is reported before a tree that was seen changed from inside a statement.
// A program consists of the definitions its statements mention, the statements, and the containers as
// its value.

import (
	"fmt"
	"strings"
	"sync"
	"time"

	"github.com/mattn/anko/ast"
	"github.com/mattn/anko/parser"
	"pgregory.net/rapid"

	"verif/internal/dump"
	"verif/internal/h"
)

type DuringCase struct {
	Src    string   `json:"src"`
	Kinds  []string `json:"kinds"`
	Params []int    `json:"params"` // run g binds base / idx() / key() from Params[g]
	Mode   string   `json:"mode"`   // nested | barrier | free
}

// computed index expressions: all in 0..3 for i = base in 0..3
var durIdx = []string{"idx()", "idx(1)", "idx(i)", "(i + 1) % 4", "3 - i", "i + 0", "i * 1", "sel(i)", "ix[i]", "cfg.at", "(i)", "(true ? i : 0)", "len(ks[i]) + i - 2", "-(-i)", "sel(idx())", "ix[idx()]"}
var durIdxPlain = []string{"i", "2", "base"}

// computed keys of the map m (k0..k3)
var durKey = []string{"key()", "ks[i]", "ks[idx()]", "key() + \"\"", "cfg.key", "ks[(i + 1) % 4]", "\"k\" + sfx[i]"}
var durKeyPlain = []string{"kn", "\"k1\""}

// right sides: {G} calls the host (the run can be held there)
var durRHS = []string{"gate()", "gate()", "gate() + one()", "gate(2)", "gate(i + 1)", "slow()", "func() { return gate() }()", "[gate(), 5][0]", "one() + gate(3)", "gate() * 2"}
var durRHSQuick = []string{"one()", "1", "i + 1"}

var durOps = []string{"+=", "+=", "+=", "-=", "*=", "|=", "&=", "/="}

// durPreludeParts: a definition is part of the program if the text after it mentions its name
var durPreludeParts = []struct{ name, text string }{
	{"one(", "func one() { return 1 }\n"},
	{"sel(", "func sel(x) { return x }\n"},
	{"i", "i = base\n"},
	{"a", "a = [1, 2, 3, 4]\n"},
	{"n[", "n = [[1, 2, 3, 4], [5, 6, 7, 8]]\n"},
	{"m", "m = {\"k0\": 1, \"k1\": 2, \"k2\": 3, \"k3\": 4}\n"},
	{"hold", "hold = {\"l\": [1, 2, 3, 4]}\n"},
	{"ix[", "ix = [0, 1, 2, 3]\n"},
	{"ks[", "ks = [\"k0\", \"k1\", \"k2\", \"k3\"]\n"},
	{"sfx[", "sfx = [\"0\", \"1\", \"2\", \"3\"]\n"},
	{"kn", "kn = key()\n"},
	{"cfg.", "cfg = {\"at\": base, \"key\": key()}\n"},
	{"slow(", "func slow() {\nacc = 0\nfor sq = 0; sq < 20; sq++ {\nacc += one()\n}\ngate()\nreturn acc - 19\n}\n"},
}

// durProgram puts the definitions the statements use in front of them; the program yields the
// containers and the list r
func durProgram(body string) string {
	var b strings.Builder
	rest := body + "[a, m, r]"
	if strings.Contains(body, "n[") {
		rest += "n"
	}
	if strings.Contains(body, "slow(") {
		rest += " one("
	}
	for _, part := range durPreludeParts {
		if strings.Contains(rest, part.name) {
			b.WriteString(part.text)
		}
	}
	b.WriteString("r = []\n")
	b.WriteString(body)
	b.WriteString("[a, ")
	if strings.Contains(body, "n[") {
		b.WriteString("n, ")
	}
	if strings.Contains(body, "hold") {
		b.WriteString("hold, ")
	}
	b.WriteString("m, r]\n")
	return b.String()
}

func durPick(t *rapid.T, label string, main, plain []string) (string, bool) {
	if rapid.IntRange(0, 7).Draw(t, label+"_plain") == 0 {
		return rapid.SampledFrom(plain).Draw(t, label+"_p"), false
	}
	return rapid.SampledFrom(main).Draw(t, label), true
}

// durTarget draws an assignable element with a computed index; kExpr (if not empty) replaces `i` so that
// the index depends on a parameter of the enclosing function
func durTarget(t *rapid.T, kExpr string) (target string, computed bool, kind string) {
	sub := func(s string) string {
		if kExpr == "" {
			return s
		}
		// the index is computed from the function's parameter
		return strings.NewReplacer("(i + 1) % 4", "(i + "+kExpr+") % 4", "idx(1)", "idx("+kExpr+")", "sel(i)", "sel((i + "+kExpr+") % 4)", "ix[i]", "ix[(i + "+kExpr+") % 4]", "ks[i]", "ks[(i + "+kExpr+") % 4]").Replace(s)
	}
	switch rapid.IntRange(0, 5).Draw(t, "target") {
	case 0, 1:
		ix, c := durPick(t, "idx", durIdx, durIdxPlain)
		return "a[" + sub(ix) + "]", c, "list"
	case 2:
		ix, c := durPick(t, "idx", durIdx, durIdxPlain)
		outer := rapid.SampledFrom([]string{"1", "idx() % 2", "i % 2", "0"}).Draw(t, "outer")
		return "n[" + outer + "][" + sub(ix) + "]", c, "nested_list"
	case 3:
		ix, c := durPick(t, "idx", durIdx, durIdxPlain)
		return "hold.l[" + sub(ix) + "]", c, "member_then_index"
	default:
		k, c := durPick(t, "key", durKey, durKeyPlain)
		return "m[" + sub(k) + "]", c, "map"
	}
}

func durCompound(t *rapid.T, kExpr, rhsOverride string) (stmt string, computed bool, kind string) {
	tg, c, kind := durTarget(t, kExpr)
	incDecOf6 := 1 // x[i]++ / x[i]--: one statement in six, two in six in a hot loop, never where the right side is given
	if rhsOverride == "hot" {
		incDecOf6 = 2
	}
	if (rhsOverride == "" || rhsOverride == "hot") && rapid.IntRange(1, 6).Draw(t, "incdec") <= incDecOf6 {
		return tg + rapid.SampledFrom([]string{"++", "--"}).Draw(t, "pp"), c, kind + "_incdec"
	}
	op := rapid.SampledFrom(durOps).Draw(t, "op")
	rhs := rhsOverride
	if rhs == "hot" {
		rhs = rapid.SampledFrom(durRHSQuick).Draw(t, "rhshot")
	}
	if rhs == "" {
		if rapid.IntRange(0, 5).Draw(t, "quick") == 0 {
			rhs = rapid.SampledFrom(durRHSQuick).Draw(t, "rhsq")
		} else {
			rhs = rapid.SampledFrom(durRHS).Draw(t, "rhs")
		}
	}
	return tg + " " + op + " " + rhs, c, kind
}

// other statements and expressions with a call of the host inside
var durOther = []string{
	"x = [gate(), gate(2)]\nr += x", "a[idx()] = gate(7)", "m[key()] = gate(8)", "r += [sel(gate(3))]", "r += [gate() == 1 ? \"y\" : \"n\"]",
	"switch gate(2) {\ncase 1:\nr += [\"one\"]\ncase 2:\nr += [\"two\"]\n}", "for v in [gate(), gate(4)] {\nr += [v]\n}", "if gate() == 1 {\nr += [\"if\"]\n}",
	"func df() {\ndefer gate()\nreturn 5\n}\nr += [df()]", "r += [len(a[gate():])]", "x, y = gate(), gate(2)\nr += [x, y]", "s = make(struct{A int64})\ns.A = gate(6)\nr += [s.A]",
	"ch = make(chan int64, 1)\nch <- gate(9)\nr += [<-ch]", "r += [nil ?? gate(5)]", "try {\nthrow(gate(\"thrown\"))\n} catch e {\nr += [e.Error()]\n}", "bv = 5\nbq = &bv\n*bq = gate(4)\nr += [bv]",
	"bw = 1\nbw += gate(2)\nr += [bw]", "m.k0 += gate()", "hold.l[1] = gate()\nhold.z = gate(2)", "r += [len([gate(), 1])]", "for q = 0; q < gate(2); q++ {\nr += [q]\n}",
	"r += [func(v) { return v + gate() }(1)]", "module md {\nmv = gate(3)\n}\nr += [md.mv]", "var z = gate(2)\nr += [z]", "r += [{\"g\": gate(4)}.g]", "r += [gate(1) in [1, 2]]",
	"r += [[1, 2, 3][gate()]]", "r += [!(gate() == 1), -gate(2)]", "func two() { return gate(), gate(2) }\nu, w = two()\nr += [u, w]", "a[idx()], a[idx(1)] = gate(5), gate(6)",
}

func genDuring(t *rapid.T) DuringCase {
	var c DuringCase
	var b strings.Builder
	nst := rapid.IntRange(1, 3).Draw(t, "n")
	for s := 0; s < nst; s++ {
		var stmt, kind string
		var computed bool
		var labels []string
		switch pl := rapid.IntRange(0, 9).Draw(t, "placement"); pl {
		case 0, 1:
			stmt, computed, kind = durCompound(t, "", "")
			labels = append(labels, "placement_top", "target_"+kind)
		case 2:
			// in a loop: the index moves with the loop variable
			var st string
			st, computed, kind = durCompound(t, "q", "")
			stmt = fmt.Sprintf("for q = 0; q < %d; q++ {\n%s\n}", rapid.IntRange(2, 4).Draw(t, "rounds"), st)
			labels = append(labels, "placement_loop", "target_"+kind)
		case 3:
			var st string
			st, computed, kind = durCompound(t, "j", "")
			stmt = "func upd(j) {\n" + st + "\n}\nupd(0)\nupd(1)"
			labels = append(labels, "placement_func", "target_"+kind)
		case 4, 5:
			// a recursive function: the right side of the compound assignment recurses
			var st string
			st, computed, kind = durCompound(t, "k", rapid.SampledFrom([]string{"rec(k - 1)", "rec(k - 1)", "rec(k - 1) + one()", "one() + rec(k - 1)"}).Draw(t, "recrhs"))
			stmt = fmt.Sprintf("func rec(k) {\nif k == 0 {\ngate()\nreturn 1\n}\n%s\nreturn k + 1\n}\nr += [rec(%d)]", st, rapid.IntRange(1, 4).Draw(t, "depth"))
			labels = append(labels, "placement_recursive", "target_"+kind)
		case 6:
			var st string
			st, computed, kind = durCompound(t, "", "")
			stmt = "func dfr() {\ndefer func() {\n" + st + "\n}()\nreturn 0\n}\ndfr()"
			labels = append(labels, "placement_deferred", "target_"+kind)
		case 7:
			// many quick statements one after the other: the runs are let go at the same moment
			var st string
			st, computed, kind = durCompound(t, "q", "hot")
			stmt = fmt.Sprintf("gate()\nfor q = 0; q < %d; q++ {\n%s\n}", rapid.IntRange(50, 300).Draw(t, "hotrounds"), st)
			labels = append(labels, "placement_hot_loop", "target_"+kind)
		default:
			stmt = rapid.SampledFrom(durOther).Draw(t, "other")
			labels = append(labels, "other_statement")
			computed = true
		}
		if !computed {
			labels = append(labels, "control_plain_index")
		} else if len(labels) == 2 {
			labels = append(labels, "computed_index")
		}
		c.Kinds = append(c.Kinds, labels...)
		if rapid.IntRange(0, 3).Draw(t, "try") == 0 {
			stmt = "try {\n" + stmt + "\n} catch e {\nr += [\"error: \" + e.Error()]\n}"
		}
		b.WriteString(stmt + "\n")
	}
	c.Src = durProgram(b.String())
	g := rapid.IntRange(2, 5).Draw(t, "g")
	for k := 0; k < g; k++ {
		c.Params = append(c.Params, rapid.IntRange(0, 3).Draw(t, "param"))
	}
	if c.Params[1] == c.Params[0] {
		c.Params[1] = (c.Params[0] + 1 + rapid.IntRange(0, 2).Draw(t, "shift")) % 4
	}
	c.Mode = rapid.SampledFrom([]string{"nested", "nested", "barrier", "free"}).Draw(t, "mode")
	return c
}

// durRun is the host side of one run
type durRun struct {
	mu       sync.Mutex
	calls    int
	modified string      // the first dump taken during the run that differs from the dump before
	onFirst  func() bool // called at the first gate(): false = the wait ran out
	timedOut bool
}

func (d *durRun) prep(param int, tree ast.Stmt, d0 string) func(*host) {
	return func(hst *host) {
		p := int64(param)
		hst.env.Define("base", p)
		hst.env.Define("idx", func(args ...int64) int64 {
			s := p
			for _, a := range args {
				s += a
			}
			return ((s % 4) + 4) % 4
		})
		hst.env.Define("key", func() string { return fmt.Sprintf("k%d", p) })
		hst.env.Define("gate", func(args ...interface{}) interface{} {
			d.mu.Lock()
			d.calls++
			first := d.calls == 1
			look := d.calls <= durLooks && d.modified == ""
			d.mu.Unlock()
			if look {
				if now := dump.Dump(tree, dump.Opts{Positions: true}); now != d0 {
					d.mu.Lock()
					if d.modified == "" {
						d.modified = now
					}
					d.mu.Unlock()
				}
			}
			if first && d.onFirst != nil {
				if !d.onFirst() {
					d.mu.Lock()
					d.timedOut = true
					d.mu.Unlock()
				}
			}
			if len(args) == 0 {
				return int64(1)
			}
			return args[0]
		})
	}
}

const durWait = 20 * time.Second

// durLooks: the first calls of gate() in a run that dump the tree
const durLooks = 2

func oracleDuring(c DuringCase, o *h.Obs) *h.Fail {
	o.Key = fmt.Sprintf("%s|%v|%s", c.Src, c.Params, c.Mode)
	if len(c.Params) < 1 || len(c.Params) > 16 {
		o.Excluded = "harness: malformed case"
		return nil
	}
	for _, p := range c.Params {
		if p < 0 || p > 3 {
			o.Excluded = "harness: malformed case"
			return nil
		}
	}
	tree, err := parser.ParseSrc(c.Src)
	if err != nil {
		o.Excluded = "generator produced unparseable text (harness problem): " + err.Error()
		return nil
	}
	const to = 30 * time.Second
	d0 := dump.Dump(tree, dump.Opts{Positions: true})
	for _, k := range c.Kinds {
		o.Class("during_" + k)
	}
	o.Class("during_mode_" + c.Mode)
	distinct := map[int]bool{}
	for _, p := range c.Params {
		distinct[p] = true
	}

	// reference: a fresh parse run alone, once per parameter; its own tree is looked at during the run
	solo := map[int]obs{}
	gateCalls := 0
	// a tree seen changed from inside a statement is reported at the end, if no run differs in its result: a
	// result that differs says more (and both kinds get reported over the cases of a sub-check)
	var pending *h.Fail
	hold := func(f *h.Fail) {
		if pending == nil {
			pending = f
		}
	}
	for p := 0; p < 4; p++ {
		if !distinct[p] {
			continue
		}
		fresh, perr := parser.ParseSrc(c.Src)
		if perr != nil {
			return h.Failf("C14|second-parse-fails", "source parses once but not twice: %v\n%s", perr, c.Src)
		}
		dr := &durRun{}
		solo[p] = runTreeOpts(fresh, 0, to, nil, dr.prep(p, fresh, d0))
		if dr.modified != "" {
			hold(h.Failf("C14|tree-modified|during-a-run|alone", "a freshly parsed tree, run once and alone (run parameter %d), is not the tree that was parsed while the run is inside a statement: a host function called from inside the statement dumped it\ndiff near: %s\nsource:\n%s", p, firstDiff(d0, dr.modified), c.Src))
		}
		if d := dump.Dump(fresh, dump.Opts{Positions: true}); d != d0 {
			return h.Failf("C14|tree-modified|during|after-a-run-alone", "a freshly parsed tree changed in its first run (run parameter %d)\ndiff near: %s\nsource:\n%s", p, firstDiff(d0, d), c.Src)
		}
		if strings.Contains(solo[p].err, "execution interrupted") {
			o.Excluded = "resource guard: the solo run did not finish in time"
			return nil
		}
		if solo[p].err != "" {
			o.Class("during_run_ends_with_error")
		}
		gateCalls += dr.calls
	}
	if len(distinct) >= 2 {
		same := true
		for _, p := range c.Params {
			if solo[p] != solo[c.Params[0]] {
				same = false
			}
		}
		if !same {
			o.Class("during_runs_compute_different_results")
		}
	}
	o.NonTrivial = len(distinct) >= 2 && gateCalls > 0

	// the shared tree, one run after the other
	for g, p := range c.Params {
		dr := &durRun{}
		got := runTreeOpts(tree, 0, to, nil, dr.prep(p, tree, d0))
		if dr.modified != "" {
			hold(h.Failf("C14|tree-modified|during-a-run|sequential", "the shared tree is not the tree that was parsed while run %d (run parameter %d, no other run in progress) is inside a statement\ndiff near: %s\nsource:\n%s", g+1, p, firstDiff(d0, dr.modified), c.Src))
		}
		if got != solo[p] {
			return h.Failf("C14|during|sequential-run-differs", "run %d of the shared tree (run parameter %d) differs from a fresh parse run alone in an equal environment\nshared: %v\nfresh:  %v\nsource:\n%s", g+1, p, got, solo[p], c.Src)
		}
		if d := dump.Dump(tree, dump.Opts{Positions: true}); d != d0 {
			return h.Failf("C14|tree-modified|during|sequential", "the shared tree changed during run %d\ndiff near: %s\nsource:\n%s", g+1, firstDiff(d0, d), c.Src)
		}
	}

	// the shared tree, the runs in progress at the same time
	G := len(c.Params)
	res := make([]obs, G)
	runs := make([]*durRun, G)
	inside := make([]chan struct{}, G) // closed when run g is at its first gate() (or ended)
	done := make([]chan struct{}, G)   // closed when run g ended
	for g := range runs {
		runs[g] = &durRun{}
		inside[g] = make(chan struct{})
		done[g] = make(chan struct{})
	}
	bar := &optBarrier{need: G, ch: make(chan struct{})}
	var wg sync.WaitGroup
	start := make(chan struct{})
	for g := 0; g < G; g++ {
		g := g
		var once sync.Once
		arrive := func() { once.Do(func() { close(inside[g]); bar.arrive() }) }
		switch c.Mode {
		case "nested":
			runs[g].onFirst = func() bool {
				arrive()
				if g+1 == G {
					return true
				}
				select {
				case <-done[g+1]:
					return true
				case <-time.After(durWait):
					return false
				}
			}
		case "barrier":
			runs[g].onFirst = func() bool {
				arrive()
				select {
				case <-bar.ch:
					return true
				case <-time.After(durWait):
					return false
				}
			}
		default:
			runs[g].onFirst = func() bool { arrive(); return true }
		}
		wg.Add(1)
		go func() {
			defer wg.Done()
			defer close(done[g])
			defer arrive()
			if c.Mode == "nested" {
				if g > 0 {
					// run g starts when run g-1 is inside its statement
					select {
					case <-inside[g-1]:
					case <-time.After(durWait):
					}
				}
			} else {
				<-start
			}
			res[g] = runTreeOpts(tree, 0, to, nil, runs[g].prep(c.Params[g], tree, d0))
		}()
	}
	close(start)
	wg.Wait()
	for g := 0; g < G; g++ {
		if runs[g].timedOut || strings.Contains(res[g].err, "execution interrupted") {
			o.Excluded = "resource guard: a run waited at gate() longer than the time limit"
			return nil
		}
	}
	for g := 0; g < G; g++ {
		if res[g] != solo[c.Params[g]] {
			return h.Failf("C14|during|concurrent-run-differs|"+c.Mode, "run %d of %d runs of the shared tree that were in progress at the same time (%s; run parameters %v, this one %d), each in an environment of its own, differs from a fresh parse run alone in an equal environment\nconcurrent: %v\nalone:      %v\nsource:\n%s", g+1, G, c.Mode, c.Params, c.Params[g], res[g], solo[c.Params[g]], c.Src)
		}
	}
	if pending != nil {
		return pending
	}
	for g := 0; g < G; g++ {
		if runs[g].modified != "" {
			return h.Failf("C14|tree-modified|during-a-run|concurrent", "the shared tree is not the tree that was parsed while %d runs are in progress (%s): run %d dumped it from inside a statement\ndiff near: %s\nsource:\n%s", G, c.Mode, g+1, firstDiff(d0, runs[g].modified), c.Src)
		}
	}
	if d := dump.Dump(tree, dump.Opts{Positions: true}); d != d0 {
		return h.Failf("C14|tree-modified|during|concurrent", "the shared tree changed during concurrent runs (%s)\ndiff near: %s\nsource:\n%s", c.Mode, firstDiff(d0, d), c.Src)
	}
	return nil
}
