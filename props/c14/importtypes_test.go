package c14

// Sub-check "importtypes": `import` gives the importing environment its own copy of a package's
// symbol table - the package's TYPE names included. After one environment imported a package, the
// type names of that package must not have become known to any other environment: not to a sibling
// under the same parent, not to the parent, not to an unrelated root.

import (
	"fmt"
	"sort"

	"github.com/mattn/anko/env"
	"pgregory.net/rapid"

	"verif/internal/ank"
	"verif/internal/h"
)

type ImportTypesCase struct {
	Pkg    string `json:"pkg"`
	Type   int    `json:"type"`   // index into the sorted type names of the package
	Form   int    `json:"form"`   // how the importer spells the import
	Layout string `json:"layout"` // sibling | parent | root | grandchild
	Depth  int    `json:"depth"`  // the importer sits this many scopes below the shared base (1..3)
}

func typedPackages() []string {
	var out []string
	for p, ts := range env.PackageTypes {
		if len(ts) > 0 {
			out = append(out, p)
		}
	}
	sort.Strings(out)
	return out
}

func genImportTypes(t *rapid.T) ImportTypesCase {
	pk := typedPackages()
	return ImportTypesCase{
		Pkg:    pk[rapid.IntRange(0, len(pk)-1).Draw(t, "pkg")],
		Type:   rapid.IntRange(0, 40).Draw(t, "type"),
		Form:   rapid.IntRange(0, 3).Draw(t, "form"),
		Layout: rapid.SampledFrom([]string{"sibling", "sibling", "parent", "root", "grandchild"}).Draw(t, "layout"),
		Depth:  rapid.IntRange(1, 3).Draw(t, "depth"),
	}
}

func oracleImportTypes(c ImportTypesCase, o *h.Obs) *h.Fail {
	types := env.PackageTypes[c.Pkg]
	if len(types) == 0 || c.Depth < 1 || c.Depth > 4 {
		o.Excluded = "malformed_case"
		return nil
	}
	var names []string
	for n := range types {
		names = append(names, n)
	}
	sort.Strings(names)
	name := names[c.Type%len(names)]
	o.Key = fmt.Sprintf("%+v", c)
	if _, err := env.NewEnv().Type(name); err == nil {
		o.Excluded = "the type name is known to every environment"
		return nil
	}
	base := env.NewEnv()
	importer := base
	for i := 0; i < c.Depth; i++ {
		importer = importer.NewEnv()
	}
	var other *env.Env
	switch c.Layout {
	case "sibling":
		other = base.NewEnv()
	case "parent":
		other = base
	case "grandchild":
		other = base.NewEnv().NewEnv()
	default:
		other = env.NewEnv()
	}
	var src string
	switch c.Form {
	case 0:
		src = fmt.Sprintf("x = import(%q)\n1", c.Pkg)
	case 1:
		src = fmt.Sprintf("import(%q)\n1", c.Pkg)
	case 2:
		src = fmt.Sprintf("func f() { y = import(%q); return 2 }\nf()\n1", c.Pkg)
	default:
		src = fmt.Sprintf("var x = import(%q)\nvar z = import(%q)\n1", c.Pkg, c.Pkg)
	}
	o.Class("importtypes:layout_" + c.Layout)
	if _, err := ank.Exec(importer, src); err != nil {
		if hp, ok := ank.IsHostPanic(err); ok {
			return h.Failf("C14|host-panic|importtypes", "source:\n%s\nescaped panic: %v", src, hp.Value)
		}
		o.Excluded = "the importing program failed: " + err.Error()
		return nil
	}
	o.NonTrivial = true
	head := fmt.Sprintf("an environment %d scope(s) below a base environment ran\n%s\nafter that, in another environment (%s of the base)", c.Depth, src, c.Layout)
	if _, err := other.Type(name); err == nil {
		return h.Failf("C14|import-leaks-types|"+c.Layout, "%s the type name %s of package %q is known (Env.Type succeeds): the package's types were not kept in the importer's own copy", head, name, c.Pkg)
	}
	if v, err := ank.Exec(other, "make("+name+")"); err == nil {
		return h.Failf("C14|import-leaks-types|"+c.Layout, "%s the program `make(%s)` succeeds with %s: the type name of package %q leaked out of the importing environment", head, name, ank.Describe(v), c.Pkg)
	}
	if _, err := base.Type(name); err == nil {
		return h.Failf("C14|import-leaks-types|base", "%s ... and the base environment itself now knows the type name %s of package %q", head, name, c.Pkg)
	}
	return nil
}
