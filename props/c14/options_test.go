package c14

// Sub-check "options": the *vm.Options value a host passes to Run / RunContext.
//
// The statement quantifies over "all numbers of repeated and concurrent executions of one shared tree"
// on separate environments and says that every run yields the result it would yield alone and that
// executions share no hidden mutable state. It does not name the Options argument, so it holds for
// whatever Options value the host passes - also for the natural host that allocates its options once
// and passes the same pointer to every run. All other sub-checks pass nil (the interpreter then makes
// an Options value per run), so anything the interpreter keeps inside the Options value was invisible
// to them.
//
// A case is one program, parsed once, and one *vm.Options value. The program is run a drawn number of
// times one after the other (2 .. some thousand: "any number of times"), then from G goroutines at
// once, every run in a fresh environment of its own (alternating presets) and every run with the SAME
// Options pointer. Every run must equal the run of a fresh parse in an equal fresh environment with an
// Options value of its own. The programs do what makes an interpreter count: many calls that fail in
// every way a call can fail (a Go function that panics, a callback that fails inside a Go function, a
// failed lookup, index, member access, conversion, throw) caught or not, mixed with calls that succeed,
// and recursion of a drawn depth (plain, through a closure variable, mutual, with deferred calls, with a
// failure at the bottom). In the concurrent phase the host function meet() - called where the program
// is deepest - makes all G runs wait for each other, so that the runs really are in progress at the
// same time (a barrier with a time limit: no result depends on it).
//
// Nothing is asserted about what the programs compute; the reference is the solo run.

import (
	"fmt"
	"strings"
	"sync"
	"time"

	"github.com/mattn/anko/parser"
	"github.com/mattn/anko/vm"
	"pgregory.net/rapid"

	"verif/internal/dump"
	"verif/internal/h"
)

type OptionsCase struct {
	Src   string `json:"src"`
	Shape string `json:"shape"`
	Fail  string `json:"fail,omitempty"` // the failing form of the program
	K     int    `json:"k"`              // iterations of the failing loop (0: none)
	D     int    `json:"d"`              // recursion depth (0: none)
	Debug bool   `json:"debug"`          // Options.Debug
	Runs  int    `json:"runs"`           // sequential runs that share the Options value
	G     int    `json:"g"`              // afterwards: goroutines that share it
}

// failing forms: %s = the loop variable or a number
var optFailForms = []string{
	"pfail(%s)",                              // a Go function panics with a text / an error value (even / odd id)
	"gcall0(func() { pfail(%s) })",           // ... inside a callback
	"gcall0(func() { throw(\"cb\" + %s) })",  // a callback fails inside a Go function
	"geach([%s], func(x) { undefinedname })", // ditto, with an argument
	"undefinedname + %s",                     // failed lookup
	"[1][%s + 5]",                            // index out of range
	"throw(\"t\" + %s)",                      // throw
	"nil.x = %s",                             // member of nil
	"gfix2(%s)",                              // too few arguments for a Go function
	"gcall0(%s)",                             // an argument that cannot be converted
	"one(%s, 2)",                             // surplus arguments for a script function (not an error: a call that succeeds)
	"nothing()(%s)",                          // calling what is not a function
}

var optRecShapes = []string{"rec-plain", "rec-closure", "rec-mutual", "rec-defer", "rec-fails-at-bottom", "rec-caught-at-every-level"}

func genOptions(t *rapid.T) OptionsCase {
	var c OptionsCase
	heavy := rapid.Bool().Draw(t, "heavy")
	c.Debug = rapid.IntRange(0, 4).Draw(t, "debug") == 0
	if heavy {
		c.G = rapid.SampledFrom([]int{8, 12, 16}).Draw(t, "g")
	} else {
		c.G = rapid.SampledFrom([]int{2, 4, 8}).Draw(t, "g")
	}
	ff := rapid.SampledFrom(optFailForms).Draw(t, "fail")
	var b strings.Builder
	b.WriteString("func nothing() { }\nfunc one() { return 1 }\nn = 0\nr = []\n")
	if rapid.IntRange(0, 1).Draw(t, "family") == 0 {
		// a loop of failing calls, each caught; successful calls in between
		c.Shape = "failloop"
		c.Fail = ff
		if heavy {
			c.K = rapid.IntRange(40, 150).Draw(t, "k")
			c.Runs = rapid.IntRange(12000, 26000).Draw(t, "volume")/c.K + 1
		} else {
			c.K = rapid.IntRange(1, 20).Draw(t, "k")
			c.Runs = rapid.IntRange(2, 6).Draw(t, "runs")
		}
		fmt.Fprintf(&b, "for i = 0; i < %d; i++ {\n", c.K)
		fmt.Fprintf(&b, "try {\n%s\nn += 100\n} catch e {\nn += one()\nif i < 2 { r += [e.Error()] }\n}\n", fmt.Sprintf(ff, "i"))
		b.WriteString("}\nmeet()\n")
		switch rapid.IntRange(0, 2).Draw(t, "tail") {
		case 0:
			// the run ends with the failure, not caught
			c.Shape = "failloop+uncaught"
			fmt.Fprintf(&b, "p(1, n)\n%s\n", fmt.Sprintf(ff, "7"))
		case 1:
			b.WriteString("n += len(r) + one()\n")
		}
	} else {
		c.Shape = rapid.SampledFrom(optRecShapes).Draw(t, "rec")
		if heavy {
			c.D = rapid.IntRange(1500, 2500).Draw(t, "d")
			c.Runs = rapid.IntRange(2, 4).Draw(t, "runs")
		} else {
			c.D = rapid.IntRange(1, 60).Draw(t, "d")
			c.Runs = rapid.IntRange(2, 6).Draw(t, "runs")
		}
		bottom := "meet()\nreturn 0"
		switch c.Shape {
		case "rec-plain":
			fmt.Fprintf(&b, "func rec(k) {\nif k == 0 {\n%s\n}\nreturn 1 + rec(k - 1)\n}\nn = rec(%d)\n", bottom, c.D)
		case "rec-closure":
			fmt.Fprintf(&b, "rec = nil\nrec = func(k) {\nif k == 0 {\n%s\n}\nreturn rec(k - 1) + one()\n}\nn = rec(%d)\n", bottom, c.D)
		case "rec-mutual":
			fmt.Fprintf(&b, "func ra(k) {\nif k == 0 {\n%s\n}\nreturn rb(k - 1) + 1\n}\nfunc rb(k) {\nif k == 0 {\n%s\n}\nreturn ra(k - 1) + 2\n}\nn = ra(%d)\n", bottom, bottom, c.D)
		case "rec-defer":
			fmt.Fprintf(&b, "func rec(k) {\ndefer func() { n += one() }()\nif k == 0 {\n%s\n}\nreturn 1 + rec(k - 1)\n}\nr += [rec(%d)]\n", bottom, c.D)
		case "rec-fails-at-bottom":
			c.Fail = ff
			fmt.Fprintf(&b, "func rec(k) {\nif k == 0 {\nmeet()\n%s\nreturn 0\n}\nreturn 1 + rec(k - 1)\n}\ntry {\nn = rec(%d)\n} catch e {\nr += [e.Error(), one()]\n}\n", fmt.Sprintf(ff, "k"), c.D)
		default:
			c.Fail = ff
			fmt.Fprintf(&b, "func rec(k) {\nif k == 0 {\nmeet()\nreturn 0\n}\nv = 0\ntry {\nv = rec(k - 1)\n%s\n} catch e {\nv += one()\n}\nreturn v\n}\nn = rec(%d)\n", fmt.Sprintf(ff, "k"), c.D)
		}
		if rapid.Bool().Draw(t, "tail") {
			b.WriteString("n += one()\n")
		}
	}
	b.WriteString("[p(2, n), r, one()]\n")
	c.Src = b.String()
	return c
}

// barrier: G runs wait for each other; a run that ended without arriving counts as arrived
type optBarrier struct {
	mu      sync.Mutex
	need    int
	arrived int
	ch      chan struct{}
}

func (b *optBarrier) arrive() {
	b.mu.Lock()
	b.arrived++
	if b.arrived == b.need {
		close(b.ch)
	}
	b.mu.Unlock()
}

func bucket(n int) string {
	switch {
	case n == 0:
		return "0"
	case n < 100:
		return "1..99"
	case n < 1000:
		return "100..999"
	case n < 10000:
		return "1000..9999"
	}
	return ">=10000"
}

func oracleOptions(c OptionsCase, o *h.Obs) *h.Fail {
	o.Key = fmt.Sprintf("%s|%v|%d|%d", c.Src, c.Debug, c.Runs, c.G)
	tree, err := parser.ParseSrc(c.Src)
	if err != nil {
		o.Excluded = "generator produced unparseable text (harness problem): " + err.Error()
		return nil
	}
	if c.Runs < 1 || c.G < 0 || c.G > 64 {
		o.Excluded = "harness: malformed case"
		return nil
	}
	o.Class("options_shape_" + c.Shape)
	if c.Fail != "" {
		o.Class("options_failing_form: " + c.Fail)
	}
	if c.Debug {
		o.Class("options_debug_mode")
	}
	o.Class("options_failing_calls_made_with_one_options_value_" + bucket(c.K*(c.Runs+c.G)))
	o.Class("options_calls_in_progress_at_once_over_all_goroutines_" + bucket(c.D*c.G))
	o.Class("options_sequential_runs_" + bucket(c.Runs))
	o.NonTrivial = c.Runs+c.G >= 3
	const to = 30 * time.Second
	noMeet := func(hst *host) { hst.env.Define("meet", func() {}) }
	d0 := dump.Dump(tree, dump.Opts{Positions: true})

	// reference: fresh parse, fresh environment, an Options value of its own
	solo := map[int]obs{}
	for _, ps := range []int{0, 1} {
		fresh, perr := parser.ParseSrc(c.Src)
		if perr != nil {
			return h.Failf("C14|second-parse-fails", "source parses once but not twice: %v\n%s", perr, c.Src)
		}
		solo[ps] = runTreeOpts(fresh, ps, to, &vm.Options{Debug: c.Debug}, noMeet)
		if strings.Contains(solo[ps].err, "execution interrupted") {
			o.Excluded = "resource guard: the solo run did not finish in time"
			return nil
		}
		if solo[ps].err != "" || solo[ps].panic != "" {
			o.Class("options_run_ends_with_error_or_host_panic")
		}
	}
	// why a run differs: the same shared tree once more, alone, with an Options value of its own
	blame := func(ps int) string {
		again := runTreeOpts(tree, ps, to, &vm.Options{Debug: c.Debug}, noMeet)
		if again == solo[ps] {
			return "options-value-carries-state"
		}
		return "reused-tree-differs"
	}

	shared := &vm.Options{Debug: c.Debug}
	for i := 0; i < c.Runs; i++ {
		ps := i % 2
		got := runTreeOpts(tree, ps, to, shared, noMeet)
		if got != solo[ps] {
			if strings.Contains(got.err, "execution interrupted") {
				o.Excluded = "resource guard: a run did not finish in time"
				return nil
			}
			why := blame(ps)
			return h.Failf("C14|options|"+why+"|sequential", "run %d of %d that were made one after the other with ONE *vm.Options value (Debug %v), each in a fresh environment (this one preset %d), differs from the run of a fresh parse in an equal fresh environment with an Options value of its own; the shared tree run once more with an Options value of its own: %s\nshared options: %v\nown options:    %v\nsource:\n%s", i+1, c.Runs, c.Debug, ps, why, got, solo[ps], c.Src)
		}
	}
	if c.G > 0 {
		bar := &optBarrier{need: c.G, ch: make(chan struct{})}
		res := make([]obs, c.G)
		var wg sync.WaitGroup
		for g := 0; g < c.G; g++ {
			wg.Add(1)
			go func(g int) {
				defer wg.Done()
				var mu sync.Mutex
				here := false
				arriveOnce := func() bool {
					mu.Lock()
					defer mu.Unlock()
					if here {
						return false
					}
					here = true
					bar.arrive()
					return true
				}
				res[g] = runTreeOpts(tree, g%2, to, shared, func(hst *host) {
					hst.env.Define("meet", func() {
						if arriveOnce() {
							select {
							case <-bar.ch:
							case <-time.After(20 * time.Second):
							}
						}
					})
				})
				arriveOnce()
			}(g)
		}
		wg.Wait()
		for g := 0; g < c.G; g++ {
			if res[g] != solo[g%2] {
				if strings.Contains(res[g].err, "execution interrupted") {
					o.Excluded = "resource guard: a run did not finish in time"
					return nil
				}
				why := blame(g % 2)
				return h.Failf("C14|options|"+why+"|concurrent", "one of %d runs made at the same time with ONE *vm.Options value (Debug %v), each in a fresh environment (this one preset %d), after %d runs one after the other, differs from the run of a fresh parse in an equal fresh environment with an Options value of its own; the shared tree run once more alone with an Options value of its own: %s\nshared options: %v\nown options:    %v\nsource:\n%s", c.G, c.Debug, g%2, c.Runs, why, res[g], solo[g%2], c.Src)
			}
		}
	}
	if d := dump.Dump(tree, dump.Opts{Positions: true}); d != d0 {
		return h.Failf("C14|tree-modified|options", "the parsed tree changed during the runs\nbefore: %s\nafter:  %s\nsource:\n%s", d0, d, c.Src)
	}
	return nil
}
