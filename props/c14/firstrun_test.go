package c14

// Sub-check "firstrun": the FIRST execution of a freshly parsed tree happens from several goroutines
// at once (a host that parses once and serves requests), on programs that are dense in literals.
//
// "A tree parsed once can be run any number of times, one after another or from many goroutines at
// once on separate environments, and every run yields the result it would yield alone"; "executing a
// program does not modify its parsed tree". An interpreter that keeps anything it computed from the
// literal text of a node (a list built from written-out elements, a folded constant, a compiled
// switch table) next to the node changes the tree when the node is evaluated first, and when that
// first evaluation happens in two goroutines at the same moment one of them may see the thing half
// made. The other sub-checks run trees made by the model generators (no `in`, few written-out lists)
// or full-grammar programs that mostly fail before they get far.
//
// A program is 1-4 snippets; every snippet is a small well-typed piece of anko over written-out
// operands (one snippet for every kind of expression and statement there is) that appends what it
// computed to the list the program returns; a snippet is wrapped in a try of its own. Written-out
// lists are 1-8 elements long, one in eight is 200-3000 long (the item searched for is drawn near the
// start, the middle, the end or is absent), so that making something from the list takes long enough
// for a second goroutine to arrive meanwhile. No expectation about what a snippet computes: the
// reference is a fresh parse of the same source run alone.

import (
	"fmt"
	"strings"
	"sync"
	"time"

	"github.com/mattn/anko/parser"
	"pgregory.net/rapid"

	"verif/internal/dump"
	"verif/internal/h"
)

type FirstRunCase struct {
	Src       string   `json:"src"`
	Kinds     []string `json:"kinds"`
	G         int      `json:"g"`
	ConcFirst bool     `json:"conc_first"` // the first execution of the shared tree is the concurrent one
}

// litList writes out a list of n elements of one flavour and returns the elements as texts
func litList(t *rapid.T, n int) []string {
	base := rapid.IntRange(-3, 5000).Draw(t, "base")
	fl := rapid.IntRange(0, 4).Draw(t, "flavour")
	out := make([]string, n)
	mixed := []string{"1", "\"a\"", "2.5", "true", "nil", "\"\"", "0", "false", "-1", "\"1\""}
	for i := range out {
		switch fl {
		case 0, 1:
			out[i] = fmt.Sprint(base + i)
		case 2:
			out[i] = fmt.Sprintf("\"s%d\"", base+i)
		case 3:
			out[i] = fmt.Sprintf("%d.5", base+i)
		default:
			out[i] = mixed[(base+i+len(mixed)*4)%len(mixed)]
		}
	}
	return out
}

func listLen(t *rapid.T) int {
	if rapid.IntRange(0, 7).Draw(t, "long") == 0 {
		return rapid.IntRange(200, 3000).Draw(t, "nlong")
	}
	return rapid.IntRange(1, 8).Draw(t, "n")
}

// wrapEval puts an appending statement where the same node is evaluated once, several times in a loop,
// or in a function that is called twice
func wrapEval(t *rapid.T, stmt string) string {
	switch rapid.IntRange(0, 4).Draw(t, "wrap") {
	case 0, 1:
		return stmt
	case 2:
		return "for wi = 0; wi < 3; wi++ {\n" + stmt + "\n}"
	case 3:
		return "func wf() {\n" + stmt + "\n}\nwf()\nwf()"
	default:
		return "if len(r) >= 0 {\n" + stmt + "\n}"
	}
}

type frSnippet struct {
	kind string
	gen  func(t *rapid.T) string
}

var frSnippets = []frSnippet{
	{"in_written_out_list", func(t *rapid.T) string {
		l := litList(t, listLen(t))
		var item string
		switch rapid.IntRange(0, 4).Draw(t, "pos") {
		case 0:
			item = l[0]
		case 1:
			item = l[len(l)/2]
		case 2, 3:
			item = l[len(l)-1]
		default:
			item = rapid.SampledFrom([]string{"-77", "\"absent\"", "nil", "0.25"}).Draw(t, "absent")
		}
		lst := "[" + strings.Join(l, ", ") + "]"
		switch rapid.IntRange(0, 5).Draw(t, "form") {
		case 0:
			return wrapEval(t, "r += ["+item+" in "+lst+"]")
		case 1:
			return "x = " + item + "\n" + wrapEval(t, "r += [x in "+lst+"]")
		case 2:
			return wrapEval(t, "if "+item+" in "+lst+" {\nr += [\"yes\"]\n} else {\nr += [\"no\"]\n}")
		case 3:
			return wrapEval(t, "r += [!("+item+" in "+lst+"), "+item+" in "+lst+"]")
		case 4:
			return "func has(x) {\nreturn x in " + lst + "\n}\nr += [has(" + item + "), has(" + l[0] + "), has(\"never\")]"
		default:
			return "for x in [" + item + ", " + l[0] + ", 12345678] {\nr += [x in " + lst + "]\n}"
		}
	}},
	{"list_literal_index_slice_len", func(t *rapid.T) string {
		l := litList(t, listLen(t))
		lst := "[" + strings.Join(l, ", ") + "]"
		k := rapid.IntRange(0, len(l)-1).Draw(t, "k")
		switch rapid.IntRange(0, 4).Draw(t, "form") {
		case 0:
			return wrapEval(t, fmt.Sprintf("r += [%s[%d]]", lst, k))
		case 1:
			return wrapEval(t, fmt.Sprintf("r += [len(%s)]", lst))
		case 2:
			return wrapEval(t, fmt.Sprintf("r += [len(%s[%d:])]", lst, k))
		case 3:
			return wrapEval(t, fmt.Sprintf("a = %s\na[%d] = \"set\"\nr += [a[%d], len(a)]", lst, k, k))
		default:
			return wrapEval(t, fmt.Sprintf("a = %s\na += [1]\nr += [len(a), len(%s + [1, 2])]", lst, lst))
		}
	}},
	{"nested_and_typed_literals", func(t *rapid.T) string {
		return wrapEval(t, rapid.SampledFrom([]string{
			"r += [[[1, 2], [3, [4, 5]]][1][1][0]]",
			"r += [[]int64{1, 2, 3}[1], len([]string{\"x\", \"y\"})]",
			"r += [map[string]int64{\"a\": 1, \"b\": 2}[\"b\"]]",
			"r += [[]interface{1, \"a\", nil}[1]]",
			"r += [[][]int64{[]int64{1}, []int64{2, 3}}[1][1]]",
			"a = []float64{1.5, 2}\na[0] = 9.5\nr += [a[0], []float64{1.5, 2}[0]]",
		}).Draw(t, "text"))
	}},
	{"map_literal", func(t *rapid.T) string {
		return wrapEval(t, rapid.SampledFrom([]string{
			"r += [{\"a\": 1, \"b\": \"x\"}.b, {\"a\": 1}[\"a\"], len({\"a\": 1, \"b\": 2, \"c\": 3})]",
			"m = {\"k\": [1, 2], \"n\": {\"z\": nil}}\nr += [m.k[1], m.n.z, len(m)]",
			"m = {}\nm.a = 1\nm[\"b\"] = 2\nr += [len(m), len({})]",
			"m = {\"a\": 1}\ndelete(m, \"a\")\nr += [len(m), {\"a\": 1}.a]",
			"v, ok = {\"a\": 5}[\"a\"]\nw, ko = {\"a\": 5}[\"q\"]\nr += [v, ok, w, ko]",
		}).Draw(t, "text"))
	}},
	{"string_literal", func(t *rapid.T) string {
		return wrapEval(t, rapid.SampledFrom([]string{
			"r += [\"abc\"[1], \"abcdef\"[1:3], \"a\" + \"b\", len(\"héllo\")]",
			"s = \"abc\"\ns += \"d\"\nr += [s, \"abc\"]",
			"r += [\"a\" < \"b\", \"a\" == \"a\", \"x\" * 3, `raw\\n`]",
			"r += ['single', \"tab\\t\", \"\" == \"\"]",
		}).Draw(t, "text"))
	}},
	{"numbers_and_operators", func(t *rapid.T) string {
		return wrapEval(t, rapid.SampledFrom([]string{
			"r += [1 + 2 * 3, 7 % 3, 1 << 3, 256 >> 2, 6 & 3, 6 | 1, (1 + 2) * 3]",
			"r += [5 > 3 && true, false || 4 <= 4, !false, -(3), 1 == 1.0, 1 != 2]",
			"r += [7 / 2, 7.0 / 2, 1e3, 0x10, 1.5 + 1, 10 - 2.5]",
			"r += [true ? 1 : 2, false ? 1 : 2, nil ?? 5, 0 ?? 6, \"\" ?? \"d\"]",
			"x = 4095\nx++\ny = 0\ny--\nz = 3\nz += 2\nz *= 4\nr += [x, y, z, 4095 + 1, 4096 - 1]",
			"r += [1 == 1, 4095 + 1 == 4096, -1 + 0, 2 - 3, 100 * 100]",
		}).Draw(t, "text"))
	}},
	{"switch_on_literals", func(t *rapid.T) string {
		k := rapid.IntRange(0, 5).Draw(t, "k")
		return wrapEval(t, fmt.Sprintf("switch %d {\ncase 1:\nr += [\"one\"]\ncase 2, 3:\nr += [\"two-three\"]\ncase 4:\nr += [\"four\"]\ndefault:\nr += [\"other\"]\n}", k))
	}},
	{"loops_over_literals", func(t *rapid.T) string {
		l := litList(t, rapid.IntRange(1, 6).Draw(t, "n"))
		lst := "[" + strings.Join(l, ", ") + "]"
		return rapid.SampledFrom([]string{
			"c = 0\nfor v in " + lst + " {\nc++\nr += [v]\n}\nr += [c]",
			"c = 0\nfor i = 0; i < 4; i++ {\nif i == 2 {\ncontinue\n}\nc += i\n}\nr += [c]",
			"c = 0\nfor {\nc++\nif c > 3 {\nbreak\n}\n}\nr += [c]",
			"c = 0\nfor c < 3 {\nc++\n}\nr += [c]",
			"for k, v in {\"only\": 1} {\nr += [k, v]\n}",
			"for i in [[1, 2], [3]] {\nfor j in i {\nr += [j]\n}\n}",
		}).Draw(t, "text")
	}},
	{"functions_and_calls", func(t *rapid.T) string {
		return rapid.SampledFrom([]string{
			"func f(a, b) {\nreturn a + b\n}\nr += [f(1, 2), f(\"a\", \"b\")]",
			"r += [func(a) {\nreturn a * 2\n}(4)]",
			"func mk(n) {\nreturn func() {\nn++\nreturn n\n}\n}\nc1 = mk(10)\nc1()\nr += [c1(), mk(0)()]",
			"func v(a...) {\nreturn len(a)\n}\nr += [v(), v(1, 2, 3), v([1, 2]...)]",
			"func d() {\nx = 1\ndefer func() {\nx = 2\n}()\nreturn x\n}\nr += [d()]",
			"func two() {\nreturn 1, \"b\"\n}\na, b = two()\nr += [a, b]",
			"func fact(n) {\nif n <= 1 {\nreturn 1\n}\nreturn n * fact(n - 1)\n}\nr += [fact(10)]",
			"r += [p(1, 7), one()]",
		}).Draw(t, "text")
	}},
	{"make_new_pointers_channels", func(t *rapid.T) string {
		return wrapEval(t, rapid.SampledFrom([]string{
			"r += [len(make([]int64, 2)), len(make(map[string]int64)), make(int64), make(string)]",
			"x = 5\nq = &x\n*q = 6\nr += [x, *q]",
			"c = make(chan int64, 1)\nc <- 3\nr += [<-c, len(c)]",
			"s = make(struct{A int64, B string})\ns.A = 3\ns.B = \"b\"\nr += [s.A, s.B]",
			"q = new(int64)\n*q = 4\nr += [*q]",
			"make(type Tn, 1)\nr += [make(Tn)]",
		}).Draw(t, "text"))
	}},
	{"errors_and_try", func(t *rapid.T) string {
		return wrapEval(t, rapid.SampledFrom([]string{
			"try {\nthrow(\"x\")\n} catch e {\nr += [e.Error()]\n} finally {\nr += [\"fin\"]\n}",
			"try {\nr += [[1, 2][5]]\n} catch e {\nr += [e.Error()]\n}",
			"try {\nundefinedname\n} catch {\nr += [\"caught\"]\n}",
			"try {\nr += [1 in 2]\n} catch e {\nr += [e.Error()]\n}",
		}).Draw(t, "text"))
	}},
	{"module_var_multi_assignment", func(t *rapid.T) string {
		return rapid.SampledFrom([]string{
			"module M {\na = 1\nfunc g() {\nreturn a + 1\n}\n}\nr += [M.a, M.g()]",
			"var a, b = 1, \"two\"\nr += [a, b]",
			"a, b = 1, 2\na, b = b, a\nr += [a, b]",
			"a, b = [3, 4]\nr += [a, b]",
			"x = [1, 2, 3]\nx[0], x[2] = x[2], x[0]\nr += [x]",
		}).Draw(t, "text")
	}},
	{"import_and_package_call", func(t *rapid.T) string {
		return wrapEval(t, rapid.SampledFrom([]string{
			"r += [import(\"strings\").ToUpper(\"abc\")]",
			"st = import(\"strings\")\nr += [st.Repeat(\"ab\", 2), st.Contains(\"abc\", \"b\")]",
			"r += [import(\"math\").Abs(-2.5), import(\"strconv\").Itoa(42)]",
		}).Draw(t, "text"))
	}},
}

func genFirstRun(t *rapid.T) FirstRunCase {
	var c FirstRunCase
	n := rapid.IntRange(1, 4).Draw(t, "n")
	var b strings.Builder
	b.WriteString("func one() { return 1 }\nr = []\n")
	for i := 0; i < n; i++ {
		var sn frSnippet
		if rapid.IntRange(0, 3).Draw(t, "want_in") == 0 {
			sn = frSnippets[0]
		} else {
			sn = rapid.SampledFrom(frSnippets).Draw(t, "snippet")
		}
		c.Kinds = append(c.Kinds, sn.kind)
		b.WriteString("try {\n" + sn.gen(t) + "\n} catch e {\nr += [\"error: \" + e.Error()]\n}\n")
	}
	b.WriteString("r\n")
	c.Src = b.String()
	c.G = rapid.SampledFrom([]int{2, 4, 8, 8, 16}).Draw(t, "g")
	c.ConcFirst = rapid.IntRange(0, 3).Draw(t, "concfirst") != 0
	return c
}

func oracleFirstRun(c FirstRunCase, o *h.Obs) *h.Fail {
	o.Key = c.Src
	if c.G < 1 || c.G > 64 {
		o.Excluded = "harness: malformed case"
		return nil
	}
	const to = 10 * time.Second
	solo := map[int]obs{}
	for _, ps := range []int{0, 1} {
		fresh, perr := parser.ParseSrc(c.Src)
		if perr != nil {
			o.Excluded = "generator produced unparseable text (harness problem): " + perr.Error()
			return nil
		}
		solo[ps] = runTree(fresh, ps, to)
		fresh2, _ := parser.ParseSrc(c.Src)
		if again := runTree(fresh2, ps, to); again != solo[ps] {
			return h.Failf("C14|not-repeatable|firstrun", "two fresh parses run in equal fresh environments (preset %d) differ\nfirst:  %v\nsecond: %v\nsource:\n%s", ps, solo[ps], again, c.Src)
		}
	}
	for _, k := range c.Kinds {
		o.Class("firstrun_snippet_" + k)
	}
	if strings.Contains(solo[0].value, "error: ") {
		o.Class("firstrun_a_snippet_ended_with_an_error")
	}
	if solo[0].err != "" {
		o.Class("firstrun_program_ended_with_an_error")
	}
	if len(c.Src) > 4000 {
		o.Class("firstrun_has_a_long_written_out_list")
	}
	o.NonTrivial = solo[0].err == "" && c.G >= 2
	tree, _ := parser.ParseSrc(c.Src)
	d0 := dump.Dump(tree, dump.Opts{Positions: true})
	concurrent := func(phase string) *h.Fail {
		res := make([]obs, c.G)
		start := make(chan struct{})
		var ready, wg sync.WaitGroup
		for g := 0; g < c.G; g++ {
			wg.Add(1)
			ready.Add(1)
			go func(g int) {
				defer wg.Done()
				ready.Done()
				<-start
				res[g] = runTree(tree, g%2, to)
			}(g)
		}
		ready.Wait()
		close(start)
		wg.Wait()
		for g := 0; g < c.G; g++ {
			if res[g] != solo[g%2] {
				return h.Failf("C14|firstrun|concurrent-run-differs|"+strings.Fields(phase)[0], "one of %d runs of one freshly parsed tree started at the same moment (%s), each in a fresh environment (this one preset %d), differs from the run of another fresh parse alone\nconcurrent: %v\nalone:      %v\nsource:\n%s", c.G, phase, g%2, res[g], solo[g%2], c.Src)
			}
		}
		if d := dump.Dump(tree, dump.Opts{Positions: true}); d != d0 {
			return h.Failf("C14|tree-modified|firstrun-concurrent", "the parsed tree changed during concurrent runs (%s)\nsource:\n%s\ndiff near: %s", phase, c.Src, firstDiff(d0, d))
		}
		return nil
	}
	sequential := func(phase string) *h.Fail {
		for i := 0; i < 2; i++ {
			if got := runTree(tree, i, to); got != solo[i] {
				return h.Failf("C14|firstrun|sequential-run-differs|"+strings.Fields(phase)[0], "run %d (%s) of the shared tree in a fresh environment (preset %d) differs from the run of another fresh parse alone\nshared: %v\nalone:  %v\nsource:\n%s", i+1, phase, i, got, solo[i], c.Src)
			}
			if d := dump.Dump(tree, dump.Opts{Positions: true}); d != d0 {
				return h.Failf("C14|tree-modified|firstrun-sequential", "the parsed tree changed during run %d (%s)\nsource:\n%s\ndiff near: %s", i+1, phase, c.Src, firstDiff(d0, d))
			}
		}
		return nil
	}
	if c.ConcFirst {
		o.Class("firstrun_first_execution_is_concurrent")
		if f := concurrent("first execution of the tree"); f != nil {
			return f
		}
		return sequential("after the concurrent runs")
	}
	if f := sequential("first executions of the tree"); f != nil {
		return f
	}
	return concurrent("after two runs one after the other")
}
