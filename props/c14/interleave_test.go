package c14

// Sub-check "interleave": two environments take turns running small programs (each program parsed
// afresh); environment A's programs build closures over parameters and locals of finished calls,
// loops that change the map they walk, modules - and use them again in later turns. Whatever B runs
// in between, A's results must be the ones A gets when its programs run alone, and each whole
// sequence must give the same results when it is repeated ("two environments never observe each
// other's bindings", "the same source in equal fresh environments always produces the same value").

import (
	"context"
	"fmt"
	"strings"
	"time"

	"github.com/mattn/anko/env"
	"github.com/mattn/anko/vm"
	"pgregory.net/rapid"

	"verif/internal/ank"
	"verif/internal/h"
)

type Turn struct {
	Env int    `json:"env"` // 0 = A, 1 = B
	Src string `json:"src"`
}

type InterleaveCase struct {
	Turns []Turn `json:"turns"`
}

func nestForm(t *rapid.T, label, stmt string) string {
	switch rapid.IntRange(0, 5).Draw(t, label) {
	case 0:
		return stmt
	case 1:
		return "if true {\n" + stmt + "\n}"
	case 2:
		return "for it in [1] {\n" + stmt + "\n}"
	case 3:
		return "switch 1 {\ncase 1:\n" + stmt + "\n}"
	case 4:
		return "try {\nthrow 1\n} catch e {\n" + stmt + "\n}"
	default:
		return "if false {\n} else {\n" + stmt + "\n}"
	}
}

// setup programs define something in their environment and leave handles in top-level names;
// use programs exercise the handles. The texts are the same for both environments (so the two
// share nothing but the source), the constants differ.
func genSetup(t *rapid.T, tag int) (setup string, uses []string) {
	k := rapid.IntRange(1, 9).Draw(t, "k") + tag*100
	switch rapid.IntRange(0, 4).Draw(t, "kind") {
	case 0:
		// closure over a parameter and a local of a finished call, made inside a nested block
		ret := nestForm(t, "nest", "return func(d) {\nloc = loc + d\nreturn loc * 1000 + a\n}")
		setup = fmt.Sprintf("func mk(a) {\nvar loc = a * 2\n%s\nreturn nil\n}\nc1 = mk(%d)\nc2 = mk(%d)", ret, k, k+1)
		uses = []string{"c1(1)", "c2(2)", "[c1(0), c2(0)]", fmt.Sprintf("c3 = mk(%d)\n[c3(1), c1(0)]", k+2)}
	case 1:
		// closure stored through the enclosing scope
		st := nestForm(t, "nest", "hold = func() {\nn = n + 1\nreturn n * 1000 + a + b\n}")
		setup = fmt.Sprintf("hold = nil\nfunc mk(a, b) {\nvar n = a\n%s\nreturn hold\n}\nh1 = mk(%d, 1)\nh2 = mk(%d, 2)", st, k, k+5)
		uses = []string{"h1()", "h2()", "[h1(), h2(), h1()]"}
	case 2:
		// a loop that changes the map it walks: the number of rounds is that of the entries it started with
		n := rapid.IntRange(1, 6).Draw(t, "entries")
		var ents []string
		for i := 0; i < n; i++ {
			ents = append(ents, fmt.Sprintf("\"k%d\": %d", i, k+i))
		}
		body := rapid.SampledFrom([]string{"m[k + \"x\"] = v", "m[k + \"x\"] = v\nm[k + \"y\"] = v", "delete(m, k)\nm[k + \"z\"] = 1", "m[\"n\" + toString(rounds)] = rounds"}).Draw(t, "mapbody")
		setup = fmt.Sprintf("m = {%s}\nrounds = 0\nfor k, v in m {\nrounds = rounds + 1\n%s\n}\nlen0 = len(m)", strings.Join(ents, ", "), body)
		uses = []string{"[rounds, len0]", "r2 = 0\nfor k, v in m {\nr2 = r2 + 1\nm[k + \"w\"] = 1\n}\n[r2, len(m)]"}
	case 3:
		// a module and a function using it
		setup = fmt.Sprintf("module md {\nv = %d\nfunc bump(d) {\nv = v + d\nreturn v\n}\n}\nfunc twice(f, x) {\nreturn f(f(x))\n}", k)
		uses = []string{"md.bump(1)", "twice(md.bump, 2)", "[md.v, md.bump(0)]"}
	default:
		// recursion with locals and deferred calls
		setup = fmt.Sprintf("log = []\nfunc rec(n) {\nvar me = n * 10 + %d\ndefer func() {\nlog += [me]\n}()\nif n <= 0 {\nreturn me\n}\nx = rec(n - 1)\nreturn x + me\n}", k)
		uses = []string{"rec(2)", "[rec(1), log]", "rec(3)\nlog"}
	}
	return setup, uses
}

func genInterleave(t *rapid.T) InterleaveCase {
	var c InterleaveCase
	sa, ua := genSetup(t, 0)
	sb, ub := genSetup(t, 1)
	c.Turns = append(c.Turns, Turn{0, sa})
	if rapid.Bool().Draw(t, "b-early") {
		c.Turns = append(c.Turns, Turn{1, sb})
	}
	bStarted := len(c.Turns) == 2
	for n := rapid.IntRange(2, 6).Draw(t, "turns"); n > 0; n-- {
		if rapid.IntRange(0, 1).Draw(t, "who") == 0 {
			c.Turns = append(c.Turns, Turn{0, rapid.SampledFrom(ua).Draw(t, "useA")})
			continue
		}
		if !bStarted {
			c.Turns = append(c.Turns, Turn{1, sb})
			bStarted = true
			continue
		}
		c.Turns = append(c.Turns, Turn{1, rapid.SampledFrom(ub).Draw(t, "useB")})
	}
	c.Turns = append(c.Turns, Turn{0, rapid.SampledFrom(ua).Draw(t, "lastA")})
	return c
}

func newInterleaveEnv() *env.Env {
	e := env.NewEnv()
	e.Define("toString", func(v interface{}) string { return fmt.Sprint(v) })
	return e
}

// runTurns runs the turns (all of them, or those of one environment only) and renders each result.
func runTurns(turns []Turn, only int) []string {
	envs := []*env.Env{newInterleaveEnv(), newInterleaveEnv()}
	var out []string
	for _, tn := range turns {
		if only >= 0 && tn.Env != only {
			continue
		}
		ctx, cancel := context.WithTimeout(context.Background(), 5*time.Second)
		r := func() (s string) {
			defer func() {
				if p := recover(); p != nil {
					s = fmt.Sprintf("PANIC %v", p)
				}
			}()
			v, err := vm.ExecuteContext(ctx, envs[tn.Env], nil, tn.Src)
			if err != nil {
				return "error: " + err.Error()
			}
			return ank.Describe(v)
		}()
		cancel()
		out = append(out, fmt.Sprintf("env %c: %s", 'A'+tn.Env, r))
	}
	return out
}

func oracleInterleave(c InterleaveCase, o *h.Obs) *h.Fail {
	if len(c.Turns) == 0 {
		o.Excluded = "malformed_case"
		return nil
	}
	var texts []string
	nB := 0
	for _, tn := range c.Turns {
		if tn.Env != 0 && tn.Env != 1 {
			o.Excluded = "malformed_case"
			return nil
		}
		nB += tn.Env
		texts = append(texts, fmt.Sprintf("--- env %c\n%s", 'A'+tn.Env, tn.Src))
	}
	all := strings.Join(texts, "\n")
	o.Key = all
	o.NonTrivial = nB >= 1 && len(c.Turns)-nB >= 2
	mixed := runTurns(c.Turns, -1)
	again := runTurns(c.Turns, -1)
	if strings.Join(mixed, "\n") != strings.Join(again, "\n") {
		return h.Failf("C14|interleave|not-repeatable", "the same turns in equal fresh environments give other results when repeated\nfirst:  %q\nsecond: %q\nturns:\n%s", mixed, again, all)
	}
	for e := 0; e < 2; e++ {
		alone := runTurns(c.Turns, e)
		var mine []string
		for i, tn := range c.Turns {
			if tn.Env == e {
				mine = append(mine, mixed[i])
			}
		}
		if strings.Join(alone, "\n") != strings.Join(mine, "\n") {
			return h.Failf("C14|interleave|environment-sees-the-other", "environment %c gets other results when environment %c runs programs in between than when its programs run alone\ninterleaved: %q\nalone:       %q\nturns:\n%s", 'A'+e, 'B'-e, mine, alone, all)
		}
	}
	return nil
}
