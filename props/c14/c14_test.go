// C14 — runs are isolated and repeatable; executing a tree never changes it.
// Metamorphic oracle: a tree parsed ONCE and run repeatedly / concurrently in
// environments of alternating presets must behave exactly like a fresh parse of the
// same source run once in an equal fresh environment, and its structural dump
// (incl. CallExpr.Func and literal values) must never change.
package c14

import (
	"context"
	"fmt"
	"os"
	"reflect"
	"strings"
	"sync"
	"testing"
	"time"

	"github.com/mattn/anko/ast"
	"github.com/mattn/anko/env"
	_ "github.com/mattn/anko/packages"
	"github.com/mattn/anko/parser"
	"github.com/mattn/anko/vm"
	"pgregory.net/rapid"

	"verif/internal/dump"
	"verif/internal/h"
	"verif/internal/prog"
	"verif/internal/wild"
)

// ---------- environments ----------

type host struct {
	mu    sync.Mutex
	trace []string
	env   *env.Env
	// onProbe (if set) is called at every call of the probe p, i.e. from inside the statement being run
	onProbe func()
}

// newHost builds a fresh probe environment. Presets bind the SAME names to DIFFERENT Go
// functions: in preset 1 the probe adds 1000 to every integer it passes through, so a tree
// that cached anything belonging to one environment misbehaves in the next one.
func newHost(preset int) *host {
	hst := &host{}
	base := prog.NewHost() // g* helper functions
	hst.env = base.Env
	off := int64(preset) * 1000
	hst.env.Define("p", func(args ...interface{}) interface{} {
		if hst.onProbe != nil {
			hst.onProbe()
		}
		hst.mu.Lock()
		defer hst.mu.Unlock()
		if len(args) == 0 {
			hst.trace = append(hst.trace, "p")
			return nil
		}
		if len(args) > 1 {
			v := args[1]
			if i, ok := v.(int64); ok {
				v = i + off
			}
			hst.trace = append(hst.trace, "p "+prog.RenderGo(args[0])+" "+prog.RenderGo(v))
			return v
		}
		hst.trace = append(hst.trace, "p "+prog.RenderGo(args[0]))
		return args[0]
	})
	hst.env.Define("pfail", func(id interface{}) interface{} {
		hst.mu.Lock()
		hst.trace = append(hst.trace, fmt.Sprintf("pfail %s preset%d", prog.RenderGo(id), preset))
		hst.mu.Unlock()
		panic(fmt.Sprintf("pfail in preset %d", preset))
	})
	hst.env.Define("preset", int64(preset))
	return hst
}

type obs struct {
	value string
	err   string
	trace string
	binds string
	panic string
}

func (o obs) String() string {
	return fmt.Sprintf("value=%s err=%s bindings=%s trace=%s panic=%s", o.value, o.err, o.binds, o.trace, o.panic)
}

func sortedTrace(tr []string) string {
	// multi-entry map loops emit probes with negative ids in unspecified order
	out := append([]string{}, tr...)
	i := 0
	for i < len(out) {
		if !strings.HasPrefix(out[i], "p i:-") {
			i++
			continue
		}
		j := i
		for j < len(out) && strings.HasPrefix(out[j], "p i:-") {
			j++
		}
		sub := out[i:j]
		for a := 1; a < len(sub); a++ {
			for b := a; b > 0 && sub[b] < sub[b-1]; b-- {
				sub[b], sub[b-1] = sub[b-1], sub[b]
			}
		}
		i = j
	}
	return strings.Join(out, "; ")
}

func runTree(tree ast.Stmt, preset int, timeout time.Duration) (o obs) {
	return runTreeOpts(tree, preset, timeout, nil, nil)
}

// runTreeOpts is runTree with the *vm.Options value the host passes (nil: the interpreter makes one
// for the run) and a hook that may bind more host names before the run.
func runTreeOpts(tree ast.Stmt, preset int, timeout time.Duration, opts *vm.Options, prep func(*host)) (o obs) {
	hst := newHost(preset)
	if prep != nil {
		prep(hst)
	}
	ctx, cancel := context.WithTimeout(context.Background(), timeout)
	defer cancel()
	defer func() {
		if r := recover(); r != nil {
			o.panic = fmt.Sprint(r)
		}
	}()
	v, err := vm.RunContext(ctx, hst.env, opts, tree)
	o.value = prog.RenderGo(v)
	if err != nil {
		o.err = err.Error()
		o.value = ""
	}
	o.trace = sortedTrace(hst.trace)
	var b []string
	for _, nm := range []string{"a", "b", "c", "d"} {
		x, gerr := hst.env.Get(nm)
		if gerr != nil {
			b = append(b, nm+"=<unbound>")
		} else {
			b = append(b, nm+"="+prog.RenderGo(x))
		}
	}
	o.binds = strings.Join(b, ",")
	return o
}

// ---------- sub-check "reuse": model-grade programs ----------

type Case struct {
	Prog    []*prog.N `json:"prog"`
	Presets []int     `json:"presets"` // preset of run 1..k on the shared tree
	// ConcFirst: the concurrent runs of the shared tree come BEFORE any other execution of
	// this source in the process (process-wide caches are then filled concurrently)
	ConcFirst bool `json:"conc_first,omitempty"`
}

var profile = prog.Profile{Scopes: true, Control: true, Errors: true, IncDec: true, HostChan: true, MaxDepth: 4, MaxStmts: 4}

func gen(t *rapid.T) Case {
	p, _ := prog.Generate(t, profile)
	k := rapid.IntRange(3, 4).Draw(t, "runs")
	ps := make([]int, k)
	for i := range ps {
		ps[i] = (i + rapid.IntRange(0, 1).Draw(t, "preset")) % 2
	}
	ps[1] = 1 - ps[0] // at least two presets
	return Case{Prog: p, Presets: ps, ConcFirst: rapid.IntRange(0, 2).Draw(t, "concfirst") == 0}
}

func features(stmts []*prog.N) (calls, incs, deferOrAnon int) {
	prog.Walk(stmts, func(n *prog.N) {
		switch n.K {
		case "call", "acall", "p":
			calls++
		case "inc", "opas":
			incs++
		case "defer":
			deferOrAnon++
		}
		if n.K == "acall" {
			deferOrAnon++
		}
	})
	return
}

func oracle(c Case, o *h.Obs) *h.Fail {
	src := prog.Print(c.Prog)
	o.Key = src
	tree, err := parser.ParseSrc(src)
	if err != nil {
		o.Excluded = "generator produced unparseable text (harness problem): " + err.Error()
		return nil
	}
	calls, incs, da := features(c.Prog)
	o.NonTrivial = calls >= 1 && (incs >= 1 || da >= 1) && len(c.Presets) >= 3
	if incs > 0 {
		o.Class("has_incdec_or_opassign")
	}
	if da > 0 {
		o.Class("has_defer_or_anonymous_call")
	}
	d0 := dump.Dump(tree, dump.Opts{Positions: true})
	const to = 5 * time.Second
	const G = 8
	var early []obs
	if c.ConcFirst {
		o.Class("concurrent_runs_before_any_solo_run")
		early = make([]obs, G)
		var wg sync.WaitGroup
		for g := 0; g < G; g++ {
			wg.Add(1)
			go func(g int) {
				defer wg.Done()
				early[g] = runTree(tree, g%2, to)
			}(g)
		}
		wg.Wait()
		if d := dump.Dump(tree, dump.Opts{Positions: true}); d != d0 {
			return h.Failf("C14|tree-modified|concurrent", "the parsed tree changed during concurrent runs\nbefore: %s\nafter:  %s\nsource:\n%s", d0, d, src)
		}
	}
	solo := map[int]obs{}
	for _, ps := range []int{0, 1} {
		fresh, perr := parser.ParseSrc(src)
		if perr != nil {
			return h.Failf("C14|second-parse-fails", "source parses once but not twice: %v\n%s", perr, src)
		}
		solo[ps] = runTree(fresh, ps, to)
		// repeatability: the same source in an equal fresh environment again
		fresh2, _ := parser.ParseSrc(src)
		again := runTree(fresh2, ps, to)
		if again != solo[ps] {
			return h.Failf("C14|not-repeatable", "two fresh parses run in equal fresh environments (preset %d) differ\nfirst:  %v\nsecond: %v\nsource:\n%s", ps, solo[ps], again, src)
		}
		if solo[ps].err != "" {
			o.Class("ends_with_error")
		}
	}
	if solo[0] != solo[1] {
		o.Class("presets_give_different_results")
	}
	for g := range early {
		if early[g] != solo[g%2] {
			return h.Failf("C14|reused-tree-differs|concurrent", "concurrent run %d of the shared tree (preset %d, before any solo run) differs from the solo result\nconcurrent: %v\nsolo:       %v\nsource:\n%s", g, g%2, early[g], solo[g%2], src)
		}
	}
	// sequential reuse of the one tree
	for i, ps := range c.Presets {
		// the tree is also looked at DURING the first of these runs: the first calls of the probe p dump it
		during, probes := "", 0
		got := runTreeOpts(tree, ps, to, nil, func(hst *host) {
			if i > 0 {
				return
			}
			hst.onProbe = func() {
				if probes++; probes <= 4 && during == "" {
					if d := dump.Dump(tree, dump.Opts{Positions: true}); d != d0 {
						during = d
					}
				}
			}
		})
		if during != "" {
			return h.Failf("C14|tree-modified|during-a-run|reuse", "the parsed tree is not the tree that was parsed while run %d is inside a statement (dumped from the probe p)\ndiff near: %s\nsource:\n%s", i+1, firstDiff(d0, during), src)
		}
		if got != solo[ps] {
			return h.Failf("C14|reused-tree-differs|sequential", "run %d of the shared tree (preset %d) differs from a fresh parse run alone in an equal environment\nshared: %v\nfresh:  %v\nsource:\n%s", i+1, ps, got, solo[ps], src)
		}
		if d := dump.Dump(tree, dump.Opts{Positions: true}); d != d0 {
			return h.Failf("C14|tree-modified|sequential", "the parsed tree changed during run %d\nbefore: %s\nafter:  %s\nsource:\n%s", i+1, d0, d, src)
		}
	}
	// concurrent reuse on separate environments
	res := make([]obs, G)
	var wg sync.WaitGroup
	for g := 0; g < G; g++ {
		wg.Add(1)
		go func(g int) {
			defer wg.Done()
			res[g] = runTree(tree, g%2, to)
		}(g)
	}
	wg.Wait()
	for g := 0; g < G; g++ {
		if res[g] != solo[g%2] {
			return h.Failf("C14|reused-tree-differs|concurrent", "concurrent run %d of the shared tree (preset %d) differs from the solo result\nconcurrent: %v\nsolo:       %v\nsource:\n%s", g, g%2, res[g], solo[g%2], src)
		}
	}
	if d := dump.Dump(tree, dump.Opts{Positions: true}); d != d0 {
		return h.Failf("C14|tree-modified|concurrent", "the parsed tree changed during concurrent runs\nbefore: %s\nafter:  %s\nsource:\n%s", d0, d, src)
	}
	return nil
}

// ---------- sub-check "tree": full-grammar programs, tree immutability only ----------

type WildCase struct {
	Src string `json:"src"`
}

func genWild(t *rapid.T) WildCase {
	return WildCase{wild.Program(t, wild.Opts{Loops: true, Go: false, HugeInts: false, Prelude: true, MaxDepth: 3, MaxStmts: 3})}
}

func oracleWild(c WildCase, o *h.Obs) *h.Fail {
	o.Key = c.Src
	tree, err := parser.ParseSrc(c.Src)
	if err != nil {
		o.Excluded = "generator produced unparseable text (harness problem): " + err.Error()
		return nil
	}
	nodes := dump.Nodes(tree)
	o.NonTrivial = len(nodes) > 120 // more than the prelude alone
	d0 := dump.Dump(tree, dump.Opts{Positions: true})
	for i := 0; i < 2; i++ {
		r := runTree(tree, i, 40*time.Millisecond)
		if r.err != "" {
			o.Class("run_error")
		} else {
			o.Class("run_ok")
		}
		if d := dump.Dump(tree, dump.Opts{Positions: true}); d != d0 {
			return h.Failf("C14|tree-modified|wild", "the parsed tree changed during run %d\nsource:\n%s\ndiff near: %s", i+1, c.Src, firstDiff(d0, d))
		}
	}
	var wg sync.WaitGroup
	for g := 0; g < 4; g++ {
		wg.Add(1)
		go func(g int) {
			defer wg.Done()
			runTree(tree, g%2, 40*time.Millisecond)
		}(g)
	}
	wg.Wait()
	if d := dump.Dump(tree, dump.Opts{Positions: true}); d != d0 {
		return h.Failf("C14|tree-modified|wild-concurrent", "the parsed tree changed during concurrent runs\nsource:\n%s\ndiff near: %s", c.Src, firstDiff(d0, d))
	}
	return nil
}

func firstDiff(a, b string) string {
	i := 0
	for i < len(a) && i < len(b) && a[i] == b[i] {
		i++
	}
	lo := i - 80
	if lo < 0 {
		lo = 0
	}
	hi := i + 80
	return fmt.Sprintf("before …%s… after …%s…", a[lo:min(hi, len(a))], b[lo:min(hi, len(b))])
}

// ---------- sub-check "import": each importing environment gets its own copy ----------

type ImportCase struct {
	Pkg   string `json:"pkg"`
	Sym   string `json:"sym"`
	Other string `json:"other"`
	Form  int    `json:"form"`
	Twice bool   `json:"twice"`
}

var importSyms = map[string][]string{
	"strings": {"ToUpper", "ToLower", "TrimSpace", "Title"},
	"math":    {"Abs", "Floor", "Ceil", "Sqrt"},
	"strconv": {"Itoa", "Atoi", "FormatInt"},
}

func genImport(t *rapid.T) ImportCase {
	pkgs := []string{"strings", "math", "strconv"}
	pk := rapid.SampledFrom(pkgs).Draw(t, "pkg")
	syms := importSyms[pk]
	s := rapid.SampledFrom(syms).Draw(t, "sym")
	ot := rapid.SampledFrom(syms).Draw(t, "other")
	return ImportCase{Pkg: pk, Sym: s, Other: ot, Form: rapid.IntRange(0, 5).Draw(t, "form"), Twice: rapid.Bool().Draw(t, "twice")}
}

func oracleImport(c ImportCase, o *h.Obs) *h.Fail {
	o.Key = fmt.Sprintf("%+v", c)
	o.NonTrivial = c.Sym != c.Other
	orig := env.Packages[c.Pkg][c.Sym]
	var rebind string
	switch c.Form {
	case 0:
		rebind = fmt.Sprintf("s = import(%q)\ns.%s = s.%s\n", c.Pkg, c.Sym, c.Other)
	case 1:
		rebind = fmt.Sprintf("s = import(%q)\ns.%s = 42\n", c.Pkg, c.Sym)
	case 2:
		rebind = fmt.Sprintf("s = import(%q)\ns.%s = func(x) { return \"hijacked\" }\n", c.Pkg, c.Sym)
	case 3:
		rebind = fmt.Sprintf("var s = import(%q)\ns.%s = nil\n", c.Pkg, c.Sym)
	case 4:
		// assignment straight into the table import returned (an assignment to a variable would deep-copy it first)
		rebind = fmt.Sprintf("import(%q).%s = 42\n", c.Pkg, c.Sym)
	default:
		rebind = fmt.Sprintf("func hijack(m) { m.%s = m.%s }\nhijack(import(%q))\n", c.Sym, c.Other, c.Pkg)
	}
	a, b := env.NewEnv(), env.NewEnv()
	a.Define("leak", int64(123))
	if _, err := vm.Execute(a, nil, rebind); err != nil {
		o.Excluded = "rebinding failed: " + err.Error()
		return nil
	}
	if c.Twice {
		// a second import in the SAME environment is a new copy as well
		v, err := vm.Execute(a, nil, fmt.Sprintf("t = import(%q)\nt.%s", c.Pkg, c.Sym))
		if err != nil || !sameFunc(v, orig) {
			return h.Failf("C14|import-shares-table|same-env", "after rebinding %s.%s in one imported copy, a second import in the same environment sees %v (err %v)", c.Pkg, c.Sym, v, err)
		}
	}
	v, err := vm.Execute(b, nil, fmt.Sprintf("u = import(%q)\nu.%s", c.Pkg, c.Sym))
	if err != nil || !sameFunc(v, orig) {
		return h.Failf("C14|import-shares-table|other-env", "after environment A rebound %s.%s inside its imported copy, environment B's import sees %v (err %v)", c.Pkg, c.Sym, v, err)
	}
	if cur := env.Packages[c.Pkg][c.Sym]; cur.Pointer() != orig.Pointer() {
		return h.Failf("C14|package-table-modified", "env.Packages[%q][%q] was modified by a script", c.Pkg, c.Sym)
	}
	if _, ok := env.Packages[c.Pkg]["extra"]; ok {
		return h.Failf("C14|package-table-modified|added", "a script added a symbol to env.Packages[%q]", c.Pkg)
	}
	// nothing of environment A is reachable through B's copy of the package
	if v, err := vm.Execute(b, nil, fmt.Sprintf("w = import(%q)\nw.leak", c.Pkg)); err == nil {
		return h.Failf("C14|environments-share-bindings|through-imported-package", "environment B reads environment A's binding `leak` through its imported package value: got %v", v)
	}
	// bindings of A are invisible in B
	if _, err := b.Get("s"); err == nil {
		return h.Failf("C14|environments-share-bindings", "environment B sees the binding `s` made in environment A")
	}
	return nil
}

func sameFunc(v interface{}, orig reflect.Value) bool {
	rv := reflect.ValueOf(v)
	return rv.IsValid() && rv.Kind() == reflect.Func && rv.Pointer() == orig.Pointer()
}

// ---------- sub-check "residue": a run leaves nothing behind in the process ----------

// A short program takes values the interpreter produces from shared boxes (the nil / true /
// false literals, "no value" results, small computed integers, the literal 1 of ++) and
// writes through every handle a script can get on them (pointer, ++, op=, element, field,
// parameter). Afterwards a fixed canary program run in a FRESH environment must still
// evaluate to what it evaluated to when the process started.
type ResidueCase struct {
	Stmts []string `json:"stmts"`
}

var residueSources = []string{"nil", "true", "false", "0", "1", "-1", "4095", "\"\"", "\"a\"", "(1 + 2)", "(2 * 3)", "len(\"abc\")", "nothing()", "(nil ?? nil)", "[nil][0]", "{\"k\": nil}.k", "(true ? nil : 0)", "one()", "[1, 2][0]", "(1 == 1)", "!true"}
var residueWrites = []string{
	"rv = %s\nrp = &rv\n*rp = %s",
	"rv = %s\nrp = &rv\n*rp = %s\n*rp = %s",
	"rv = %s\nrq = [&rv]\n*rq[0] = %s",
	"rv = %s\nfunc(p) { *p = %s }(&rv)",
	"rv = %s\nrv++",
	"rv = %s\nrv += %s",
	"rl = [%s]\nrp = &rl[0]\n*rp = %s",
	"rs = make(struct{A interface})\nrs.A = %s\nrp = &rs.A\n*rp = %s",
	"rv = %s\nrp = &rv\nrpp = &rp\n**rpp = %s",
	"var rv = %s\nrp = &rv\n*rp = %s\nrv",
	// the value a failed lookup leaves behind (the error caught, the function falling off its end)
	"func rf() { try { undefinedname } catch { } }\nrv = rf()\nrp = &rv\n*rp = %s", "func rf() { try { undefinedname } catch { } }\nrl = [rf()]\nrp = &rl[0]\n*rp = %s\nrv = rf()\nrv += %s",
	// values made by make: a struct with a map field is written into; a map is indexed by a key that is held
	// as a list element, first an unhashable one (the error is caught), then others
	"rs = make(struct{M map[string]int64, N int64})\nrs.M[\"k\"] = 5\nrs.N = 6\nrx = %s",
	"rs = make(struct{I struct{M map[string]int64}})\nrs.I.M.z = 1\nrx = %s",
	"rl = [[1], {\"a\": 1}, %s]\nrm = {}\ntry { rm[rl[0]] = 1 } catch e { }\ntry { rm[rl[1]] = 1 } catch e { }\ntry { rm[rl[2]] = 1 } catch e { }",
	"rl = [[1]]\nrm = {}\ntry { delete(rm, rl[0]) } catch e { }\ntry { rx = {rl[0]: %s} } catch e { }",
}
var residueValues = []string{"5", "\"x\"", "true", "nil", "[1]", "7.5", "-1"}

// Error values are values the interpreter hands out as well: the catch variable of try is bound to the
// error itself. The idioms below raise an error inside try in every way a script can (a failed lookup,
// index, member access or call, throw, and break / continue / return where try catches them: directly in
// the try block, at top level, in a function, in a loop) and write through every handle the script gets
// on the caught value (member stores, op=, a pointer to a member, a parameter, a list element, a copy
// kept after the try, a store of another caught error through the dereferenced value). {R} = what
// raises, {V} = the value stored. Each idiom is wrapped in a try of its own, so that a refused store
// (which is what most of them are) does not keep the following idioms from running.
var residueRaises = []string{"break", "continue", "return", "return 1", "throw(\"t\")", "throw(nil)", "undefinedname", "[1][3]", "nil.x", "one(1, 2)", "nothing()()", "1 / 0", "*1", "rundef.f()", "make(NoSuchType)"}
var residueErrValues = []string{"\"x\"", "\"\"", "\"unexpected break statement\"", "\"changed by an earlier run\"", "5", "nil", "[1]"}
var residueErrWrites = []string{
	"try { {R} } catch e { e.Message = {V} }",
	"try { {R} } catch e { e.Message += \"+\" }",
	"try { {R} } catch e { e.Pos.Line = 77\ne.Pos.Column = 5 }",
	"try { {R} } catch e { e.Pos.Line++\ne.Pos.Line += 100 }",
	"try { {R} } catch e { rp = &e.Message\n*rp = {V} }",
	"try { {R} } catch e { rp = &e.Pos\nrp.Line = 9 }",
	"try { {R} } catch e { func(x) { x.Message = {V} }(e) }",
	"try { {R} } catch e { rl = [e]\nrl[0].Message = {V} }",
	"rm = {}\ntry { {R} } catch e { rm.e = e }\nrm.e.Message = {V}",
	"re = nil\ntry { {R} } catch e { re = e }\nre.Message = {V}\nre.Pos.Line = 3",
	"ro = nil\ntry { throw(\"other\") } catch e2 { ro = e2 }\ntry { {R} } catch e { *e = *ro }",
	"ro = nil\ntry { throw(\"other\") } catch e2 { ro = e2 }\ntry { {R} } catch e { e.Pos = ro.Pos\ne.Message = ro.Message }",
	"func rf() { try { {R} } catch e { e.Message = {V} }\nreturn 0 }\nrf()\nrf()",
	"func rf() { for { try { {R} } catch e { e.Message = {V}\ne.Pos.Line = 8 }\nreturn 0 } }\nrf()",
	"for ri = 0; ri < 2; ri++ { try { {R} } catch e { e.Message = {V} } }",
	"for ri in [1, 2] { try { {R} } catch e { e.Message += {V} } }",
	"rz = 0\ntry { {R} } catch e { e.Message = {V} } finally { rz = 1 }",
	"try { func() { try { {R} } catch e { e.Message = {V}\nthrow(e) } }() } catch e3 { e3.Message = {V} }",
}

func genResidueErr(t *rapid.T) string {
	w := rapid.SampledFrom(residueErrWrites).Draw(t, "errwrite")
	for strings.Contains(w, "{R}") {
		w = strings.Replace(w, "{R}", rapid.SampledFrom(residueRaises).Draw(t, "raise"), 1)
	}
	for strings.Contains(w, "{V}") {
		w = strings.Replace(w, "{V}", rapid.SampledFrom(residueErrValues).Draw(t, "errval"), 1)
	}
	return "try {\n" + w + "\n} catch { }"
}

func genResidue(t *rapid.T) ResidueCase {
	var c ResidueCase
	n := rapid.IntRange(1, 3).Draw(t, "n")
	for i := 0; i < n; i++ {
		if rapid.IntRange(0, 3).Draw(t, "family") == 0 {
			c.Stmts = append(c.Stmts, genResidueErr(t))
			continue
		}
		w := rapid.SampledFrom(residueWrites).Draw(t, "write")
		var args []interface{}
		first := true
		for j := 0; j+1 < len(w); j++ {
			if w[j] == '%' && w[j+1] == 's' {
				if first {
					args = append(args, rapid.SampledFrom(residueSources).Draw(t, "src"))
					first = false
				} else {
					args = append(args, rapid.SampledFrom(residueValues).Draw(t, "val"))
				}
			}
		}
		c.Stmts = append(c.Stmts, fmt.Sprintf(w, args...))
	}
	return c
}

const residueCanary = `func nothing() { }
func one() { return 1 }
cx = 0
cx++
func lost() { try { undefinedname } catch { } }
cs = make(struct{M map[string]int64, N int64})
cl = ["s", 7]
cm = {}
cm[cl[0]] = 1
cm[cl[1]] = 2
[nil, true, false, 0, 1, -1, 2 + 2, 2 * 3, 4095 + 0, "" + "", "a" + "b", nothing(), nil ?? 3, [nil][0], {"k": nil}.k, len("abc"), one(), cx, 1 == 1, !true, (true ? nil : 0), len(cs.M), cs.N, len(cm), cm.s, {cl[0]: 3}.s, lost()]`

var residueBaseline string

// residueErrCanaries are run one by one, each in a fresh environment: what the errors a script can raise
// and catch look like to a later run, and what a run that ends with one of them reports to the host.
var residueErrCanaries = []string{
	"break", "continue", "func f() { break }\nf()", "func f() { continue }\nf()", "throw(\"t\")",
	`r = []
try { break } catch e { r += [e.Error()] }
try { continue } catch e { r += [e.Error()] }
try { return 1 } catch e { r += [e.Error()] }
func f() { try { return 1 } catch e { return e.Error() }
return 2 }
r += [f()]
for i = 0; i < 1; i++ { try { break } catch e { r += [e.Error()] } }
try { undefinedname } catch e { r += [e.Message, e.Pos.Line, e.Pos.Column, e.Error()] }
try { throw("t") } catch e { r += [e.Message, e.Pos.Line, e.Pos.Column, e.Error()] }
try { [1][3] } catch e { r += [e.Message, e.Pos.Line, e.Pos.Column] }
try { try { break } catch e { r += [e.Message] } } catch e2 { r += [e2.Error()] }
try { try { continue } catch e { r += [e.Pos.Line] } } catch e2 { r += [e2.Error()] }
try { func() { try { return } catch e { r += [e.Message, e.Pos.Line] } }() } catch e2 { r += [e2.Error()] }
r`,
}

// canarySep separates the result of the value canary from the results of the error canaries
const canarySep = " || errors:"

func runCanary() string { return runCanaryValues() + canarySep + runCanaryErrors() }

func runCanaryValues() string {
	v, err := vm.Execute(env.NewEnv(), nil, residueCanary)
	if err != nil {
		return "error: " + err.Error()
	}
	return prog.RenderGo(v)
}

// residueErrorsChanged: an earlier case changed what the error canaries report (the process stays changed)
var residueErrorsChanged bool

func runCanaryErrors() string {
	var out string
	for _, src := range residueErrCanaries {
		v, err := vm.Execute(env.NewEnv(), nil, src)
		pos := ""
		if ve, ok := err.(*vm.Error); ok {
			pos = fmt.Sprintf("@%d:%d", ve.Pos.Line, ve.Pos.Column)
		}
		if err != nil {
			out += fmt.Sprintf(" | error: %s%s", err.Error(), pos)
		} else {
			out += " | " + prog.RenderGo(v)
		}
	}
	return out
}

// residueCulprit is the first program after which the canary changed (diagnostic only: once the
// process-wide state is changed every later case fails before it runs).
var residueCulprit string

func oracleResidue(c ResidueCase, o *h.Obs) *h.Fail {
	if residueBaseline == "" {
		residueBaseline = runCanary()
	}
	src := "func nothing() { }\nfunc one() { return 1 }\n" + strings.Join(c.Stmts, "\n")
	o.Key = src
	o.NonTrivial = true
	if strings.Contains(src, "e.Message") || strings.Contains(src, "e.Pos") || strings.Contains(src, "*e = ") {
		o.Class("residue_writes_through_a_caught_error")
		for _, cf := range []string{"break", "continue", "return"} {
			if strings.Contains(src, "try { "+cf+" }") || strings.Contains(src, "try { "+cf+" 1 }") {
				o.Class("residue_caught_error_is_a_stray_" + cf)
			}
		}
	}
	// (the error canaries are run after the case only: nothing runs between two cases)
	if cvv := runCanaryValues(); cvv != strings.SplitN(residueBaseline, canarySep, 2)[0] || residueErrorsChanged {
		cv := cvv + canarySep + runCanaryErrors()
		return h.Failf("C14|residue|canary-already-changed", "the canary program no longer evaluates to its start-of-process result BEFORE this case ran (an earlier run left residue)\nbaseline %s\nnow      %s\nfirst seen changed after the program:\n%s", residueBaseline, cv, residueCulprit)
	}
	func() {
		defer func() { recover() }()
		ctx, cancel := context.WithTimeout(context.Background(), 2*time.Second)
		defer cancel()
		vm.ExecuteContext(ctx, env.NewEnv(), nil, src)
	}()
	if cv := runCanary(); cv != residueBaseline {
		if residueCulprit == "" {
			residueCulprit = src
		}
		if strings.SplitN(cv, canarySep, 2)[0] == strings.SplitN(residueBaseline, canarySep, 2)[0] {
			// the values are as they were: what changed is an error that later runs raise, catch or end with
			residueErrorsChanged = true
			f := h.Failf("C14|residue|a-run-changed-an-error-later-runs-receive", "after this program ran in its own environment, fixed programs run in FRESH environments catch or end with a different error: an error value is shared by all executions and a script can write to it\nprogram:\n%s\ncanary programs: %q\nbefore %s\nafter  %s", src, residueErrCanaries, strings.SplitN(residueBaseline, canarySep, 2)[1], strings.SplitN(cv, canarySep, 2)[1])
			f.NoShrink = true // the process stays changed: a re-execution of any candidate fails before it starts
			return f
		}
		return h.Failf("C14|residue|a-run-changed-what-fresh-environments-compute", "after this program ran in its own environment, a fixed canary program run in a FRESH environment evaluates differently: executions share hidden mutable state\nprogram:\n%s\ncanary:\n%s\nbefore %s\nafter  %s", src, residueCanary, residueBaseline, cv)
	}
	return nil
}


// ---------- sub-check "types": type names resolved per environment, environments derived from one template ----------

// TypeStep is one run: program Prog[P] (each program is parsed ONCE for the whole case) in an
// environment derived from the case's template environment.
type TypeStep struct {
	P      int    `json:"p"`
	Derive string `json:"derive"` // copy | deepcopy | child | copy-of-child
	T      string `json:"t"`      // what the name T is bound to in this run's environment: int64 | string | float64 | bool | "" (unbound)
}

type TypesCase struct {
	Progs []string   `json:"progs"`
	Steps []TypeStep `json:"steps"`
}

// programs over three type names: T (bound per run, to different types), U (bound in the template),
// W / W2 (defined by some programs themselves with make(type ...))
var typeProgs = []string{
	"make(T)", "x = make(T)\n[x]", "s = make(struct{A T, B int64})\ns.A", "s = make(struct{A T})\ns", "v = make([]T, 2)\nv[0]", "m = make(map[string]T)\nm[\"k\"]",
	"new(T)", "*new(T)", "make(U)", "make(struct{A U, B T})", "make([]U, 1)", "func f() { return make(T) }\nf()", "func f() { return make(struct{A T}) }\n[f(), f()]",
	"for i = 0; i < 2; i++ { x = make(struct{A T}) }\nx.A", "make(type W, make(T))\nmake(W)", "make(type W, 1)\nmake(W)", "make(W)", "make(struct{A W})", "make(type W2, \"s\")\nmake(type W, 2.5)\n[make(W), make(W2)]",
	"gv = gv + 1\ngv", "tv = tv + 1\n[tv, gv]", "gv = gv + 1\nmake(T)", "m = {}\nr = len(m)\nm.k = 1\nr", "s = make(struct{M map[string]T})\nr = len(s.M)\ns.M.k = make(T)\nr",
	"make(W2)", "make(type U, \"shadow\")\nmake(U)", "make(type T, 2.5)\nmake(T)", "make([]W, 1)", "make(chan T, 1)", "[]T{}", "map[string]T{}", "make(map[T]U)",
}

var typeKinds = map[string]interface{}{"int64": int64(0), "string": "", "float64": float64(0), "bool": false}

func genTypes(t *rapid.T) TypesCase {
	var c TypesCase
	n := rapid.IntRange(1, 3).Draw(t, "nprogs")
	for i := 0; i < n; i++ {
		c.Progs = append(c.Progs, rapid.SampledFrom(typeProgs).Draw(t, "prog"))
	}
	k := rapid.IntRange(2, 6).Draw(t, "nsteps")
	for i := 0; i < k; i++ {
		c.Steps = append(c.Steps, TypeStep{
			P:      rapid.IntRange(0, n-1).Draw(t, "p"),
			Derive: rapid.SampledFrom([]string{"copy", "copy", "deepcopy", "child", "copy-of-child"}).Draw(t, "derive"),
			T:      rapid.SampledFrom([]string{"int64", "string", "float64", "bool", ""}).Draw(t, "T"),
		})
	}
	return c
}

// typesTemplate is the leaf of a chain three scopes deep: globals (gv) -> session (U, tv) -> work scope.
func typesTemplate() *env.Env {
	g := env.NewEnv()
	g.Define("gv", int64(100))
	e := g.NewEnv()
	e.DefineType("U", int64(0))
	e.Define("tv", int64(7))
	leaf := e.NewEnv()
	// the work scope has a value and a type of its own (its tables exist)
	leaf.DefineType("UL", "")
	leaf.Define("lv", int64(1))
	return leaf
}

// writers are the type programs that assign to a variable of an outer scope of the template: they are
// only run in deep copies of it (a Copy or a child shares the outer scopes by design)
func isWriter(src string) bool { return strings.Contains(src, "gv =") || strings.Contains(src, "tv =") }

func deriveEnv(tmpl *env.Env, st TypeStep) *env.Env {
	var e *env.Env
	switch st.Derive {
	case "copy":
		e = tmpl.Copy()
	case "deepcopy":
		e = tmpl.DeepCopy()
	case "child":
		e = tmpl.NewEnv()
	default:
		e = tmpl.NewEnv().Copy()
	}
	if st.T != "" {
		e.DefineType("T", typeKinds[st.T])
	}
	return e
}

func runTypes(e *env.Env, tree ast.Stmt) (out string) {
	defer func() {
		if r := recover(); r != nil {
			out = "panic: " + fmt.Sprint(r)
		}
	}()
	ctx, cancel := context.WithTimeout(context.Background(), 5*time.Second)
	defer cancel()
	v, err := vm.RunContext(ctx, e, nil, tree)
	if err != nil {
		return "error: " + err.Error()
	}
	return describeTyped(reflect.ValueOf(v), 0)
}

// describeTyped renders a result with its Go types (struct field types included), without addresses.
func describeTyped(rv reflect.Value, depth int) string {
	if !rv.IsValid() {
		return "nil"
	}
	if depth > 4 {
		return "..."
	}
	switch rv.Kind() {
	case reflect.Interface, reflect.Ptr:
		if rv.IsNil() {
			return rv.Type().String() + "(nil)"
		}
		return rv.Type().String() + "->" + describeTyped(rv.Elem(), depth+1)
	case reflect.Slice, reflect.Array:
		parts := []string{}
		for i := 0; i < rv.Len(); i++ {
			parts = append(parts, describeTyped(rv.Index(i), depth+1))
		}
		return rv.Type().String() + "[" + strings.Join(parts, " ") + "]"
	case reflect.Struct:
		parts := []string{}
		for i := 0; i < rv.NumField(); i++ {
			parts = append(parts, rv.Type().Field(i).Name+":"+describeTyped(rv.Field(i), depth+1))
		}
		return rv.Type().String() + "{" + strings.Join(parts, " ") + "}"
	case reflect.Map:
		return fmt.Sprintf("%s(len %d)", rv.Type(), rv.Len())
	case reflect.Chan, reflect.Func:
		return rv.Type().String()
	}
	return fmt.Sprintf("%s(%v)", rv.Type(), rv)
}

func oracleTypes(c TypesCase, o *h.Obs) *h.Fail {
	o.Key = fmt.Sprintf("%q|%v", c.Progs, c.Steps)
	shared := make([]ast.Stmt, len(c.Progs))
	for i, src := range c.Progs {
		t, err := parser.ParseSrc(src)
		if err != nil {
			o.Excluded = "harness: type program does not parse: " + err.Error()
			return nil
		}
		shared[i] = t
	}
	before := make([]string, len(shared))
	for i, t := range shared {
		before[i] = dump.Dump(t, dump.Opts{Positions: true})
	}
	tmpl := typesTemplate()
	distinctT := map[string]bool{}
	for i, st := range c.Steps {
		if st.P >= len(shared) {
			o.Excluded = "harness: step refers to a missing program"
			return nil
		}
		distinctT[st.T] = true
		if isWriter(c.Progs[st.P]) {
			st.Derive = "deepcopy"
		}
		got := runTypes(deriveEnv(tmpl, st), shared[st.P])
		// reference: a fresh parse of the same source in an environment derived the same way
		// from a FRESH template (no history at all)
		fresh, _ := parser.ParseSrc(c.Progs[st.P])
		want := runTypes(deriveEnv(typesTemplate(), st), fresh)
		o.Class("derive_" + st.Derive)
		if strings.HasPrefix(want, "error") {
			o.Class("reference_run_fails")
		}
		if got != want {
			return h.Failf("C14|types|run-differs-from-fresh-parse-in-fresh-environment", "step %d of %v\nprogram (parsed once, shared by the steps that use it):\n%s\nenvironment: %s of the template, T bound to %q\nshared tree in derived environment: %s\nfresh parse in an equally derived fresh environment: %s\nall programs: %q", i, c.Steps, c.Progs[st.P], st.Derive, st.T, got, want, c.Progs)
		}
	}
	for i, t := range shared {
		if after := dump.Dump(t, dump.Opts{Positions: true}); after != before[i] {
			return h.Failf("C14|types|tree-changed", "program:\n%s\nthe parsed tree changed while it was executed", c.Progs[i])
		}
	}
	if got := runTypes(tmpl, mustParse("[gv, tv]")); got != "[]interface {}[int64(100), int64(7)]" && !strings.HasPrefix(got, "[]interface {}{int64(100), int64(7)") {
		if strings.Contains(got, "101") || strings.Contains(got, "102") || strings.Contains(got, "int64(8)") || strings.Contains(got, "int64(9)") {
			return h.Failf("C14|types|template-changed", "after runs in DEEP COPIES of the template environment that assign to variables of its outer scopes, the template itself reads [gv, tv] = %s (want 100, 7): a deep copy shares scopes with its original; steps %v programs %q", got, c.Steps, c.Progs)
		}
	}
	if got := runTypes(tmpl, mustParse("make(U)")); got != "int64(0)" {
		return h.Failf("C14|types|template-changed", "after the runs in derived environments, make(U) in the template environment yields %s (want int64(0)); steps %v programs %q", got, c.Steps, c.Progs)
	}
	if got := runTypes(tmpl, mustParse("make(W)")); !strings.HasPrefix(got, "error") {
		return h.Failf("C14|types|template-changed", "after the runs in derived environments, the template environment knows the type W defined by a run in a copy: make(W) yields %s; steps %v programs %q", got, c.Steps, c.Progs)
	}
	o.NonTrivial = len(c.Steps) >= 2 && len(distinctT) >= 2
	return nil
}

func mustParse(src string) ast.Stmt {
	t, err := parser.ParseSrc(src)
	if err != nil {
		panic(err)
	}
	return t
}

// only: development aid - C14_ONLY=during,coreenv runs the named sub-checks only (unset: all)
func only(name string) bool {
	v := os.Getenv("C14_ONLY")
	if v == "" {
		return true
	}
	for _, n := range strings.Split(v, ",") {
		if n == name {
			return true
		}
	}
	return false
}

func TestC14(t *testing.T) {
	c := h.New(t, "C14")
	defer c.Finish()
	c.Rule("reuse: goroutine-free programs from the union of the scopes/control/errors profiles plus x++ / x op= e, anonymous and deferred calls, parsed once and run 3-4 times in environments of alternating presets (same names bound to different Go functions), then from 8 goroutines at once; compared with fresh parses run alone in equal fresh environments (value, error text, probe trace, final top-level bindings) and with the tree's structural dump before the first run; non-trivial = >=1 call and (>=1 ++/op= or deferred/anonymous call), >=3 runs in 2 presets. tree: full-grammar programs (ill-typed, mostly failing) run twice and from 4 goroutines, dump must not change. import: rebinding symbols inside an imported package table in one environment must not be visible to another import or in env.Packages. distinct by source text. Built with -race")
	if only("reuse") {
		h.Run(c, "reuse", c.N(800, 6000), gen, oracle)
	}
	if only("tree") {
		h.Run(c, "tree", c.N(800, 6000), genWild, oracleWild)
	}
	if only("import") {
		h.Run(c, "import", c.N(400, 4000), genImport, oracleImport)
	}
	c.Rule("residue: 1-3 idioms that take a value the interpreter hands out from a shared box (nil/true/false literals, 'no value' results, small computed integers, the 1 of ++) and write through a pointer / ++ / op= / element / field / parameter; a fixed canary program in a fresh environment must evaluate as at process start; every case non-trivial")
	if only("residue") {
		h.Run(c, "residue", c.N(3000, 20000), genResidue, oracleResidue)
	}
	c.Rule("types: 1-3 programs over the type names T (bound per run to int64/string/float64/bool or unbound), U (bound in a template environment) and W (defined by some programs with make(type ...)), each parsed once; 2-6 runs, each in an environment derived from the one template by Copy / DeepCopy / NewEnv / Copy of a child; every run must equal a fresh parse in an environment derived the same way from a fresh template; the template must not learn a type from a run; non-trivial = >= 2 runs with >= 2 different bindings of T")
	if only("types") {
		h.Run(c, "types", c.N(3000, 20000), genTypes, oracleTypes)
	}
	c.Rule("interleave: two environments take turns running small programs (closures over parameters and locals of finished calls made in nested blocks, closures stored through the enclosing scope, loops that change the map they walk, modules, recursion with deferred calls; later turns use what earlier ones left); every environment must get the results it gets when its programs run alone, and the whole sequence the same results when repeated; non-trivial = both environments ran and A ran at least twice")
	if only("interleave") {
		h.Run(c, "interleave", c.N(3000, 20000), genInterleave, oracleInterleave)
	}
	c.Rule("importtypes: an environment 1-3 scopes below a base imports one of the bundled packages that has a type table (four spellings: assigned, bare, inside a function, twice); afterwards a type name of that package must be unknown (Env.Type and `make(T)` both fail) in a sibling under the same base, in the base, in a grandchild of the base and in an unrelated root; non-trivial = the import ran")
	if only("importtypes") {
		h.Run(c, "importtypes", c.N(1500, 15000), genImportTypes, oracleImportTypes)
	}
	c.Rule("objects: 1-3 programs that import a bundled package, make an object with a constructor of its table (compiled regular expression - four constructors -, byte buffer, string reader, replacer, big integer, parsed URL, error value) from arguments that carry a number drawn from 0..2^24 (the programs of a case share them), observe it through 1-5 method calls of which some change the object (Longest, WriteString, ReadByte, Reset, Add, SetInt64, field stores ...), and return the list of observations; 4-8 executions, each in a fresh environment, then optionally every program from 2-3 goroutines at once; every execution of one source must give the result its first execution gave; non-trivial = a program ran at least twice and some program changes its object and observes it afterwards")
	if only("objects") {
		h.Run(c, "objects", c.N(1200, 10000), genObjects, oracleObjects)
	}
	c.Rule("options: one program parsed once and ONE *vm.Options value (Debug drawn) passed to every run: 2 .. some hundred runs one after the other, then 2-16 goroutines at once, every run in a fresh environment (alternating presets); every run must equal a fresh parse run in an equal fresh environment with an Options value of its own. Programs: a loop of 1-150 calls that fail (twelve forms: a Go function that panics, a callback that fails inside a Go function, failed lookup / index / member / conversion / arity, throw) each caught and followed by a successful call, optionally ending with an uncaught failure; or recursion 1-2500 deep (plain, closure variable, mutual, with deferred calls, failing at the bottom, with a caught failure at every level); the host function meet() at the deepest point makes the concurrent runs wait for each other. Every second case is large (12 000-26 000 failing calls made with the one Options value, or recursion 1500-2500 deep in each of 8-16 goroutines); non-trivial = at least 3 runs with the one Options value")
	if only("options") {
		h.Run(c, "options", c.N(20, 360), genOptions, oracleOptions)
	}
	c.Rule("firstrun: programs of 1-4 snippets, every snippet a small well-typed piece of anko over written-out operands (x in [written-out list] in six spellings, list / map / typed / nested / string literals indexed and sliced, arithmetic, comparison, logic, ternary, ??, ++ / op=, switch over literals, the five loop forms, functions / closures / variadic / deferred / anonymous calls, make / new / pointers / channels / struct types, try / throw, module, var, multi-assignment, import), evaluated once, in a loop, or in a function called twice; written-out lists have 1-8 elements, one in eight 200-3000 (the item searched for near the start, the middle, the end, or absent). The tree is parsed once; its FIRST execution happens from 2-16 goroutines released at the same moment, each in a fresh environment (three cases in four; else two runs one after the other first), then the other phase; every run must equal the run of another fresh parse alone, and the dump of the tree must not change; non-trivial = the program ran to its end and >= 2 goroutines")
	if only("firstrun") {
		h.Run(c, "firstrun", c.N(180, 4000), genFirstRun, oracleFirstRun)
	}
	c.Rule("during: programs of 1-3 statements that call the host function gate() from INSIDE a statement: compound assignments and ++ / -- whose target has a computed index (sixteen index spellings, seven key spellings; list, nested list, member-then-index and map targets; six operators; at top level, in a loop, in a function, in a deferred call, in a recursive function whose right side recurses, in a loop of 50-300 quick statements), one case in ten another kind of statement or expression with gate() inside (thirty forms). The environment of every run binds base / idx() / key() to a run parameter 0..3 of its own, so the indexes differ from run to run; gate() dumps the tree (compared with the dump before the first run) and, in the concurrent phase, holds the run inside the statement (nested: run g waits until run g+1 has run from start to end; barrier: all runs meet; free). Fresh parses run alone (dumped from inside too), the shared tree one run after the other, then 2-5 runs in progress at once; every run must equal the run alone with its parameter; non-trivial = >= 2 different run parameters and gate() was called")
	if only("during") {
		h.Run(c, "during", c.N(250, 4000), genDuring, oracleDuring)
	}
	c.Rule("coreenv: 2-3 environments, each core.Import(env.NewEnv()) (one in five runs in a child scope of it), plus environment 0 = the environment core was imported to first in this process (only the host binds names there); 1-3 programs parsed once (binders: assignment / var / func / module / load of a small file written by the test; questions: defined(name) in eight spellings, also from inside a loaded file, reading the name, calling what a loaded file defined), 4-9 steps (run a program in an environment, or the host defines a name); every environment must get the results it gets when only its steps run (fresh parses, fresh prepared environment), the history the same results when repeated, the host must find in every environment the names it finds after that environment's steps alone and in environment 0 only what it defined there; all environments asking at the same moment get what they get one after the other; non-trivial = >= 2 environments ran and a program uses defined or load")
	defer coreLibCleanup()
	if only("coreenv") {
		h.Run(c, "coreenv", c.N(400, 5000), genCoreEnv, oracleCoreEnv)
	}
}
