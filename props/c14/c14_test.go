// C14 — runs are isolated and repeatable; executing a tree never changes it.
// Metamorphic oracle: a tree parsed ONCE and run repeatedly / concurrently in
// environments of alternating presets must behave exactly like a fresh parse of the
// same source run once in an equal fresh environment, and its structural dump
// (incl. CallExpr.Func and literal values) must never change.
package c14

import (
	"context"
	"fmt"
	"reflect"
	"strings"
	"sync"
	"testing"
	"time"

	"github.com/mattn/anko/ast"
	"github.com/mattn/anko/env"
	_ "github.com/mattn/anko/packages"
	"github.com/mattn/anko/parser"
	"github.com/mattn/anko/vm"
	"pgregory.net/rapid"

	"verif/internal/dump"
	"verif/internal/h"
	"verif/internal/prog"
	"verif/internal/wild"
)

// ---------- environments ----------

type host struct {
	mu    sync.Mutex
	trace []string
	env   *env.Env
}

// newHost builds a fresh probe environment. Presets bind the SAME names to DIFFERENT Go
// functions: in preset 1 the probe adds 1000 to every integer it passes through, so a tree
// that cached anything belonging to one environment misbehaves in the next one.
func newHost(preset int) *host {
	hst := &host{}
	base := prog.NewHost() // g* helper functions
	hst.env = base.Env
	off := int64(preset) * 1000
	hst.env.Define("p", func(args ...interface{}) interface{} {
		hst.mu.Lock()
		defer hst.mu.Unlock()
		if len(args) == 0 {
			hst.trace = append(hst.trace, "p")
			return nil
		}
		if len(args) > 1 {
			v := args[1]
			if i, ok := v.(int64); ok {
				v = i + off
			}
			hst.trace = append(hst.trace, "p "+prog.RenderGo(args[0])+" "+prog.RenderGo(v))
			return v
		}
		hst.trace = append(hst.trace, "p "+prog.RenderGo(args[0]))
		return args[0]
	})
	hst.env.Define("pfail", func(id interface{}) interface{} {
		hst.mu.Lock()
		hst.trace = append(hst.trace, fmt.Sprintf("pfail %s preset%d", prog.RenderGo(id), preset))
		hst.mu.Unlock()
		panic(fmt.Sprintf("pfail in preset %d", preset))
	})
	hst.env.Define("preset", int64(preset))
	return hst
}

type obs struct {
	value string
	err   string
	trace string
	binds string
	panic string
}

func (o obs) String() string {
	return fmt.Sprintf("value=%s err=%s bindings=%s trace=%s panic=%s", o.value, o.err, o.binds, o.trace, o.panic)
}

func sortedTrace(tr []string) string {
	// multi-entry map loops emit probes with negative ids in unspecified order
	out := append([]string{}, tr...)
	i := 0
	for i < len(out) {
		if !strings.HasPrefix(out[i], "p i:-") {
			i++
			continue
		}
		j := i
		for j < len(out) && strings.HasPrefix(out[j], "p i:-") {
			j++
		}
		sub := out[i:j]
		for a := 1; a < len(sub); a++ {
			for b := a; b > 0 && sub[b] < sub[b-1]; b-- {
				sub[b], sub[b-1] = sub[b-1], sub[b]
			}
		}
		i = j
	}
	return strings.Join(out, "; ")
}

func runTree(tree ast.Stmt, preset int, timeout time.Duration) (o obs) {
	hst := newHost(preset)
	ctx, cancel := context.WithTimeout(context.Background(), timeout)
	defer cancel()
	defer func() {
		if r := recover(); r != nil {
			o.panic = fmt.Sprint(r)
		}
	}()
	v, err := vm.RunContext(ctx, hst.env, nil, tree)
	o.value = prog.RenderGo(v)
	if err != nil {
		o.err = err.Error()
		o.value = ""
	}
	o.trace = sortedTrace(hst.trace)
	var b []string
	for _, nm := range []string{"a", "b", "c", "d"} {
		x, gerr := hst.env.Get(nm)
		if gerr != nil {
			b = append(b, nm+"=<unbound>")
		} else {
			b = append(b, nm+"="+prog.RenderGo(x))
		}
	}
	o.binds = strings.Join(b, ",")
	return o
}

// ---------- sub-check "reuse": model-grade programs ----------

type Case struct {
	Prog    []*prog.N `json:"prog"`
	Presets []int     `json:"presets"` // preset of run 1..k on the shared tree
	// ConcFirst: the concurrent runs of the shared tree come BEFORE any other execution of
	// this source in the process (process-wide caches are then filled concurrently)
	ConcFirst bool `json:"conc_first,omitempty"`
}

var profile = prog.Profile{Scopes: true, Control: true, Errors: true, IncDec: true, MaxDepth: 4, MaxStmts: 4}

func gen(t *rapid.T) Case {
	p, _ := prog.Generate(t, profile)
	k := rapid.IntRange(3, 4).Draw(t, "runs")
	ps := make([]int, k)
	for i := range ps {
		ps[i] = (i + rapid.IntRange(0, 1).Draw(t, "preset")) % 2
	}
	ps[1] = 1 - ps[0] // at least two presets
	return Case{Prog: p, Presets: ps, ConcFirst: rapid.IntRange(0, 2).Draw(t, "concfirst") == 0}
}

func features(stmts []*prog.N) (calls, incs, deferOrAnon int) {
	prog.Walk(stmts, func(n *prog.N) {
		switch n.K {
		case "call", "acall", "p":
			calls++
		case "inc", "opas":
			incs++
		case "defer":
			deferOrAnon++
		}
		if n.K == "acall" {
			deferOrAnon++
		}
	})
	return
}

func oracle(c Case, o *h.Obs) *h.Fail {
	src := prog.Print(c.Prog)
	o.Key = src
	tree, err := parser.ParseSrc(src)
	if err != nil {
		o.Excluded = "generator produced unparseable text (harness problem): " + err.Error()
		return nil
	}
	calls, incs, da := features(c.Prog)
	o.NonTrivial = calls >= 1 && (incs >= 1 || da >= 1) && len(c.Presets) >= 3
	if incs > 0 {
		o.Class("has_incdec_or_opassign")
	}
	if da > 0 {
		o.Class("has_defer_or_anonymous_call")
	}
	d0 := dump.Dump(tree, dump.Opts{Positions: true})
	const to = 5 * time.Second
	const G = 8
	var early []obs
	if c.ConcFirst {
		o.Class("concurrent_runs_before_any_solo_run")
		early = make([]obs, G)
		var wg sync.WaitGroup
		for g := 0; g < G; g++ {
			wg.Add(1)
			go func(g int) {
				defer wg.Done()
				early[g] = runTree(tree, g%2, to)
			}(g)
		}
		wg.Wait()
		if d := dump.Dump(tree, dump.Opts{Positions: true}); d != d0 {
			return h.Failf("C14|tree-modified|concurrent", "the parsed tree changed during concurrent runs\nbefore: %s\nafter:  %s\nsource:\n%s", d0, d, src)
		}
	}
	solo := map[int]obs{}
	for _, ps := range []int{0, 1} {
		fresh, perr := parser.ParseSrc(src)
		if perr != nil {
			return h.Failf("C14|second-parse-fails", "source parses once but not twice: %v\n%s", perr, src)
		}
		solo[ps] = runTree(fresh, ps, to)
		// repeatability: the same source in an equal fresh environment again
		fresh2, _ := parser.ParseSrc(src)
		again := runTree(fresh2, ps, to)
		if again != solo[ps] {
			return h.Failf("C14|not-repeatable", "two fresh parses run in equal fresh environments (preset %d) differ\nfirst:  %v\nsecond: %v\nsource:\n%s", ps, solo[ps], again, src)
		}
		if solo[ps].err != "" {
			o.Class("ends_with_error")
		}
	}
	if solo[0] != solo[1] {
		o.Class("presets_give_different_results")
	}
	for g := range early {
		if early[g] != solo[g%2] {
			return h.Failf("C14|reused-tree-differs|concurrent", "concurrent run %d of the shared tree (preset %d, before any solo run) differs from the solo result\nconcurrent: %v\nsolo:       %v\nsource:\n%s", g, g%2, early[g], solo[g%2], src)
		}
	}
	// sequential reuse of the one tree
	for i, ps := range c.Presets {
		got := runTree(tree, ps, to)
		if got != solo[ps] {
			return h.Failf("C14|reused-tree-differs|sequential", "run %d of the shared tree (preset %d) differs from a fresh parse run alone in an equal environment\nshared: %v\nfresh:  %v\nsource:\n%s", i+1, ps, got, solo[ps], src)
		}
		if d := dump.Dump(tree, dump.Opts{Positions: true}); d != d0 {
			return h.Failf("C14|tree-modified|sequential", "the parsed tree changed during run %d\nbefore: %s\nafter:  %s\nsource:\n%s", i+1, d0, d, src)
		}
	}
	// concurrent reuse on separate environments
	res := make([]obs, G)
	var wg sync.WaitGroup
	for g := 0; g < G; g++ {
		wg.Add(1)
		go func(g int) {
			defer wg.Done()
			res[g] = runTree(tree, g%2, to)
		}(g)
	}
	wg.Wait()
	for g := 0; g < G; g++ {
		if res[g] != solo[g%2] {
			return h.Failf("C14|reused-tree-differs|concurrent", "concurrent run %d of the shared tree (preset %d) differs from the solo result\nconcurrent: %v\nsolo:       %v\nsource:\n%s", g, g%2, res[g], solo[g%2], src)
		}
	}
	if d := dump.Dump(tree, dump.Opts{Positions: true}); d != d0 {
		return h.Failf("C14|tree-modified|concurrent", "the parsed tree changed during concurrent runs\nbefore: %s\nafter:  %s\nsource:\n%s", d0, d, src)
	}
	return nil
}

// ---------- sub-check "tree": full-grammar programs, tree immutability only ----------

type WildCase struct {
	Src string `json:"src"`
}

func genWild(t *rapid.T) WildCase {
	return WildCase{wild.Program(t, wild.Opts{Loops: true, Go: false, HugeInts: false, Prelude: true, MaxDepth: 3, MaxStmts: 3})}
}

func oracleWild(c WildCase, o *h.Obs) *h.Fail {
	o.Key = c.Src
	tree, err := parser.ParseSrc(c.Src)
	if err != nil {
		o.Excluded = "generator produced unparseable text (harness problem): " + err.Error()
		return nil
	}
	nodes := dump.Nodes(tree)
	o.NonTrivial = len(nodes) > 120 // more than the prelude alone
	d0 := dump.Dump(tree, dump.Opts{Positions: true})
	for i := 0; i < 2; i++ {
		r := runTree(tree, i, 40*time.Millisecond)
		if r.err != "" {
			o.Class("run_error")
		} else {
			o.Class("run_ok")
		}
		if d := dump.Dump(tree, dump.Opts{Positions: true}); d != d0 {
			return h.Failf("C14|tree-modified|wild", "the parsed tree changed during run %d\nsource:\n%s\ndiff near: %s", i+1, c.Src, firstDiff(d0, d))
		}
	}
	var wg sync.WaitGroup
	for g := 0; g < 4; g++ {
		wg.Add(1)
		go func(g int) {
			defer wg.Done()
			runTree(tree, g%2, 40*time.Millisecond)
		}(g)
	}
	wg.Wait()
	if d := dump.Dump(tree, dump.Opts{Positions: true}); d != d0 {
		return h.Failf("C14|tree-modified|wild-concurrent", "the parsed tree changed during concurrent runs\nsource:\n%s\ndiff near: %s", c.Src, firstDiff(d0, d))
	}
	return nil
}

func firstDiff(a, b string) string {
	i := 0
	for i < len(a) && i < len(b) && a[i] == b[i] {
		i++
	}
	lo := i - 80
	if lo < 0 {
		lo = 0
	}
	hi := i + 80
	return fmt.Sprintf("before …%s… after …%s…", a[lo:min(hi, len(a))], b[lo:min(hi, len(b))])
}

// ---------- sub-check "import": each importing environment gets its own copy ----------

type ImportCase struct {
	Pkg   string `json:"pkg"`
	Sym   string `json:"sym"`
	Other string `json:"other"`
	Form  int    `json:"form"`
	Twice bool   `json:"twice"`
}

var importSyms = map[string][]string{
	"strings": {"ToUpper", "ToLower", "TrimSpace", "Title"},
	"math":    {"Abs", "Floor", "Ceil", "Sqrt"},
	"strconv": {"Itoa", "Atoi", "FormatInt"},
}

func genImport(t *rapid.T) ImportCase {
	pkgs := []string{"strings", "math", "strconv"}
	pk := rapid.SampledFrom(pkgs).Draw(t, "pkg")
	syms := importSyms[pk]
	s := rapid.SampledFrom(syms).Draw(t, "sym")
	ot := rapid.SampledFrom(syms).Draw(t, "other")
	return ImportCase{Pkg: pk, Sym: s, Other: ot, Form: rapid.IntRange(0, 5).Draw(t, "form"), Twice: rapid.Bool().Draw(t, "twice")}
}

func oracleImport(c ImportCase, o *h.Obs) *h.Fail {
	o.Key = fmt.Sprintf("%+v", c)
	o.NonTrivial = c.Sym != c.Other
	orig := env.Packages[c.Pkg][c.Sym]
	var rebind string
	switch c.Form {
	case 0:
		rebind = fmt.Sprintf("s = import(%q)\ns.%s = s.%s\n", c.Pkg, c.Sym, c.Other)
	case 1:
		rebind = fmt.Sprintf("s = import(%q)\ns.%s = 42\n", c.Pkg, c.Sym)
	case 2:
		rebind = fmt.Sprintf("s = import(%q)\ns.%s = func(x) { return \"hijacked\" }\n", c.Pkg, c.Sym)
	case 3:
		rebind = fmt.Sprintf("var s = import(%q)\ns.%s = nil\n", c.Pkg, c.Sym)
	case 4:
		// assignment straight into the table import returned (an assignment to a variable would deep-copy it first)
		rebind = fmt.Sprintf("import(%q).%s = 42\n", c.Pkg, c.Sym)
	default:
		rebind = fmt.Sprintf("func hijack(m) { m.%s = m.%s }\nhijack(import(%q))\n", c.Sym, c.Other, c.Pkg)
	}
	a, b := env.NewEnv(), env.NewEnv()
	a.Define("leak", int64(123))
	if _, err := vm.Execute(a, nil, rebind); err != nil {
		o.Excluded = "rebinding failed: " + err.Error()
		return nil
	}
	if c.Twice {
		// a second import in the SAME environment is a new copy as well
		v, err := vm.Execute(a, nil, fmt.Sprintf("t = import(%q)\nt.%s", c.Pkg, c.Sym))
		if err != nil || !sameFunc(v, orig) {
			return h.Failf("C14|import-shares-table|same-env", "after rebinding %s.%s in one imported copy, a second import in the same environment sees %v (err %v)", c.Pkg, c.Sym, v, err)
		}
	}
	v, err := vm.Execute(b, nil, fmt.Sprintf("u = import(%q)\nu.%s", c.Pkg, c.Sym))
	if err != nil || !sameFunc(v, orig) {
		return h.Failf("C14|import-shares-table|other-env", "after environment A rebound %s.%s inside its imported copy, environment B's import sees %v (err %v)", c.Pkg, c.Sym, v, err)
	}
	if cur := env.Packages[c.Pkg][c.Sym]; cur.Pointer() != orig.Pointer() {
		return h.Failf("C14|package-table-modified", "env.Packages[%q][%q] was modified by a script", c.Pkg, c.Sym)
	}
	if _, ok := env.Packages[c.Pkg]["extra"]; ok {
		return h.Failf("C14|package-table-modified|added", "a script added a symbol to env.Packages[%q]", c.Pkg)
	}
	// nothing of environment A is reachable through B's copy of the package
	if v, err := vm.Execute(b, nil, fmt.Sprintf("w = import(%q)\nw.leak", c.Pkg)); err == nil {
		return h.Failf("C14|environments-share-bindings|through-imported-package", "environment B reads environment A's binding `leak` through its imported package value: got %v", v)
	}
	// bindings of A are invisible in B
	if _, err := b.Get("s"); err == nil {
		return h.Failf("C14|environments-share-bindings", "environment B sees the binding `s` made in environment A")
	}
	return nil
}

func sameFunc(v interface{}, orig reflect.Value) bool {
	rv := reflect.ValueOf(v)
	return rv.IsValid() && rv.Kind() == reflect.Func && rv.Pointer() == orig.Pointer()
}

// ---------- sub-check "residue": a run leaves nothing behind in the process ----------

// A short program takes values the interpreter produces from shared boxes (the nil / true /
// false literals, "no value" results, small computed integers, the literal 1 of ++) and
// writes through every handle a script can get on them (pointer, ++, op=, element, field,
// parameter). Afterwards a fixed canary program run in a FRESH environment must still
// evaluate to what it evaluated to when the process started.
type ResidueCase struct {
	Stmts []string `json:"stmts"`
}

var residueSources = []string{"nil", "true", "false", "0", "1", "-1", "4095", "\"\"", "\"a\"", "(1 + 2)", "(2 * 3)", "len(\"abc\")", "nothing()", "(nil ?? nil)", "[nil][0]", "{\"k\": nil}.k", "(true ? nil : 0)", "one()", "[1, 2][0]", "(1 == 1)", "!true"}
var residueWrites = []string{
	"rv = %s\nrp = &rv\n*rp = %s",
	"rv = %s\nrp = &rv\n*rp = %s\n*rp = %s",
	"rv = %s\nrq = [&rv]\n*rq[0] = %s",
	"rv = %s\nfunc(p) { *p = %s }(&rv)",
	"rv = %s\nrv++",
	"rv = %s\nrv += %s",
	"rl = [%s]\nrp = &rl[0]\n*rp = %s",
	"rs = make(struct{A interface})\nrs.A = %s\nrp = &rs.A\n*rp = %s",
	"rv = %s\nrp = &rv\nrpp = &rp\n**rpp = %s",
	"var rv = %s\nrp = &rv\n*rp = %s\nrv",
}
var residueValues = []string{"5", "\"x\"", "true", "nil", "[1]", "7.5", "-1"}

func genResidue(t *rapid.T) ResidueCase {
	var c ResidueCase
	n := rapid.IntRange(1, 3).Draw(t, "n")
	for i := 0; i < n; i++ {
		w := rapid.SampledFrom(residueWrites).Draw(t, "write")
		var args []interface{}
		first := true
		for j := 0; j+1 < len(w); j++ {
			if w[j] == '%' && w[j+1] == 's' {
				if first {
					args = append(args, rapid.SampledFrom(residueSources).Draw(t, "src"))
					first = false
				} else {
					args = append(args, rapid.SampledFrom(residueValues).Draw(t, "val"))
				}
			}
		}
		c.Stmts = append(c.Stmts, fmt.Sprintf(w, args...))
	}
	return c
}

const residueCanary = `func nothing() { }
func one() { return 1 }
cx = 0
cx++
[nil, true, false, 0, 1, -1, 2 + 2, 2 * 3, 4095 + 0, "" + "", "a" + "b", nothing(), nil ?? 3, [nil][0], {"k": nil}.k, len("abc"), one(), cx, 1 == 1, !true, (true ? nil : 0)]`

var residueBaseline string

func runCanary() string {
	v, err := vm.Execute(env.NewEnv(), nil, residueCanary)
	if err != nil {
		return "error: " + err.Error()
	}
	return prog.RenderGo(v)
}

// residueCulprit is the first program after which the canary changed (diagnostic only: once the
// process-wide state is changed every later case fails before it runs).
var residueCulprit string

func oracleResidue(c ResidueCase, o *h.Obs) *h.Fail {
	if residueBaseline == "" {
		residueBaseline = runCanary()
	}
	src := "func nothing() { }\nfunc one() { return 1 }\n" + strings.Join(c.Stmts, "\n")
	o.Key = src
	o.NonTrivial = true
	if cv := runCanary(); cv != residueBaseline {
		return h.Failf("C14|residue|canary-already-changed", "the canary program no longer evaluates to its start-of-process result BEFORE this case ran (an earlier run left residue)\nbaseline %s\nnow      %s\nfirst seen changed after the program:\n%s", residueBaseline, cv, residueCulprit)
	}
	func() {
		defer func() { recover() }()
		ctx, cancel := context.WithTimeout(context.Background(), 2*time.Second)
		defer cancel()
		vm.ExecuteContext(ctx, env.NewEnv(), nil, src)
	}()
	if cv := runCanary(); cv != residueBaseline {
		if residueCulprit == "" {
			residueCulprit = src
		}
		return h.Failf("C14|residue|a-run-changed-what-fresh-environments-compute", "after this program ran in its own environment, a fixed canary program run in a FRESH environment evaluates differently: executions share hidden mutable state\nprogram:\n%s\ncanary:\n%s\nbefore %s\nafter  %s", src, residueCanary, residueBaseline, cv)
	}
	return nil
}

func TestC14(t *testing.T) {
	c := h.New(t, "C14")
	defer c.Finish()
	c.Rule("reuse: goroutine-free programs from the union of the scopes/control/errors profiles plus x++ / x op= e, anonymous and deferred calls, parsed once and run 3-4 times in environments of alternating presets (same names bound to different Go functions), then from 8 goroutines at once; compared with fresh parses run alone in equal fresh environments (value, error text, probe trace, final top-level bindings) and with the tree's structural dump before the first run; non-trivial = >=1 call and (>=1 ++/op= or deferred/anonymous call), >=3 runs in 2 presets. tree: full-grammar programs (ill-typed, mostly failing) run twice and from 4 goroutines, dump must not change. import: rebinding symbols inside an imported package table in one environment must not be visible to another import or in env.Packages. distinct by source text. Built with -race")
	h.Run(c, "reuse", c.N(800, 6000), gen, oracle)
	h.Run(c, "tree", c.N(800, 6000), genWild, oracleWild)
	h.Run(c, "import", c.N(400, 4000), genImport, oracleImport)
	c.Rule("residue: 1-3 idioms that take a value the interpreter hands out from a shared box (nil/true/false literals, 'no value' results, small computed integers, the 1 of ++) and write through a pointer / ++ / op= / element / field / parameter; a fixed canary program in a fresh environment must evaluate as at process start; every case non-trivial")
	h.Run(c, "residue", c.N(3000, 20000), genResidue, oracleResidue)
}
