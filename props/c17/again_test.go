// Sub-checks added after the eighth round.
//
// `errs`:  "When the callback returns an error the walk stops at once and returns that error" is said of
//          every error value a callback may return, not of errors.New values only: the pool holds the
//          well-known sentinel errors of the standard library and of anko itself, wrapped ones, and error
//          values of unusual dynamic types.
// `again`: "Walking any tree produced by the parser presents every ... node of that tree" is said of every
//          walk of such a tree, also the second and the third one, whatever earlier callbacks did with the
//          values Walk handed them that are NOT nodes of the tree (Walk makes up a CallExpr for the argument
//          list of an anonymous call). The tree itself is never written to; that is verified per case.
package c17

import (
	"bufio"
	"context"
	"errors"
	"fmt"
	"io"
	"io/fs"
	"os"
	"path/filepath"
	"reflect"
	"strconv"
	"strings"
	"syscall"

	"github.com/mattn/anko/ast"
	"github.com/mattn/anko/env"
	"github.com/mattn/anko/parser"
	"github.com/mattn/anko/vm"
	"pgregory.net/rapid"

	"verif/internal/dump"
	"verif/internal/h"
	"verif/internal/wild"
)

// ---------------------------------------------------------------------------------------------
// errs
// ---------------------------------------------------------------------------------------------

type valErr struct{ code int }

func (e valErr) Error() string { return "valErr " + strconv.Itoa(e.code) }

type ptrErr struct{ msg string }

// nil-safe: a typed nil *ptrErr in an error interface is an error value != nil like any other
func (e *ptrErr) Error() string {
	if e == nil {
		return "ptrErr(nil)"
	}
	return e.msg
}

type codeErr int

func (e codeErr) Error() string { return "code " + strconv.Itoa(int(e)) }

// dynamic types that cannot be compared with == (comparing two interface values holding them panics)
type listErr []string

func (e listErr) Error() string { return "listErr " + strings.Join(e, ",") }

type funcErr func() string

func (e funcErr) Error() string { return e() }

// an error that claims to be every other error
type anyErr struct{ msg string }

func (e *anyErr) Error() string        { return e.msg }
func (e *anyErr) Is(target error) bool { return true }

type wrapErr struct{ inner error }

func (e *wrapErr) Error() string { return "wrapErr(" + e.inner.Error() + ")" }
func (e *wrapErr) Unwrap() error { return e.inner }

// errNames is the pool, in a fixed order (the case stores the name).
var errNames = []string{
	// what sub-check `walk` uses
	"errors.New", "errors.New-empty-text", "fmt.Errorf",
	// sentinels of the standard library with a meaning to some walker or reader
	"filepath.SkipDir", "filepath.SkipAll", "io.EOF", "io.ErrUnexpectedEOF", "io.ErrClosedPipe", "io.ErrShortWrite", "io.ErrNoProgress",
	"context.Canceled", "context.DeadlineExceeded", "os.ErrNotExist", "os.ErrExist", "os.ErrPermission", "os.ErrClosed", "os.ErrInvalid",
	"os.ErrDeadlineExceeded", "errors.ErrUnsupported", "bufio.ErrTooLong", "bufio.ErrFinalToken", "strconv.ErrSyntax", "strconv.ErrRange",
	"syscall.ENOENT", "syscall.EINTR", "syscall.EAGAIN", "syscall.Errno(0)",
	// anko's own
	"vm.ErrBreak", "vm.ErrContinue", "vm.ErrReturn", "vm.ErrInterrupt", "env.ErrSymbolContainsDot", "parser.Error", "parser.Error-fatal", "vm.Error",
	"walk-own-text-stmt", "walk-own-text-expr",
	// dynamic types
	"valErr", "valErr-zero", "ptrErr", "ptrErr-typed-nil", "codeErr(0)", "codeErr(7)", "listErr", "listErr-empty", "funcErr", "anyErr",
	"os.PathError", "strconv.NumError", "fs.PathError-SkipDir",
}

func mkErr(name string) error {
	switch name {
	case "errors.New":
		return errors.New("stop here")
	case "errors.New-empty-text":
		return errors.New("")
	case "fmt.Errorf":
		return fmt.Errorf("stop at %d", 7)
	case "filepath.SkipDir":
		return filepath.SkipDir
	case "filepath.SkipAll":
		return filepath.SkipAll
	case "io.EOF":
		return io.EOF
	case "io.ErrUnexpectedEOF":
		return io.ErrUnexpectedEOF
	case "io.ErrClosedPipe":
		return io.ErrClosedPipe
	case "io.ErrShortWrite":
		return io.ErrShortWrite
	case "io.ErrNoProgress":
		return io.ErrNoProgress
	case "context.Canceled":
		return context.Canceled
	case "context.DeadlineExceeded":
		return context.DeadlineExceeded
	case "os.ErrNotExist":
		return os.ErrNotExist
	case "os.ErrExist":
		return os.ErrExist
	case "os.ErrPermission":
		return os.ErrPermission
	case "os.ErrClosed":
		return os.ErrClosed
	case "os.ErrInvalid":
		return os.ErrInvalid
	case "os.ErrDeadlineExceeded":
		return os.ErrDeadlineExceeded
	case "errors.ErrUnsupported":
		return errors.ErrUnsupported
	case "bufio.ErrTooLong":
		return bufio.ErrTooLong
	case "bufio.ErrFinalToken":
		return bufio.ErrFinalToken
	case "strconv.ErrSyntax":
		return strconv.ErrSyntax
	case "strconv.ErrRange":
		return strconv.ErrRange
	case "syscall.ENOENT":
		return syscall.ENOENT
	case "syscall.EINTR":
		return syscall.EINTR
	case "syscall.EAGAIN":
		return syscall.EAGAIN
	case "syscall.Errno(0)":
		return syscall.Errno(0)
	case "vm.ErrBreak":
		return vm.ErrBreak
	case "vm.ErrContinue":
		return vm.ErrContinue
	case "vm.ErrReturn":
		return vm.ErrReturn
	case "vm.ErrInterrupt":
		return vm.ErrInterrupt
	case "env.ErrSymbolContainsDot":
		return env.ErrSymbolContainsDot
	case "parser.Error":
		return &parser.Error{Message: "syntax error", Pos: ast.Position{Line: 1, Column: 2}}
	case "parser.Error-fatal":
		return &parser.Error{Message: "syntax error", Pos: ast.Position{Line: 1, Column: 2}, Fatal: true}
	case "vm.Error":
		return &vm.Error{Message: "stop", Pos: ast.Position{Line: 3, Column: 4}}
	case "walk-own-text-stmt":
		return errors.New("unknown statement *ast.ExprStmt")
	case "walk-own-text-expr":
		return errors.New("unknown expression *ast.IdentExpr")
	case "valErr":
		return valErr{3}
	case "valErr-zero":
		return valErr{}
	case "ptrErr":
		return &ptrErr{"stop"}
	case "ptrErr-typed-nil":
		return (*ptrErr)(nil)
	case "codeErr(0)":
		return codeErr(0)
	case "codeErr(7)":
		return codeErr(7)
	case "listErr":
		return listErr{"a", "b"}
	case "listErr-empty":
		return listErr{}
	case "funcErr":
		return funcErr(func() string { return "funcErr" })
	case "anyErr":
		return &anyErr{"is anything"}
	case "os.PathError":
		return &os.PathError{Op: "open", Path: "/nowhere", Err: syscall.ENOENT}
	case "strconv.NumError":
		return &strconv.NumError{Func: "Atoi", Num: "x", Err: strconv.ErrSyntax}
	case "fs.PathError-SkipDir":
		return &fs.PathError{Op: "walk", Path: "dir", Err: fs.SkipDir}
	}
	return nil
}

var wrapNames = []string{"as-is", "fmt-%w", "errors.Join", "fs.PathError", "Unwrap-type", "fmt-%w-%w"}

func wrapOf(e error, how int) error {
	switch how {
	case 1:
		return fmt.Errorf("visiting: %w", e)
	case 2:
		return errors.Join(e)
	case 3:
		return &fs.PathError{Op: "walk", Path: "node", Err: e}
	case 4:
		return &wrapErr{e}
	case 5:
		return fmt.Errorf("%w and %w", e, errors.New("another"))
	}
	return e
}

// sameErr: is got the very value want? == where Go can compare, else identity of the referenced data.
func sameErr(got, want error) (same bool) {
	if got == nil || want == nil {
		return got == nil && want == nil
	}
	a, b := reflect.ValueOf(got), reflect.ValueOf(want)
	if a.Type() != b.Type() {
		return false
	}
	if a.Type().Comparable() {
		defer func() {
			if recover() != nil {
				same = false
			}
		}()
		return got == want
	}
	switch a.Kind() {
	case reflect.Slice:
		return a.Len() == b.Len() && a.Pointer() == b.Pointer()
	case reflect.Func:
		return a.Pointer() == b.Pointer()
	}
	return false
}

type EStop struct {
	Err  string `json:"err"`  // name in errNames
	Wrap int    `json:"wrap"` // index in wrapNames
	At   int    `json:"at"`   // -1: the last callback, -2: the first, else (At mod callbacks)
}

type ECase struct {
	Src   string  `json:"src"`
	Stops []EStop `json:"stops"` // one aborted walk of the tree per entry, in order, on the same tree
}

func genErrs(t *rapid.T) ECase {
	src := wild.Program(t, wild.Opts{Loops: true, Go: true, HugeInts: true, MaxDepth: 3, MaxStmts: 3})
	if rapid.IntRange(0, 3).Draw(t, "shapes") == 0 {
		src += "\n" + genShape(t)
	}
	n := rapid.IntRange(1, 4).Draw(t, "stops")
	stops := make([]EStop, n)
	for i := range stops {
		s := EStop{Err: rapid.SampledFrom(errNames).Draw(t, "err")}
		if rapid.IntRange(0, 3).Draw(t, "wrapped") == 0 {
			s.Wrap = rapid.IntRange(1, len(wrapNames)-1).Draw(t, "wrap")
		}
		switch rapid.IntRange(0, 9).Draw(t, "where") {
		case 0:
			s.At = -1
		case 1:
			s.At = -2
		case 2:
			s.At = rapid.IntRange(0, 6).Draw(t, "at")
		default:
			s.At = rapid.IntRange(0, 4000).Draw(t, "at")
		}
		stops[i] = s
	}
	return ECase{Src: src, Stops: stops}
}

func nodeFamily(x interface{}) string {
	// ast.Stmt, ast.Expr and ast.Operator have the same method set: the family is in the name of the type
	name := fmt.Sprintf("%T", x)
	switch {
	case strings.HasSuffix(name, "Stmt"):
		return "stmt"
	case strings.HasSuffix(name, "Expr"):
		return "expr"
	case strings.HasSuffix(name, "Operator"):
		return "operator"
	}
	return "other"
}

// abortRun walks with a callback that returns e at call stopAt (from 0) and nil otherwise.
// verdict "" = the clause held.
func abortRun(stmt ast.Stmt, e error, stopAt int) (verdict, detail string, at interface{}) {
	calls := 0
	got, panicked, pval := guardedWalk(stmt, func(x interface{}) error {
		calls++
		if calls-1 == stopAt {
			at = x
			return e
		}
		return nil
	})
	if panicked {
		return "abort-walk-panicked", fmt.Sprintf("Walk panicked after %d callbacks: %s", calls, pval), at
	}
	if !sameErr(got, e) {
		g := "nil"
		if got != nil {
			m, _, dyn := errText(got)
			g = dyn + ": " + m
		}
		return "abort-error-not-returned", fmt.Sprintf("Walk returned %s; the callback was called %d times in all (%d expected)", g, calls, stopAt+1), at
	}
	if calls != stopAt+1 {
		return "walk-continued-after-abort", fmt.Sprintf("Walk returned the callback's error, but the callback was called %d times (%d expected)", calls, stopAt+1), at
	}
	return "", "", at
}

func oracleErrs(c ECase, o *h.Obs) *h.Fail {
	o.Key = fmt.Sprintf("%v|%s", c.Stops, c.Src)
	if len(c.Stops) == 0 || len(c.Stops) > 64 {
		o.Excluded = "errs: malformed case"
		return nil
	}
	stmt, err := parser.ParseSrc(c.Src)
	if err != nil {
		o.Excluded = "generator produced unparseable text (harness problem): " + err.Error()
		return nil
	}
	// the number of callbacks of a complete walk, and the node kinds met (completeness itself is sub-check `walk`'s)
	total := 0
	kinds := map[string]bool{}
	werr, wpanic, _ := guardedWalk(stmt, func(x interface{}) error {
		total++
		kinds[strings.TrimPrefix(fmt.Sprintf("%T", x), "*ast.")] = true
		return nil
	})
	if wpanic || werr != nil || total == 0 {
		o.Excluded = "errs: the complete walk did not come back with nil (judged by sub-check walk)"
		return nil
	}
	nrare := 0
	for k := range kinds {
		if rare[k] {
			nrare++
		}
	}
	special := false
	for i, s := range c.Stops {
		base := mkErr(s.Err)
		if base == nil || s.Wrap < 0 || s.Wrap >= len(wrapNames) {
			o.Excluded = "errs: malformed case"
			return nil
		}
		e := wrapOf(base, s.Wrap)
		stopAt := 0
		switch {
		case s.At == -1:
			stopAt = total - 1
		case s.At >= 0:
			stopAt = s.At % total
		}
		name := s.Err
		if s.Wrap != 0 {
			name += "/" + wrapNames[s.Wrap]
		}
		verdict, detail, at := abortRun(stmt, e, stopAt)
		if verdict != "" {
			// is it this error value, or any error at this place? the same walk with a plain errors.New value
			sig := "C17|errs|" + verdict
			cv, _, _ := abortRun(stmt, errors.New("stop here"), stopAt)
			if cv == "" {
				sig += "|" + s.Err // the wrapping is in the message: one signature per error value
				detail += "; with an errors.New value returned at the same callback the walk stops at once and returns it"
			}
			return h.Failf(sig, "source:\n%s\nwalk %d of %d of this tree: the callback returned %s (%T) at call %d of %d (a %T): %s", c.Src, i+1, len(c.Stops), name, e, stopAt, total, at, detail)
		}
		if s.Err != "errors.New" && s.Err != "fmt.Errorf" && s.Err != "errors.New-empty-text" {
			special = true
		}
		o.Class("errs_err_" + s.Err)
		o.Class("errs_wrap_" + wrapNames[s.Wrap])
		o.Class("errs_at_" + nodeFamily(at))
		switch stopAt {
		case 0:
			o.Class("errs_at_first_callback")
		case total - 1:
			o.Class("errs_at_last_callback")
		}
	}
	o.Class("errs_walks_%d", len(c.Stops))
	o.NonTrivial = nrare >= 3 && special
	return nil
}

// ---------------------------------------------------------------------------------------------
// again
// ---------------------------------------------------------------------------------------------

const (
	passPlain          = 0 // complete walk, callback only records; judged
	passScribbleAfter  = 1 // complete walk, callback only records; judged; then every presented value that is no node of the tree is scribbled over
	passScribbleDuring = 2 // the callback scribbles over such a value the moment it is presented; this walk is not judged
	passAbort          = 3 // the callback returns an error at call At; judged by the abort clause; then as passScribbleAfter
)

var passNames = []string{"plain", "scribble-after", "scribble-during", "abort-then-scribble"}

var scribbleNames = []string{"zero", "nil-slices", "trim-slices", "replace", "reorder-slices"}

type APass struct {
	Mode int `json:"mode"`
	At   int `json:"at"`
}

type ACase struct {
	Src      string  `json:"src"`
	Scribble int     `json:"scribble"` // index in scribbleNames
	Passes   []APass `json:"passes"`   // walks of the one tree, in order; a final plain walk follows and is judged
}

// anonymous calls: every call whose callee is not a bare name. Walk presents a CallExpr of its own making for
// the argument list of each.
func genAnonCall(t *rapid.T, depth int) string {
	callee := rapid.SampledFrom([]string{"f(1)", "a.b", "m[k]", "func(p, q) { return p }", "(g)", "mk()(0)", "l[0][1]", "a.b.c", "f(x)(y)", "func() { return g }()"}).Draw(t, "callee")
	n := rapid.IntRange(0, 4).Draw(t, "nargs")
	args := make([]string, n)
	for i := range args {
		k := rapid.IntRange(0, 7).Draw(t, "arg")
		switch {
		case k == 0 && depth > 0:
			args[i] = genAnonCall(t, depth-1)
		case k == 1:
			args[i] = fmt.Sprintf("x%d + %d", i, i)
		case k == 2:
			args[i] = fmt.Sprintf("l[%d:]", i)
		case k == 3:
			args[i] = fmt.Sprintf("h(%d, y)", i)
		case k == 4:
			args[i] = "[1, a]"
		case k == 5:
			args[i] = "c ? u : v"
		default:
			args[i] = fmt.Sprintf("v%d", i)
		}
	}
	if rapid.IntRange(0, 5).Draw(t, "vararg") == 0 {
		// the spread argument is a name: `0...` would be read as a number
		args = append(args, "rest...")
	}
	return callee + "(" + strings.Join(args, ", ") + ")"
}

func genAgain(t *rapid.T) ACase {
	src := wild.Program(t, wild.Opts{Loops: true, Go: true, HugeInts: true, MaxDepth: 3, MaxStmts: 3})
	if rapid.IntRange(0, 3).Draw(t, "shapes") == 0 {
		src += "\n" + genShape(t)
	}
	if rapid.IntRange(0, 3).Draw(t, "anon") != 0 {
		n := rapid.IntRange(1, 3).Draw(t, "nanon")
		for i := 0; i < n; i++ {
			call := genAnonCall(t, 2)
			src += "\n" + rapid.SampledFrom([]string{"r = ", "", "go ", "defer ", "return ", "r[0] = 1 + "}).Draw(t, "use") + call
		}
	}
	n := rapid.IntRange(1, 3).Draw(t, "passes")
	passes := make([]APass, n)
	for i := range passes {
		p := APass{Mode: rapid.SampledFrom([]int{passScribbleAfter, passScribbleAfter, passScribbleDuring, passScribbleDuring, passAbort, passPlain}).Draw(t, "mode")}
		if p.Mode == passAbort {
			p.At = rapid.IntRange(0, 4000).Draw(t, "at")
		}
		passes[i] = p
	}
	return ACase{Src: src, Scribble: rapid.IntRange(0, len(scribbleNames)-1).Draw(t, "scribble"), Passes: passes}
}

var (
	exprIface = reflect.TypeOf((*ast.Expr)(nil)).Elem()
	stmtIface = reflect.TypeOf((*ast.Stmt)(nil)).Elem()
)

// scribble writes over the exported fields of the struct x points to - and over nothing else: no element of
// a slice and nothing behind a pointer is written (those may be shared with the tree).
func scribble(x interface{}, kind int) (done bool) {
	defer func() {
		if recover() != nil {
			done = false
		}
	}()
	rv := reflect.ValueOf(x)
	if rv.Kind() != reflect.Ptr || rv.IsNil() || rv.Elem().Kind() != reflect.Struct || !rv.Elem().CanSet() {
		return false
	}
	sv := rv.Elem()
	if kind == 0 {
		sv.Set(reflect.Zero(sv.Type()))
		return true
	}
	for i := 0; i < sv.NumField(); i++ {
		f := sv.Field(i)
		if !f.CanSet() {
			continue
		}
		switch f.Kind() {
		case reflect.Slice:
			switch kind {
			case 1:
				f.Set(reflect.Zero(f.Type()))
			case 2:
				if f.Len() > 0 {
					f.Set(f.Slice(0, f.Len()/2))
				}
			case 3:
				switch f.Type().Elem() {
				case exprIface:
					f.Set(reflect.ValueOf([]ast.Expr{&ast.IdentExpr{Lit: "scribbled"}, &ast.LiteralExpr{Literal: reflect.ValueOf(int64(1))}}))
				case stmtIface:
					f.Set(reflect.ValueOf([]ast.Stmt{&ast.BreakStmt{}}))
				default:
					f.Set(reflect.Zero(f.Type()))
				}
			case 4:
				// a new backing array with the same elements, last first, the first one twice
				n := f.Len()
				if n > 0 {
					s := reflect.MakeSlice(f.Type(), 0, n+1)
					for j := n - 1; j >= 0; j-- {
						s = reflect.Append(s, f.Index(j))
					}
					s = reflect.Append(s, f.Index(0))
					f.Set(s)
				}
			}
		case reflect.Interface:
			if kind == 1 || kind == 3 {
				if kind == 3 && f.Type() == exprIface {
					f.Set(reflect.ValueOf(&ast.IdentExpr{Lit: "scribbled"}))
				} else {
					f.Set(reflect.Zero(f.Type()))
				}
			}
		case reflect.String:
			if kind == 3 {
				f.SetString("scribbled")
			}
		case reflect.Bool:
			if kind == 3 {
				f.SetBool(!f.Bool())
			}
		}
	}
	return true
}

func bucket(n int) string {
	switch {
	case n == 0:
		return "0"
	case n == 1:
		return "1"
	case n <= 5:
		return "2_5"
	case n <= 20:
		return "6_20"
	}
	return "gt20"
}

// oracleAgain: a failure that a first, solitary walk of a fresh parse of the text shows as well has nothing to
// do with the earlier walks; it gets the clause again-first-walk whatever the history of the case was.
func oracleAgain(c ACase, o *h.Obs) *h.Fail {
	failedAt := -1 // the call at which the failing walk's callback was to return its error; -1: a complete walk failed
	f := oracleAgain0(c, o, &failedAt)
	if f != nil && strings.HasPrefix(f.Sig, "C17|again-") && firstWalkFails(c.Src, failedAt) {
		rest := strings.SplitN(strings.TrimPrefix(f.Sig, "C17|again-"), "|", 2)
		if len(rest) == 2 {
			f.Sig = "C17|again-first-walk|" + rest[1]
			f.Msg += "\n(the first walk of a fresh parse of this text fails as well)"
		}
	}
	return f
}

func firstWalkFails(src string, stopAt int) bool {
	stmt, err := parser.ParseSrc(src)
	if err != nil {
		return false
	}
	if stopAt >= 0 {
		verdict, _, _ := abortRun(stmt, errors.New("stop here"), stopAt)
		return verdict != ""
	}
	nodes := dump.Nodes(stmt)
	var visited []interface{}
	werr, wpanic, _ := guardedWalk(stmt, func(x interface{}) error { visited = append(visited, x); return nil })
	return wpanic || werr != nil || judgeFull("C17|", src, nodes, visited, false) != nil
}

func oracleAgain0(c ACase, o *h.Obs, failedAt *int) *h.Fail {
	o.Key = fmt.Sprintf("%d|%v|%s", c.Scribble, c.Passes, c.Src)
	if len(c.Passes) == 0 || len(c.Passes) > 32 || c.Scribble < 0 || c.Scribble >= len(scribbleNames) {
		o.Excluded = "again: malformed case"
		return nil
	}
	for _, p := range c.Passes {
		if p.Mode < 0 || p.Mode >= len(passNames) {
			o.Excluded = "again: malformed case"
			return nil
		}
	}
	stmt, err := parser.ParseSrc(c.Src)
	if err != nil {
		o.Excluded = "generator produced unparseable text (harness problem): " + err.Error()
		return nil
	}
	before := dump.Dump(stmt, dump.Opts{Positions: true})
	if strings.HasSuffix(before, "<truncated>") {
		o.Excluded = "again: tree too large to compare (shared sub-trees)"
		return nil
	}
	nodes := dump.Nodes(stmt)
	if len(nodes) == 0 {
		o.Excluded = "again: empty tree"
		return nil
	}
	own := make(map[interface{}]bool, len(nodes))
	for _, n := range nodes {
		own[n.Ptr] = true
	}
	// is x one of the tree's own nodes? (a value that cannot be hashed is none)
	isOwn := func(x interface{}) (own_ bool) {
		defer func() {
			if recover() != nil {
				own_ = false
			}
		}()
		return own[x]
	}
	scribbled, strangers := 0, map[string]bool{}
	history := "plain"
	scribbleAll := func(vs []interface{}) {
		for _, x := range vs {
			if x == nil || isOwn(x) {
				continue
			}
			if scribble(x, c.Scribble) {
				scribbled++
				strangers[fmt.Sprintf("%T", x)] = true
				history = "scribbled"
			}
		}
	}
	// the experiment is only about values outside the tree: the tree must be what the parser made, byte for
	// byte and node for node, before every judged walk
	treeIntact := func() bool {
		if dump.Dump(stmt, dump.Opts{Positions: true}) != before {
			return false
		}
		now := dump.Nodes(stmt)
		if len(now) != len(nodes) {
			return false
		}
		for i := range now {
			if now[i].Ptr != nodes[i].Ptr {
				return false
			}
		}
		return true
	}
	full := func(pass int, name string) *h.Fail {
		pre := "C17|again-" + history + "|"
		who := fmt.Sprintf("walk %d of %d of this tree (%s; earlier walks: %s; scribble = %s, %d values outside the tree written over so far)", pass+1, len(c.Passes)+1, name, passList(c.Passes[:min(pass, len(c.Passes))]), scribbleNames[c.Scribble], scribbled)
		var visited []interface{}
		werr, wpanic, wpval := guardedWalk(stmt, func(x interface{}) error { visited = append(visited, x); return nil })
		if wpanic {
			return h.Failf(pre+"walk-panicked", "%s: Walk panicked after %d callbacks (the callback never fails, never panics): %s\nsource:\n%s", who, len(visited), wpval, c.Src)
		}
		if werr != nil {
			msg, _, dyn := errText(werr)
			return h.Failf(pre+"walk-error", "%s: Walk returned %s: %s although the callback never returned an error\nsource:\n%s", who, dyn, msg, c.Src)
		}
		if f := judgeFull(pre, c.Src, nodes, visited, false); f != nil {
			f.Msg = who + ": " + f.Msg
			return f
		}
		if name == passNames[passScribbleAfter] {
			scribbleAll(visited)
		}
		return nil
	}
	for i, p := range c.Passes {
		switch p.Mode {
		case passPlain, passScribbleAfter:
			if f := full(i, passNames[p.Mode]); f != nil {
				return f
			}
		case passScribbleDuring:
			// what a walk presents after its callback has edited the value Walk is about to read from is not
			// decided by the statement: this walk is not judged (not even for coming back)
			_, wpanic, _ := guardedWalk(stmt, func(x interface{}) error {
				scribbleAll([]interface{}{x})
				return nil
			})
			if wpanic {
				o.Class("again_unjudged_walk_panicked")
			}
		case passAbort:
			stopAt := p.At
			if stopAt < 0 {
				stopAt = 0
			}
			stopAt %= len(nodes)
			sentinel := errors.New("stop here")
			var seen []interface{}
			aerr, apanic, apval := guardedWalk(stmt, func(x interface{}) error {
				seen = append(seen, x)
				if len(seen)-1 == stopAt {
					return sentinel
				}
				return nil
			})
			pre := "C17|again-" + history + "|"
			*failedAt = stopAt
			who := fmt.Sprintf("walk %d of %d of this tree (earlier walks: %s)", i+1, len(c.Passes)+1, passList(c.Passes[:i]))
			if apanic {
				return h.Failf(pre+"abort-walk-panicked", "%s: callback returned its error at call %d; Walk panicked after %d callbacks: %s\nsource:\n%s", who, stopAt, len(seen), apval, c.Src)
			}
			if len(seen) < stopAt+1 {
				got := "nil"
				if aerr != nil {
					m, _, dyn := errText(aerr)
					got = dyn + ": " + m
				}
				return h.Failf(pre+"walk-ended-early", "%s: the tree has %d nodes and the callback was to return its error at call %d, but Walk came back (result %s) after only %d callbacks\nsource:\n%s", who, len(nodes), stopAt, got, len(seen), c.Src)
			}
			if aerr != sentinel {
				got := "nil"
				if aerr != nil {
					m, _, dyn := errText(aerr)
					got = dyn + ": " + m
				}
				return h.Failf(pre+"abort-error-not-returned", "%s: callback returned its error at call %d, Walk returned %s\nsource:\n%s", who, stopAt, got, c.Src)
			}
			if len(seen) != stopAt+1 {
				return h.Failf(pre+"walk-continued-after-abort", "%s: callback returned its error at call %d but was called %d times\nsource:\n%s", who, stopAt, len(seen), c.Src)
			}
			*failedAt = -1
			scribbleAll(seen)
		}
		if !treeIntact() {
			// nothing here writes to a node of the tree, to an element of one of its slices or behind one of its
			// pointers; if the tree differs all the same, a value Walk presented shares memory with the tree in a
			// way reflection over the tree does not show - the experiment says nothing then
			o.Excluded = "again: the tree is not as parsed after walk " + strconv.Itoa(i+1) + " (" + passNames[p.Mode] + ")"
			return nil
		}
		o.Class("again_pass_" + passNames[p.Mode])
	}
	if f := full(len(c.Passes), "final"); f != nil {
		return f
	}
	if !treeIntact() {
		o.Excluded = "again: the tree is not as parsed after the final walk"
		return nil
	}
	o.Class("again_passes_%d", len(c.Passes)+1)
	o.Class("again_history_" + history)
	o.Class("again_scribble_" + scribbleNames[c.Scribble])
	o.Class("again_values_written_over_" + bucket(scribbled))
	for k := range strangers {
		o.Class("again_stranger_" + k)
	}
	o.NonTrivial = scribbled > 0
	return nil
}

func passList(ps []APass) string {
	if len(ps) == 0 {
		return "none"
	}
	s := make([]string, len(ps))
	for i, p := range ps {
		s[i] = passNames[p.Mode]
	}
	return strings.Join(s, ", ")
}
