// C17 — the AST walker reaches every node of every parsed program.
// Oracle: a generic reflection walk over the parsed tree (internal/dump.Nodes) gives the
// node set N; astutil.Walk must present every n in N, each after its reflective parent,
// return nil, and abort at once with the callback's own error. "Returned an error" is Go's own
// test (result != nil); the result is only rendered for the report, behind a recover, and a walk
// that panics instead of returning is a finding of its own (walk-panicked), never a harness fault.
package c17

import (
	"errors"
	"fmt"
	"reflect"
	"sort"
	"strings"
	"testing"

	"github.com/mattn/anko/ast"
	"github.com/mattn/anko/ast/astutil"
	"github.com/mattn/anko/parser"
	"pgregory.net/rapid"

	"verif/internal/dump"
	"verif/internal/h"
	"verif/internal/wild"
)

type Case struct {
	Src   string `json:"src"`
	Abort int    `json:"abort"` // abort at the (Abort mod visited)-th callback; < 0: no abort run
}

func gen(t *rapid.T) Case {
	src := wild.Program(t, wild.Opts{Loops: true, Go: true, HugeInts: true, MaxDepth: 3, MaxStmts: 3})
	if rapid.IntRange(0, 2).Draw(t, "shapes") == 0 {
		// long and deep shapes of one node kind: chains, nests and lists far beyond what the
		// depth-bounded generator makes (a walker that loops or buffers instead of recursing
		// has its boundaries there)
		n := rapid.IntRange(1, 3).Draw(t, "nshapes")
		for i := 0; i < n; i++ {
			src += "\n" + genShape(t)
		}
	}
	if rapid.Uint64().Draw(t, "large")%400 == 7 {
		// a large flat program: thousands of ordinary statements, tens of thousands of nodes
		line := rapid.SampledFrom([]string{"total = add(total, items[i].price)", "x = f(a, b) + g(c)[0]", "m[k] = {\"a\": [1, 2], \"b\": h(x)}", "if a { b = c.d(1) } else { e = -f }", "v, ok = <-ch"}).Draw(t, "line")
		n := rapid.SampledFrom([]int{1200, 2500, 4000}).Draw(t, "lines")
		src = strings.Repeat(line+"\n", n) + src
	}
	return Case{Src: src, Abort: rapid.IntRange(0, 400).Draw(t, "abort")}
}

func shapeLen(t *rapid.T) int {
	if rapid.Bool().Draw(t, "long") {
		return rapid.IntRange(14, 40).Draw(t, "len")
	}
	return rapid.IntRange(2, 13).Draw(t, "len")
}

func genShape(t *rapid.T) string {
	n := shapeLen(t)
	term := func(i int) string {
		switch rapid.IntRange(0, 4).Draw(t, "term") {
		case 0:
			return fmt.Sprintf("t%d", i)
		case 1:
			return fmt.Sprintf("%d", i)
		case 2:
			return fmt.Sprintf("f%d(%d)", i, i)
		case 3:
			return fmt.Sprintf("\"s%d\"", i)
		default:
			return fmt.Sprintf("l[%d]", i)
		}
	}
	join := func(ops []string) string {
		var b strings.Builder
		for i := 0; i < n; i++ {
			if i > 0 {
				b.WriteString(" " + rapid.SampledFrom(ops).Draw(t, "op") + " ")
			}
			b.WriteString(term(i))
		}
		return b.String()
	}
	nest := func(open, close, leaf string) string {
		return strings.Repeat(open, n) + leaf + strings.Repeat(close, n)
	}
	switch rapid.IntRange(0, 19).Draw(t, "shape") {
	case 0:
		return "x = " + join([]string{"+", "-"})
	case 1:
		return "x = " + join([]string{"+", "-", "*", "/", "%", "&", "|", "<<", ">>"})
	case 2:
		return "x = " + join([]string{"&&", "||"})
	case 3:
		return "x = " + join([]string{"==", "!=", "<", ">=", "+", "&&"})
	case 4:
		return "x = " + join([]string{"??"})
	case 5:
		// ternary chain, right-nested
		var b strings.Builder
		for i := 0; i < n; i++ {
			fmt.Fprintf(&b, "c%d ? %s : ", i, term(i))
		}
		return "x = " + b.String() + "0"
	case 6:
		return "x = " + nest("f(", ")", "1")
	case 7:
		return "x = a" + strings.Repeat("[0]", n)
	case 8:
		var b strings.Builder
		for i := 0; i < n; i++ {
			fmt.Fprintf(&b, ".m%d", i)
		}
		return "x = a" + b.String()
	case 9:
		// separated by blanks: "--" and "&&" are tokens of their own
		return "x = " + strings.Repeat(rapid.SampledFrom([]string{"- ", "! ", "^ ", "* ", "& "}).Draw(t, "un"), n) + "y"
	case 10:
		return "x = " + nest("(", ")", "1 + 2")
	case 11:
		return "x = " + nest("[", "]", "1")
	case 12:
		return "x = " + nest("{\"k\": ", "}", "1")
	case 13:
		return "x = " + nest("func() { return ", " }", "1")
	case 14:
		terms := make([]string, n)
		for i := range terms {
			terms[i] = term(i)
		}
		l := strings.Join(terms, ", ")
		return rapid.SampledFrom([]string{"x = [" + l + "]", "x = f(" + l + ")", "return " + l, "x = []interface{" + l + "}", "go f(" + l + ")", "defer f(" + l + ")"}).Draw(t, "listform")
	case 15:
		var b strings.Builder
		b.WriteString("if c0 {\n a = 0\n}")
		for i := 1; i < n; i++ {
			fmt.Fprintf(&b, " else if c%d {\n a = %s\n}", i, term(i))
		}
		return b.String() + " else {\n a = 1\n}"
	case 16:
		var b strings.Builder
		b.WriteString("switch s {\n")
		for i := 0; i < n; i++ {
			fmt.Fprintf(&b, "case %d, %s:\n a = %d\n", i, term(i), i)
		}
		return b.String() + "default:\n a = 0\n}"
	case 17:
		return nest("if a {\n", "\n}", "b = 1")
	case 18:
		return nest("for {\n", "\n}", "break")
	default:
		return "x = " + join([]string{"??", "+", "||", "==", "*"})
	}
}

// node kinds the repo's own TestWalk sample does not contain
var rare = map[string]bool{"DeleteStmt": true, "CloseStmt": true, "ChanStmt": true, "NilCoalescingOpExpr": true, "MakeTypeExpr": true,
	"LenExpr": true, "SwitchCaseStmt": true, "SliceExpr": true, "TernaryOpExpr": true, "DerefExpr": true, "AddrExpr": true, "IncludeExpr": true,
	"ChanExpr": true, "MakeExpr": true, "ImportExpr": true, "ModuleStmt": true, "TryStmt": true, "GoroutineStmt": true, "DeferStmt": true, "LetMapItemStmt": true}

// guardedWalk runs astutil.Walk and turns a Go panic escaping from it into a value: the walk of a
// parser-made tree with a callback that never panics has to come back ("presents every node ... and
// returns no error"), a walk that panics has done neither.
func guardedWalk(stmt ast.Stmt, f astutil.WalkFunc) (err error, panicked bool, pval string) {
	defer func() {
		if r := recover(); r != nil {
			panicked, pval = true, panicText(r)
		}
	}()
	return astutil.Walk(stmt, f), false, ""
}

func panicText(r interface{}) (s string) {
	defer func() {
		if recover() != nil {
			s = fmt.Sprintf("panic value of type %T (not printable)", r)
		}
	}()
	if e, ok := r.(error); ok {
		return e.Error()
	}
	return fmt.Sprint(r)
}

// errText renders an error that the code under test handed out. The verdict "Walk returned an error"
// is Go's own (`err != nil`) and never depends on this text; but the value may be anything that is
// != nil, also a nil pointer in the interface whose Error method cannot run. ok=false: Error() panicked.
func errText(err error) (msg string, ok bool, dyn string) {
	dyn = fmt.Sprintf("%T", err)
	if rv := reflect.ValueOf(err); rv.Kind() == reflect.Ptr && rv.IsNil() {
		dyn += "(nil)"
	}
	defer func() {
		if r := recover(); r != nil {
			msg, ok = "Error() panicked: "+panicText(r), false
		}
	}()
	return err.Error(), true, dyn
}

func oracle(c Case, o *h.Obs) *h.Fail {
	o.Key = c.Src
	stmt, err := parser.ParseSrc(c.Src)
	if err != nil {
		o.Excluded = "generator produced unparseable text (harness problem): " + err.Error()
		return nil
	}
	nodes := dump.Nodes(stmt)
	kinds := map[string]bool{}
	nrare := 0
	for _, n := range nodes {
		if !kinds[n.Kind] {
			kinds[n.Kind] = true
			if rare[n.Kind] {
				nrare++
			}
		}
		if n.Parent != nil {
			o.Class("node_" + n.Kind)
		}
	}
	o.NonTrivial = nrare >= 3

	order := map[interface{}]int{}
	var visited []interface{}
	werr, wpanic, wpval := guardedWalk(stmt, func(x interface{}) error {
		if _, ok := order[x]; !ok {
			order[x] = len(visited)
		}
		visited = append(visited, x)
		return nil
	})
	if wpanic {
		return h.Failf("C17|walk-panicked|"+strings.Join(strings.Fields(wpval), " "), "source:\n%s\nWalk did not return: it panicked after %d callbacks (callback never fails, never panics): %s", c.Src, len(visited), wpval)
	}
	if werr != nil {
		// the callback returned nil every time, so any result that is != nil is an error Walk made up
		msg, printable, dyn := errText(werr)
		if !printable {
			return h.Failf("C17|walk-error-unprintable|"+dyn, "source:\n%s\nWalk returned a result != nil after %d callbacks although the callback never returned an error; dynamic type %s, %s", c.Src, len(visited), dyn, msg)
		}
		return h.Failf("C17|walk-error|"+strings.Join(strings.Fields(msg), " "), "source:\n%s\nWalk returned: %s", c.Src, msg)
	}
	o.Class("walk_returned_nil")
	var missing []string
	for _, n := range nodes {
		pos, ok := order[n.Ptr]
		if !ok {
			missing = append(missing, n.Kind+" under "+fmt.Sprintf("%T", n.Parent))
			continue
		}
		if n.Parent != nil {
			// a shared node object has several parents: one of them must have been presented first
			okParent := false
			for _, par := range n.Parents {
				if pp, pok := order[par]; pok && pp < pos {
					okParent = true
				}
			}
			if !okParent {
				return h.Failf("C17|child-before-parent|"+n.Kind, "source:\n%s\nnode %s was presented before (any of) its parent(s) %T", c.Src, n.Kind, n.Parent)
			}
		}
	}
	if len(missing) > 0 {
		sort.Strings(missing)
		return h.Failf("C17|node-not-visited|"+missing[0], "source:\n%s\n%d of %d nodes never reached the callback: %v", c.Src, len(missing), len(nodes), missing)
	}

	// abort clause
	if len(visited) > 0 {
		stopAt := c.Abort % len(visited)
		sentinel := errors.New("stop here")
		calls := 0
		aerr, apanic, apval := guardedWalk(stmt, func(x interface{}) error {
			calls++
			if calls-1 == stopAt {
				return sentinel
			}
			return nil
		})
		if apanic {
			return h.Failf("C17|abort-walk-panicked|"+strings.Join(strings.Fields(apval), " "), "source:\n%s\ncallback returned its error at call %d; Walk panicked after %d callbacks: %s", c.Src, stopAt, calls, apval)
		}
		if aerr != sentinel {
			got := "nil"
			if aerr != nil {
				m, _, dyn := errText(aerr)
				got = dyn + ": " + m
			}
			return h.Failf("C17|abort-error-not-returned", "source:\n%s\ncallback returned its error at call %d, Walk returned %s", c.Src, stopAt, got)
		}
		if calls != stopAt+1 {
			return h.Failf("C17|walk-continued-after-abort", "source:\n%s\ncallback returned its error at call %d but was called %d times", c.Src, stopAt, calls)
		}
		o.Class("abort_checked")
	}
	return nil
}

func TestC17(t *testing.T) {
	c := h.New(t, "C17")
	defer c.Finish()
	c.Rule("programs from the full-grammar generator (internal/wild: every statement and expression production in every child position) parsed with parser.ParseSrc; non-trivial = the tree contains >= 3 node kinds that the repo's own TestWalk sample lacks; distinct by source text; class counters = node kinds met below the root")
	h.Run(c, "walk", c.N(15000, 150000), gen, oracle)
}
