// C17 — the AST walker reaches every node of every parsed program.
// Oracle: a generic reflection walk over the parsed tree (internal/dump.Nodes) gives the
// node set N; astutil.Walk must present every n in N, each after its reflective parent,
// return nil, and abort at once with the callback's own error. "Returned an error" is Go's own
// test (result != nil); the result is only rendered for the report, behind a recover, and a walk
// that panics instead of returning is a finding of its own (walk-panicked), never a harness fault.
package c17

import (
	"errors"
	"fmt"
	"reflect"
	"runtime"
	"sort"
	"strings"
	"sync"
	"sync/atomic"
	"testing"

	"github.com/mattn/anko/ast"
	"github.com/mattn/anko/ast/astutil"
	"github.com/mattn/anko/parser"
	"pgregory.net/rapid"

	"verif/internal/dump"
	"verif/internal/h"
	"verif/internal/wild"
)

type Case struct {
	Src   string `json:"src"`
	Abort int    `json:"abort"` // abort at the (Abort mod visited)-th callback; < 0: no abort run
}

func gen(t *rapid.T) Case {
	src := wild.Program(t, wild.Opts{Loops: true, Go: true, HugeInts: true, MaxDepth: 3, MaxStmts: 3})
	if rapid.IntRange(0, 2).Draw(t, "shapes") == 0 {
		// long and deep shapes of one node kind: chains, nests and lists far beyond what the
		// depth-bounded generator makes (a walker that loops or buffers instead of recursing
		// has its boundaries there)
		n := rapid.IntRange(1, 3).Draw(t, "nshapes")
		for i := 0; i < n; i++ {
			src += "\n" + genShape(t)
		}
	}
	if rapid.Uint64().Draw(t, "large")%400 == 7 {
		// a large flat program: thousands of ordinary statements, tens of thousands of nodes
		line := rapid.SampledFrom([]string{"total = add(total, items[i].price)", "x = f(a, b) + g(c)[0]", "m[k] = {\"a\": [1, 2], \"b\": h(x)}", "if a { b = c.d(1) } else { e = -f }", "v, ok = <-ch"}).Draw(t, "line")
		n := rapid.SampledFrom([]int{1200, 2500, 4000}).Draw(t, "lines")
		src = strings.Repeat(line+"\n", n) + src
	}
	return Case{Src: src, Abort: rapid.IntRange(0, 400).Draw(t, "abort")}
}

func shapeLen(t *rapid.T) int {
	if rapid.Bool().Draw(t, "long") {
		return rapid.IntRange(14, 40).Draw(t, "len")
	}
	return rapid.IntRange(2, 13).Draw(t, "len")
}

func genShape(t *rapid.T) string {
	n := shapeLen(t)
	term := func(i int) string {
		switch rapid.IntRange(0, 4).Draw(t, "term") {
		case 0:
			return fmt.Sprintf("t%d", i)
		case 1:
			return fmt.Sprintf("%d", i)
		case 2:
			return fmt.Sprintf("f%d(%d)", i, i)
		case 3:
			return fmt.Sprintf("\"s%d\"", i)
		default:
			return fmt.Sprintf("l[%d]", i)
		}
	}
	join := func(ops []string) string {
		var b strings.Builder
		for i := 0; i < n; i++ {
			if i > 0 {
				b.WriteString(" " + rapid.SampledFrom(ops).Draw(t, "op") + " ")
			}
			b.WriteString(term(i))
		}
		return b.String()
	}
	nest := func(open, close, leaf string) string {
		return strings.Repeat(open, n) + leaf + strings.Repeat(close, n)
	}
	switch rapid.IntRange(0, 19).Draw(t, "shape") {
	case 0:
		return "x = " + join([]string{"+", "-"})
	case 1:
		return "x = " + join([]string{"+", "-", "*", "/", "%", "&", "|", "<<", ">>"})
	case 2:
		return "x = " + join([]string{"&&", "||"})
	case 3:
		return "x = " + join([]string{"==", "!=", "<", ">=", "+", "&&"})
	case 4:
		return "x = " + join([]string{"??"})
	case 5:
		// ternary chain, right-nested
		var b strings.Builder
		for i := 0; i < n; i++ {
			fmt.Fprintf(&b, "c%d ? %s : ", i, term(i))
		}
		return "x = " + b.String() + "0"
	case 6:
		return "x = " + nest("f(", ")", "1")
	case 7:
		return "x = a" + strings.Repeat("[0]", n)
	case 8:
		var b strings.Builder
		for i := 0; i < n; i++ {
			fmt.Fprintf(&b, ".m%d", i)
		}
		return "x = a" + b.String()
	case 9:
		// separated by blanks: "--" and "&&" are tokens of their own
		return "x = " + strings.Repeat(rapid.SampledFrom([]string{"- ", "! ", "^ ", "* ", "& "}).Draw(t, "un"), n) + "y"
	case 10:
		return "x = " + nest("(", ")", "1 + 2")
	case 11:
		return "x = " + nest("[", "]", "1")
	case 12:
		return "x = " + nest("{\"k\": ", "}", "1")
	case 13:
		return "x = " + nest("func() { return ", " }", "1")
	case 14:
		terms := make([]string, n)
		for i := range terms {
			terms[i] = term(i)
		}
		l := strings.Join(terms, ", ")
		return rapid.SampledFrom([]string{"x = [" + l + "]", "x = f(" + l + ")", "return " + l, "x = []interface{" + l + "}", "go f(" + l + ")", "defer f(" + l + ")"}).Draw(t, "listform")
	case 15:
		var b strings.Builder
		b.WriteString("if c0 {\n a = 0\n}")
		for i := 1; i < n; i++ {
			fmt.Fprintf(&b, " else if c%d {\n a = %s\n}", i, term(i))
		}
		return b.String() + " else {\n a = 1\n}"
	case 16:
		var b strings.Builder
		b.WriteString("switch s {\n")
		for i := 0; i < n; i++ {
			fmt.Fprintf(&b, "case %d, %s:\n a = %d\n", i, term(i), i)
		}
		return b.String() + "default:\n a = 0\n}"
	case 17:
		return nest("if a {\n", "\n}", "b = 1")
	case 18:
		return nest("for {\n", "\n}", "break")
	default:
		return "x = " + join([]string{"??", "+", "||", "==", "*"})
	}
}

// node kinds the repo's own TestWalk sample does not contain
var rare = map[string]bool{"DeleteStmt": true, "CloseStmt": true, "ChanStmt": true, "NilCoalescingOpExpr": true, "MakeTypeExpr": true,
	"LenExpr": true, "SwitchCaseStmt": true, "SliceExpr": true, "TernaryOpExpr": true, "DerefExpr": true, "AddrExpr": true, "IncludeExpr": true,
	"ChanExpr": true, "MakeExpr": true, "ImportExpr": true, "ModuleStmt": true, "TryStmt": true, "GoroutineStmt": true, "DeferStmt": true, "LetMapItemStmt": true}

// guardedWalk runs astutil.Walk and turns a Go panic escaping from it into a value: the walk of a
// parser-made tree with a callback that never panics has to come back ("presents every node ... and
// returns no error"), a walk that panics has done neither.
func guardedWalk(stmt ast.Stmt, f astutil.WalkFunc) (err error, panicked bool, pval string) {
	defer func() {
		if r := recover(); r != nil {
			panicked, pval = true, panicText(r)
		}
	}()
	return astutil.Walk(stmt, f), false, ""
}

func panicText(r interface{}) (s string) {
	defer func() {
		if recover() != nil {
			s = fmt.Sprintf("panic value of type %T (not printable)", r)
		}
	}()
	if e, ok := r.(error); ok {
		return e.Error()
	}
	return fmt.Sprint(r)
}

// errText renders an error that the code under test handed out. The verdict "Walk returned an error"
// is Go's own (`err != nil`) and never depends on this text; but the value may be anything that is
// != nil, also a nil pointer in the interface whose Error method cannot run. ok=false: Error() panicked.
func errText(err error) (msg string, ok bool, dyn string) {
	dyn = fmt.Sprintf("%T", err)
	if rv := reflect.ValueOf(err); rv.Kind() == reflect.Ptr && rv.IsNil() {
		dyn += "(nil)"
	}
	defer func() {
		if r := recover(); r != nil {
			msg, ok = "Error() panicked: "+panicText(r), false
		}
	}()
	return err.Error(), true, dyn
}

// judgeFull judges what one complete walk (callback never failed) presented against the reflective node
// set: every node presented, each after one of its reflective parents. pre is the signature prefix of the
// sub-check; detail=false keeps schedule-dependent detail (which node was the first one missing) out of
// the signature.
func judgeFull(pre, src string, nodes []dump.Node, visited []interface{}, detail bool) (f *h.Fail) {
	// what the callback was handed comes from the code under test: a value that cannot even be compared
	// or hashed (seen: a half-written interface value) is a finding about Walk, not a fault of the harness
	defer func() {
		if r := recover(); r != nil {
			f = h.Failf(pre+"presented-value-unusable", "among the %d values Walk handed to the callback there is one that is no node at all: using it as a map key panicked: %s\nsource:\n%s", len(visited), panicText(r), src)
		}
	}()
	return judgeFull0(pre, src, nodes, visited, detail)
}

func judgeFull0(pre, src string, nodes []dump.Node, visited []interface{}, detail bool) *h.Fail {
	order := make(map[interface{}]int, len(visited))
	for i, x := range visited {
		if _, ok := order[x]; !ok {
			order[x] = i
		}
	}
	var missing []string
	for _, n := range nodes {
		pos, ok := order[n.Ptr]
		if !ok {
			missing = append(missing, n.Kind+" under "+fmt.Sprintf("%T", n.Parent))
			continue
		}
		if n.Parent != nil {
			// a shared node object has several parents: one of them must have been presented first
			okParent := false
			for _, par := range n.Parents {
				if pp, pok := order[par]; pok && pp < pos {
					okParent = true
				}
			}
			if !okParent {
				return h.Failf(pre+"child-before-parent|"+n.Kind, "source:\n%s\nnode %s was presented before (any of) its parent(s) %T", src, n.Kind, n.Parent)
			}
		}
	}
	if len(missing) > 0 {
		if !detail {
			first := missing[0]
			return h.Failf(pre+"node-not-visited", "%d of %d nodes never reached the callback (%d callbacks in all); first missing in tree order: %s\nsource:\n%s", len(missing), len(nodes), len(visited), first, src)
		}
		sort.Strings(missing)
		return h.Failf(pre+"node-not-visited|"+missing[0], "source:\n%s\n%d of %d nodes never reached the callback: %v", src, len(missing), len(nodes), missing)
	}
	return nil
}

func oracle(c Case, o *h.Obs) *h.Fail {
	o.Key = c.Src
	stmt, err := parser.ParseSrc(c.Src)
	if err != nil {
		o.Excluded = "generator produced unparseable text (harness problem): " + err.Error()
		return nil
	}
	nodes := dump.Nodes(stmt)
	kinds := map[string]bool{}
	nrare := 0
	for _, n := range nodes {
		if !kinds[n.Kind] {
			kinds[n.Kind] = true
			if rare[n.Kind] {
				nrare++
			}
		}
		if n.Parent != nil {
			o.Class("node_" + n.Kind)
		}
	}
	o.NonTrivial = nrare >= 3

	var visited []interface{}
	werr, wpanic, wpval := guardedWalk(stmt, func(x interface{}) error {
		visited = append(visited, x)
		return nil
	})
	if wpanic {
		return h.Failf("C17|walk-panicked|"+strings.Join(strings.Fields(wpval), " "), "source:\n%s\nWalk did not return: it panicked after %d callbacks (callback never fails, never panics): %s", c.Src, len(visited), wpval)
	}
	if werr != nil {
		// the callback returned nil every time, so any result that is != nil is an error Walk made up
		msg, printable, dyn := errText(werr)
		if !printable {
			return h.Failf("C17|walk-error-unprintable|"+dyn, "source:\n%s\nWalk returned a result != nil after %d callbacks although the callback never returned an error; dynamic type %s, %s", c.Src, len(visited), dyn, msg)
		}
		return h.Failf("C17|walk-error|"+strings.Join(strings.Fields(msg), " "), "source:\n%s\nWalk returned: %s", c.Src, msg)
	}
	o.Class("walk_returned_nil")
	if f := judgeFull("C17|", c.Src, nodes, visited, true); f != nil {
		return f
	}

	// abort clause
	if len(visited) > 0 {
		stopAt := c.Abort % len(visited)
		sentinel := errors.New("stop here")
		calls := 0
		aerr, apanic, apval := guardedWalk(stmt, func(x interface{}) error {
			calls++
			if calls-1 == stopAt {
				return sentinel
			}
			return nil
		})
		if apanic {
			return h.Failf("C17|abort-walk-panicked|"+strings.Join(strings.Fields(apval), " "), "source:\n%s\ncallback returned its error at call %d; Walk panicked after %d callbacks: %s", c.Src, stopAt, calls, apval)
		}
		if aerr != sentinel {
			got := "nil"
			if aerr != nil {
				m, _, dyn := errText(aerr)
				got = dyn + ": " + m
			}
			return h.Failf("C17|abort-error-not-returned", "source:\n%s\ncallback returned its error at call %d, Walk returned %s", c.Src, stopAt, got)
		}
		if calls != stopAt+1 {
			return h.Failf("C17|walk-continued-after-abort", "source:\n%s\ncallback returned its error at call %d but was called %d times", c.Src, stopAt, calls)
		}
		o.Class("abort_checked")
	}
	return nil
}

// ---- sub-check `together`: several walks of one parsed tree at the same time ----
//
// The statement speaks of "walking any tree produced by the parser": every single walk has to present
// every node, whatever else happens to that tree meanwhile - and the only thing that may happen to it
// here is other walks (nothing in this sub-check writes to a tree). Each walker has its own callback and
// its own record, and each is judged on its own, by the rules of sub-check `walk`.

type TCase struct {
	Src string `json:"src"`
	// one entry per goroutine: < 0 = complete walk; >= 0: the callback returns its error at call
	// (entry mod number of nodes of the tree), counted from 0
	Walkers []int `json:"walkers"`
	Trees   int   `json:"trees"` // 1: all walkers on one root; 2: on two independent parses of the text, alternating
	Warm    bool  `json:"warm"`  // a complete walk of every tree has finished before the walkers start
	Rounds  int   `json:"rounds"` // the whole experiment is done this many times, each time on fresh parses (0 = once)
}

var flatLines = []string{"total = add(total, items[i].price)", "x = f(a, b) + g(c)[0]", "m[k] = {\"a\": [1, 2], \"b\": h(x)}", "if a { b = c.d(1) } else { e = -f }", "v, ok = <-ch",
	"a = b + c * f(d, e[1])\nif a > 2 { g(a) } else { h(a ? 1 : 2) }", "for i in [1, 2] { s += len(l[i:2]) ?? 0 }", "switch x { case 1, y: delete(m, k) default: close(c) }"}

func genTogether(t *rapid.T) TCase {
	src := wild.Program(t, wild.Opts{Loops: true, Go: true, HugeInts: true, MaxDepth: 3, MaxStmts: 3})
	if rapid.IntRange(0, 2).Draw(t, "shapes") == 0 {
		src += "\n" + genShape(t)
	}
	// the size of the tree is the length of time a walk takes, and with it the overlap of the walks
	lines := 0
	switch sz := rapid.IntRange(0, 39).Draw(t, "size"); {
	case sz < 12:
	case sz < 26:
		lines = rapid.IntRange(5, 80).Draw(t, "lines")
	case sz < 36:
		lines = rapid.IntRange(81, 300).Draw(t, "lines")
	case sz < 39 || rapid.IntRange(0, 3).Draw(t, "large") != 0:
		lines = rapid.IntRange(301, 1000).Draw(t, "lines")
	default:
		lines = rapid.SampledFrom([]int{1500, 2500, 4000}).Draw(t, "lines")
	}
	if lines > 0 {
		line := rapid.SampledFrom(flatLines).Draw(t, "line")
		if rapid.Bool().Draw(t, "front") {
			src = strings.Repeat(line+"\n", lines) + src
		} else {
			src = src + "\n" + strings.Repeat(line+"\n", lines)
		}
	}
	k := rapid.IntRange(2, 8).Draw(t, "walkers")
	ws := make([]int, k)
	for i := range ws {
		ws[i] = -1
		if rapid.IntRange(0, 3).Draw(t, "aborts") == 0 {
			ws[i] = rapid.IntRange(0, 200000).Draw(t, "at")
		}
	}
	trees := 1
	if rapid.IntRange(0, 3).Draw(t, "two") == 0 {
		trees = 2
	}
	rounds := 1
	if lines <= 80 {
		rounds = rapid.IntRange(1, 3).Draw(t, "rounds")
	}
	return TCase{Src: src, Walkers: ws, Trees: trees, Warm: rapid.IntRange(0, 3).Draw(t, "warm") == 0, Rounds: rounds}
}

type walkerOut struct {
	visited  []interface{}
	calls    int
	err      error
	panicked bool
	pval     string
}

func sizeClass(n int) string {
	switch {
	case n < 100:
		return "lt100"
	case n < 1000:
		return "lt1000"
	case n < 10000:
		return "lt10000"
	}
	return "ge10000"
}

func oracleTogether(c TCase, o *h.Obs) *h.Fail {
	o.Key = fmt.Sprintf("%v|%d|%v|%d|%s", c.Walkers, c.Trees, c.Warm, c.Rounds, c.Src)
	o.Note = fmt.Sprintf("walkers=%v trees=%d warm=%v rounds=%d src=%s", c.Walkers, c.Trees, c.Warm, c.Rounds, c.Src)
	if len(c.Walkers) < 2 || len(c.Walkers) > 64 || c.Trees < 1 || c.Trees > 2 || c.Rounds < 0 || c.Rounds > 100 {
		o.Excluded = "together: malformed case"
		return nil
	}
	rounds := c.Rounds
	if rounds == 0 {
		rounds = 1
	}
	for r := 0; r < rounds; r++ {
		oo := o
		if r > 0 {
			oo = &h.Obs{} // classes are counted once per case
		}
		if f := togetherOnce(c, oo); f != nil {
			f.Msg = fmt.Sprintf("round %d of %d: ", r+1, rounds) + f.Msg
			return f
		}
		if o.Excluded != "" {
			return nil
		}
	}
	o.Class("together_rounds_%d", rounds)
	return nil
}

func togetherOnce(c TCase, o *h.Obs) *h.Fail {
	short := c.Src
	if len(short) > 1500 {
		short = short[:700] + fmt.Sprintf("\n... (%d bytes in all) ...\n", len(c.Src)) + short[len(short)-700:]
	}
	phase := "cold"
	if c.Warm {
		phase = "warm"
	}
	pre := "C17|together-" + phase + "|"
	// every case parses anew: the roots below have never been walked by anybody
	roots := make([]ast.Stmt, c.Trees)
	nodes := make([][]dump.Node, c.Trees)
	for i := range roots {
		stmt, err := parser.ParseSrc(c.Src)
		if err != nil {
			o.Excluded = "generator produced unparseable text (harness problem): " + err.Error()
			return nil
		}
		roots[i], nodes[i] = stmt, dump.Nodes(stmt)
	}
	kinds := map[string]bool{}
	nrare := 0
	for _, n := range nodes[0] {
		if !kinds[n.Kind] {
			kinds[n.Kind] = true
			if rare[n.Kind] {
				nrare++
			}
		}
	}
	o.NonTrivial = nrare >= 3
	if len(nodes[0]) == 0 {
		o.Excluded = "together: empty tree"
		return nil
	}
	if c.Warm {
		for i := range roots {
			var visited []interface{}
			werr, wpanic, wpval := guardedWalk(roots[i], func(x interface{}) error { visited = append(visited, x); return nil })
			if wpanic {
				return h.Failf("C17|together-first|walk-panicked", "the first, solitary walk of the tree panicked after %d callbacks: %s\nsource:\n%s", len(visited), wpval, short)
			}
			if werr != nil {
				msg, _, dyn := errText(werr)
				return h.Failf("C17|together-first|walk-error", "the first, solitary walk of the tree returned %s: %s (callback never fails)\nsource:\n%s", dyn, msg, short)
			}
			if f := judgeFull("C17|together-first|", short, nodes[i], visited, false); f != nil {
				return f
			}
		}
	}

	k := len(c.Walkers)
	outs := make([]walkerOut, k)
	sentinels := make([]error, k)
	stops := make([]int, k)
	var ready int32
	var wg sync.WaitGroup
	for i := 0; i < k; i++ {
		ti := i % c.Trees
		stops[i] = -1
		if c.Walkers[i] >= 0 {
			stops[i] = c.Walkers[i] % len(nodes[ti])
			sentinels[i] = fmt.Errorf("walker %d stops here", i)
		}
		wg.Add(1)
		go func(i int, root ast.Stmt) {
			defer wg.Done()
			out := &outs[i]
			stop, sentinel := stops[i], sentinels[i]
			cb := func(x interface{}) error {
				out.calls++
				if stop >= 0 {
					if out.calls-1 == stop {
						return sentinel
					}
					return nil
				}
				out.visited = append(out.visited, x)
				return nil
			}
			// all walkers leave this line within a few instructions of each other
			atomic.AddInt32(&ready, 1)
			for atomic.LoadInt32(&ready) < int32(k) {
				runtime.Gosched()
			}
			out.err, out.panicked, out.pval = guardedWalk(root, cb)
		}(i, roots[ti])
	}
	wg.Wait()

	o.Class("together_" + phase)
	o.Class("together_walkers_%d", k)
	o.Class("together_trees_%d", c.Trees)
	o.Class("together_nodes_" + sizeClass(len(nodes[0])))
	naborting := 0
	for i := 0; i < k; i++ {
		out := &outs[i]
		n := len(nodes[i%c.Trees])
		who := fmt.Sprintf("walker %d of %d (%s, %d tree(s))", i, k, phase, c.Trees)
		if out.panicked {
			return h.Failf(pre+"walk-panicked", "%s: Walk panicked after %d callbacks (the callback never panics): %s\nsource:\n%s", who, out.calls, out.pval, short)
		}
		if stops[i] < 0 {
			if out.err != nil {
				msg, _, dyn := errText(out.err)
				return h.Failf(pre+"walk-error", "%s: Walk returned %s: %s after %d callbacks although its callback never returned an error\nsource:\n%s", who, dyn, msg, out.calls, short)
			}
			if f := judgeFull(pre, short, nodes[i%c.Trees], out.visited, false); f != nil {
				f.Msg = who + ": " + f.Msg
				return f
			}
			continue
		}
		naborting++
		if out.calls < stops[i]+1 {
			got := "nil"
			if out.err != nil {
				m, _, dyn := errText(out.err)
				got = dyn + ": " + m
			}
			return h.Failf(pre+"walk-ended-early", "%s: the tree has %d nodes and the callback was to return its error at call %d, but Walk came back (result %s) after only %d callbacks\nsource:\n%s", who, n, stops[i], got, out.calls, short)
		}
		if out.err != sentinels[i] {
			got := "nil"
			if out.err != nil {
				m, _, dyn := errText(out.err)
				got = dyn + ": " + m
			}
			return h.Failf(pre+"abort-error-not-returned", "%s: callback returned its error at call %d, Walk returned %s\nsource:\n%s", who, stops[i], got, short)
		}
		if out.calls != stops[i]+1 {
			return h.Failf(pre+"walk-continued-after-abort", "%s: callback returned its error at call %d but was called %d times\nsource:\n%s", who, stops[i], out.calls, short)
		}
	}
	o.Class("together_aborting_walkers_%d", naborting)
	return nil
}

// schedule dependent findings are recorded as found (a smaller tree is a shorter overlap: shrinking
// works against reproduction)
func oracleTogetherNoShrink(c TCase, o *h.Obs) *h.Fail {
	f := oracleTogether(c, o)
	if f != nil && !strings.HasPrefix(f.Sig, "C17|together-first|") {
		f.NoShrink = true
	}
	return f
}

func TestC17(t *testing.T) {
	c := h.New(t, "C17")
	defer c.Finish()
	c.Rule("programs from the full-grammar generator (internal/wild: every statement and expression production in every child position) parsed with parser.ParseSrc; non-trivial = the tree contains >= 3 node kinds that the repo's own TestWalk sample lacks; distinct by source text; class counters = node kinds met below the root")
	h.Run(c, "walk", c.N(15000, 150000), gen, oracle)
	c.Rule("together: a program of the same generator, lengthened by 0-4000 copies of one statement, parsed anew (a root nobody has walked), then walked by 2-8 goroutines at the same moment, each with a callback and a record of its own; a quarter of the walkers return an error at a drawn call; a quarter of the cases use two independent parses of the text, a quarter start after one solitary complete walk; every walker is judged alone by the rules of `walk`; non-trivial as in `walk`")
	h.Run(c, "together", c.N(450, 4500), genTogether, oracleTogetherNoShrink)
	c.Rule("errs: a program of the same generator walked 1-4 times, each time with a callback that returns one error value at a drawn callback (first, last, early, anywhere) and nil otherwise; the error values come from a pool of 50: errors.New / fmt.Errorf values, sentinel errors of the standard library (filepath.SkipDir, filepath.SkipAll, io.EOF, context.Canceled, os.ErrNotExist, syscall.Errno values, ...), anko's own (vm.ErrBreak, vm.ErrContinue, vm.ErrReturn, *parser.Error, *vm.Error), error values of unusual dynamic types (struct value, typed nil pointer, integer, slice and func types that == cannot compare, an error whose Is says yes to everything), a quarter of them wrapped (fmt %w, errors.Join, *fs.PathError, a type with Unwrap); Walk must return that very value and the callback must not be called again; non-trivial = >= 3 rare node kinds and at least one error that is not an errors.New / fmt.Errorf value")
	h.Run(c, "errs", c.N(2500, 25000), genErrs, oracleErrs)
	c.Rule("again: a program of the same generator (three quarters with 1-3 extra anonymous calls: callee a call, member, index, function literal, parenthesised; 0-4 arguments, nested) is parsed once and walked 2-4 times; between the walks every value a walk presented that is NOT one of the tree's own nodes (as enumerated by reflection) is written over - zeroed, slices set to nil, halved, replaced by nodes of the harness's own, reordered - after the walk returned, the moment it was presented (that walk is not judged), or after a walk stopped by a callback error; only exported fields of the presented struct itself are written, the tree is compared with its rendering as parsed after every walk (a difference excludes the case); every walk whose callback only records, and always the last one, is judged by the rules of `walk`; non-trivial = at least one value outside the tree was written over before the last walk")
	h.Run(c, "again", c.N(2500, 25000), genAgain, oracleAgain)
}
