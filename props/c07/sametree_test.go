// C07, sub-check `sametree`: one parsed tree evaluated by several goroutines at the same time.
//
// The statement is universal over evaluations: "each operand expression is evaluated exactly once and in
// left-to-right source order", "`&&`, `||`, `?:` and `??` evaluate only the operands their result depends
// on", "no operand is ever evaluated twice" - for every evaluation of the expression, and it names calls
// "through `go`" itself, i.e. script code that runs while other script code runs. It makes no exception
// for what else is being evaluated at that moment. Here a host parses a program once and runs the tree in
// 2-8 (mostly 2-4) goroutines, each in a fresh environment of its own (own probe log, own variables), so the runs share
// nothing a script can name; each run is judged on its own against the reference interpreter, like a
// solitary run of sub-check `evalorder`. On a correct interpreter the sub-check always passes; against a
// faulty one detection depends on the schedule (and is void with GOMAXPROCS=1).
package c07

import (
	"fmt"
	"strings"

	"pgregory.net/rapid"

	"verif/internal/h"
	. "verif/internal/prog"
)

type SCase struct {
	Prog    []*N           `json:"prog"`
	Workers int            `json:"workers"`
	Warm    bool           `json:"warm"`             // one complete solitary run has finished before the simultaneous ones start
	Rounds  int            `json:"rounds,omitempty"` // the experiment is done this many times, each on a fresh parse
	Meets   int            `json:"meets"`            // meeting points in the program
	// Go: the simultaneous runs are calls of ONE script function (the program is its body) started by `go`
	// statements of one script in one environment, every call with probe functions of its own; otherwise
	// host goroutines run the parsed program, each in an environment of its own
	Go bool `json:"go,omitempty"`
	GenFeat map[string]int `json:"genfeat,omitempty"`
}

func meetStmt() *N { return &N{K: "setup", S: "meet()"} }

// chainRoot is a statement around a long operator chain: the runs meet right before it.
func (g *g) chainRoot() *N {
	d := g.n(0, 2, "depth")
	hi := 8
	switch g.n(0, 3, "chainsize") {
	case 0:
		hi = 3
	case 2, 3:
		hi = 32
	}
	ch := g.chainE(d, 2, hi)
	switch g.n(0, 5, "chainuse") {
	case 0:
		g.f("chain_in_ternary")
		return &N{K: "let", Ps: []string{"x"}, Ns: []*N{{K: "tern", Ns: []*N{ch, g.leaf(Int(1), false), g.leaf(Int(2), false)}}}}
	case 1:
		g.f("chain_in_if")
		return &N{K: "if", Ns: []*N{ch}, B: true, Ss: [][]*N{
			{{K: "let", Ps: []string{"y"}, Ns: []*N{g.leaf(Int(1), false)}}},
			{{K: "let", Ps: []string{"y"}, Ns: []*N{g.leaf(Int(2), false)}}}}}
	case 2:
		g.f("chain_as_argument")
		return &N{K: "let", Ps: []string{"z"}, Ns: []*N{{K: "call", S: "s3", Ns: []*N{g.leaf(Int(1), false), ch, g.leaf(Int(3), false)}}}}
	case 3:
		g.f("chain_in_list_literal")
		return &N{K: "let", Ps: []string{"z"}, Ns: []*N{{K: "list", Ns: []*N{g.leaf(Int(1), false), ch, g.leaf(Int(3), false)}}}}
	default:
		g.f("chain_assigned")
		return &N{K: "let", Ps: []string{"x"}, Ns: []*N{ch}}
	}
}

func genSameTree(t *rapid.T) SCase {
	gg := &g{t: t, feat: map[string]int{}}
	prog := prelude()
	// every root is one more place that the runs reach together for the first time
	nroots := gg.n(2, 8, "roots")
	meets := 0
	for i := 0; i < nroots; i++ {
		var r *N
		if gg.n(0, 1, "chainroot") == 0 {
			r = gg.chainRoot()
		} else {
			r = gg.root()
		}
		prog = append(prog, meetStmt())
		meets++
		if r.K == "defer" || r.K == "var" {
			prog = append(prog, r)
			continue
		}
		prog = append(prog, &N{K: "try", Ss: [][]*N{{r}, {{K: "expr", Ns: []*N{P(int64(9000 + i))}}}}})
	}
	prog = append(prog, &N{K: "ret", Ns: []*N{{K: "list", Ns: []*N{Id("x"), Id("y"), Id("z"), Id("acc"), gg.anyE(1)}}}})
	// two runs are enough for an overlap; every further one makes a meeting more expensive (all of them
	// have to be on a processor at the same moment), so more than four are rare
	workers := gg.n(2, 4, "workers")
	if gg.n(0, 9, "many") == 0 {
		workers = gg.n(5, 8, "workers")
	}
	return SCase{Go: gg.n(0, 2, "through_go") == 0, Prog: prog, Workers: workers, Warm: gg.n(0, 4, "warm") == 0, Rounds: gg.n(1, 2, "rounds"), Meets: meets, GenFeat: gg.feat}
}

func oracleSameTree(c SCase, o *h.Obs) *h.Fail {
	if c.Workers < 2 || c.Workers > 64 || c.Rounds < 0 || c.Rounds > 100 {
		o.Excluded = "sametree: malformed case"
		return nil
	}
	rounds := c.Rounds
	if rounds == 0 {
		rounds = 1
	}
	phase := "cold"
	if c.Warm {
		phase = "warm"
	}
	metAll := true
	for r := 0; r < rounds; r++ {
		var v *SharedVerdict
		if c.Go {
			v = JudgeSharedGo(c.Prog, c.Workers, c.Warm)
		} else {
			v = JudgeShared(c.Prog, c.Workers, c.Warm)
		}
		o.Key = fmt.Sprintf("%d|%v|%d|%s", c.Workers, c.Warm, rounds, v.Src)
		o.Note = fmt.Sprintf("workers=%d warm=%v rounds=%d\n%s", c.Workers, c.Warm, rounds, v.Src)
		if v.Excluded != "" {
			o.Excluded = "unspecified: " + v.Excluded
			return nil
		}
		if !v.OK {
			// is it about running at the same time at all? The program is run once more the plain way:
			// parsed anew, alone. A difference there is the business of `evalorder` and gets its signature
			plain := make([]*N, 0, len(c.Prog))
			for _, st := range c.Prog {
				if st.K != "setup" { // without the meeting points
					plain = append(plain, st)
				}
			}
			if vs := Judge(plain); !vs.OK && vs.Excluded == "" {
				sig := "C07|" + vs.Clause
				if vs.Clause == "trace" {
					if b := blameForm(c.Prog, vs.Out.Trace, vs.GotTrace); b != "" {
						sig += "|" + b
					}
				}
				f := h.Failf(sig, "program (run alone, parsed anew; sub-check sametree met it first):\n%s\n%s", vs.Src, vs.Detail)
				f.NoShrink = vs.Clause == "no-termination"
				return f
			}
			who := fmt.Sprintf("round %d of %d, %s: ", r+1, rounds, v.Phase)
			if c.Go {
				what := map[bool]string{true: "the function had been called once before", false: "nobody had called the function before"}[c.Warm]
				switch v.Phase {
				case "first":
					who += "the first, solitary call of the script function work (its body is the program)"
				case "together":
					who += fmt.Sprintf("call %d of the %d calls of the one script function work that `go` statements had started and that went on at the same time (%s: %s), each with probe functions of its own", v.Worker, c.Workers, phase, what)
				default:
					who += fmt.Sprintf("a solitary call of the script function work after %d calls of it started by `go` had gone on at the same time (%s)", c.Workers, phase)
				}
				f := h.Failf("C07|same-function-through-go-"+v.Phase+"|"+v.Clause, "%s\nscript (meet() is where the calls wait for each other):\n%s\n%s", who, v.Src, v.Detail)
				f.NoShrink = v.Phase != "first"
				return f
			}
			switch v.Phase {
			case "first":
				who += "the first, solitary run of the parsed tree"
			case "together":
				who += fmt.Sprintf("run %d of the %d runs of the one parsed tree that went on at the same time (%s: %s), each in an environment of its own", v.Worker, c.Workers, phase,
					map[bool]string{true: "the tree had been run once before", false: "nobody had run the tree before"}[c.Warm])
			default:
				who += fmt.Sprintf("a solitary run of the parsed tree after %d runs of it had gone on at the same time (%s)", c.Workers, phase)
			}
			f := h.Failf("C07|same-tree-"+v.Phase+"|"+v.Clause, "%s\nprogram (meet() is where the runs wait for each other):\n%s\n%s", who, v.Src, v.Detail)
			// schedule dependent: a smaller program is a shorter overlap, shrinking works against reproduction
			f.NoShrink = v.Phase != "first"
			return f
		}
		metAll = metAll && v.Met == c.Meets
	}
	o.NonTrivial = countProbes(c.Prog) >= 3
	if c.Go {
		o.Class("sametree_calls_of_one_function_started_by_go")
	} else {
		o.Class("sametree_host_goroutines_run_one_parsed_program")
	}
	o.Class("sametree_" + phase)
	o.Class("sametree_workers_%d", c.Workers)
	o.Class("sametree_rounds_%d", rounds)
	if metAll {
		o.Class("sametree_all_runs_met_at_every_meeting_point")
	}
	for k, n := range c.GenFeat {
		if n > 0 && (strings.HasPrefix(k, "operator_chain") || strings.HasPrefix(k, "chain_")) {
			o.Class("sametree_gen_" + k)
		}
	}
	return nil
}
