// C07, added after the seventh round: an EARLIER operand is read from a slot (element of a typed
// slice, element of an untyped list, element of an array field, map entry, struct field, pointee)
// that a LATER operand of the same expression - or the callee, once the call has started - stores
// into. "Evaluated ... in left-to-right source order" means the earlier operand contributes the
// value it had when it was evaluated. The reference model evaluates operands to values, so the
// model's result is the expectation; nothing here is taken from the implementation.
//
// Only ints, strings and (for the container operand of an index / slice expression) lists are read
// from slots. No struct value and no Go array is ever read as a whole, and nothing is iterated.
package c07

import (
	"fmt"
	"sort"
	"strings"

	. "verif/internal/prog"
)

type slot struct {
	class string
	read  func() *N
	store func(v *N) *N
	// cont / contLen: the slot is element 0..contLen-1 of this list variable (spread calls)
	cont    string
	contLen int
}

func indexed(class, cont string, key *N) slot {
	return slot{
		class: class,
		read:  func() *N { return &N{K: "idx", Ns: []*N{Id(cont), key}} },
		store: func(v *N) *N { return &N{K: "letidx", Ns: []*N{Id(cont), key, v}} },
	}
}

// drawSlot picks the slot an operand is read from. str: a string-valued one.
func (g *g) drawSlot(str bool) slot {
	var s slot
	if str {
		switch g.n(0, 5, "strslot") {
		case 0, 1:
			s = indexed("typed_slice_element", "tstr", Int(int64(g.n(0, 1, "si"))))
		case 2:
			s = indexed("untyped_list_element", "uls", Int(int64(g.n(0, 1, "si"))))
		case 3:
			s = slot{class: "struct_field",
				read:  func() *N { return &N{K: "mem", S: "S", Ns: []*N{Id("hst")}} },
				store: func(v *N) *N { return &N{K: "letmem", S: "S", Ns: []*N{Id("hst"), v}} }}
		case 4:
			s = slot{class: "pointee",
				read:  func() *N { return &N{K: "deref", Ns: []*N{Id("spxs")}} },
				store: func(v *N) *N { return &N{K: "letderef", Ns: []*N{Id("spxs"), v}} }}
		default:
			s = indexed("map_entry", "sm", Str("s"))
		}
		g.f("slot_" + s.class)
		g.f("slot_holds_string")
		return s
	}
	switch g.n(0, 11, "intslot") {
	case 0, 1, 2:
		s = indexed("typed_slice_element", "ts", Int(int64(g.n(0, 2, "si"))))
		s.cont, s.contLen = "ts", 3
	case 3, 4:
		s = indexed("untyped_list_element", "ul", Int(int64(g.n(0, 2, "si"))))
		s.cont, s.contLen = "ul", 3
	case 5:
		s = indexed("map_entry", "sm", Str("k"))
	case 6:
		s = slot{class: "map_entry",
			read:  func() *N { return &N{K: "mem", S: "k", Ns: []*N{Id("sm")}} },
			store: func(v *N) *N { return &N{K: "letmem", S: "k", Ns: []*N{Id("sm"), v}} }}
	case 7, 8:
		s = slot{class: "struct_field",
			read:  func() *N { return &N{K: "mem", S: "F", Ns: []*N{Id("hst")}} },
			store: func(v *N) *N { return &N{K: "letmem", S: "F", Ns: []*N{Id("hst"), v}} }}
	case 9:
		// an element of the array field A of the Go struct (only the int element is read)
		i := Int(int64(g.n(0, 1, "si")))
		hA := func() *N { return &N{K: "mem", S: "A", Ns: []*N{Id("hst")}} }
		s = slot{class: "array_field_element",
			read:  func() *N { return &N{K: "idx", Ns: []*N{hA(), i}} },
			store: func(v *N) *N { return &N{K: "letidx", Ns: []*N{hA(), i, v}} }}
	case 10:
		s = slot{class: "pointee",
			read:  func() *N { return &N{K: "deref", Ns: []*N{Id("spx")}} },
			store: func(v *N) *N { return &N{K: "letderef", Ns: []*N{Id("spx"), v}} }}
	default:
		// a plain variable: no slot to keep (the comparison class)
		s = slot{class: "plain_variable",
			read:  func() *N { return Id("pv") },
			store: func(v *N) *N { return &N{K: "let", Ps: []string{"pv"}, Ns: []*N{v}} }}
	}
	g.f("slot_" + s.class)
	return s
}

// slotPrelude binds the containers that the given slot patterns name.
func slotPrelude(stmts []*N) []*N {
	if len(stmts) == 0 {
		return nil
	}
	used := map[string]bool{}
	Walk(stmts, func(n *N) {
		if n.K == "id" {
			used[n.S] = true
		}
	})
	list3 := func(b int64) *N { return &N{K: "list", Ns: []*N{Int(b), Int(b + 1), Int(b + 2)}} }
	tlist3 := func(b int64) *N { return &N{K: "tlist", S: "int64", Ns: []*N{Int(b), Int(b + 1), Int(b + 2)}} }
	all := []struct {
		name  string
		stmts []*N
	}{
		{"ts", []*N{{K: "let", Ps: []string{"ts"}, Ns: []*N{{K: "mkslice", S: "int64", I: 3}}}}},
		{"tstr", []*N{{K: "let", Ps: []string{"tstr"}, Ns: []*N{{K: "mkslice", S: "string", I: 2}}}}},
		{"ul", []*N{{K: "let", Ps: []string{"ul"}, Ns: []*N{{K: "list", Ns: []*N{Int(0), Int(0), Int(0)}}}}}},
		{"uls", []*N{{K: "let", Ps: []string{"uls"}, Ns: []*N{{K: "list", Ns: []*N{Str(""), Str("")}}}}}},
		{"sm", []*N{{K: "let", Ps: []string{"sm"}, Ns: []*N{{K: "map", Ns: []*N{Str("k"), Int(0), Str("s"), Str(""), Str("l"), list3(1)}}}}}},
		{"pv", []*N{{K: "let", Ps: []string{"pv"}, Ns: []*N{Int(0)}}}},
		// pointees: `var sx = v; spx = &sx`, sx is never used again (the model holds the pointee under the pointer's name)
		{"spx", []*N{{K: "var", Ps: []string{"sx"}, Ns: []*N{Int(0)}}, {K: "var", Ps: []string{"spx"}, Ns: []*N{{K: "addr", Ns: []*N{Id("sx")}}}}}},
		{"spxs", []*N{{K: "var", Ps: []string{"sxs"}, Ns: []*N{Str("")}}, {K: "var", Ps: []string{"spxs"}, Ns: []*N{{K: "addr", Ns: []*N{Id("sxs")}}}}}},
		// containers of lists: every element is stored before it is read
		{"ull", []*N{{K: "let", Ps: []string{"ull"}, Ns: []*N{{K: "list", Ns: []*N{list3(1), list3(4)}}}}}},
		{"tss", []*N{
			{K: "let", Ps: []string{"tss"}, Ns: []*N{{K: "mkslice", S: "[]int64", I: 2}}},
			{K: "letidx", Ns: []*N{Id("tss"), Int(0), tlist3(1)}},
			{K: "letidx", Ns: []*N{Id("tss"), Int(1), tlist3(4)}}}},
	}
	var out []*N
	for _, a := range all {
		if used[a.name] {
			out = append(out, a.stmts...)
		}
	}
	return out
}

func sval(str bool, k int) *N {
	if str {
		return Str(fmt.Sprintf("v%d", k))
	}
	return Int(int64(k))
}

// later builds the operand that stores into slots when it is evaluated and yields ret: a call of a
// function literal, or of a named function defined by a statement appended to pre. One time in
// three the stored values travel through parameters.
func (g *g) later(pre *[]*N, stores func(vals []*N) []*N, vals []*N, ret *N) *N {
	var ps []string
	var args []*N
	use := vals
	if g.n(0, 2, "laterparams") == 0 {
		g.f("slot_later_takes_the_new_values_as_arguments")
		use = nil
		for i, v := range vals {
			nm := fmt.Sprintf("w%d", i)
			ps = append(ps, nm)
			use = append(use, Id(nm))
			args = append(args, &N{K: "p", I: g.nid(), Ns: []*N{v}})
		}
	}
	body := []*N{{K: "expr", Ns: []*N{{K: "p", I: g.nid()}}}}
	body = append(body, stores(use)...)
	body = append(body, &N{K: "ret", Ns: []*N{ret}})
	fn := &N{K: "fn", Ps: ps, Ss: [][]*N{body}}
	if g.n(0, 1, "laternamed") == 0 {
		g.f("slot_later_is_a_named_function")
		name := fmt.Sprintf("sf%d", g.nid())
		*pre = append(*pre, &N{K: "let", Ps: []string{name}, Ns: []*N{fn}})
		return &N{K: "call", S: name, Ns: args}
	}
	g.f("slot_later_is_a_function_literal")
	return &N{K: "acall", Ns: append([]*N{fn}, args...)}
}

// operands returns n operands: the later one at a drawn position, reads of the slot (sometimes a
// constant) everywhere else; at least one read.
func (g *g) operands(n int, s slot, lat *N, str bool) []*N {
	pos := g.n(0, n-1, "laterpos")
	out := make([]*N, n)
	reads := 0
	for i := range out {
		switch {
		case i == pos:
			out[i] = lat
		case n > 2 && reads > 0 && g.n(0, 3, "constop") == 0:
			out[i] = sval(str, g.n(0, 2, "cv"))
		default:
			out[i] = s.read()
			reads++
		}
	}
	if pos == 0 {
		g.f("slot_later_operand_first")
	}
	if pos < n-1 {
		g.f("slot_read_after_the_store")
	}
	if pos > 0 {
		g.f("slot_read_before_the_store")
	}
	return out
}

var slotArith = []string{"+", "-", "*", "&", "|"}
var slotCmp = []string{"<", "<=", ">", ">=", "==", "!="}

// slotRoot yields the statements of one pattern (they run inside one try block).
func (g *g) slotRoot() []*N {
	var pre []*N
	form := g.n(0, 15, "slotform")
	switch form {
	case 14:
		form = 10
	case 15:
		form = 5
	}
	strOK := map[int]bool{0: true, 2: true, 5: true, 6: true, 7: true, 8: true, 9: true, 10: true, 11: true}
	str := strOK[form] && g.n(0, 3, "strslot?") == 0
	perm := [][2]int{{0, 1}, {0, 2}, {1, 0}, {1, 2}, {2, 0}, {2, 1}}[g.n(0, 5, "v0v1")]
	v0, v1 := perm[0], perm[1]
	r := g.n(0, 2, "ret")
	one := func(s slot) func(vals []*N) []*N {
		return func(vals []*N) []*N { return []*N{s.store(vals[0])} }
	}
	setX := func(e *N) *N { return &N{K: "let", Ps: []string{"x"}, Ns: []*N{e}} }
	iife := func(body ...*N) *N { return &N{K: "acall", Ns: []*N{{K: "fn", Ss: [][]*N{body}}}} }

	switch form {
	case 0, 1:
		// binary operators, two or three operands joined left to right
		g.f("slotform_binary_operator")
		s := g.drawSlot(str)
		lat := g.later(&pre, one(s), []*N{sval(str, v1)}, sval(str, r))
		ops := g.operands(g.n(2, 3, "nops"), s, lat, str)
		e := ops[0]
		for i := 1; i < len(ops); i++ {
			op := "+"
			last := i == len(ops)-1
			switch {
			case str && last:
				op = []string{"+", "==", "!="}[g.n(0, 2, "sop")]
			case !str && last && g.n(0, 1, "cmp") == 0:
				op = slotCmp[g.n(0, len(slotCmp)-1, "cop")]
			case !str:
				op = slotArith[g.n(0, len(slotArith)-1, "aop")]
			}
			e = Bin(op, e, ops[i])
		}
		return append(append(pre, s.store(sval(str, v0))), setX(e))
	case 2:
		g.f("slotform_in_operator")
		s := g.drawSlot(str)
		lat := g.later(&pre, one(s), []*N{sval(str, v1)}, sval(str, r))
		ops := g.operands(g.n(2, 3, "nops"), s, lat, str)
		l := &N{K: "list", Ns: ops[1:]}
		if g.n(0, 2, "inconst") == 0 {
			l.Ns = append(l.Ns, sval(str, g.n(0, 2, "cv")))
		}
		return append(append(pre, s.store(sval(str, v0))), setX(&N{K: "in", Ns: []*N{ops[0], l}}))
	case 3:
		// both index operands of LL[i][j]
		g.f("slotform_index_operands")
		s := g.drawSlot(false)
		lat := g.later(&pre, one(s), []*N{Int(int64(v1))}, Int(int64(r)))
		ops := g.operands(2, s, lat, false)
		ll := &N{K: "list"}
		for i := 0; i < 3; i++ {
			ll.Ns = append(ll.Ns, &N{K: "list", Ns: []*N{Int(int64(10*i + 10)), Int(int64(10*i + 11)), Int(int64(10*i + 12))}})
		}
		e := &N{K: "idx", Ns: []*N{{K: "idx", Ns: []*N{ll, ops[0]}}, ops[1]}}
		return append(append(pre, s.store(Int(int64(v0)))), setX(e))
	case 4:
		// both bounds of a slice expression: the lower one is at most 2, the upper one at least 3
		g.f("slotform_slice_bounds")
		s := g.drawSlot(false)
		six := &N{K: "list", Ns: []*N{Int(0), Int(1), Int(2), Int(3), Int(4), Int(5)}}
		if g.n(0, 1, "laterlow") == 0 {
			// [later : read]: the read sees the stored value
			g.f("slot_later_operand_first")
			g.f("slot_read_after_the_store")
			lat := g.later(&pre, one(s), []*N{Int(int64(3 + v1))}, Int(int64(r)))
			return append(append(pre, s.store(Int(int64(v0)))), setX(&N{K: "slice", Ns: []*N{six, lat, s.read()}}))
		}
		g.f("slot_read_before_the_store")
		lat := g.later(&pre, one(s), []*N{Int(int64(g.n(3, 5, "newlow")))}, Int(int64(3 + r)))
		return append(append(pre, s.store(Int(int64(v0)))), setX(&N{K: "slice", Ns: []*N{six, s.read(), lat}}))
	case 5:
		// list and map literals
		s := g.drawSlot(str)
		kind := g.n(0, 5, "litkind")
		if kind >= 4 {
			// the KEY operand of an entry is read from the slot, the value operand of that entry stores into it
			// (or the other way round: the key operand stores, the value is read afterwards)
			g.f("slotform_map_literal_key")
			var e *N
			switch {
			case str && g.n(0, 1, "typedmap") == 0:
				g.f("slot_read_before_the_store")
				e = &N{K: "tmap", S: "int64", Ns: []*N{s.read(), g.later(&pre, one(s), []*N{sval(str, v1)}, Int(int64(r)))}}
			case g.n(0, 2, "keylater") == 0:
				g.f("slot_later_operand_first")
				g.f("slot_read_after_the_store")
				e = &N{K: "map", Ns: []*N{g.later(&pre, one(s), []*N{sval(str, v1)}, sval(str, r)), s.read()}}
			default:
				g.f("slot_read_before_the_store")
				e = &N{K: "map", Ns: []*N{s.read(), g.later(&pre, one(s), []*N{sval(str, v1)}, sval(str, r))}}
			}
			if e.K == "map" && g.n(0, 1, "more") == 0 {
				// one more entry whose key is no value of the slot
				e.Ns = append(e.Ns, sval(str, 7), s.read())
			}
			return append(append(pre, s.store(sval(str, v0))), setX(e))
		}
		lat := g.later(&pre, one(s), []*N{sval(str, v1)}, sval(str, r))
		ops := g.operands(g.n(2, 4, "nops"), s, lat, str)
		var e *N
		switch kind {
		case 0:
			g.f("slotform_typed_list_literal")
			e = &N{K: "tlist", S: map[bool]string{false: "int64", true: "string"}[str], Ns: ops}
		case 1:
			g.f("slotform_map_literal")
			e = &N{K: "map"}
			for i, o := range ops {
				e.Ns = append(e.Ns, Str(fmt.Sprintf("k%d", i)), o)
			}
		default:
			g.f("slotform_list_literal")
			e = &N{K: "list", Ns: ops}
		}
		return append(append(pre, s.store(sval(str, v0))), setX(e))
	case 6:
		g.f("slotform_return_list")
		s := g.drawSlot(str)
		lat := g.later(&pre, one(s), []*N{sval(str, v1)}, sval(str, r))
		ops := g.operands(g.n(2, 3, "nops"), s, lat, str)
		return append(append(pre, s.store(sval(str, v0))), setX(iife(&N{K: "ret", Ns: ops})))
	case 7:
		s := g.drawSlot(str)
		lat := g.later(&pre, one(s), []*N{sval(str, v1)}, sval(str, r))
		n := g.n(2, 3, "nops")
		ops := g.operands(n, s, lat, str)
		if g.n(0, 1, "varform") == 0 {
			g.f("slotform_var_right_hand_side")
			names := []string{"u", "v", "w"}[:n]
			l := &N{K: "list"}
			for _, nm := range names {
				l.Ns = append(l.Ns, Id(nm))
			}
			return append(append(pre, s.store(sval(str, v0))), setX(iife(&N{K: "var", Ps: names, Ns: ops}, &N{K: "ret", Ns: []*N{l}})))
		}
		g.f("slotform_multi_assignment_right_hand_side")
		return append(append(pre, s.store(sval(str, v0))), &N{K: "let", Ps: []string{"x", "y", "z"}[:n], Ns: ops})
	case 8, 9:
		// arguments of one call: a later argument stores into the slot an earlier one was read from
		return g.slotCallArgs(pre, str, v0, v1, r)
	case 10:
		// the callee stores into the slot its argument was read from
		return g.slotCalleeStores(pre, str, v0, v1)
	case 11:
		// defer f(read, later): the deferred callee logs what it received
		g.f("slotform_deferred_call_arguments")
		s := g.drawSlot(str)
		lat := g.later(&pre, one(s), []*N{sval(str, v1)}, sval(str, r))
		n := g.n(2, 3, "nops")
		if g.n(0, 3, "many") == 0 {
			n = 5
		}
		ops := g.operands(n, s, lat, str)
		fn := &N{K: "fn"}
		var got *N
		if g.n(0, 2, "dvariadic") == 0 {
			g.f("slot_callee_script_variadic")
			fn.Ps, fn.B = []string{"a"}, true
			got = Id("a")
		} else {
			g.f(fmt.Sprintf("slot_callee_script_%d_parameters", n))
			got = &N{K: "list"}
			for i := 0; i < n; i++ {
				fn.Ps = append(fn.Ps, fmt.Sprintf("a%d", i))
				got.Ns = append(got.Ns, Id(fn.Ps[i]))
			}
		}
		fn.Ss = [][]*N{{{K: "expr", Ns: []*N{{K: "p", I: g.nid(), Ns: []*N{got}}}}, {K: "ret", Ns: []*N{Int(0)}}}}
		var call *N
		if g.n(0, 1, "dnamed") == 0 {
			pre = append(pre, &N{K: "let", Ps: []string{"dlog"}, Ns: []*N{fn}})
			call = &N{K: "call", S: "dlog", Ns: ops}
		} else {
			call = &N{K: "acall", Ns: append([]*N{fn}, ops...)}
		}
		return append(append(pre, s.store(sval(str, v0))), setX(iife(&N{K: "defer", Ns: []*N{call}}, &N{K: "ret", Ns: []*N{Int(0)}})))
	default:
		// the CONTAINER operand of an index / slice expression is read from a slot that the index
		// operand replaces
		return g.slotContainer(pre, r)
	}
}

// slotCallArgs: f(..., read, ..., later, ...) over every call path.
func (g *g) slotCallArgs(pre []*N, str bool, v0, v1, r int) []*N {
	g.f("slotform_call_arguments")
	setX := func(e *N) *N { return &N{K: "let", Ps: []string{"x"}, Ns: []*N{e}} }
	if !str && g.n(0, 4, "typedcallee") == 0 {
		// Go functions with typed parameters: an int slot and a string slot, one later operand stores into both
		si, ss := g.drawSlot(false), g.drawSlot(true)
		both := func(vals []*N) []*N { return []*N{si.store(vals[0]), ss.store(vals[1])} }
		newVals := []*N{Int(int64(v1)), Str(fmt.Sprintf("v%d", v1))}
		init := []*N{si.store(Int(int64(v0))), ss.store(Str(fmt.Sprintf("v%d", v0)))}
		var call *N
		switch g.n(0, 3, "tv") {
		case 0, 1:
			g.f("slot_callee_go_typed")
			ops := g.operands(2, si, g.later(&pre, both, newVals, Int(int64(r))), false)
			call = &N{K: "call", S: "gtyped", Ns: []*N{ops[0], ss.read(), ops[1]}}
		case 2:
			g.f("slot_callee_go_typed_variadic")
			ops := g.operands(g.n(2, 3, "nops"), si, g.later(&pre, both, newVals, Int(int64(r))), false)
			call = &N{K: "call", S: "gtvar", Ns: append([]*N{ss.read()}, ops...)}
		default:
			// the string parameter gets the later operand's result (a string), the ints follow
			g.f("slot_callee_go_typed_variadic")
			g.f("slot_later_operand_first")
			g.f("slot_read_after_the_store")
			call = &N{K: "call", S: "gtvar", Ns: []*N{g.later(&pre, both, newVals, Str("r")), si.read(), si.read()}}
		}
		return append(append(pre, init...), setX(call))
	}
	s := g.drawSlot(str)
	lat := g.later(&pre, func(vals []*N) []*N { return []*N{s.store(vals[0])} }, []*N{sval(str, v1)}, sval(str, r))
	var cands []callee
	for _, c := range callees {
		if c.typed == nil && c.n >= 2 && !strings.HasSuffix(c.path, "failing_body") {
			cands = append(cands, c)
		}
	}
	c := cands[g.n(0, len(cands)-1, "callee")]
	n := c.n
	if c.vari {
		n = c.n - 1 + g.n(1, 3, "extra")
	}
	ops := g.operands(n, s, lat, str)
	g.f("slot_callee_" + c.path)
	call := &N{K: "call", S: c.name}
	if g.n(0, 4, "anon") == 0 {
		call = &N{K: "acall", Ns: []*N{Id(c.name)}}
	}
	if g.n(0, 2, "spread") == 0 {
		// the trailing arguments travel in a list literal that is spread
		fixed := g.n(0, n-1, "fixed")
		if c.vari {
			fixed = c.n - 1
		}
		call.Ns = append(call.Ns, ops[:fixed]...)
		call.Ns = append(call.Ns, &N{K: "list", Ns: ops[fixed:]})
		call.B = true
		g.f("slot_call_spreads_a_list_literal")
	} else {
		call.Ns = append(call.Ns, ops...)
	}
	return append(append(pre, s.store(sval(str, v0))), setX(call))
}

// slotCalleeStores: (func(q, ...) { <store into the slot>; return [q, ...] })(read, ...): the
// parameters hold what the arguments were when the call started. With a spread list variable the
// callee has exactly as many parameters as the list has elements and is never variadic (a variadic
// callee may hold the spread list itself).
func (g *g) slotCalleeStores(pre []*N, str bool, v0, v1 int) []*N {
	g.f("slotform_callee_stores_into_the_slot_of_its_argument")
	s := g.drawSlot(str)
	spread := s.cont != "" && g.n(0, 3, "spreadcont") == 0
	n := []int{1, 1, 2, 3, 4, 5, 6}[g.n(0, 6, "nparams")]
	variadic := !spread && g.n(0, 3, "cvariadic") == 0
	if spread {
		n = s.contLen
		g.f("slot_call_spreads_the_container")
	}
	fn := &N{K: "fn"}
	got := &N{K: "list"}
	for i := 0; i < n; i++ {
		fn.Ps = append(fn.Ps, fmt.Sprintf("q%d", i))
		got.Ns = append(got.Ns, Id(fn.Ps[i]))
	}
	if variadic {
		fn.B = true
		g.f("slot_callee_script_variadic")
	} else {
		g.f(fmt.Sprintf("slot_callee_script_%d_parameters", n))
	}
	fn.Ss = [][]*N{{{K: "expr", Ns: []*N{{K: "p", I: g.nid()}}}, s.store(sval(str, v1)), {K: "ret", Ns: []*N{got}}}}
	var args []*N
	if spread {
		args = []*N{Id(s.cont)}
	} else {
		na := n
		if variadic {
			na = n - 1 + g.n(1, 2, "extra")
		}
		pos := g.n(0, na-1, "readpos")
		for i := 0; i < na; i++ {
			if i == pos || g.n(0, 1, "moreread") == 0 {
				args = append(args, s.read())
			} else {
				args = append(args, sval(str, g.n(0, 2, "cv")))
			}
		}
	}
	var call *N
	if g.n(0, 1, "cnamed") == 0 {
		pre = append(pre, &N{K: "let", Ps: []string{"cst"}, Ns: []*N{fn}})
		call = &N{K: "call", S: "cst", Ns: args, B: spread}
	} else {
		call = &N{K: "acall", Ns: append([]*N{fn}, args...), B: spread}
	}
	return append(append(pre, s.store(sval(str, v0))), &N{K: "let", Ps: []string{"x"}, Ns: []*N{call}})
}

// slotContainer: c[i][later] / c[i][later:3] / c[i][0:later], where later binds c[i] to another list.
// Containers: an untyped list of lists, a typed slice of typed slices, a map entry holding a list.
// No Go array is the container.
func (g *g) slotContainer(pre []*N, r int) []*N {
	var read func() *N
	var store func(v *N) *N
	mk := func(base int, typed bool) *N {
		l := &N{K: "list", Ns: []*N{Int(int64(base)), Int(int64(base + 1)), Int(int64(base + 2))}}
		if typed {
			l.K, l.S = "tlist", "int64"
		}
		return l
	}
	typed := false
	switch g.n(0, 4, "contslot") {
	case 0, 1:
		g.f("slot_untyped_list_element_holding_a_list")
		i := Int(int64(g.n(0, 1, "ci")))
		read = func() *N { return &N{K: "idx", Ns: []*N{Id("ull"), i}} }
		store = func(v *N) *N { return &N{K: "letidx", Ns: []*N{Id("ull"), i, v}} }
	case 2, 3:
		g.f("slot_typed_slice_element_holding_a_slice")
		typed = true
		i := Int(int64(g.n(0, 1, "ci")))
		read = func() *N { return &N{K: "idx", Ns: []*N{Id("tss"), i}} }
		store = func(v *N) *N { return &N{K: "letidx", Ns: []*N{Id("tss"), i, v}} }
	default:
		g.f("slot_map_entry_holding_a_list")
		read = func() *N { return &N{K: "mem", S: "l", Ns: []*N{Id("sm")}} }
		store = func(v *N) *N { return &N{K: "letmem", S: "l", Ns: []*N{Id("sm"), v}} }
	}
	base0 := 10 * g.n(1, 4, "base0")
	base1 := base0 + 50
	stores := func(vals []*N) []*N { return []*N{store(vals[0])} }
	var e *N
	switch g.n(0, 3, "contform") {
	case 0, 1:
		g.f("slotform_index_container")
		lat := g.later(&pre, stores, []*N{mk(base1, typed)}, Int(int64(r)))
		e = &N{K: "idx", Ns: []*N{read(), lat}}
	case 2:
		g.f("slotform_slice_container")
		lat := g.later(&pre, stores, []*N{mk(base1, typed)}, Int(int64(r)))
		e = &N{K: "slice", Ns: []*N{read(), lat, Int(3)}}
	default:
		g.f("slotform_slice_container")
		lat := g.later(&pre, stores, []*N{mk(base1, typed)}, Int(int64(1+r)))
		lo := &N{K: "none"}
		if g.n(0, 1, "lowconst") == 0 {
			lo = Int(0)
		}
		e = &N{K: "slice", Ns: []*N{read(), lo, lat}}
	}
	g.f("slot_read_before_the_store")
	return append(append(pre, store(mk(base0, typed))), &N{K: "let", Ps: []string{"x"}, Ns: []*N{e}})
}

// slotSig names the form and the slot classes of one slot pattern (for the signature) from the
// features drawn while it was generated.
func slotSig(feat []string) string {
	var forms, classes []string
	seen := map[string]bool{}
	for _, k := range feat {
		if seen[k] {
			continue
		}
		seen[k] = true
		if strings.HasPrefix(k, "slotform_") {
			forms = append(forms, k[len("slotform_"):])
		} else if strings.HasPrefix(k, "slot_") && !strings.HasPrefix(k, "slot_later_") && !strings.HasPrefix(k, "slot_read_") &&
			!strings.HasPrefix(k, "slot_call") && k != "slot_holds_string" {
			classes = append(classes, k[len("slot_"):])
		}
	}
	sort.Strings(forms)
	sort.Strings(classes)
	return strings.Join(forms, "+") + "|" + strings.Join(classes, "+")
}
