// C07 — operands are evaluated exactly once, left to right; skipped operands never run.
// Oracle: the reference interpreter's probe trace (order and multiplicity of every
// side-effecting leaf), plus the resulting values (arguments arrived in the right slots).
package c07

import (
	"fmt"
	"math"
	"strings"
	"testing"

	"pgregory.net/rapid"

	"verif/internal/h"
	. "verif/internal/prog"
)

type Case struct {
	Prog    []*N           `json:"prog"`
	GenFeat map[string]int `json:"genfeat,omitempty"`
	// SlotRoots: positions in Prog of the statements that hold a slot pattern (slots_test.go);
	// SlotInfo: form and slot classes of each, for the signature
	SlotRoots []int    `json:"slotroots,omitempty"`
	SlotInfo  []string `json:"slotinfo,omitempty"`
}

type g struct {
	t    *rapid.T
	id   int64
	feat map[string]int
	cur  []string // the features drawn since the current slot pattern began
	neg  bool // inside a form whose operand order is not specified: negative ids
	// noFailingBody: callees whose body fails inside the interpreter (slice of a host array) are
	// only called through a plain call expression (go / defer have their own failure handling)
	noFailingBody bool
}

func (g *g) n(lo, hi int, l string) int { return rapid.IntRange(lo, hi).Draw(g.t, l) }
func (g *g) nid() int64 {
	g.id++
	if g.neg {
		return -g.id
	}
	return g.id
}
func (g *g) f(s string) {
	g.feat[s]++
	g.cur = append(g.cur, s)
}

func lit(v interface{}) *N {
	switch t := v.(type) {
	case nil:
		return &N{K: "nil"}
	case bool:
		if t {
			return &N{K: "true"}
		}
		return &N{K: "false"}
	case int:
		return Int(int64(t))
	case string:
		return Str(t)
	}
	panic("lit")
}

// leaf is a probe call p(id[, v]); rarely pfail(id).
func (g *g) leaf(v *N, canFail bool) *N {
	if canFail && g.n(0, 19, "fail?") == 0 {
		g.f("raising_operand")
		return &N{K: "pfail", I: g.nid()}
	}
	if v == nil {
		return &N{K: "p", I: g.nid()}
	}
	return &N{K: "p", I: g.nid(), Ns: []*N{v}}
}

func (g *g) intE(d int) *N {
	k := g.n(0, 9, "int")
	if d <= 0 {
		k %= 3
	}
	switch k {
	case 0:
		return g.leaf(nil, true) // returns its (positive or negative) id
	case 1, 2:
		return g.leaf(Int(int64(g.n(1, 9, "iv"))), true)
	case 3, 4, 5:
		op := rapid.SampledFrom([]string{"+", "-", "*", "%", "&", "|", "<<", ">>"}).Draw(g.t, "op")
		g.f("binary_operator")
		r := g.intE(d - 1)
		if op == "%" {
			r = g.leaf(Int(int64(g.n(1, 9, "mod"))), false)
		}
		return Bin(op, g.intE(d-1), r)
	case 6:
		g.f("index")
		return &N{K: "idx", Ns: []*N{g.listE(d - 1), g.leaf(Int(int64(g.n(0, 1, "ix"))), true)}}
	case 7:
		g.f("ternary")
		return &N{K: "tern", Ns: []*N{g.condE(d - 1), g.intE(d - 1), g.intE(d - 1)}}
	case 8:
		g.f("nil_coalescing")
		var l *N
		switch g.n(0, 3, "coalL") {
		case 0:
			l = g.leaf(&N{K: "nil"}, false)
		case 1:
			l = &N{K: "pfail", I: g.nid()}
			g.f("raising_operand")
		case 3:
			// an index expression, directly on the left of ??, that fails or yields nil: the right side
			// gives the value, the operands of the index expression have run once
			l = g.idxForm(d-1, true)
			g.f("index_expression_left_of_coalesce")
		default:
			l = g.intE(d - 1)
		}
		return &N{K: "coal", Ns: []*N{l, g.intE(d - 1)}}
	default:
		g.f("len")
		return &N{K: "len", Ns: []*N{g.listE(d - 1)}}
	}
}

// listE yields a list with at least 2 elements (so index 0/1 and slices 0..2 are valid).
func (g *g) listE(d int) *N {
	k := g.n(0, 7, "list")
	if d <= 0 {
		k %= 2
	}
	switch k {
	case 0:
		return g.leaf(&N{K: "list", Ns: []*N{Int(5), Int(6), Int(7)}}, true)
	case 1, 2:
		g.f("list_literal")
		n := g.n(2, 4, "ln")
		l := &N{K: "list"}
		for i := 0; i < n; i++ {
			l.Ns = append(l.Ns, g.intE(d-1))
		}
		return l
	case 3:
		g.f("typed_list_literal")
		n := g.n(2, 3, "ln")
		l := &N{K: "tlist", S: "int64"}
		for i := 0; i < n; i++ {
			l.Ns = append(l.Ns, g.intE(d-1))
		}
		if g.n(0, 7, "badelem") == 0 {
			// an element that cannot be converted: ends the evaluation of those after it
			l.Ns[g.n(0, len(l.Ns)-1, "badpos")] = g.leaf(Str("x"), false)
			g.f("conversion_error_operand")
		}
		return l
	case 4:
		g.f("slice")
		s := &N{K: "slice", Ns: []*N{g.listE(d - 1), g.leaf(Int(int64(g.n(0, 1, "b"))), true), g.leaf(Int(2), true)}}
		if g.n(0, 1, "noneb") == 0 {
			s.Ns[1] = &N{K: "none"}
		}
		return s
	case 5:
		g.f("slice3")
		// 3-index slice on a literal list of length 3 (cap 3): [0:2:3]
		return &N{K: "slice", Ns: []*N{{K: "list", Ns: []*N{g.intE(d - 1), g.intE(d - 1), g.intE(d - 1)}}, g.leaf(Int(0), true), g.leaf(Int(2), true), g.leaf(Int(3), true)}}
	default:
		return g.callE(d-1, 2)
	}
}

func (g *g) condE(d int) *N {
	k := g.n(0, 8, "cond")
	if d <= 0 {
		k %= 2
	}
	switch k {
	case 0, 1:
		vals := []interface{}{true, false, 0, 1, nil, "", "abc"}
		return g.leaf(lit(vals[g.n(0, len(vals)-1, "cv")]), true)
	case 8:
		return g.chainE(d, 3, 6)
	case 7:
		// the binary operator `item in list`: item first, then list - also when the right side turns
		// out not to be a list (the left operand has run by then) or the left side raises (the right never runs)
		g.f("in_operator")
		var r *N
		switch g.n(0, 5, "inR") {
		case 0:
			g.f("in_operator_right_not_a_list")
			nl := []interface{}{5, nil, "abc", true}
			r = g.leaf(lit(nl[g.n(0, len(nl)-1, "nl")]), false)
		case 1:
			r = g.leaf(&N{K: "list", Ns: []*N{Int(int64(g.n(1, 3, "e0"))), Int(int64(g.n(4, 6, "e1")))}}, true)
		default:
			r = g.listE(d - 1)
		}
		return &N{K: "in", Ns: []*N{g.intE(d - 1), r}}
	case 2, 3:
		g.f("and_or")
		return &N{K: rapid.SampledFrom([]string{"and", "or"}).Draw(g.t, "ao"), Ns: []*N{g.condE(d - 1), g.condE(d - 1)}}
	case 4:
		return &N{K: "not", Ns: []*N{g.condE(d - 1)}}
	default:
		g.f("comparison")
		return Bin(rapid.SampledFrom([]string{"<", "<=", ">", ">=", "==", "!="}).Draw(g.t, "cmp"), g.intE(d-1), g.intE(d-1))
	}
}

func (g *g) anyE(d int) *N {
	k := g.n(0, 17, "any")
	if k < 16 {
		k %= 8
	}
	switch k {
	case 16:
		// index expressions beyond "element of a list that is there"
		return g.idxForm(d, false)
	case 17:
		// ... and directly on the left of ??
		g.f("nil_coalescing")
		g.f("index_expression_left_of_coalesce")
		return &N{K: "coal", Ns: []*N{g.idxForm(d, false), g.anyE(d - 1)}}
	case 7:
		// containers supplied by the host: a nil Go map (no script-made map is nil), a Go array
		switch g.n(0, 2, "hostc") {
		case 0:
			g.f("index_of_nil_host_map")
			return &N{K: "idx", Ns: []*N{Id("hnil"), g.leaf(Str("k"), true)}}
		case 1:
			g.f("index_of_nil_host_map")
			return &N{K: "idx", Ns: []*N{Id("hnilm"), g.intE(d - 1)}}
		default:
			g.f("index_of_host_array")
			return &N{K: "idx", Ns: []*N{Id("harr"), g.leaf(Int(int64(g.n(0, 2, "hix"))), true)}}
		}
	case 0, 1:
		return g.intE(d)
	case 2:
		return g.listE(d)
	case 3:
		return g.condE(d)
	case 4:
		g.f("map_literal")
		n := g.n(1, 3, "mn")
		m := &N{K: "map"}
		if g.n(0, 3, "ifacemap") == 0 {
			// map{...}: the typed literal with interface keys and values
			m.K = "imap"
			g.f("map_literal_interface_typed")
		}
		for i := 0; i < n; i++ {
			m.Ns = append(m.Ns, g.leaf(nil, true), g.anyE(d-1)) // key = unique probe id
		}
		if g.n(0, 7, "badkey") == 0 {
			// a key operand whose value cannot be a map key: ends the evaluation of the operands after it
			m.Ns[2*g.n(0, n-1, "badpos")] = g.unusableKey()
		}
		return m
	case 5:
		g.f("typed_map_literal")
		n := g.n(1, 3, "mn")
		m := &N{K: "tmap", S: "int64"}
		for i := 0; i < n; i++ {
			m.Ns = append(m.Ns, g.leaf(Str(fmt.Sprintf("k%d", i)), true), g.intE(d-1))
		}
		switch g.n(0, 9, "badval") {
		case 0:
			m.Ns[2*g.n(0, n-1, "badpos")+1] = g.leaf(Str("x"), false)
			g.f("conversion_error_operand")
		case 1:
			// a key that cannot be converted to the key type
			m.Ns[2*g.n(0, n-1, "badpos")] = g.unusableKey()
		}
		return m
	default:
		return g.callE(d, -1)
	}
}

// unusableKey is a probe whose value (a list or a map) can be the key of no map.
func (g *g) unusableKey() *N {
	g.f("conversion_error_operand")
	g.f("unusable_map_key_operand")
	if g.n(0, 2, "ukey") == 0 {
		return g.leaf(&N{K: "map", Ns: []*N{Str("a"), Int(1)}}, false)
	}
	return g.leaf(&N{K: "list", Ns: []*N{Int(int64(g.n(1, 9, "uk")))}}, false)
}

// chainE is a chain a && b && c ... or a || b || c ... of lo..hi operands written without inner
// parentheses. Mostly the operands are probes whose truthiness is drawn so that the position of the
// deciding operand (or none) is drawn; sometimes an operand is a condition of its own (in parentheses).
func (g *g) chainE(d, lo, hi int) *N {
	op := rapid.SampledFrom([]string{"&&", "||"}).Draw(g.t, "chainop")
	n := g.n(lo, hi, "chainlen")
	g.f("operator_chain")
	switch {
	case n <= 3:
		g.f("operator_chain_len_2_3")
	case n <= 8:
		g.f("operator_chain_len_4_8")
	default:
		g.f("operator_chain_len_9_up")
	}
	// the operand that decides the chain: position n = none does
	decide := g.n(0, n, "decide")
	if g.n(0, 2, "nodecide") == 0 {
		decide = n
	}
	goOn := []interface{}{true, 1, "abc"} // && goes on after these, || stops
	stop := []interface{}{false, 0, nil, ""}
	if op == "||" {
		goOn, stop = stop, goOn
	}
	c := &N{K: "chain", S: op}
	for i := 0; i < n; i++ {
		if d > 0 && g.n(0, 7, "chainsub") == 0 {
			c.Ns = append(c.Ns, g.condE(d-1))
			continue
		}
		pool := goOn
		if i == decide {
			pool = stop
		}
		c.Ns = append(c.Ns, g.leaf(lit(pool[g.n(0, len(pool)-1, "cv")]), n <= 8))
	}
	return c
}

// idxForm is an index expression whose item is not (only) a list with the element there: a string
// (index inside or outside), a list or a host array element that is not there, a map with or without
// the key, a nil host map, or a value that has no index operation at all (the index is a constant then:
// whether it would still run is not specified). failing: only forms that fail or yield nil.
func (g *g) idxForm(d int, failing bool) *N {
	k := g.n(0, 7, "idxform")
	if failing && (k == 0 || k == 5) {
		k++
	}
	word := rapid.SampledFrom([]string{"abc", "xy", "q"}).Draw(g.t, "word")
	switch k {
	case 0:
		g.f("index_of_string_inside")
		return &N{K: "idx", Ns: []*N{g.strItem(word), g.leaf(Int(int64(g.n(0, len(word)-1, "six"))), true)}}
	case 1:
		g.f("index_of_string_outside")
		ix := int64(len(word) + g.n(0, 2, "sox"))
		if g.n(0, 3, "negix") == 0 {
			ix = -int64(g.n(1, 2, "sneg"))
		}
		return &N{K: "idx", Ns: []*N{g.strItem(word), g.leaf(Int(ix), true)}}
	case 2, 3:
		g.f("index_of_unindexable_value")
		var item *N
		switch g.n(0, 4, "unidx") {
		case 0:
			item = &N{K: "nil"}
		case 1:
			item = &N{K: "true"}
		case 2:
			item = Int(int64(g.n(0, 9, "uv")))
		case 3:
			item = &N{K: "flt", I: int64(math.Float64bits(1.5))}
		default:
			item = Id("nv") // a variable holding nil
		}
		if item.K != "id" || g.n(0, 1, "unprobe") == 0 {
			item = g.leaf(item, true)
		}
		ix := Int(int64(g.n(0, 2, "uix")))
		if g.n(0, 2, "ustr") == 0 {
			ix = Str("k")
		}
		return &N{K: "idx", Ns: []*N{item, ix}}
	case 4:
		g.f("index_of_list_outside")
		ix := int64(g.n(3, 5, "lox"))
		if g.n(0, 3, "negix") == 0 {
			ix = -int64(g.n(1, 2, "lneg"))
		}
		item := g.leaf(&N{K: "list", Ns: []*N{Int(5), Int(6), Int(7)}}, true)
		if g.n(0, 2, "litlist") == 0 {
			item = &N{K: "list", Ns: []*N{g.intE(d - 1), g.intE(d - 1)}}
			if ix == 3 {
				ix = 2
			}
		}
		return &N{K: "idx", Ns: []*N{item, g.leaf(Int(ix), true)}}
	case 5:
		g.f("index_of_map_key_present")
		return &N{K: "idx", Ns: []*N{g.leaf(&N{K: "map", Ns: []*N{Str("a"), Int(int64(g.n(1, 9, "mv"))), Str("n"), {K: "nil"}}}, true), g.leaf(Str("a"), true)}}
	case 6:
		g.f("index_of_map_key_missing_or_nil")
		return &N{K: "idx", Ns: []*N{g.leaf(&N{K: "map", Ns: []*N{Str("a"), Int(1), Str("n"), {K: "nil"}}}, true), g.leaf(Str(rapid.SampledFrom([]string{"n", "zz"}).Draw(g.t, "mk")), true)}}
	default:
		g.f("index_of_nil_host_map")
		return &N{K: "idx", Ns: []*N{Id(rapid.SampledFrom([]string{"hnil", "hnilm"}).Draw(g.t, "hn")), g.leaf(Str("k"), true)}}
	}
}

// strItem is a string operand: a probe returning it, the literal, or a concatenation of two probes.
func (g *g) strItem(word string) *N {
	switch g.n(0, 3, "stritem") {
	case 0:
		return Str(word)
	case 1:
		if len(word) >= 2 {
			return Bin("+", g.leaf(Str(word[:1]), true), g.leaf(Str(word[1:]), true))
		}
	}
	return g.leaf(Str(word), true)
}

type callee struct {
	name  string
	n     int // parameters (incl. the variadic one)
	vari  bool
	typed []string // nil = any
	path  string
}

var callees = []callee{
	{"s0", 0, false, nil, "script_direct"}, {"s1", 1, false, nil, "script_direct"}, {"s2", 2, false, nil, "script_direct"},
	{"s3", 3, false, nil, "script_direct"}, {"s4", 4, false, nil, "script_direct"},
	{"s5", 5, false, nil, "script_reflect"}, {"s6", 6, false, nil, "script_reflect"},
	{"sv", 2, true, nil, "script_variadic"},
	{"gfix1", 1, false, nil, "go_fixed"}, {"gfix2", 2, false, nil, "go_fixed"}, {"gfix3", 3, false, nil, "go_fixed"}, {"gfix5", 5, false, nil, "go_fixed"},
	{"gvar", 2, true, nil, "go_variadic"},
	{"gtyped", 3, false, []string{"int64", "string", "int64"}, "go_typed"},
	{"gtvar", 2, true, []string{"string", "int64"}, "go_typed_variadic"},
	// first argument is an address-of expression (the call writes the pointer back to variables)
	{"gderef", 2, false, []string{"addr", "any"}, "go_pointer_argument"},
	// script functions whose body fails inside the interpreter (not by throw): slice of a host array
	{"sp0", 0, false, nil, "script_direct_failing_body"}, {"sp1", 1, false, nil, "script_direct_failing_body"}, {"sp2", 2, false, nil, "script_direct_failing_body"},
	{"sp4", 4, false, nil, "script_direct_failing_body"}, {"sp5", 5, false, nil, "script_reflect_failing_body"},
}

func (g *g) argFor(c callee, i int, d int) *N {
	typ := "any"
	if c.typed != nil {
		j := i
		if j >= len(c.typed) {
			j = len(c.typed) - 1
		}
		typ = c.typed[j]
	}
	switch typ {
	case "addr":
		g.f("address_of_argument")
		switch g.n(0, 4, "addrof") {
		case 4:
			// a pointer to a variable that holds nil (or a number) is not nil: the right side of ?? stays unevaluated
			g.f("address_of_left_of_coalesce")
			return &N{K: "coal", Ns: []*N{{K: "addr", Ns: []*N{Id(rapid.SampledFrom([]string{"nv", "nv", "x"}).Draw(g.t, "addrid"))}}, g.leaf(Int(int64(g.n(1, 9, "cv"))), true)}}
		case 0:
			return &N{K: "addr", Ns: []*N{Id(rapid.SampledFrom([]string{"x", "y", "acc"}).Draw(g.t, "addrid"))}}
		case 1:
			return &N{K: "addr", Ns: []*N{{K: "idx", Ns: []*N{Id("acc"), g.leaf(Int(int64(g.n(0, 2, "ai"))), true)}}}}
		case 2:
			return &N{K: "addr", Ns: []*N{{K: "idx", Ns: []*N{Id("accm"), g.leaf(Str("k"), true)}}}}
		default:
			return &N{K: "addr", Ns: []*N{{K: "idx", Ns: []*N{g.listE(d - 1), g.leaf(Int(int64(g.n(0, 1, "ix"))), true)}}}}
		}
	case "int64":
		if g.n(0, 9, "badarg") == 0 {
			g.f("conversion_error_operand")
			return g.leaf(Str("notint"), false)
		}
		return g.intE(d)
	case "string":
		if g.n(0, 9, "badarg") == 0 {
			g.f("conversion_error_operand")
			return g.leaf(&N{K: "list", Ns: []*N{Int(1)}}, false)
		}
		return g.leaf(Str(fmt.Sprintf("s%d", i)), true)
	}
	return g.anyE(d)
}

// callE builds a call; minRet >= 2 asks for a callee returning a list with >= minRet elements.
func (g *g) callE(d int, minRet int) *N {
	var cands []callee
	for _, c := range callees {
		if g.noFailingBody && strings.HasSuffix(c.path, "failing_body") {
			continue
		}
		if minRet < 0 || c.n >= minRet {
			cands = append(cands, c)
		}
	}
	c := cands[g.n(0, len(cands)-1, "callee")]
	shape := g.n(0, 9, "shape")
	nargs := c.n
	if c.vari {
		nargs = c.n - 1 + g.n(0, 3, "extra")
		if minRet >= 2 && nargs < 2 {
			nargs = 2
		}
	}
	call := &N{K: "call", S: c.name}
	if g.n(0, 4, "anon") == 0 {
		call = &N{K: "acall", Ns: []*N{Id(c.name)}}
		g.f("anonymous_call_form")
	}
	switch {
	case shape == 0 && minRet < 0 && c.n > 0 && !c.vari:
		// wrong argument count: no operand may be evaluated twice (today: none at all)
		wrong := c.n + 1
		if c.n > 1 && g.n(0, 1, "fewer") == 0 {
			wrong = c.n - 1
		}
		for i := 0; i < wrong; i++ {
			call.Ns = append(call.Ns, g.leaf(nil, false))
		}
		g.f("call_" + c.path + "_arity_error")
	case shape <= 3 && nargs >= 1 && (c.n > 0):
		// spread call f(a, [b, c]...): the list supplies the remaining parameters
		fixed := 0
		if c.vari {
			fixed = c.n - 1
		} else if c.n > 1 {
			fixed = g.n(0, c.n-1, "fixed")
		}
		for i := 0; i < fixed; i++ {
			call.Ns = append(call.Ns, g.argFor(c, i, d-1))
		}
		rest := nargs - fixed
		if !c.vari {
			rest = c.n - fixed
		}
		l := &N{K: "list"}
		for i := 0; i < rest; i++ {
			l.Ns = append(l.Ns, g.argFor(c, fixed+i, d-1))
		}
		call.Ns = append(call.Ns, l)
		call.B = true
		g.f("call_" + c.path + "_spread")
	default:
		for i := 0; i < nargs; i++ {
			call.Ns = append(call.Ns, g.argFor(c, i, d-1))
		}
		g.f("call_" + c.path + "_plain")
	}
	return call
}

func (g *g) root() *N {
	d := g.n(1, 3, "depth")
	switch g.n(0, 15, "root") {
	case 15:
		// ONE list / map literal (or call) evaluated several times - in a loop body, or in a function called
		// twice: every evaluation evaluates every element again, whatever the elements look like (constants,
		// negated calls, parenthesised constants)
		g.f("same_literal_evaluated_repeatedly")
		g.noFailingBody = true
		defer func() { g.noFailingBody = false }()
		lit := &N{K: "list"}
		for i := g.n(1, 3, "nel"); i > 0; i-- {
			switch g.n(0, 3, "elk") {
			case 0:
				lit.Ns = append(lit.Ns, Int(int64(g.n(0, 9, "c"))))
			case 1:
				lit.Ns = append(lit.Ns, &N{K: "negb", Ns: []*N{{K: "p", I: g.nid(), Ns: []*N{Int(int64(g.n(1, 9, "v")))}}}})
			case 2:
				lit.Ns = append(lit.Ns, &N{K: "negb", Ns: []*N{Id("x")}})
			default:
				lit.Ns = append(lit.Ns, g.leaf(Int(int64(g.n(1, 9, "v"))), false))
			}
		}
		var use *N = lit
		if g.n(0, 2, "wrap") == 0 {
			use = &N{K: "map", Ns: []*N{Str("k"), lit}}
		}
		if g.n(0, 1, "rep") == 0 {
			return &N{K: "forin", Ps: []string{"it"}, Ns: []*N{{K: "list", Ns: []*N{Int(1), Int(2), Int(3)}}}, Ss: [][]*N{{{K: "let", Ps: []string{"y"}, Ns: []*N{use}}, {K: "let", Ps: []string{"x"}, Ns: []*N{{K: "bin", S: "+", Ns: []*N{Id("x"), Int(1)}}}}}}}
		}
		body := []*N{
			{K: "let", Ps: []string{"mk"}, Ns: []*N{{K: "fn", Ss: [][]*N{{{K: "ret", Ns: []*N{use}}}}}}},
			{K: "expr", Ns: []*N{{K: "p", I: g.nid(), Ns: []*N{{K: "call", S: "mk"}}}}},
			{K: "let", Ps: []string{"x"}, Ns: []*N{{K: "bin", S: "+", Ns: []*N{Id("x"), Int(1)}}}},
			{K: "expr", Ns: []*N{{K: "p", I: g.nid(), Ns: []*N{{K: "call", S: "mk"}}}}},
			{K: "ret", Ns: []*N{Int(0)}},
		}
		return &N{K: "let", Ps: []string{"z"}, Ns: []*N{{K: "acall", Ns: []*N{{K: "fn", Ss: [][]*N{body}}}}}}
	case 14:
		// ONE defer statement executed twice, its callee name bound to another function each time: the
		// callee is part of what the defer statement evaluates, every time it runs
		g.f("defer_callee_rebound_between_executions")
		g.noFailingBody = true
		defer func() { g.noFailingBody = false }()
		lit := func() *N {
			return &N{K: "fn", Ps: []string{"a"}, Ss: [][]*N{{{K: "expr", Ns: []*N{{K: "p", I: g.nid(), Ns: []*N{Id("a")}}}}, {K: "ret", Ns: []*N{Int(0)}}}}}
		}
		body := []*N{
			{K: "let", Ps: []string{"dw"}, Ns: []*N{{K: "fn", Ps: []string{"cb"}, Ss: [][]*N{{
				{K: "defer", Ns: []*N{{K: "call", S: "cb", Ns: []*N{g.anyE(d)}}}},
				{K: "ret", Ns: []*N{Int(1)}},
			}}}}},
			{K: "expr", Ns: []*N{{K: "call", S: "dw", Ns: []*N{lit()}}}},
			{K: "expr", Ns: []*N{{K: "call", S: "dw", Ns: []*N{lit()}}}},
			{K: "ret", Ns: []*N{Int(0)}},
		}
		return &N{K: "let", Ps: []string{"x"}, Ns: []*N{{K: "acall", Ns: []*N{{K: "fn", Ss: [][]*N{body}}}}}}
	case 13:
		// the "value, found" statement: two targets, ONE index expression on the right
		g.f("value_found_statement")
		var cont *N
		switch g.n(0, 3, "vfcont") {
		case 0:
			cont = g.leaf(&N{K: "map", Ns: []*N{Str("k"), Int(int64(g.n(1, 9, "vfv"))), Str("n"), {K: "nil"}}}, true)
		case 1:
			cont = Id("accm")
		case 2:
			cont = Id("hnil")
		default:
			cont = g.leaf(&N{K: "list", Ns: []*N{Int(5), {K: "nil"}, Int(7)}}, true)
		}
		var key *N
		if cont.K == "p" && cont.Ns[0].K == "list" {
			key = g.leaf(Int(int64(g.n(0, 2, "vfi"))), true)
		} else {
			key = g.leaf(Str(rapid.SampledFrom([]string{"k", "n", "missing"}).Draw(g.t, "vfk")), true)
		}
		return &N{K: "letmap", Ps: []string{"x", "y"}, Ns: []*N{cont, key}}
	case 0, 1, 2:
		return &N{K: "expr", Ns: []*N{g.anyE(d)}}
	case 3:
		g.f("multi_assign")
		return &N{K: "let", Ps: []string{"x", "y", "z"}, Ns: []*N{g.anyE(d), g.anyE(d), g.anyE(d)}}
	case 4:
		g.f("var_multi")
		return &N{K: "var", Ps: []string{"x", "y"}, Ns: []*N{g.anyE(d), g.anyE(d)}}
	case 12:
		// several targets, ONE right-hand expression: destructured when it yields a non-empty
		// list, otherwise assigned to the first target - evaluated once either way
		g.f("multi_target_single_rhs")
		var rhs *N
		switch g.n(0, 5, "srhs") {
		case 0:
			rhs = g.intE(d)
		case 1:
			rhs = g.condE(d)
		case 2:
			rhs = g.leaf(&N{K: "list"}, true) // empty list
		case 3:
			rhs = g.leaf(&N{K: "nil"}, true)
		case 4:
			rhs = g.callE(d, -1)
		default:
			rhs = g.listE(d)
		}
		if rhs.K == "idx" {
			// `a, b = m[k]` is the separate "value, found" statement form of the grammar
			rhs = &N{K: "tern", Ns: []*N{{K: "true"}, rhs, {K: "nil"}}}
		}
		kind := "let"
		if g.n(0, 2, "varform") == 0 {
			kind = "var"
		}
		return &N{K: kind, Ps: []string{"x", "y"}, Ns: []*N{rhs}}
	case 5:
		g.f("return_list")
		body := []*N{{K: "ret", Ns: []*N{g.anyE(d), g.anyE(d), g.anyE(d)}}}
		return &N{K: "let", Ps: []string{"x"}, Ns: []*N{{K: "acall", Ns: []*N{{K: "fn", Ss: [][]*N{body}}}}}}
	case 6:
		g.f("go_call")
		g.noFailingBody = true
		defer func() { g.noFailingBody = false }()
		c := g.callE(d, -1)
		return &N{K: "go", Ns: []*N{c}}
	case 7:
		g.f("defer_call")
		g.noFailingBody = true
		defer func() { g.noFailingBody = false }()
		c := g.callE(d, -1)
		if c.B { // spread in defer is outside the modelled domain
			c.B = false
			if l := c.Ns[len(c.Ns)-1]; l.K == "list" {
				c.Ns = append(c.Ns[:len(c.Ns)-1], l.Ns...)
			}
		}
		return &N{K: "defer", Ns: []*N{c}}
	case 8:
		g.f("op_assign_index_target")
		g.neg = true
		defer func() { g.neg = false }()
		// every shorthand the grammar has: += -= *= /= &= |=
		op := rapid.SampledFrom([]string{"+", "-", "*", "/", "&", "|", "&", "|"}).Draw(g.t, "op")
		g.f("op_assign_" + map[string]string{"+": "add", "-": "sub", "*": "mul", "/": "div", "&": "and", "|": "or"}[op])
		cont := Id("acc")
		if g.n(0, 3, "contprobe") == 0 {
			// the container of the target is an operand of x too
			g.f("op_assign_container_operand")
			cont = g.leaf(Id("acc"), false)
		}
		rhs := g.leaf(Int(int64(g.n(1, 5, "av"))), false)
		if g.n(0, 2, "rhs2") == 0 {
			g.f("op_assign_compound_right_side")
			rhs = Bin(rapid.SampledFrom([]string{"+", "|", "*"}).Draw(g.t, "rop"), rhs, g.leaf(Int(int64(g.n(1, 5, "av2"))), false))
		}
		return &N{K: "opidx", Ps: []string{op}, Ns: []*N{cont, g.leaf(Int(int64(g.n(0, 2, "ai"))), false), rhs}}
	case 9:
		g.f("incdec_index_target")
		g.neg = true
		defer func() { g.neg = false }()
		return &N{K: "opidx", Ps: []string{rapid.SampledFrom([]string{"+", "-"}).Draw(g.t, "pm")}, Ns: []*N{Id("acc"), g.leaf(Int(int64(g.n(0, 2, "ai"))), false)}}
	case 10:
		g.f("index_assign_target_vs_rhs")
		g.neg = true
		defer func() { g.neg = false }()
		return &N{K: "letidx", Ns: []*N{Id("acc"), g.leaf(Int(int64(g.n(0, 2, "ai"))), false), g.leaf(Int(int64(g.n(1, 5, "av"))), false)}}
	default:
		return &N{K: "expr", Ns: []*N{g.callE(d, -1)}}
	}
}

func prelude() []*N {
	var out []*N
	names := []string{"a", "b", "c", "d", "e", "f"}
	for n := 0; n <= 6; n++ {
		ps := names[:n]
		l := &N{K: "list"}
		for _, p := range ps {
			l.Ns = append(l.Ns, Id(p))
		}
		out = append(out, &N{K: "let", Ps: []string{fmt.Sprintf("s%d", n)}, Ns: []*N{{K: "fn", Ps: append([]string{}, ps...), Ss: [][]*N{{{K: "ret", Ns: []*N{l}}}}}}})
	}
	out = append(out, &N{K: "let", Ps: []string{"sv"}, Ns: []*N{{K: "fn", Ps: []string{"a", "r"}, B: true, Ss: [][]*N{{{K: "ret", Ns: []*N{{K: "list", Ns: []*N{Id("a"), Id("r")}}}}}}}}})
	for _, n := range []int{0, 1, 2, 4, 5} {
		// body fails inside the interpreter: a Go array held by value cannot be sliced
		out = append(out, &N{K: "let", Ps: []string{fmt.Sprintf("sp%d", n)}, Ns: []*N{{K: "fn", Ps: append([]string{}, names[:n]...), Ss: [][]*N{{{K: "ret", Ns: []*N{{K: "slice", Ns: []*N{Id("harr"), Int(0), Int(2)}}}}}}}}})
	}
	out = append(out, &N{K: "let", Ps: []string{"acc"}, Ns: []*N{{K: "list", Ns: []*N{Int(10), Int(20), Int(30)}}}})
	out = append(out, &N{K: "let", Ps: []string{"accm"}, Ns: []*N{{K: "map", Ns: []*N{Str("k"), Int(1)}}}})
	out = append(out, &N{K: "let", Ps: []string{"x", "y", "z"}, Ns: []*N{Int(0), Int(0), Int(0)}})
	out = append(out, &N{K: "let", Ps: []string{"nv"}, Ns: []*N{{K: "nil"}}})
	return out
}

func gen(t *rapid.T) Case {
	gg := &g{t: t, feat: map[string]int{}}
	prog := prelude()
	nroots := gg.n(1, 3, "roots")
	var roots []*N
	var isSlot []bool
	var slotInfo []string
	for i := 0; i < nroots; i++ {
		if gg.n(0, 6, "slotroot") == 0 {
			// an earlier operand read from a slot that a later operand (or the callee) stores into
			gg.cur = nil
			roots = append(roots, &N{K: "try", Ss: [][]*N{gg.slotRoot(), {{K: "expr", Ns: []*N{P(int64(9000 + i))}}}}})
			isSlot = append(isSlot, true)
			slotInfo = append(slotInfo, slotSig(gg.cur))
			continue
		}
		r := gg.root()
		isSlot = append(isSlot, false)
		if r.K == "defer" || r.K == "var" {
			roots = append(roots, r)
			continue
		}
		// isolate raising roots so that the following statements still run
		roots = append(roots, &N{K: "try", Ss: [][]*N{{r}, {{K: "expr", Ns: []*N{P(int64(9000 + i))}}}}})
	}
	// the containers the slot patterns use are bound after the prelude, before the first root
	var slotStmts []*N
	for i, r := range roots {
		if isSlot[i] {
			slotStmts = append(slotStmts, r)
		}
	}
	prog = append(prog, slotPrelude(slotStmts)...)
	var slotRoots []int
	for i, r := range roots {
		if isSlot[i] {
			slotRoots = append(slotRoots, len(prog))
		}
		prog = append(prog, r)
	}
	prog = append(prog, &N{K: "ret", Ns: []*N{{K: "list", Ns: []*N{Id("x"), Id("y"), Id("z"), Id("acc"), gg.anyE(2)}}}})
	return Case{Prog: prog, GenFeat: gg.feat, SlotRoots: slotRoots, SlotInfo: slotInfo}
}

func countProbes(p []*N) int {
	n := 0
	Walk(p, func(x *N) {
		if x.K == "p" || x.K == "pfail" {
			n++
		}
	})
	return n
}

func oracle(c Case, o *h.Obs) *h.Fail {
	v := Judge(c.Prog)
	o.Key = v.Src
	if v.Excluded != "" {
		o.Excluded = "unspecified: " + v.Excluded
		return nil
	}
	f := v.Out.Feat
	special := false
	for k, n := range c.GenFeat {
		if n > 0 {
			o.Class("gen_" + k)
			switch {
			case len(k) > 5 && k[:5] == "call_" && (k[len(k)-6:] == "spread" || k[len(k)-5:] == "error"),
				k == "go_call", k == "defer_call", k == "raising_operand", k == "conversion_error_operand",
				k == "call_script_reflect_plain", k == "call_script_variadic_plain", k == "call_go_variadic_plain":
				special = true
			}
		}
	}
	for _, k := range []string{"short_circuit", "coalesce_swallowed_error", "conversion_error", "arity_error", "error_caught"} {
		if f[k] > 0 {
			o.Class("run_" + k)
		}
	}
	if f["short_circuit"] > 0 || f["coalesce_swallowed_error"] > 0 || f["conversion_error"] > 0 {
		special = true
	}
	o.NonTrivial = countProbes(c.Prog) >= 3 && special
	if len(c.SlotRoots) > 0 {
		// a slot pattern: the later operand stores into the slot, the result is assigned and compared
		o.NonTrivial = true
	}
	if !v.OK {
		if len(c.SlotRoots) > 0 && v.Clause != "no-termination" {
			// which slot pattern does the difference belong to? The program is judged again with one of
			// them at a time (and with none)
			without := func(keep int) []*N {
				rest := make([]*N, 0, len(c.Prog))
				for i, s := range c.Prog {
					drop := false
					for k, j := range c.SlotRoots {
						drop = drop || (i == j && k != keep)
					}
					if !drop {
						rest = append(rest, s)
					}
				}
				return rest
			}
			if v0 := Judge(without(-1)); v0.OK || v0.Excluded != "" {
				for k := range c.SlotRoots {
					v1 := Judge(without(k))
					if v1.OK || v1.Excluded != "" {
						continue
					}
					info := "?"
					if k < len(c.SlotInfo) {
						info = c.SlotInfo[k]
					}
					return h.Failf("C07|operand-read-from-a-slot-stored-into-later|"+v1.Clause+"|"+info,
						"an earlier operand was read from a slot that a later operand of the same expression (or the callee) stores into: it contributes the value it had when it was evaluated\nprogram:\n%s\n%s", v1.Src, v1.Detail)
				}
			}
		}
		sig := "C07|" + v.Clause
		if v.Clause == "trace" {
			if b := blameForm(c.Prog, v.Out.Trace, v.GotTrace); b != "" {
				sig += "|" + b
			}
		}
		f := h.Failf(sig, "program:\n%s\n%s", v.Src, v.Detail)
		f.NoShrink = v.Clause == "no-termination"
		return f
	}
	if msg := opAssignOrder(c.Prog, v.GotTrace, o); msg != "" {
		return h.Failf("C07|op-assign-order", "program:\n%s\n%s\nanko trace: %v", v.Src, msg, v.GotTrace)
	}
	return nil
}

// traceID reads the probe id of a trace entry ("p i:7 ...", "pfail i:7").
func traceID(e string) (int64, bool) {
	f := strings.Fields(e)
	if len(f) < 2 || (f[0] != "p" && f[0] != "pfail") || !strings.HasPrefix(f[1], "i:") {
		return 0, false
	}
	var id int64
	if _, err := fmt.Sscanf(f[1][2:], "%d", &id); err != nil {
		return 0, false
	}
	return id, true
}

// staticNonList: the item operand of an index expression is, by its text, a string or a value without
// index operation (a literal, a probe returning one, a concatenation, the nil variable).
func staticNonList(item *N) bool {
	switch item.K {
	case "str", "nil", "true", "false", "int", "flt":
		return true
	case "id":
		return item.S == "nv"
	case "p":
		return len(item.Ns) == 1 && staticNonList(item.Ns[0])
	case "bin":
		return item.S == "+" && staticNonList(item.Ns[0]) && staticNonList(item.Ns[1])
	}
	return false
}

// blameForm names the form of the seventh-round input classes that encloses the probe at which the
// traces of the model and of anko part (the probe anko ran there, or, when anko's trace ended, the one
// the model expected): the innermost operator chain written without parentheses, index expression
// directly on the left of ??, or index expression on a string / a value without index operation.
// "" when the probe is inside none of them (the signature stays the plain trace clause).
func blameForm(prog []*N, want, got []string) string {
	i, ok := MatchTrace(want, got)
	if ok {
		return ""
	}
	var id int64
	found := false
	if i < len(got) {
		id, found = traceID(got[i])
	}
	if !found && i < len(want) {
		id, found = traceID(want[i])
	}
	if !found {
		return ""
	}
	var find func(n *N, encl string) string
	find = func(n *N, encl string) string {
		if n == nil {
			return ""
		}
		if (n.K == "p" || n.K == "pfail") && n.I == id {
			if encl == "" {
				return "-"
			}
			return encl
		}
		for k, kid := range n.Ns {
			e := encl
			switch {
			case n.K == "chain":
				e = "operand-of-an-operator-chain"
			case n.K == "coal" && k == 0 && kid.K == "idx":
				e = "index-expression-left-of-coalesce"
			case n.K == "idx" && staticNonList(n.Ns[0]):
				if encl != "index-expression-left-of-coalesce" {
					e = "index-of-a-string-or-unindexable-value"
				}
			case n.K == "idx" && encl == "index-expression-left-of-coalesce":
				// still the operands of that index expression
			case n.K == "fn":
				e = ""
			}
			if r := find(kid, e); r != "" {
				return r
			}
		}
		for _, blk := range n.Ss {
			for _, st := range blk {
				if r := find(st, ""); r != "" {
					return r
				}
			}
		}
		return ""
	}
	for _, st := range prog {
		if r := find(st, ""); r != "" {
			if r == "-" {
				return ""
			}
			return r
		}
	}
	return ""
}

// probeIDs collects the ids of the probes below e.
func probeIDs(e *N) []int64 {
	var ids []int64
	Walk([]*N{e}, func(x *N) {
		if x.K == "p" || x.K == "pfail" {
			ids = append(ids, x.I)
		}
	})
	return ids
}

// opAssignOrder checks the one ordering the statement fixes inside `x op= e`: it stands for
// `x = x op e`, whose right-hand side is the binary operator `x op e` - the operands of x run before
// those of e. Whether the target x of the assignment is evaluated before or after that right-hand
// side is not stated, so the traces admitted for `a[i()] op= v()` are i i v and i v i, never v i i:
// the FIRST evaluation of every operand of x precedes the first evaluation of every operand of e.
// (The multiplicities are the model's business.) Returns "" when the order holds.
func opAssignOrder(prog []*N, trace []string, o *h.Obs) string {
	has := false
	Walk(prog, func(s *N) { has = has || (s.K == "opidx" && len(s.Ns) >= 3) })
	if !has {
		return ""
	}
	first := map[int64]int{}
	for i, e := range trace {
		if !strings.HasPrefix(e, "p i:") {
			continue
		}
		f := strings.Fields(e[4:])
		if len(f) == 0 {
			continue
		}
		var id int64
		if _, err := fmt.Sscanf(f[0], "%d", &id); err != nil {
			continue
		}
		if _, seen := first[id]; !seen {
			first[id] = i
		}
	}
	msg := ""
	Walk(prog, func(s *N) {
		if s.K != "opidx" || len(s.Ns) < 3 || msg != "" {
			return
		}
		xs := append(probeIDs(s.Ns[0]), probeIDs(s.Ns[1])...)
		es := probeIDs(s.Ns[2])
		for _, e := range es {
			ei, ran := first[e]
			if !ran {
				continue
			}
			for _, x := range xs {
				if xi, ok := first[x]; !ok || xi > ei {
					msg = fmt.Sprintf("`x %s= e` stands for `x = x %s e`: the operands of x are evaluated before e (binary operator, left to right), but probe %d of e ran before any evaluation of probe %d of x", s.Ps[0], s.Ps[0], e, x)
					return
				}
			}
			o.Class("run_op_assign_order_checked")
		}
	})
	return msg
}

func TestC07(t *testing.T) {
	c := h.New(t, "C07")
	defer c.Finish()
	c.Rule("typed expression generator whose leaves are side-effecting probes p(id[,v]) / pfail(id) with unique ids, over: calls of script functions (arity 0-4 direct path, 5-6 reflect path, variadic) and Go functions (fixed, variadic, typed parameters provoking conversion errors) as plain / spread / wrong-arity / anonymous / go / defer calls, list and map literals (typed, untyped and map{...}; also with a key operand whose value can be no map key), every binary operator including `in` (also with a right side that is not a list), index, 2- and 3-index slices, return lists, multi-assignment, var, && || ?: ??, a[i] op= e for every op= of the grammar and a[i]++ (multiplicity, and the first evaluation of every operand of the target before e), a[i] = e (multiplicity only); slot patterns (one root in seven): an operand read from a slot - element of a typed slice / untyped list / array field, map entry, struct field, pointee, plain variable; ints, strings, and lists as the container of an index or slice expression - while another operand of the same binary operator, in, index, slice, list / map literal, return list, multi-assignment or var right-hand side, call argument list (every call path, plain and spread, also deferred) or the callee itself stores into that slot: the result is the one computed from the values at evaluation time; non-trivial = a slot pattern, or >= 3 probe leaves and a short-circuit / raising / unconvertible operand or a reflect-path, variadic, spread, wrong-arity, go or defer call; distinct by source text")
	h.Run(c, "evalorder", c.N(15000, 150000), gen, oracle)
	c.Rule("sametree: a program of the same generator (2-8 roots, half of them a statement around an operator chain a && b && ... / a || b || ... of 2-32 operands without inner parentheses, the deciding operand drawn) is parsed once and the one tree is run by 2-8 (mostly 2-4) goroutines at the same time, each in a fresh environment of its own, the runs meeting at a barrier before every root; one case in five after a solitary run of the tree; then once more alone; the whole once or twice, each time on a fresh parse; every run is compared with the reference interpreter like a solitary run; non-trivial = at least 3 probe leaves; distinct by goroutine count, warm/cold and source text")
	h.Run(c, "sametree", c.N(300, 2000), genSameTree, oracleSameTree)
	c.Rule("goconv: 1-3 statements around calls of Go functions whose parameters have concrete types a script value must be converted for (int, int32, uint8, float32, float64, string, []int64, []string, map[string]int64, func(int64) int64, a named integer type; 1, 2 and 3 parameters, fixed and variadic, 39 signatures) - plain, spread (list literal or a list handed over by a probe, also too short or not a list), wrong-count and anonymous calls, direct (assigned, in a list literal, left of ??, in a return list, in a multi-assignment, as an argument of another call, nested in each other), through go and through defer (top level and inside a function, also with a spread list); every argument is a probe-laden expression of a value that converts (a literal, a probe result held in an interface{}, an operator result, a float without fraction for an integer type, nil, an untyped list / map for a typed one, a script function for the Go func type) and in one call of four one argument is of a value that does not (a string, bool, list, map or function for a number, a list with an element that does not convert, ...); compared with the reference interpreter: trace, error presence, the values the callees received, bindings; non-trivial = an argument of a conversion callee holds a probe; distinct by source text")
	h.Run(c, "goconv", c.N(3000, 30000), genGoConv, oracleGoConv)
}
