// C07, sub-check `goconv`: Go functions whose parameters have concrete types a script value has to be
// CONVERTED for.
//
// The statement names the case twice: "In every call form (script or Go function, fixed or variadic
// parameters, with or without `...` spreading, direct, through `go` or through `defer`) ... each operand
// expression is evaluated exactly once and in left-to-right source order (an error raised by one operand,
// or by converting it for a Go parameter, ends the evaluation of the operands after it)". The Go callees
// of sub-check `evalorder` take interface{} parameters, or int64 / string - exactly what a script value
// is, so nothing is ever converted on the way in. Here the callees (internal/prog/host_conv.go) take
// int, int32, uint8, float32, float64, string, []int64, []string, map[string]int64, func(int64) int64
// and a named integer type - one, two or three parameters, fixed and variadic - and every argument is a
// probe-laden expression of a value that converts (an int64 for an int, a float for an int, a value held
// in an interface{}, an untyped list for a typed slice, a script function for a Go func type ...) or of
// one that does not (then the operands after it must not run, and those before it have run once).
// The callees have no side effects and hand back what they received, so the slots are compared too.
package c07

import (
	"fmt"
	"math"
	"strings"

	"pgregory.net/rapid"

	"verif/internal/h"
	. "verif/internal/prog"
)

type KCase struct {
	Prog    []*N           `json:"prog"`
	GenFeat map[string]int `json:"genfeat,omitempty"`
}

var convSigByName = func() map[string]ConvSig {
	m := map[string]ConvSig{}
	for _, s := range ConvSigs {
		m[s.Name] = s
	}
	return m
}()

func flt(f float64) *N { return &N{K: "flt", I: int64(math.Float64bits(f))} }

func convTypeClass(typ string) string {
	r := strings.NewReplacer("[]", "slice_of_", "map[string]int64", "map", "func1", "func")
	return r.Replace(typ)
}

func hasProbe(e *N) bool { return len(probeIDs(e)) > 0 }

// smallE is an int expression whose value stays within 0..81 (fits every integer parameter type).
func (g *g) smallE(d int) *N {
	k := g.n(0, 7, "small")
	if d <= 0 {
		k %= 2
	}
	switch k {
	case 0, 1:
		return g.leaf(Int(int64(g.n(0, 3, "sv"))), true)
	case 2, 3, 4:
		if d > 2 {
			d = 2
		}
		g.f("binary_operator")
		return Bin(rapid.SampledFrom([]string{"+", "*", "|", "&"}).Draw(g.t, "sop"), g.smallE(d-1), g.smallE(d-1))
	case 5:
		g.f("ternary")
		return &N{K: "tern", Ns: []*N{g.condE(0), g.smallE(d - 1), g.smallE(d - 1)}}
	case 6:
		g.f("nil_coalescing")
		l := g.leaf(&N{K: "nil"}, false)
		if g.n(0, 1, "coalfail") == 0 {
			l = &N{K: "pfail", I: g.nid()}
			g.f("raising_operand")
		}
		return &N{K: "coal", Ns: []*N{l, g.smallE(d - 1)}}
	default:
		g.f("index")
		return &N{K: "idx", Ns: []*N{{K: "list", Ns: []*N{g.smallE(d - 1), g.smallE(d - 1)}}, g.leaf(Int(int64(g.n(0, 1, "ix"))), true)}}
	}
}

var (
	convIntLike   = []string{"int", "int32", "uint8", "convint"}
	convFloatLike = []string{"float32", "float64"}
)

func convShortName(typ string) string {
	for _, s := range ConvSigs {
		if !s.V && len(s.P) == 1 && s.P[0] == typ {
			return s.Name
		}
	}
	panic("no one-parameter callee for " + typ)
}

// convNested is a call of a one-parameter callee (it returns the value it received) used as an argument.
func (g *g) convNested(types []string, argType string, d int) *N {
	t := types[g.n(0, len(types)-1, "nestedT")]
	at := argType
	if at == "" {
		at = t
	}
	g.f("conv_nested_call_as_argument")
	g.f("conv_call_1_fixed_plain")
	g.f("conv_param_" + convTypeClass(t))
	return &N{K: "call", S: convShortName(t), Ns: []*N{g.convGood(at, d)}}
}

// convGood is an argument expression whose value converts to the parameter type typ.
func (g *g) convGood(typ string, d int) *N {
	switch typ {
	case "int", "convint", "int64":
		switch k := g.n(0, 9, "goodint"); {
		case k == 0:
			g.f("conv_arg_bare_literal")
			return Int(int64(g.n(1, 9, "iv")))
		case k == 4 && d > 0:
			return g.intE(d - 1)
		case k == 5:
			return g.smallE(d)
		case k == 6:
			g.f("conv_arg_float_for_integer_parameter")
			return g.leaf(flt(float64(g.n(1, 4, "fv"))), true)
		case k == 7 && d > 0:
			return g.convNested(convIntLike, "", d-1)
		case k == 8:
			g.f("conv_arg_nil")
			return g.leaf(&N{K: "nil"}, false)
		case k == 9:
			g.f("conv_arg_operator_result")
			return Bin("+", g.leaf(Int(int64(g.n(1, 9, "iv"))), true), Int(int64(g.n(1, 9, "iw"))))
		}
		return g.leaf(Int(int64(g.n(1, 9, "iv"))), true)
	case "int32", "uint8":
		switch k := g.n(0, 7, "goodsmall"); {
		case k == 0:
			g.f("conv_arg_bare_literal")
			return Int(int64(g.n(0, 9, "iv")))
		case k == 3 || k == 4:
			return g.smallE(d)
		case k == 5:
			g.f("conv_arg_float_for_integer_parameter")
			return g.leaf(flt(float64(g.n(1, 4, "fv"))), true)
		case k == 6 && d > 0:
			// the inner callee gets a value that fits uint8, whatever its own parameter type is
			return g.convNested(convIntLike, "uint8", d-1)
		case k == 7:
			g.f("conv_arg_nil")
			return g.leaf(&N{K: "nil"}, false)
		}
		return g.leaf(Int(int64(g.n(0, 9, "iv"))), true)
	case "float32", "float64":
		fv := []float64{0.5, 1.5, 2.25, 3, -1.5}
		switch k := g.n(0, 7, "goodfloat"); {
		case k == 0:
			g.f("conv_arg_bare_literal")
			return flt(fv[g.n(0, len(fv)-2, "fv")])
		case k == 3:
			g.f("conv_arg_integer_for_float_parameter")
			return g.leaf(Int(int64(g.n(0, 9, "iv"))), true)
		case k == 4:
			g.f("conv_arg_integer_for_float_parameter")
			return g.smallE(d)
		case k == 5 && d > 0:
			return g.convNested(convFloatLike, "float32", d-1)
		case k == 6:
			g.f("conv_arg_nil")
			return g.leaf(&N{K: "nil"}, false)
		}
		return g.leaf(flt(fv[g.n(0, len(fv)-1, "fv")]), true)
	case "string":
		word := rapid.SampledFrom([]string{"ab", "xyz", "q", ""}).Draw(g.t, "word")
		switch k := g.n(0, 7, "goodstr"); {
		case k == 0:
			g.f("conv_arg_bare_literal")
			g.f("conv_arg_already_of_parameter_type")
			return Str(word)
		case k == 3:
			g.f("conv_arg_operator_result")
			g.f("conv_arg_already_of_parameter_type")
			return Bin("+", g.leaf(Str(word), true), g.leaf(Str("t"), true))
		case k == 4 && d > 0:
			return g.convNested([]string{"string"}, "", d-1)
		case k == 5:
			g.f("conv_arg_nil")
			return g.leaf(&N{K: "nil"}, false)
		case k == 6:
			g.f("index")
			return &N{K: "idx", Ns: []*N{g.leaf(&N{K: "list", Ns: []*N{Str(word), Str("u")}}, true), g.leaf(Int(int64(g.n(0, 1, "ix"))), true)}}
		}
		return g.leaf(Str(word), true)
	case "[]int64", "[]string":
		et := typ[2:]
		n := g.n(0, 3, "sliceN")
		switch k := g.n(0, 5, "goodslice"); {
		case k == 0:
			// a probe handing over an untyped list of constants
			l := &N{K: "list"}
			for i := 0; i < n; i++ {
				if et == "int64" {
					l.Ns = append(l.Ns, Int(int64(g.n(0, 9, "ev"))))
				} else {
					l.Ns = append(l.Ns, Str(fmt.Sprintf("e%d", i)))
				}
			}
			g.f("conv_arg_untyped_list_for_typed_slice")
			return g.leaf(l, true)
		case k == 1 && et == "int64":
			// already a []int64
			g.f("typed_list_literal")
			g.f("conv_arg_already_of_parameter_type")
			l := &N{K: "tlist", S: "int64"}
			for i := 0; i < n; i++ {
				l.Ns = append(l.Ns, g.smallE(d-1))
			}
			return l
		}
		g.f("list_literal")
		g.f("conv_arg_untyped_list_for_typed_slice")
		l := &N{K: "list"}
		for i := 0; i < n; i++ {
			l.Ns = append(l.Ns, g.convGood(et, d-1))
		}
		return l
	case "map[string]int64":
		n := g.n(0, 2, "mapN")
		switch k := g.n(0, 4, "goodmap"); {
		case k == 0:
			m := &N{K: "map"}
			for i := 0; i < n; i++ {
				m.Ns = append(m.Ns, Str(fmt.Sprintf("k%d", i)), Int(int64(g.n(0, 9, "mv"))))
			}
			g.f("conv_arg_untyped_map_for_typed_map")
			return g.leaf(m, true)
		case k == 1:
			g.f("typed_map_literal")
			g.f("conv_arg_already_of_parameter_type")
			m := &N{K: "tmap", S: "int64"}
			for i := 0; i < n; i++ {
				m.Ns = append(m.Ns, g.leaf(Str(fmt.Sprintf("k%d", i)), true), g.smallE(d-1))
			}
			return m
		}
		g.f("map_literal")
		g.f("conv_arg_untyped_map_for_typed_map")
		m := &N{K: "map"}
		for i := 0; i < n; i++ {
			m.Ns = append(m.Ns, g.leaf(Str(fmt.Sprintf("k%d", i)), true), g.convGood("int64", d-1))
		}
		return m
	case "func1":
		g.f("conv_arg_script_function_for_go_func_type")
		switch g.n(0, 2, "goodfn") {
		case 0:
			return Id("sf1")
		case 1:
			return g.leaf(Id("sf1"), true)
		}
		return &N{K: "fn", Ps: []string{"a"}, Ss: [][]*N{{{K: "ret", Ns: []*N{Id("a")}}}}}
	}
	// interface{}: anything
	if d > 0 && g.n(0, 2, "anyE") == 0 {
		return g.anyE(d - 1)
	}
	vs := []*N{Int(int64(g.n(0, 9, "av"))), Str("s"), {K: "nil"}, {K: "true"}, flt(1.5), {K: "list", Ns: []*N{Int(1), Int(2)}}}
	return g.leaf(vs[g.n(0, len(vs)-1, "anyv")], true)
}

// convBad is an argument whose value does not convert to typ ("" when every value does).
func (g *g) convBad(typ string) *N {
	listOf := func(es ...*N) *N { return &N{K: "list", Ns: es} }
	mapOf := func(k string, v *N) *N { return &N{K: "map", Ns: []*N{Str(k), v}} }
	var vs []*N
	switch typ {
	case "int", "int32", "uint8", "convint", "int64", "float32", "float64":
		vs = []*N{Str("xx"), Str("notint"), {K: "true"}, listOf(Int(1)), mapOf("a", Int(1)), Id("sf1")}
	case "string":
		vs = []*N{flt(1.5), {K: "false"}, listOf(Str("a")), mapOf("a", Int(1)), Id("sf1")}
	case "[]int64":
		vs = []*N{Int(5), Str("xx"), {K: "true"}, mapOf("a", Int(1)), listOf(Int(1), Str("xx")), listOf(listOf(Int(1))), Id("sf1")}
	case "[]string":
		vs = []*N{Int(5), Str("xx"), {K: "true"}, mapOf("a", Int(1)), listOf(Str("a"), flt(1.5)), listOf(listOf(Str("a"))), Id("sf1")}
	case "map[string]int64":
		vs = []*N{Int(5), Str("xx"), {K: "true"}, listOf(Int(1)), mapOf("a", Str("xx")), mapOf("a", listOf(Int(1))), Id("sf1")}
	case "func1":
		vs = []*N{Int(5), Str("xx"), {K: "true"}, listOf(Int(1)), mapOf("a", Int(1)), Id("gfix1"), flt(1.5)}
	default:
		return nil
	}
	v := vs[g.n(0, len(vs)-1, "badv")]
	g.f("conversion_error_operand")
	g.f("conv_bad_for_" + convTypeClass(typ))
	if g.n(0, 5, "barebad") == 0 {
		g.f("conv_bad_bare_value")
		return v
	}
	return g.leaf(v, false)
}

// convCall is a call of one of the conversion callees. form "" = any; "plain" = no spread (deferred /
// nested use); the result holds what the callee received.
func (g *g) convCall(d int) *N {
	sig := ConvSigs[g.n(0, len(ConvSigs)-1, "convsig")]
	n := len(sig.P)
	typeOf := func(i int) string {
		if sig.V && i >= n-1 {
			return sig.P[n-1]
		}
		return sig.P[i]
	}
	kind := fmt.Sprintf("%d_fixed", n)
	if sig.V {
		kind = fmt.Sprintf("%d_variadic", n)
	}
	call := &N{K: "call", S: sig.Name}
	if g.n(0, 4, "anon") == 0 {
		call = &N{K: "acall", Ns: []*N{Id(sig.Name)}}
		g.f("anonymous_call_form")
	}
	for _, t := range sig.P {
		g.f("conv_param_" + convTypeClass(t))
	}
	shape := g.n(0, 9, "shape")
	switch {
	case shape == 0 && (!sig.V || n >= 2):
		// wrong argument count: no operand may be evaluated twice (today: none at all)
		wrong := n + 1
		if sig.V {
			wrong = n - 2
		} else if n > 1 && g.n(0, 1, "fewer") == 0 {
			wrong = n - 1
		}
		for i := 0; i < wrong; i++ {
			call.Ns = append(call.Ns, g.leaf(nil, false))
		}
		g.f("conv_call_" + kind + "_arity_error")
	case shape <= 3:
		// spread: f(a, [b, c]...)
		fixed := n - 1
		if !sig.V && n > 1 {
			fixed = g.n(0, n-1, "fixed")
		}
		rest := n - fixed
		if sig.V {
			rest = g.n(0, 3, "extra")
		}
		short := false
		if !sig.V && rest >= 2 && g.n(0, 9, "short") == 0 {
			// a list with too few elements: rejected after the operands have run once
			rest--
			short = true
			g.f("conv_spread_list_too_short")
		}
		var args []*N
		for i := 0; i < fixed; i++ {
			args = append(args, g.convGood(typeOf(i), d-1))
		}
		l := &N{K: "list"}
		for i := 0; i < rest; i++ {
			l.Ns = append(l.Ns, g.convGood(typeOf(fixed+i), d-1))
		}
		bad := -1
		if !short && g.n(0, 3, "bad?") == 0 && fixed+rest > 0 {
			bad = g.n(0, fixed+rest-1, "badpos")
			if b := g.convBad(typeOf(bad)); b != nil {
				if bad < fixed {
					args[bad] = b
					g.f("conv_bad_fixed_argument_of_spread_call")
				} else {
					l.Ns[bad-fixed] = b
					g.f("conv_bad_element_of_spread_list")
				}
			}
		}
		var last *N = l
		switch g.n(0, 7, "listform") {
		case 0:
			// a probe handing over the list (its elements may hold probes of their own)
			last = g.leaf(l, true)
			g.f("conv_spread_list_from_probe")
		case 1:
			if bad < 0 && !short {
				// not a list at all
				last = g.leaf(Int(int64(g.n(1, 9, "nl"))), false)
				g.f("conv_spread_operand_not_a_list")
				g.f("conversion_error_operand")
			}
		}
		call.Ns = append(call.Ns, append(args, last)...)
		call.B = true
		g.f("conv_call_" + kind + "_spread")
	default:
		nargs := n
		if sig.V {
			nargs = n - 1 + g.n(0, 3, "extra")
		}
		var args []*N
		for i := 0; i < nargs; i++ {
			args = append(args, g.convGood(typeOf(i), d-1))
		}
		if nargs > 0 && g.n(0, 3, "bad?") == 0 {
			bad := g.n(0, nargs-1, "badpos")
			if b := g.convBad(typeOf(bad)); b != nil {
				args[bad] = b
				switch {
				case bad == nargs-1:
					g.f("conv_bad_last_argument")
				case bad == 0:
					g.f("conv_bad_first_argument")
				default:
					g.f("conv_bad_middle_argument")
				}
				if sig.V && bad >= n-1 {
					g.f("conv_bad_variadic_argument")
				}
			}
		}
		call.Ns = append(call.Ns, args...)
		g.f("conv_call_" + kind + "_plain")
	}
	for _, a := range call.Ns {
		if hasProbe(a) {
			g.f("conv_call_with_probe_argument")
			break
		}
	}
	return call
}

func (g *g) convRoot() *N {
	d := g.n(1, 3, "depth")
	tgt := func() []string { return []string{rapid.SampledFrom([]string{"x", "y", "z"}).Draw(g.t, "tgt")} }
	fnOf := func(body ...*N) *N {
		return &N{K: "acall", Ns: []*N{{K: "fn", Ss: [][]*N{body}}}}
	}
	switch g.n(0, 15, "convroot") {
	case 0, 1, 2, 3:
		g.f("conv_direct")
		return &N{K: "let", Ps: tgt(), Ns: []*N{g.convCall(d)}}
	case 4:
		g.f("conv_direct")
		g.f("list_literal")
		return &N{K: "let", Ps: tgt(), Ns: []*N{{K: "list", Ns: []*N{g.leaf(nil, true), g.convCall(d), g.leaf(nil, true)}}}}
	case 5:
		// a call whose conversion fails on the left of ??: the right side gives the value
		g.f("conv_direct")
		g.f("nil_coalescing")
		g.f("conv_call_left_of_coalesce")
		return &N{K: "let", Ps: tgt(), Ns: []*N{{K: "coal", Ns: []*N{g.convCall(d), g.leaf(Int(int64(g.n(1, 9, "cv"))), true)}}}}
	case 6, 7, 8:
		g.f("go_call")
		g.f("conv_go")
		return &N{K: "go", Ns: []*N{g.convCall(d)}}
	case 9, 10:
		g.f("defer_call")
		g.f("conv_defer")
		return &N{K: "defer", Ns: []*N{g.convCall(d)}}
	case 11:
		// deferred inside a function: the operands run at the defer statement, before the return list
		g.f("defer_call")
		g.f("conv_defer")
		g.f("conv_defer_inside_function")
		return &N{K: "let", Ps: tgt(), Ns: []*N{fnOf(
			&N{K: "defer", Ns: []*N{g.convCall(d)}},
			&N{K: "ret", Ns: []*N{g.leaf(Int(int64(g.n(1, 9, "rv"))), true)}})}}
	case 12:
		g.f("conv_direct")
		g.f("multi_assign")
		return &N{K: "let", Ps: []string{"x", "y"}, Ns: []*N{g.convCall(d), g.convCall(d)}}
	case 13:
		g.f("conv_direct")
		g.f("return_list")
		return &N{K: "let", Ps: tgt(), Ns: []*N{fnOf(&N{K: "ret", Ns: []*N{g.convCall(d), g.leaf(nil, true)}})}}
	case 14:
		// as an argument of a script function / of a Go function with interface{} parameters
		g.f("conv_direct")
		g.f("conv_call_as_argument_of_another_call")
		name := rapid.SampledFrom([]string{"s2", "gfix2", "sv", "gvar"}).Draw(g.t, "outer")
		return &N{K: "let", Ps: tgt(), Ns: []*N{{K: "call", S: name, Ns: []*N{g.convCall(d), g.leaf(nil, true)}}}}
	default:
		g.f("conv_direct")
		return &N{K: "expr", Ns: []*N{g.convCall(d)}}
	}
}

func genGoConv(t *rapid.T) KCase {
	gg := &g{t: t, feat: map[string]int{}}
	prog := prelude()
	prog = append(prog, &N{K: "let", Ps: []string{"sf1"}, Ns: []*N{{K: "fn", Ps: []string{"a"}, Ss: [][]*N{{{K: "ret", Ns: []*N{Id("a")}}}}}}})
	nroots := gg.n(1, 3, "roots")
	for i := 0; i < nroots; i++ {
		r := gg.convRoot()
		if r.K == "defer" {
			prog = append(prog, r)
			continue
		}
		prog = append(prog, &N{K: "try", Ss: [][]*N{{r}, {{K: "expr", Ns: []*N{P(int64(9000 + i))}}}}})
	}
	prog = append(prog, &N{K: "ret", Ns: []*N{{K: "list", Ns: []*N{Id("x"), Id("y"), Id("z")}}}})
	return KCase{Prog: prog, GenFeat: gg.feat}
}

// convBlame describes the conversion-callee call that encloses the probe at which the traces part:
// "<parameters>-fixed|variadic / plain|spread / direct|go|defer"; "" when there is none.
func convBlame(prog []*N, want, got []string) string {
	i, ok := MatchTrace(want, got)
	if ok {
		return ""
	}
	var id int64
	found := false
	if i < len(got) {
		id, found = traceID(got[i])
	}
	if !found && i < len(want) {
		id, found = traceID(want[i])
	}
	if !found {
		return ""
	}
	var find func(n *N, encl string, via string) string
	find = func(n *N, encl, via string) string {
		if n == nil {
			return ""
		}
		if (n.K == "p" || n.K == "pfail") && n.I == id {
			if encl == "" {
				return "-"
			}
			return encl
		}
		e := encl
		name := ""
		switch {
		case n.K == "call":
			name = n.S
		case n.K == "acall" && n.Ns[0].K == "id":
			name = n.Ns[0].S
		}
		if sig, ok := convSigByName[name]; ok {
			kind := fmt.Sprintf("%d-fixed", len(sig.P))
			if sig.V {
				kind = fmt.Sprintf("%d-variadic", len(sig.P))
			}
			form := "plain"
			if n.B {
				form = "spread"
			}
			if via == "" {
				via = "direct"
			}
			e = kind + "/" + form + "/" + via
		}
		for _, kid := range n.Ns {
			v := ""
			if n.K == "go" || n.K == "defer" {
				v = n.K
			}
			if r := find(kid, e, v); r != "" {
				return r
			}
		}
		for _, blk := range n.Ss {
			for _, st := range blk {
				if r := find(st, "", ""); r != "" {
					return r
				}
			}
		}
		return ""
	}
	for _, st := range prog {
		if r := find(st, "", ""); r != "" {
			if r == "-" {
				return ""
			}
			return r
		}
	}
	return ""
}

func oracleGoConv(c KCase, o *h.Obs) *h.Fail {
	v := Judge(c.Prog)
	o.Key = v.Src
	if v.Excluded != "" {
		o.Excluded = "unspecified: " + v.Excluded
		return nil
	}
	for k, n := range c.GenFeat {
		if n > 0 {
			o.Class("gen_" + k)
		}
	}
	f := v.Out.Feat
	for _, k := range []string{"short_circuit", "coalesce_swallowed_error", "conversion_error", "arity_error", "error_caught", "defer_registered", "defer_with_spread_list"} {
		if f[k] > 0 {
			o.Class("run_" + k)
		}
	}
	o.NonTrivial = c.GenFeat["conv_call_with_probe_argument"] > 0
	if !v.OK {
		sig := "C07|go-parameter-conversion|" + v.Clause
		if v.Clause == "trace" {
			if b := convBlame(c.Prog, v.Out.Trace, v.GotTrace); b != "" {
				sig += "|" + b
			}
		}
		fl := h.Failf(sig, "a Go function with parameters of concrete types: every operand of the call is evaluated once, left to right; a failing conversion ends the evaluation of the operands after it\nprogram:\n%s\n%s", v.Src, v.Detail)
		fl.NoShrink = v.Clause == "no-termination"
		return fl
	}
	return nil
}
