package c12

import (
	"errors"
	"fmt"
	"reflect"
	"sort"

	"github.com/mattn/anko/env"
)

// ---------------------------------------------------------------- reference model
//
// Written from the property statement: a scope is a pair of dictionaries plus a
// parent link and an optional external lookup. Nothing here looks at package env's
// internals.

type mval struct {
	k    byte // 'i' int64, 's' string, 'n' nil, 'e' scope, '?' foreign
	n    int64
	s    string
	env  *node
	addr int8 // 1 addressable, 0 not, -1 not specified
}

func same(a, b mval) bool { return a.k == b.k && a.n == b.n && a.s == b.s && a.env == b.env }

func (v mval) String() string {
	switch v.k {
	case 'i':
		return fmt.Sprintf("int64(%d)", v.n)
	case 's':
		return fmt.Sprintf("string(%q)", v.s)
	case 'n':
		return "nil"
	case 'e':
		if v.env == nil {
			return "scope#unknown"
		}
		return fmt.Sprintf("scope#%d", v.env.live)
	case 0:
		return "<unbound>"
	}
	return "foreign(" + v.s + ")"
}

type mext struct {
	id    int
	vals  map[string]mval
	types map[string]reflect.Type
	form  int // Go representation of the real lookup (extForm*); the model's answers do not depend on it
	real  env.ExternalLookup
	// unusable: names the real lookup answers with a nil error and a reflect.Value that cannot be handed out
	// (kind extBadZero ...). Such an answer is not a binding: the model treats the name as not served (it is
	// absent from vals); the map is kept for the class counters only.
	unusable map[string]int
}

type node struct {
	values map[string]mval
	types  map[string]reflect.Type
	parent *node
	ext    *mext
	live   int // index among the live scopes, -1 for the hidden ancestors a DeepCopy creates
}

func newModelNode(parent *node, x *mext) *node {
	return &node{values: map[string]mval{}, types: map[string]reflect.Type{}, parent: parent, ext: x, live: -1}
}

func rootOf(n *node) *node {
	for n.parent != nil {
		n = n.parent
	}
	return n
}

// mcopy: an independent snapshot of one scope (same parent, same external lookup).
func mcopy(n *node) *node {
	c := newModelNode(n.parent, n.ext)
	for k, v := range n.values {
		c.values[k] = v
	}
	for k, v := range n.types {
		c.types[k] = v
	}
	return c
}

// mdeepcopy: snapshot of the whole chain.
func mdeepcopy(n *node) *node {
	c := mcopy(n)
	if c.parent != nil {
		c.parent = mdeepcopy(c.parent)
	}
	return c
}

// mget: nearest enclosing binding; per scope the own table first, then its external lookup.
func mget(n *node, name string) (mval, string, bool) {
	for cur := n; cur != nil; cur = cur.parent {
		if v, ok := cur.values[name]; ok {
			if cur == n {
				return v, "own", true
			}
			return v, "ancestor", true
		}
		if cur.ext != nil {
			if v, ok := cur.ext.vals[name]; ok {
				if cur == n {
					return v, "ext-own", true
				}
				return v, "ext-ancestor", true
			}
		}
	}
	return mval{}, "undefined", false
}

// mtype: like mget on the type tables; built-in type names last.
func mtype(n *node, name string) (reflect.Type, string, bool) {
	for cur := n; cur != nil; cur = cur.parent {
		if t, ok := cur.types[name]; ok {
			if cur == n {
				return t, "own", true
			}
			return t, "ancestor", true
		}
		if cur.ext != nil {
			if t, ok := cur.ext.types[name]; ok {
				if cur == n {
					return t, "ext-own", true
				}
				return t, "ext-ancestor", true
			}
		}
	}
	if t, ok := builtinTypes[name]; ok {
		return t, "builtin", true
	}
	return nil, "undefined", false
}

// mfindTable: the nearest scope whose own value table binds name (what set and
// delete-nearest can act on); shadow reports that an external lookup nearer than
// that scope knows the name.
func mfindTable(n *node, name string) (target *node, shadow bool) {
	for cur := n; cur != nil; cur = cur.parent {
		if _, ok := cur.values[name]; ok {
			return cur, shadow
		}
		if cur.ext != nil {
			if _, ok := cur.ext.vals[name]; ok {
				shadow = true
			}
		}
	}
	return nil, shadow
}

// mpastUnusable reports whether the walk from n to the nearest binding of name (tableOnly: to the nearest
// table entry, what set and delete-nearest act on) - or to the outermost scope if there is none - asks an
// external lookup that answers name with an unusable value. Used for class counters only.
func mpastUnusable(n *node, name string, tableOnly bool) bool {
	for cur := n; cur != nil; cur = cur.parent {
		if _, ok := cur.values[name]; ok {
			return false
		}
		if cur.ext != nil {
			if _, ok := cur.ext.vals[name]; ok && !tableOnly {
				return false
			}
			if _, ok := cur.ext.unusable[name]; ok {
				return true
			}
		}
	}
	return false
}

// mpath resolves a module path. res == nil means "error". alt reports that the
// nearest binding of the first element was not a module while a module was found
// further out: then "error" is admitted next to res.
func mpath(n *node, path []string) (res *node, alt bool, cls string) {
	if len(path) == 0 {
		return n, false, "self"
	}
	var start *node
	nonModuleSeen := false
	for cur := n; cur != nil; cur = cur.parent {
		if v, ok := cur.values[path[0]]; ok {
			if v.k == 'e' && v.env != nil {
				start = v.env
				break
			}
			nonModuleSeen = true
		} else if cur.ext != nil {
			if _, ok := cur.ext.vals[path[0]]; ok {
				nonModuleSeen = true
			}
		}
	}
	if start == nil {
		if nonModuleSeen {
			return nil, false, "first-nonmodule"
		}
		return nil, false, "first-missing"
	}
	cur := start
	for i := 1; i < len(path); i++ {
		v, ok := cur.values[path[i]]
		if !ok {
			return nil, false, "later-missing"
		}
		if v.k != 'e' || v.env == nil {
			return nil, false, "later-nonmodule"
		}
		cur = v.env
	}
	if nonModuleSeen {
		return cur, true, "ok-past-nonmodule-ambiguous"
	}
	return cur, false, "ok"
}

func sortedValKeys(n *node) []string {
	s := make([]string, 0, len(n.values))
	for k := range n.values {
		s = append(s, k)
	}
	sort.Strings(s)
	return s
}

func sortedTypeKeys(n *node) []string {
	s := make([]string, 0, len(n.types))
	for k := range n.types {
		s = append(s, k)
	}
	sort.Strings(s)
	return s
}

// ---------------------------------------------------------------- types

var byteType = reflect.TypeOf(byte(0))

// typeOf: 0 → the nil type, k>0 → [k]byte (distinct and comparable with ==).
func typeOf(id int) reflect.Type {
	if id <= 0 {
		return nil
	}
	if id > 4096 {
		id = 4096
	}
	return reflect.ArrayOf(id, byteType)
}

// the pool names that the statement's "built-in type names" cover
var builtinTypes = map[string]reflect.Type{
	"int64": reflect.TypeOf(int64(0)),
	"bool":  reflect.TypeOf(false),
}

// ---------------------------------------------------------------- external lookups

// extLookup is the harness-side map-backed env.ExternalLookup. vals may hold unusable reflect.Values
// (see extBad*): they are answered like every other entry, with a nil error.
type extLookup struct {
	vals  map[string]reflect.Value
	types map[string]reflect.Type
	// zeroOnMiss: on a miss the lookup returns the zero reflect.Value / a nil reflect.Type next to
	// its error (a host implementation need not return env.NilValue / env.NilType)
	zeroOnMiss bool
}

var errExtUnknown = errors.New("external lookup: unknown name")

func (x *extLookup) Get(name string) (reflect.Value, error) {
	if v, ok := x.vals[name]; ok {
		return v, nil
	}
	if x.zeroOnMiss {
		return reflect.Value{}, errExtUnknown
	}
	return env.NilValue, errExtUnknown
}

func (x *extLookup) Type(name string) (reflect.Type, error) {
	if t, ok := x.types[name]; ok {
		return t, nil
	}
	if x.zeroOnMiss {
		return nil, errExtUnknown
	}
	return env.NilType, errExtUnknown
}

// env.ExternalLookup is an interface: what a host installs may be a pointer, but just as well a map, a
// struct passed by value or a func with methods. The forms below all answer exactly like the *extLookup
// they are made from (the model does not know the form); they differ in the Go representation only.
// map, struct and func are types Go cannot compare with ==.
const (
	extFormPtr    = iota // *extLookup
	extFormMap           // extMap: a named map type with value-receiver methods
	extFormStruct        // extStruct: a struct holding maps, passed by value
	extFormFunc          // extFunc: a named func type with methods
	extFormHandle        // extHandle: a comparable struct (one pointer field), passed by value
	nExtForms
)

var extFormNames = [nExtForms]string{"pointer", "map", "struct-value", "func", "comparable-struct-value"}

func extFormUncomparable(f int) bool {
	return f == extFormMap || f == extFormStruct || f == extFormFunc
}

func normExtForm(f int) int { return ((f % nExtForms) + nExtForms) % nExtForms }

// extMap: the host's table itself is the lookup. kind 'v' → reflect.Value, 't' → reflect.Type,
// the entry {'z', ""} is present when a miss returns the zero Value / nil Type.
type extKey struct {
	kind byte
	name string
}
type extMap map[extKey]interface{}

func (m extMap) Get(name string) (reflect.Value, error) {
	if v, ok := m[extKey{'v', name}]; ok {
		return v.(reflect.Value), nil
	}
	if _, zero := m[extKey{'z', ""}]; zero {
		return reflect.Value{}, errExtUnknown
	}
	return env.NilValue, errExtUnknown
}

func (m extMap) Type(name string) (reflect.Type, error) {
	if t, ok := m[extKey{'t', name}]; ok {
		rt, _ := t.(reflect.Type) // a nil type is stored as a nil interface
		return rt, nil
	}
	if _, zero := m[extKey{'z', ""}]; zero {
		return nil, errExtUnknown
	}
	return env.NilType, errExtUnknown
}

type extStruct struct {
	vals       map[string]reflect.Value
	types      map[string]reflect.Type
	zeroOnMiss bool
}

func (x extStruct) Get(name string) (reflect.Value, error) {
	return (&extLookup{x.vals, x.types, x.zeroOnMiss}).Get(name)
}

func (x extStruct) Type(name string) (reflect.Type, error) {
	return (&extLookup{x.vals, x.types, x.zeroOnMiss}).Type(name)
}

// extFunc: one host callback serves both questions (like http.HandlerFunc serves http.Handler).
type extFunc func(name string, wantType bool) (reflect.Value, reflect.Type, error)

func (f extFunc) Get(name string) (reflect.Value, error) {
	v, _, err := f(name, false)
	return v, err
}

func (f extFunc) Type(name string) (reflect.Type, error) {
	_, t, err := f(name, true)
	return t, err
}

type extHandle struct{ p *extLookup }

func (x extHandle) Get(name string) (reflect.Value, error) { return x.p.Get(name) }
func (x extHandle) Type(name string) (reflect.Type, error) { return x.p.Type(name) }

// inForm wraps base in the given representation.
func inForm(base *extLookup, form int) env.ExternalLookup {
	switch normExtForm(form) {
	case extFormMap:
		m := extMap{}
		for k, v := range base.vals {
			m[extKey{'v', k}] = v
		}
		for k, t := range base.types {
			m[extKey{'t', k}] = t
		}
		if base.zeroOnMiss {
			m[extKey{'z', ""}] = true
		}
		return m
	case extFormStruct:
		return extStruct{base.vals, base.types, base.zeroOnMiss}
	case extFormFunc:
		return extFunc(func(name string, wantType bool) (reflect.Value, reflect.Type, error) {
			if wantType {
				t, err := base.Type(name)
				return reflect.Value{}, t, err
			}
			v, err := base.Get(name)
			return v, nil, err
		})
	case extFormHandle:
		return extHandle{base}
	}
	return base
}

// Unusable answers. A host's lookup may return a nil error together with a reflect.Value that cannot be
// handed out: the zero Value (e.g. "not found" signalled by the value alone, or a MapIndex / FieldByName
// result passed on unchecked), or a value read from an unexported struct field (a lookup that reflects over
// a host struct). Neither can be turned into an interface{} - Get would have to panic - so such an answer
// is not a binding: the lookup goes on as after a miss.
const (
	extBadZero       = 1 // reflect.Value{}
	extBadHidden     = 2 // value of an unexported field, not addressable
	extBadHiddenAddr = 3 // value of an unexported field of an addressable struct (CanAddr, not CanInterface)
)

var extBadKindNames = [4]string{"", "zero-Value", "unexported-field", "addressable-unexported-field"}

// extBadNames[i]: the names lookup i answers unusably when its mode (Case.ExtBad[i-1]) is not 0; disjoint
// from the names it serves. Mode 1..3: all of them with that kind, mode 4: kinds alternate by position.
var extBadNames = [4][]string{nil, {"b", "c", ""}, {"a", "m", "bool"}, {"a", "b", "e", "m", "a.b"}}

const nExtBadModes = 5

var extBadModeNames = [nExtBadModes]string{"none", "zero-Value", "unexported-field", "addressable-unexported-field", "mixed"}

func normExtBad(m int) int { return ((m % nExtBadModes) + nExtBadModes) % nExtBadModes }

func extBadKind(mode, pos int) int {
	if mode == 4 {
		return pos%3 + 1
	}
	return mode
}

type hostRecord struct{ hidden string }

func unusableValue(kind int) reflect.Value {
	switch kind {
	case extBadHidden:
		return reflect.ValueOf(hostRecord{"hidden"}).Field(0)
	case extBadHiddenAddr:
		return reflect.ValueOf(&hostRecord{"hidden"}).Elem().Field(0)
	}
	return reflect.Value{}
}

// newExts builds the three external lookups of a case (fresh objects per case).
// They never know dotted names and never hold scopes. forms[i-1] is the Go
// representation of lookup i (missing: pointer), bad[i-1] its mode of unusable answers (missing: none).
func newExts(forms, bad []int) [4]*mext {
	mk := func(id int, vals map[string]string, addressable string, types map[string]int) *mext {
		base := &extLookup{vals: map[string]reflect.Value{}, types: map[string]reflect.Type{}, zeroOnMiss: id%2 == 0}
		m := &mext{id: id, vals: map[string]mval{}, types: map[string]reflect.Type{}}
		for k, s := range vals {
			if k == addressable {
				p := new(string)
				*p = s
				base.vals[k] = reflect.ValueOf(p).Elem()
				m.vals[k] = mval{k: 's', s: s, addr: 1}
			} else {
				base.vals[k] = reflect.ValueOf(s)
				m.vals[k] = mval{k: 's', s: s}
			}
		}
		for k, id := range types {
			base.types[k] = typeOf(id)
			m.types[k] = typeOf(id)
		}
		if id-1 < len(bad) {
			if mode := normExtBad(bad[id-1]); mode != 0 {
				m.unusable = map[string]int{}
				for pos, k := range extBadNames[id] {
					// the real lookup answers (value, nil); the model's vals do not get the name
					kind := extBadKind(mode, pos)
					base.vals[k] = unusableValue(kind)
					m.unusable[k] = kind
				}
			}
		}
		if id-1 < len(forms) {
			m.form = normExtForm(forms[id-1])
		}
		m.real = inForm(base, m.form)
		return m
	}
	return [4]*mext{
		nil,
		mk(1, map[string]string{"a": "x1a", "m": "x1m", "e": "x1e"}, "e", map[string]int{"a": 201, "int64": 202, "e": 203}),
		mk(2, map[string]string{"b": "x2b", "": "x2_", "e": "x2e", "int64": "x2i"}, "-", map[string]int{"b": 211, "bool": 212, "": 213}),
		mk(3, nil, "-", nil),
	}
}
