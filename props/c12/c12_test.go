// C12 — the environment API behaves as a chain of dictionaries.
//
// Model-based check. A case is a complete history of env API calls, generated up
// front as plain data (so that a saved case replays without rapid). The history is
// executed step by step against real *env.Env objects and against a reference model
// (model_test.go: nodes {values, types, parent, external lookup}). After EVERY step
// the result of the call and the full observable state of every live scope are
// compared. Every env call runs under recover: a panic is a violation of the
// "never panics" clause.
package c12

import (
	"errors"
	"fmt"
	"reflect"
	"regexp"
	"sort"
	"strings"
	"testing"

	"github.com/mattn/anko/env"
	"pgregory.net/rapid"

	"verif/internal/h"
)

// ---------------------------------------------------------------- case data

// Val is a value spelled as data. K: int | str | nil | addr | env.
// int → int64(N); str → "s<N>"; nil → nil; addr → an addressable int64(N) (only
// through the *Value entry points, otherwise like int); env → the live scope
// number N (mod live scopes) bound as a value, i.e. a module alias.
type Val struct {
	K string `json:"k"`
	N int    `json:"n,omitempty"`
}

// Op is one API call. S addresses a live scope: index S mod number-of-live-scopes
// at execution time.
type Op struct {
	Op   string   `json:"op"`
	S    int      `json:"s"`
	Name string   `json:"name,omitempty"`
	V    *Val     `json:"v,omitempty"`
	T    int      `json:"t,omitempty"`    // type id: 0 = nil type, k>0 = [k]byte
	Form int      `json:"form,omitempty"` // DefineType/DefineGlobalType: 0 pass a reflect.Type, 1 pass a sample value
	Path []string `json:"path,omitempty"`
	Ext  int      `json:"ext,omitempty"` // external lookup id 0 (none) … 3
}

type Case struct {
	RootExt int  `json:"root_ext,omitempty"`
	Ops     []Op `json:"ops"`
	// ExtForm[i-1]: the Go representation of external lookup i (see extForm* in model_test.go);
	// missing entries mean the pointer form
	ExtForm []int `json:"ext_form,omitempty"`
	// ExtBad[i-1]: which unusable answers (nil error, a reflect.Value that cannot be handed out) external
	// lookup i gives for the names extBadNames[i] (see extBad* in model_test.go); missing entries mean none
	ExtBad []int `json:"ext_bad,omitempty"`
}

const maxLive = 12

// names whose Get/Type is observed from every live scope after every step
var poolNames = []string{"a", "b", "c", "m", "", "int64", "bool", "e", "a.b", "x.y.z", "."}

func renderVal(v *Val) string {
	if v == nil {
		return "nil"
	}
	switch v.K {
	case "int", "str", "addr":
		return fmt.Sprintf("%s %d", v.K, v.N)
	case "env":
		return fmt.Sprintf("scope %d", v.N)
	}
	return "nil"
}

func renderOp(op Op) string {
	switch op.Op {
	case "Define", "DefineValue", "DefineGlobal", "DefineGlobalValue", "Set", "SetValue":
		return fmt.Sprintf("s%d.%s(%q, %s)", op.S, op.Op, op.Name, renderVal(op.V))
	case "DefineType", "DefineGlobalType":
		return fmt.Sprintf("s%d.%s(%q, T%d form%d)", op.S, op.Op, op.Name, op.T, op.Form)
	case "DefineReflectType", "DefineGlobalReflectType":
		return fmt.Sprintf("s%d.%s(%q, T%d)", op.S, op.Op, op.Name, op.T)
	case "Get", "GetValue", "Delete", "DeleteGlobal", "Type", "Addr", "NewModule":
		return fmt.Sprintf("s%d.%s(%q)", op.S, op.Op, op.Name)
	case "GetEnvFromPath":
		return fmt.Sprintf("s%d.GetEnvFromPath(%q)", op.S, op.Path)
	case "NewEnv":
		return fmt.Sprintf("s%d.NewEnv() ext%d", op.S, op.Ext)
	case "NewRoot":
		return fmt.Sprintf("env.NewEnv() ext%d", op.Ext)
	case "SetExternalLookup":
		return fmt.Sprintf("s%d.SetExternalLookup(ext%d)", op.S, op.Ext)
	}
	return fmt.Sprintf("s%d.%s()", op.S, op.Op)
}

func renderHistory(c Case, upto int) string {
	var b strings.Builder
	for i, f := range c.ExtForm {
		if i < 3 && normExtForm(f) != extFormPtr {
			fmt.Fprintf(&b, "ext%d is a %s\n", i+1, extFormNames[normExtForm(f)])
		}
	}
	for i, m := range c.ExtBad {
		if i < 3 && normExtBad(m) != 0 {
			fmt.Fprintf(&b, "ext%d answers %q with a nil error and an unusable value (%s)\n", i+1, extBadNames[i+1], extBadModeNames[normExtBad(m)])
		}
	}
	fmt.Fprintf(&b, "s0 = env.NewEnv() ext%d\n", c.RootExt)
	for i, op := range c.Ops {
		if i > upto {
			break
		}
		fmt.Fprintf(&b, "#%d %s\n", i, renderOp(op))
	}
	return b.String()
}

// ---------------------------------------------------------------- generator

type wop struct {
	name string
	w    int
}

var opWeights = []wop{
	{"Define", 10}, {"DefineValue", 4}, {"DefineGlobal", 4}, {"DefineGlobalValue", 2},
	{"Set", 8}, {"SetValue", 3}, {"Get", 4}, {"GetValue", 2},
	{"Delete", 6}, {"DeleteGlobal", 6},
	{"DefineType", 4}, {"DefineReflectType", 2}, {"DefineGlobalType", 2}, {"DefineGlobalReflectType", 1},
	{"Type", 3}, {"GetValueSymbols", 1}, {"GetTypeSymbols", 1},
	{"GetEnvFromPath", 9}, {"String", 1}, {"SetExternalLookup", 3}, {"Addr", 3},
	// scope-creating ops last (dropped when the scope cap is reached)
	{"NewEnv", 8}, {"NewRoot", 1}, {"NewModule", 8}, {"Copy", 4}, {"DeepCopy", 4},
}

const nCreating = 5

var opsAll, opsNoCreate []string

// smooth spreads a weighted choice over a list so that every prefix of the list
// has (nearly) the stated proportions: rapid's integer draws favour small values,
// an interleaved list keeps the op mix as weighted all the same.
func smooth(ws []wop) []string {
	total := 0
	for _, w := range ws {
		total += w.w
	}
	cur := make([]int, len(ws))
	out := make([]string, 0, total)
	for k := 0; k < total; k++ {
		best := 0
		for i, w := range ws {
			cur[i] += w.w
			if cur[i] > cur[best] {
				best = i
			}
		}
		cur[best] -= total
		out = append(out, ws[best].name)
	}
	return out
}

var nameDraw = smooth([]wop{{"a", 5}, {"b", 4}, {"m", 4}, {"c", 1}, {"", 1}, {"int64", 2}, {"bool", 1}, {"e", 2}, {"a.b", 1}, {"x.y.z", 1}, {".", 1}})
var pathElems = smooth([]wop{{"a", 4}, {"b", 3}, {"m", 4}, {"c", 1}, {"zz", 1}, {"", 1}, {"e", 1}, {"a.b", 1}})
var valKinds = smooth([]wop{{"int", 6}, {"str", 2}, {"nil", 1}, {"addr", 2}, {"env", 1}, {"bad", 1}})
var extDraw = smooth([]wop{{"0", 5}, {"1", 2}, {"2", 2}, {"3", 1}})
var histLens = []int{12, 20, 8, 30, 16, 25, 6, 10, 28, 14, 22, 18, 7, 24, 9, 26, 11, 29, 13, 27, 15, 23, 17, 21, 19, 5, 4, 3, 2, 1}

// profile selects the op and name mix of a sub-check.
type profile struct {
	ops, opsNoCreate, names []string
}

var profGeneral, profModules profile

// the "modules" mix concentrates on module creation, path lookup and the calls
// that rebind or remove module names, over few names, so that paths of length 2
// and 3 resolve often
var moduleWeights = []wop{
	{"GetEnvFromPath", 24}, {"Define", 6}, {"Delete", 4}, {"DeleteGlobal", 3}, {"Set", 3}, {"DefineGlobal", 2},
	{"Get", 2}, {"DefineValue", 1}, {"GetValueSymbols", 1}, {"SetExternalLookup", 1}, {"String", 1},
	{"NewModule", 20}, {"NewEnv", 5}, {"Copy", 3}, {"DeepCopy", 3}, {"NewRoot", 1},
}

func init() {
	opsAll = smooth(opWeights)
	opsNoCreate = smooth(opWeights[:len(opWeights)-nCreating])
	profGeneral = profile{ops: opsAll, opsNoCreate: opsNoCreate, names: nameDraw}
	profModules = profile{ops: smooth(moduleWeights), opsNoCreate: smooth(moduleWeights[:len(moduleWeights)-nCreating]),
		names: smooth([]wop{{"a", 5}, {"b", 4}, {"m", 4}, {"c", 2}, {"e", 1}, {"", 1}, {"a.b", 1}})}
}

func genVal(t *rapid.T, step, live int, valueForm bool) *Val {
	k := rapid.SampledFrom(valKinds).Draw(t, "vk")
	switch k {
	case "nil":
		return &Val{K: "nil"}
	case "addr", "bad":
		// "bad": a reflect.Value that cannot be handed out again (the zero Value for even N, a value read from an
		// unexported struct field for odd N); only the *Value calls can be given one
		if !valueForm {
			k = "int"
		}
	case "env":
		return &Val{K: "env", N: genScope(t, live)}
	}
	return &Val{K: k, N: step + 1}
}

// genScope draws a live scope number, half of the time favouring the newest
// scopes (so that chains grow deep), half of the time the oldest.
func genScope(t *rapid.T, live int) int {
	s := rapid.IntRange(0, live-1).Draw(t, "s")
	if rapid.Bool().Draw(t, "newest") {
		return live - 1 - s
	}
	return s
}

func genExt(t *rapid.T) int {
	return int(rapid.SampledFrom(extDraw).Draw(t, "ext")[0] - '0')
}

var extFormDraw = smooth([]wop{{"0", 3}, {"1", 2}, {"2", 2}, {"3", 2}, {"4", 1}})

// genExtForms draws the Go representation of each of the three external lookups of a case. Half of
// the cases give all three the same representation (a host has one way of writing its lookups),
// the other half draws them independently.
func genExtForms(t *rapid.T) []int {
	form := func() int { return int(rapid.SampledFrom(extFormDraw).Draw(t, "extform")[0] - '0') }
	f := []int{form(), 0, 0}
	if rapid.Bool().Draw(t, "extforms-differ") {
		f[1], f[2] = form(), form()
	} else {
		f[1], f[2] = f[0], f[0]
	}
	if f[0] == 0 && f[1] == 0 && f[2] == 0 {
		return nil
	}
	return f
}

// genExtBad draws the unusable answers of the three external lookups of a case: none in `none` of 10 cases,
// otherwise a mode per lookup. Drawn after all other draws of a case.
func genExtBad(t *rapid.T, none int) []int {
	if rapid.IntRange(0, 9).Draw(t, "extbad?") < none {
		return nil
	}
	b := []int{0, 0, 0}
	any := false
	for i := range b {
		b[i] = rapid.IntRange(0, nExtBadModes-1).Draw(t, "extbad")
		any = any || b[i] != 0
	}
	if !any {
		return nil
	}
	return b
}

// kpath is a generator-side guess "path resolves when looked up from scope anchor"
// (only a bias for GetEnvFromPath; the oracle does not use it).
type kpath struct {
	anchor int
	path   []string
}

func gen(t *rapid.T) Case        { return genWith(t, &profGeneral) }
func genModules(t *rapid.T) Case { return genWith(t, &profModules) }

// genShadowed scripts the histories the random mix rarely reaches: a module bound in an outer scope, a
// plain value (or nothing) of the same name in a scope between, members of the module that are plain
// values, nil scope pointers or modules of their own - then path lookups of length 1..3 from the scopes
// below, followed by a short random tail of defines / deletes / lookups.
func genShadowed(t *rapid.T) Case {
	c := Case{RootExt: genExt(t)}
	name := rapid.SampledFrom([]string{"m", "a", "b"}).Draw(t, "modname")
	member := rapid.SampledFrom([]string{"n", "a", "m"}).Draw(t, "member")
	c.Ops = append(c.Ops, Op{Op: "NewModule", S: 0, Name: name}) // scope 1
	switch rapid.IntRange(0, 3).Draw(t, "memberkind") {
	case 0:
		c.Ops = append(c.Ops, Op{Op: "Define", S: 1, Name: member, V: &Val{K: "nilenv"}})
	case 1:
		c.Ops = append(c.Ops, Op{Op: "Define", S: 1, Name: member, V: &Val{K: "int", N: 7}})
	case 2:
		c.Ops = append(c.Ops, Op{Op: "NewModule", S: 1, Name: member})
	}
	c.Ops = append(c.Ops, Op{Op: "NewEnv", S: 0})
	mid := len(c.Ops) // guess of the scope number: the oracle does not depend on it
	_ = mid
	if rapid.IntRange(0, 9).Draw(t, "shadow?") < 7 {
		v := &Val{K: rapid.SampledFrom([]string{"int", "str", "nil", "nilenv"}).Draw(t, "shadowkind"), N: 5}
		c.Ops = append(c.Ops, Op{Op: "Define", S: -1, Name: name, V: v}) // S -1: the newest scope
	}
	c.Ops = append(c.Ops, Op{Op: "NewEnv", S: -1})
	paths := [][]string{{name}, {name, member}, {name, member, "x"}, {name, "zz"}, {member}}
	for i := rapid.IntRange(2, 5).Draw(t, "nlook"); i > 0; i-- {
		c.Ops = append(c.Ops, Op{Op: "GetEnvFromPath", S: -rapid.IntRange(1, 2).Draw(t, "from"), Path: paths[rapid.IntRange(0, len(paths)-1).Draw(t, "path")]})
	}
	for i := rapid.IntRange(0, 4).Draw(t, "tail"); i > 0; i-- {
		switch rapid.IntRange(0, 3).Draw(t, "tailop") {
		case 0:
			c.Ops = append(c.Ops, Op{Op: "Delete", S: -rapid.IntRange(1, 3).Draw(t, "ts"), Name: name})
		case 1:
			c.Ops = append(c.Ops, Op{Op: "Define", S: -rapid.IntRange(1, 3).Draw(t, "ts"), Name: name, V: &Val{K: "int", N: 9}})
		default:
			c.Ops = append(c.Ops, Op{Op: "GetEnvFromPath", S: -rapid.IntRange(1, 3).Draw(t, "ts"), Path: paths[rapid.IntRange(0, len(paths)-1).Draw(t, "path")]})
		}
	}
	c.ExtForm = genExtForms(t)
	c.ExtBad = genExtBad(t, 5)
	return c
}

// genLookups scripts the histories around external lookups the random mix reaches only now and then: a chain
// of 2..5 scopes most of which carry a lookup, one focal name bound (or not) in the table of an outer scope,
// then reads (Get / GetValue / Addr), writes (Set / SetValue / DeleteGlobal / Delete / Define) and lookup
// changes (SetExternalLookup, Copy, DeepCopy, a further child) addressed mostly at the inner scopes. The
// lookups answer unusably (Case.ExtBad) in 8 of 10 cases.
func genLookups(t *rapid.T) Case {
	ext := func() int {
		if rapid.IntRange(0, 9).Draw(t, "lookup?") < 7 {
			return rapid.IntRange(1, 3).Draw(t, "ext")
		}
		return 0
	}
	c := Case{RootExt: ext()}
	depth := rapid.IntRange(1, 4).Draw(t, "depth")
	for d := 0; d < depth; d++ {
		c.Ops = append(c.Ops, Op{Op: "NewEnv", S: -1, Ext: ext()})
	}
	live := depth + 1
	focal := rapid.SampledFrom([]string{"a", "b", "m", "e", "c", "", "bool", "int64", "a.b"}).Draw(t, "focal")
	name := func() string {
		if rapid.IntRange(0, 9).Draw(t, "othername") == 0 {
			return rapid.SampledFrom(nameDraw).Draw(t, "name")
		}
		return focal
	}
	outer := func() int { return rapid.IntRange(0, live-1).Draw(t, "outer") }            // favours the outer scopes
	inner := func() int { return live - 1 - rapid.IntRange(0, live-1).Draw(t, "inner") } // favours the inner scopes
	val := func(valueForm bool) *Val {
		k := rapid.SampledFrom([]string{"int", "addr", "str", "nil"}).Draw(t, "vk")
		if k == "addr" && !valueForm {
			k = "int"
		}
		return &Val{K: k, N: len(c.Ops) + 1}
	}
	for i := rapid.IntRange(0, 2).Draw(t, "binds"); i > 0; i-- {
		if rapid.Bool().Draw(t, "valueform") {
			c.Ops = append(c.Ops, Op{Op: "DefineValue", S: outer(), Name: name(), V: val(true)})
		} else {
			c.Ops = append(c.Ops, Op{Op: "Define", S: outer(), Name: name(), V: val(false)})
		}
	}
	for i := rapid.IntRange(2, 10).Draw(t, "nops"); i > 0; i-- {
		op := Op{Op: rapid.SampledFrom(lookupOps).Draw(t, "op"), S: inner(), Name: name()}
		switch op.Op {
		case "Set", "Define":
			op.V = val(false)
		case "SetValue", "DefineValue":
			op.V = val(true)
		case "SetExternalLookup":
			op.Name = ""
			op.Ext = rapid.IntRange(0, 3).Draw(t, "ext")
		case "NewEnv":
			op.Name = ""
			op.Ext = ext()
			live++
		case "Copy", "DeepCopy":
			op.Name = ""
			live++
		case "Define@outer":
			op.Op, op.S, op.V = "Define", outer(), val(false)
		}
		c.Ops = append(c.Ops, op)
	}
	c.ExtForm = genExtForms(t)
	c.ExtBad = genExtBad(t, 2)
	return c
}

var lookupOps = smooth([]wop{{"Set", 5}, {"SetValue", 3}, {"Get", 3}, {"GetValue", 3}, {"Addr", 3}, {"DeleteGlobal", 3}, {"Delete", 1},
	{"Define", 1}, {"DefineValue", 1}, {"Define@outer", 2}, {"SetExternalLookup", 3}, {"Copy", 1}, {"DeepCopy", 1}, {"NewEnv", 1}})

func genWith(t *rapid.T, pr *profile) Case {
	c := Case{RootExt: genExt(t)}
	n := rapid.SampledFrom(histLens).Draw(t, "n")
	live := 1
	modOf := []int{-1} // per live scope: index into known if the scope is a module
	var known []kpath
	var modScopes []int
	pendingPath := false
	var usedV, usedT []string // names some define was issued for (bias for reads, set, delete)
	name := func(used []string) string {
		if len(used) > 0 && rapid.IntRange(0, 9).Draw(t, "usedname") < 6 {
			return used[len(used)-1-rapid.IntRange(0, len(used)-1).Draw(t, "ui")]
		}
		return rapid.SampledFrom(pr.names).Draw(t, "name")
	}
	for i := 0; i < n; i++ {
		var op Op
		// keep == 0 drops the op after all its draws were made: rapid minimises draws
		// towards 0, which lets shrinking delete any single op of a failing history
		keep := rapid.IntRange(0, 15).Draw(t, "keep") != 0
		sLive, sMod, sKnown, sMS, sUV, sUT, sPend := live, len(modOf), len(known), len(modScopes), len(usedV), len(usedT), pendingPath
		if pendingPath {
			// look a freshly created module up before its name is rebound
			pendingPath = false
			op.Op = "GetEnvFromPath"
		} else if live >= maxLive {
			op.Op = rapid.SampledFrom(pr.opsNoCreate).Draw(t, "op")
		} else {
			op.Op = rapid.SampledFrom(pr.ops).Draw(t, "op")
		}
		op.S = genScope(t, live)
		switch op.Op {
		case "Define", "DefineGlobal":
			op.Name = rapid.SampledFrom(pr.names).Draw(t, "name")
			op.V = genVal(t, i, live, false)
			usedV = append(usedV, op.Name)
		case "DefineValue", "DefineGlobalValue":
			op.Name = rapid.SampledFrom(pr.names).Draw(t, "name")
			op.V = genVal(t, i, live, true)
			usedV = append(usedV, op.Name)
		case "Set":
			op.Name = name(usedV)
			op.V = genVal(t, i, live, false)
		case "SetValue":
			op.Name = name(usedV)
			op.V = genVal(t, i, live, true)
		case "Get", "GetValue", "Delete", "DeleteGlobal", "Addr":
			op.Name = name(usedV)
		case "Type":
			op.Name = name(usedT)
		case "DefineType", "DefineGlobalType", "DefineReflectType", "DefineGlobalReflectType":
			op.Name = rapid.SampledFrom(pr.names).Draw(t, "name")
			op.T = i + 1
			if rapid.IntRange(0, 9).Draw(t, "niltype") == 9 {
				op.T = 0
			}
			op.Form = rapid.IntRange(0, 1).Draw(t, "form")
			usedT = append(usedT, op.Name)
		case "NewEnv", "NewRoot":
			op.Ext = genExt(t)
			modOf = append(modOf, -1)
			live++
		case "NewModule":
			op.Name = rapid.SampledFrom(pr.names).Draw(t, "name")
			usedV = append(usedV, op.Name)
			if len(modScopes) > 0 && rapid.Bool().Draw(t, "nest") {
				// nest inside an existing module so that longer paths resolve
				op.S = modScopes[len(modScopes)-1-rapid.IntRange(0, len(modScopes)-1).Draw(t, "ms")]
			}
			if strings.Contains(op.Name, ".") {
				modOf = append(modOf, -1)
			} else {
				kp := kpath{anchor: op.S, path: []string{op.Name}}
				if k := modOf[op.S]; k >= 0 && len(known[k].path) < 3 {
					kp = kpath{anchor: known[k].anchor, path: append(append([]string{}, known[k].path...), op.Name)}
				}
				known = append(known, kp)
				modOf = append(modOf, len(known)-1)
				modScopes = append(modScopes, live)
				pendingPath = rapid.IntRange(0, 2).Draw(t, "paththen") == 0
			}
			live++
		case "Copy", "DeepCopy":
			modOf = append(modOf, -1)
			live++
		case "SetExternalLookup":
			op.Ext = rapid.IntRange(0, 3).Draw(t, "ext")
		case "GetEnvFromPath":
			if len(known) > 0 && rapid.IntRange(0, 9).Draw(t, "knownpath") < 7 {
				kp := known[len(known)-1-rapid.IntRange(0, len(known)-1).Draw(t, "kp")]
				p := append([]string{}, kp.path...)
				if rapid.IntRange(0, 9).Draw(t, "anchor") < 7 {
					op.S = kp.anchor
				}
				switch rapid.IntRange(0, 9).Draw(t, "pmut") {
				case 6:
					p = p[:rapid.IntRange(0, len(p)).Draw(t, "cut")]
				case 7:
					if len(p) < 3 {
						p = append(p, rapid.SampledFrom(pathElems).Draw(t, "pe"))
					}
				case 8:
					p[rapid.IntRange(0, len(p)-1).Draw(t, "pi")] = rapid.SampledFrom(pathElems).Draw(t, "pe")
				case 9:
					p = p[rapid.IntRange(0, len(p)-1).Draw(t, "from"):]
				}
				op.Path = p
			} else {
				k := rapid.IntRange(0, 3).Draw(t, "plen")
				for j := 0; j < k; j++ {
					op.Path = append(op.Path, rapid.SampledFrom(pathElems).Draw(t, "pe"))
				}
			}
		}
		if !keep {
			live, modOf, known, modScopes, usedV, usedT, pendingPath = sLive, modOf[:sMod], known[:sKnown], modScopes[:sMS], usedV[:sUV], usedT[:sUT], sPend
			continue
		}
		c.Ops = append(c.Ops, op)
	}
	c.ExtForm = genExtForms(t)
	c.ExtBad = genExtBad(t, 5)
	return c
}

// ---------------------------------------------------------------- execution

type run struct {
	c     Case
	live  []*env.Env
	nodes []*node
	idx   map[*env.Env]int
	exts  [4]*mext
	cur   string // env API being called (for panic attribution)

	touched     map[int]bool
	innerDefine bool
	afterInner  bool
	executed    int
	copied      map[int]bool // live indices that are a copy or have been copied
}

var hexRe = regexp.MustCompile(`0x[0-9a-fA-F]+`)

func normPanic(p interface{}) string {
	return hexRe.ReplaceAllString(fmt.Sprint(p), "0x?")
}

// guard runs f and returns the recovered panic value, if any.
func guard(f func()) (p interface{}, panicked bool) {
	defer func() {
		if r := recover(); r != nil {
			p, panicked = r, true
		}
	}()
	f()
	return nil, false
}

func (r *run) addLive(e *env.Env, n *node) int {
	n.live = len(r.live)
	r.idx[e] = n.live
	r.live = append(r.live, e)
	r.nodes = append(r.nodes, n)
	r.touched[n.live] = true
	return n.live
}

// conv turns a value read from the real env into the model's value domain.
func (r *run) conv(x interface{}) mval {
	switch v := x.(type) {
	case nil:
		return mval{k: 'n'}
	case int64:
		return mval{k: 'i', n: v}
	case string:
		return mval{k: 's', s: v}
	case *env.Env:
		if i, ok := r.idx[v]; ok {
			return mval{k: 'e', env: r.nodes[i]}
		}
		return mval{k: 'e'}
	}
	return mval{k: '?', s: fmt.Sprintf("%T", x)}
}

// value builds the real argument (both forms) and the model value of a Val.
func (r *run) value(v *Val, valueForm bool) (interface{}, reflect.Value, mval) {
	if v == nil {
		v = &Val{K: "nil"}
	}
	switch v.K {
	case "int":
		x := int64(v.N)
		return x, reflect.ValueOf(x), mval{k: 'i', n: x}
	case "str":
		x := fmt.Sprintf("s%d", v.N)
		return x, reflect.ValueOf(x), mval{k: 's', s: x}
	case "addr":
		x := int64(v.N)
		if valueForm {
			p := new(int64)
			*p = x
			return x, reflect.ValueOf(p).Elem(), mval{k: 'i', n: x, addr: 1}
		}
		return x, reflect.ValueOf(x), mval{k: 'i', n: x}
	case "bad":
		if !valueForm {
			x := int64(v.N)
			return x, reflect.ValueOf(x), mval{k: 'i', n: x}
		}
		if v.N%2 == 0 {
			return nil, reflect.Value{}, mval{k: 'x'}
		}
		return nil, reflect.ValueOf(struct{ hidden int64 }{int64(v.N)}).Field(0), mval{k: 'x'}
	case "env":
		n := len(r.live)
		j := ((v.N % n) + n) % n
		return r.live[j], reflect.ValueOf(r.live[j]), mval{k: 'e', env: r.nodes[j]}
	case "nilenv":
		// a module slot a host cleared without deleting it: a typed nil scope pointer
		var ne *env.Env
		return ne, reflect.ValueOf(ne), mval{k: 'e'}
	}
	// nil: Define(name, nil) binds env.NilValue; whether that is addressable is not stated
	return nil, env.NilValue, mval{k: 'n', addr: -1}
}

// got is what the real call returned.
type got struct {
	err   error
	hasV  bool
	v     mval
	valid bool
	t     reflect.Type
	e     *env.Env
	syms  []string
	str   string
}

// outcome is one admitted model result of a call (most calls have exactly one).
type outcome struct {
	err     bool // an error must be returned
	anyErr  bool // error presence not specified
	dot     bool // the error must be ErrSymbolContainsDot
	val     *mval
	hasTyp  bool
	typ     reflect.Type
	scope   *node // the returned scope must be this live scope
	hasSyms bool
	syms    []string
	marker  string // String() must contain this
	apply   func()
	undo    func()
}

func typeStr(t reflect.Type) string {
	if t == nil {
		return "<nil type>"
	}
	return t.String()
}

func (r *run) fail(step int, sig, format string, args ...interface{}) *h.Fail {
	return h.Failf(sig, "%s\nhistory (scope numbers are taken modulo the live scopes at that step):\n%s", fmt.Sprintf(format, args...), renderHistory(r.c, step))
}

// checkResult compares the real result with one outcome.
func (r *run) checkResult(step int, op Op, oc outcome, g got) *h.Fail {
	name := op.Op
	if !oc.anyErr {
		if oc.err && g.err == nil {
			return r.fail(step, "C12|result|"+name+"|want-error-got-ok", "step %d %s: the model expects an error, the call succeeded", step, renderOp(op))
		}
		if !oc.err && g.err != nil {
			return r.fail(step, "C12|result|"+name+"|want-ok-got-error", "step %d %s: the model expects success, got error %q", step, renderOp(op), g.err.Error())
		}
	}
	if oc.dot && g.err != nil && !errors.Is(g.err, env.ErrSymbolContainsDot) {
		return r.fail(step, "C12|dot-error|"+name, "step %d %s: a name containing '.' must be rejected with ErrSymbolContainsDot, got %q", step, renderOp(op), g.err.Error())
	}
	if g.err != nil {
		return nil
	}
	if oc.val != nil {
		if !g.valid {
			return r.fail(step, "C12|result|"+name+"|invalid-value", "step %d %s: returned a reflect.Value that cannot be used (the zero Value, or one that cannot be turned into an interface{}) without error, want %s", step, renderOp(op), oc.val.String())
		}
		if !same(*oc.val, g.v) {
			return r.fail(step, "C12|result|"+name+"|wrong-value", "step %d %s: returned %s, the nearest binding is %s", step, renderOp(op), g.v.String(), oc.val.String())
		}
	}
	if oc.hasTyp && oc.typ != g.t {
		return r.fail(step, "C12|result|"+name+"|wrong-type", "step %d %s: returned %s, the nearest binding is %s", step, renderOp(op), typeStr(g.t), typeStr(oc.typ))
	}
	if oc.scope != nil {
		i, ok := r.idx[g.e]
		if g.e == nil || !ok || r.nodes[i] != oc.scope {
			gs := "an unknown scope"
			if g.e == nil {
				gs = "nil"
			} else if ok {
				gs = fmt.Sprintf("scope#%d", i)
			}
			return r.fail(step, "C12|result|"+name+"|wrong-scope", "step %d %s: returned %s, want scope#%d", step, renderOp(op), gs, oc.scope.live)
		}
	}
	if oc.hasSyms {
		s := append([]string{}, g.syms...)
		sort.Strings(s)
		if !reflect.DeepEqual(s, oc.syms) && !(len(s) == 0 && len(oc.syms) == 0) {
			return r.fail(step, "C12|result|"+name+"|wrong-symbols", "step %d %s: returned %q, want %q", step, renderOp(op), s, oc.syms)
		}
	}
	if oc.marker != "" && !strings.Contains(g.str, oc.marker) {
		return r.fail(step, "C12|result|"+name+"|parent-marker", "step %d %s: output %q does not contain %q", step, renderOp(op), g.str, oc.marker)
	}
	return nil
}

// checkState compares the observable state of every live scope with the model.
func (r *run) checkState(step int, op Op, addressed int) (f *h.Fail) {
	j := 0
	defer func() {
		if p := recover(); p != nil {
			f = r.fail(step, "C12|panic|observe-"+r.cur, "after step %d %s: %s on scope#%d panicked: %s", step, renderOp(op), r.cur, j, normPanic(p))
		}
	}()
	rel := func() string {
		if j == addressed {
			return "addressed"
		}
		return "other"
	}
	for j = 0; j < len(r.live); j++ {
		e, nd := r.live[j], r.nodes[j]
		r.cur = "GetValueSymbols"
		vs := e.GetValueSymbols()
		sort.Strings(vs)
		if want := sortedValKeys(nd); !eqStrings(vs, want) {
			return r.fail(step, "C12|state|"+op.Op+"|value-symbols|"+rel(), "after step %d %s: scope#%d GetValueSymbols = %q, model %q", step, renderOp(op), j, vs, want)
		}
		r.cur = "GetTypeSymbols"
		ts := e.GetTypeSymbols()
		sort.Strings(ts)
		if want := sortedTypeKeys(nd); !eqStrings(ts, want) {
			return r.fail(step, "C12|state|"+op.Op+"|type-symbols|"+rel(), "after step %d %s: scope#%d GetTypeSymbols = %q, model %q", step, renderOp(op), j, ts, want)
		}
		for _, nm := range poolNames {
			r.cur = "Get"
			x, err := e.Get(nm)
			mv, _, ok := mget(nd, nm)
			if ok != (err == nil) {
				return r.fail(step, "C12|state|"+op.Op+"|get-presence|"+rel(), "after step %d %s: scope#%d Get(%q) error=%v, model bound=%v (%s)", step, renderOp(op), j, nm, err, ok, mv.String())
			}
			if ok {
				if gv := r.conv(x); !same(gv, mv) {
					return r.fail(step, "C12|state|"+op.Op+"|get-value|"+rel(), "after step %d %s: scope#%d Get(%q) = %s, model %s", step, renderOp(op), j, nm, gv.String(), mv.String())
				}
			}
			r.cur = "Type"
			t, err := e.Type(nm)
			mt, _, ok := mtype(nd, nm)
			if ok != (err == nil) {
				return r.fail(step, "C12|state|"+op.Op+"|type-presence|"+rel(), "after step %d %s: scope#%d Type(%q) error=%v, model bound=%v (%s)", step, renderOp(op), j, nm, err, ok, typeStr(mt))
			}
			if ok && t != mt {
				return r.fail(step, "C12|state|"+op.Op+"|type-value|"+rel(), "after step %d %s: scope#%d Type(%q) = %s, model %s", step, renderOp(op), j, nm, typeStr(t), typeStr(mt))
			}
		}
	}
	return nil
}

func eqStrings(a, b []string) bool {
	if len(a) != len(b) {
		return false
	}
	for i := range a {
		if a[i] != b[i] {
			return false
		}
	}
	return true
}

var definingOps = map[string]bool{"Define": true, "DefineValue": true, "DefineType": true, "DefineReflectType": true, "NewModule": true}
var laterOps = map[string]bool{"Delete": true, "DeleteGlobal": true, "Copy": true, "DeepCopy": true, "NewModule": true, "GetEnvFromPath": true}

// step executes one op on both sides and compares. It returns nil when the step held.
func (r *run) step(i int, op Op, o *h.Obs) *h.Fail {
	n := len(r.live)
	si := ((op.S % n) + n) % n
	e, nd := r.live[si], r.nodes[si]
	name := op.Name
	dotted := strings.Contains(name, ".")
	creating := false
	switch op.Op {
	case "NewEnv", "NewRoot", "NewModule", "Copy", "DeepCopy":
		creating = true
		if n >= maxLive {
			o.Class("skipped:scope-cap")
			return nil
		}
	}

	var g got
	var outs []outcome
	var call func()
	var newNode *node // model node of the scope created by this op
	nop := func() {}
	one := func(oc outcome) {
		if oc.apply == nil {
			oc.apply, oc.undo = nop, nop
		}
		outs = append(outs, oc)
	}

	switch op.Op {
	case "Define", "DefineValue", "DefineGlobal", "DefineGlobalValue":
		valueForm := op.Op == "DefineValue" || op.Op == "DefineGlobalValue"
		x, rv, mv := r.value(op.V, valueForm)
		target := nd
		if op.Op == "DefineGlobal" || op.Op == "DefineGlobalValue" {
			target = rootOf(nd)
		}
		switch op.Op {
		case "Define":
			call = func() { g.err = e.Define(name, x) }
		case "DefineValue":
			call = func() { g.err = e.DefineValue(name, rv) }
		case "DefineGlobal":
			call = func() { g.err = e.DefineGlobal(name, x) }
		default:
			call = func() { g.err = e.DefineGlobalValue(name, rv) }
		}
		if valueForm && op.V != nil && op.V.K == "bad" {
			// an invalid request: "returns an error and leaves every scope unchanged; it never panics"
			one(outcome{err: true})
			if !dotted {
				o.Class("define:invalid-reflect-value")
			}
		} else if dotted {
			one(outcome{err: true, dot: true})
		} else {
			old, had := target.values[name]
			one(outcome{apply: func() { target.values[name] = mv }, undo: func() {
				if had {
					target.values[name] = old
				} else {
					delete(target.values, name)
				}
			}})
			if mv.k == 'e' {
				o.Class("define:module-alias")
			}
		}

	case "Set", "SetValue":
		valueForm := op.Op == "SetValue"
		x, rv, mv := r.value(op.V, valueForm)
		if valueForm {
			call = func() { g.err = e.SetValue(name, rv) }
		} else {
			call = func() { g.err = e.Set(name, x) }
		}
		target, shadow := mfindTable(nd, name)
		switch {
		case valueForm && op.V != nil && op.V.K == "bad":
			one(outcome{err: true})
			o.Class("set:invalid-reflect-value")
		case target == nil:
			one(outcome{err: true})
			o.Class("set:missing")
		default:
			old := target.values[name]
			one(outcome{apply: func() { target.values[name] = mv }, undo: func() { target.values[name] = old }})
			if shadow {
				// an external lookup nearer than the table binding serves the name. For lookups the statement
				// counts a lookup's answer as a binding ("nearest enclosing binding (a scope's external lookup is
				// consulted after its own table ...)"), so the nearest existing binding is one that cannot be
				// written; "set updates the nearest existing binding or fails without creating one" then allows
				// the failure as well as - reading "binding" as table entry, what the tree does - the update
				// further out (after which a Get from here still returns the lookup's value). Not decided by
				// the statement → "fails, nothing changed" is admitted too (seeded change C12-31: not claimed)
				one(outcome{err: true})
				o.Class("set:ext-shadow-ambiguous")
			} else if target == nd {
				o.Class("set:own")
			} else {
				o.Class("set:ancestor")
			}
			if mpastUnusable(nd, name, true) {
				// a lookup on the way answers the name with a value that cannot be handed out: not a binding in
				// any reading, so the table entry further out is the nearest existing binding (no alternative)
				o.Class("set:past-unusable-ext-answer")
			}
		}

	case "Get", "GetValue":
		if op.Op == "Get" {
			call = func() {
				var x interface{}
				x, g.err = e.Get(name)
				if g.err == nil {
					g.valid, g.v = true, r.conv(x)
				}
			}
		} else {
			call = func() {
				var rv reflect.Value
				rv, g.err = e.GetValue(name)
				if g.err == nil && rv.IsValid() && rv.CanInterface() {
					g.valid, g.v = true, r.conv(rv.Interface())
				}
			}
		}
		mv, where, ok := mget(nd, name)
		if ok {
			one(outcome{val: &mv})
		} else {
			one(outcome{err: true})
		}
		o.Class("get:" + where)
		if mpastUnusable(nd, name, false) {
			o.Class("get:past-unusable-ext-answer:" + where)
		}

	case "Addr":
		call = func() {
			var rv reflect.Value
			rv, g.err = e.Addr(name)
			_ = rv
		}
		mv, where, ok := mget(nd, name)
		if mpastUnusable(nd, name, false) {
			o.Class("addr:past-unusable-ext-answer:" + where)
		}
		switch {
		case !ok:
			one(outcome{err: true})
			o.Class("addr:undefined")
		case mv.addr < 0:
			one(outcome{anyErr: true})
			o.Class("addr:nil-unspecified")
		case mv.addr > 0:
			one(outcome{})
			o.Class("addr:addressable-" + where)
		default:
			one(outcome{err: true})
			o.Class("addr:unaddressable")
		}

	case "Delete":
		call = func() { e.Delete(name) }
		old, had := nd.values[name]
		one(outcome{apply: func() { delete(nd.values, name) }, undo: func() {
			if had {
				nd.values[name] = old
			}
		}})
		if had {
			o.Class("delete:bound")
		} else {
			o.Class("delete:unbound")
		}

	case "DeleteGlobal":
		call = func() { e.DeleteGlobal(name) }
		target, shadow := mfindTable(nd, name)
		if target == nil {
			one(outcome{})
			o.Class("deleteglobal:none")
		} else {
			old := target.values[name]
			one(outcome{apply: func() { delete(target.values, name) }, undo: func() { target.values[name] = old }})
			if shadow {
				// nearest binding is an external lookup's (cannot be deleted): "nothing happens" admitted too
				one(outcome{})
				o.Class("deleteglobal:ext-shadow-ambiguous")
			} else if target == nd {
				o.Class("deleteglobal:own")
			} else {
				o.Class("deleteglobal:ancestor")
			}
			if mpastUnusable(nd, name, true) {
				o.Class("deleteglobal:past-unusable-ext-answer")
			}
		}

	case "DefineType", "DefineReflectType", "DefineGlobalType", "DefineGlobalReflectType":
		t := typeOf(op.T)
		var arg interface{}
		if t != nil {
			if op.Form == 1 {
				arg = reflect.Zero(t).Interface()
			} else {
				arg = t
			}
		}
		target := nd
		if strings.HasPrefix(op.Op, "DefineGlobal") {
			target = rootOf(nd)
		}
		switch op.Op {
		case "DefineType":
			call = func() { g.err = e.DefineType(name, arg) }
		case "DefineReflectType":
			call = func() { g.err = e.DefineReflectType(name, t) }
		case "DefineGlobalType":
			call = func() { g.err = e.DefineGlobalType(name, arg) }
		default:
			call = func() { g.err = e.DefineGlobalReflectType(name, t) }
		}
		if dotted {
			one(outcome{err: true, dot: true})
		} else {
			old, had := target.types[name]
			one(outcome{apply: func() { target.types[name] = t }, undo: func() {
				if had {
					target.types[name] = old
				} else {
					delete(target.types, name)
				}
			}})
		}

	case "Type":
		call = func() { g.t, g.err = e.Type(name) }
		mt, where, ok := mtype(nd, name)
		if ok {
			one(outcome{hasTyp: true, typ: mt})
		} else {
			one(outcome{err: true})
		}
		o.Class("type:" + where)

	case "GetValueSymbols":
		call = func() { g.syms = e.GetValueSymbols() }
		one(outcome{hasSyms: true, syms: sortedValKeys(nd)})

	case "GetTypeSymbols":
		call = func() { g.syms = e.GetTypeSymbols() }
		one(outcome{hasSyms: true, syms: sortedTypeKeys(nd)})

	case "String":
		call = func() { g.str = e.String() }
		if nd.parent == nil {
			one(outcome{marker: "No parent"})
		} else {
			one(outcome{marker: "Has parent"})
		}

	case "SetExternalLookup":
		x := r.exts[op.Ext&3]
		call = func() {
			if x == nil {
				e.SetExternalLookup(nil)
			} else {
				e.SetExternalLookup(x.real)
			}
		}
		old := nd.ext
		one(outcome{apply: func() { nd.ext = x }, undo: func() { nd.ext = old }})
		o.Class("setext:%d", op.Ext&3)
		if x != nil {
			classExt(o, x)
		}

	case "NewEnv":
		x := r.exts[op.Ext&3]
		call = func() {
			g.e = e.NewEnv()
			if x != nil && g.e != nil {
				r.cur = "SetExternalLookup"
				g.e.SetExternalLookup(x.real)
			}
		}
		newNode = newModelNode(nd, x)
		one(outcome{})
		if x != nil {
			classExt(o, x)
		}

	case "NewRoot":
		x := r.exts[op.Ext&3]
		call = func() {
			g.e = env.NewEnv()
			if x != nil && g.e != nil {
				r.cur = "SetExternalLookup"
				g.e.SetExternalLookup(x.real)
			}
		}
		newNode = newModelNode(nil, x)
		one(outcome{})
		if x != nil {
			classExt(o, x)
		}

	case "NewModule":
		call = func() { g.e, g.err = e.NewModule(name) }
		newNode = newModelNode(nd, nil)
		if dotted {
			one(outcome{err: true, dot: true})
		} else {
			old, had := nd.values[name]
			mm := newNode
			one(outcome{apply: func() { nd.values[name] = mval{k: 'e', env: mm} }, undo: func() {
				if had {
					nd.values[name] = old
				} else {
					delete(nd.values, name)
				}
			}})
		}

	case "Copy":
		call = func() { g.e = e.Copy() }
		newNode = mcopy(nd)
		one(outcome{})

	case "DeepCopy":
		call = func() { g.e = e.DeepCopy() }
		newNode = mdeepcopy(nd)
		one(outcome{})

	case "GetEnvFromPath":
		path := op.Path
		call = func() { g.e, g.err = e.GetEnvFromPath(path) }
		res, alt, cls := mpath(nd, path)
		if res != nil {
			one(outcome{scope: res})
		} else {
			one(outcome{err: true})
		}
		if alt {
			one(outcome{err: true})
		}
		o.Class("path:len%d:%s", len(path), cls)

	default:
		o.Class("skipped:unknown-op")
		return nil
	}

	r.executed++
	r.touched[si] = true
	o.Class("op:" + op.Op)
	if r.copied[si] {
		o.Class("op-on-copy-or-copied-scope")
	}

	// real call
	r.cur = op.Op
	if p, panicked := guard(call); panicked {
		return r.fail(i, "C12|panic|"+r.cur, "step %d %s panicked: %s", i, renderOp(op), normPanic(p))
	}
	switch op.Op {
	case "Define", "DefineValue", "DefineGlobal", "DefineGlobalValue", "Set", "SetValue", "Get", "GetValue", "Addr",
		"DefineType", "DefineReflectType", "DefineGlobalType", "DefineGlobalReflectType", "Type", "NewModule", "GetEnvFromPath":
		if g.err != nil {
			o.Class("res:" + op.Op + ":error")
		} else {
			o.Class("res:" + op.Op + ":ok")
		}
	}
	if dotted && g.err != nil && errors.Is(g.err, env.ErrSymbolContainsDot) {
		o.Class("dotted-name-rejected")
	}

	// a created scope joins the live scopes (also the unbound child NewModule returns
	// next to ErrSymbolContainsDot, if it returns one)
	added := -1
	if creating {
		if g.e == nil {
			if g.err == nil || !dotted {
				return r.fail(i, "C12|result|"+op.Op+"|nil-scope", "step %d %s returned a nil scope", i, renderOp(op))
			}
		} else {
			if k, ok := r.idx[g.e]; ok {
				return r.fail(i, "C12|result|"+op.Op+"|not-fresh", "step %d %s returned the existing scope#%d instead of a new scope", i, renderOp(op), k)
			}
			added = r.addLive(g.e, newNode)
			if op.Op == "Copy" || op.Op == "DeepCopy" {
				r.copied[si], r.copied[added] = true, true
			}
		}
	}

	var first *h.Fail
	matched := -1
	for k, oc := range outs {
		if f := r.checkResult(i, op, oc, g); f != nil {
			if first == nil {
				first = f
			}
			continue
		}
		oc.apply()
		f := r.checkState(i, op, si)
		if f == nil {
			matched = k
			break
		}
		if first == nil {
			first = f
		}
		oc.undo()
	}
	if matched < 0 {
		return first
	}
	if matched > 0 {
		o.Class("matched-admitted-alternative:" + op.Op)
	}

	// bookkeeping for the non-triviality rule
	if laterOps[op.Op] && r.innerDefine {
		r.afterInner = true
	}
	if definingOps[op.Op] && g.err == nil && nd.parent != nil {
		r.innerDefine = true
	}
	return nil
}

// classExt counts an installed external lookup by Go representation and by kind of unusable answers.
func classExt(o *h.Obs, x *mext) {
	o.Class("ext-installed:" + extFormNames[x.form])
	if len(x.unusable) == 0 {
		o.Class("ext-installed:unusable-answers:none")
		return
	}
	kinds := [4]bool{}
	for _, k := range x.unusable {
		kinds[k&3] = true
	}
	for k := 1; k < 4; k++ {
		if kinds[k] {
			o.Class("ext-installed:unusable-answers:" + extBadKindNames[k])
		}
	}
}

func oracle(c Case, o *h.Obs) *h.Fail {
	r := &run{c: c, idx: map[*env.Env]int{}, touched: map[int]bool{}, copied: map[int]bool{}}
	r.exts = newExts(c.ExtForm, c.ExtBad)

	var root *env.Env
	r.cur = "NewEnv"
	x := r.exts[c.RootExt&3]
	if p, panicked := guard(func() {
		root = env.NewEnv()
		if x != nil {
			r.cur = "SetExternalLookup"
			root.SetExternalLookup(x.real)
		}
	}); panicked {
		return r.fail(-1, "C12|panic|"+r.cur, "creating the root scope panicked: %s", normPanic(p))
	}
	if root == nil {
		return r.fail(-1, "C12|result|NewRoot|nil-scope", "env.NewEnv() returned nil")
	}
	r.addLive(root, newModelNode(nil, x))
	if x != nil {
		classExt(o, x)
	}
	delete(r.touched, 0)
	if f := r.checkState(-1, Op{Op: "NewRoot", Ext: c.RootExt}, 0); f != nil {
		return f
	}

	for i, op := range c.Ops {
		if f := r.step(i, op, o); f != nil {
			return f
		}
	}

	o.NonTrivial = r.executed >= 6 && len(r.touched) >= 3 && r.afterInner
	switch {
	case r.executed < 6:
		o.Class("len:1-5")
	case r.executed < 16:
		o.Class("len:6-15")
	default:
		o.Class("len:16-30")
	}
	o.Class("live-scopes:%02d", len(r.live))
	o.Class("touched-scopes:%02d", len(r.touched))
	if r.afterInner {
		o.Class("delete/copy/module/path-after-inner-define")
	}
	maxDepth := 0
	for _, nd := range r.nodes {
		d := 0
		for p := nd; p.parent != nil; p = p.parent {
			d++
		}
		if d > maxDepth {
			maxDepth = d
		}
	}
	o.Class("max-chain-depth:%d", maxDepth)
	// chains (in the final state) on which two scopes next to each other among those with an external lookup have: the same object twice,
	// two objects of one Go type, of one type that Go cannot compare, of different types
	seen := map[string]bool{}
	for _, nd := range r.nodes {
		var first *mext
		for p := nd; p != nil; p = p.parent {
			if p.ext == nil {
				continue
			}
			if first == nil {
				first = p.ext
				continue
			}
			switch {
			case p.ext == first:
				seen["same-object"] = true
			case p.ext.form == first.form:
				seen["same-go-type"] = true
			default:
				seen["different-go-types"] = true
			}
			if p.ext.form == first.form && extFormUncomparable(first.form) {
				seen["same-uncomparable-go-type"] = true
			}
			first = p.ext
		}
	}
	for _, k := range []string{"same-object", "same-go-type", "same-uncomparable-go-type", "different-go-types"} {
		if seen[k] {
			o.Class("chain-with-two-lookups:" + k)
		}
	}
	// final state: some scope sees a table binding / a lookup's binding / nothing behind a lookup that
	// answers the name with an unusable value
	behind := map[string]bool{}
	for _, nd := range r.nodes {
		for _, nm := range poolNames {
			if mpastUnusable(nd, nm, false) {
				_, where, _ := mget(nd, nm)
				behind[where] = true
			}
		}
	}
	for _, k := range []string{"ancestor", "ext-own", "ext-ancestor", "undefined"} {
		if behind[k] {
			o.Class("final-state:unusable-ext-answer-then:" + k)
		}
	}
	o.Note = strings.ReplaceAll(renderHistory(c, len(c.Ops)), "\n", "; ")
	return nil
}

func TestC12(t *testing.T) {
	c := h.New(t, "C12")
	defer c.Finish()
	c.Rule("histories of 1..30 env API calls (Define/DefineValue/DefineGlobal[Value]/Set[Value]/Get[Value]/Addr/Delete/DeleteGlobal/DefineType/DefineReflectType/DefineGlobal[Reflect]Type/Type/Get{Value,Type}Symbols/NewEnv/env.NewEnv/NewModule/GetEnvFromPath(len 0..3)/Copy/DeepCopy/String/SetExternalLookup) on a growing forest of <=12 live scopes, names from {a,b,c,m,\"\",int64,bool,e,a.b,x.y.z,.}, values unique per step (int64, string, nil, addressable int64, a live scope as module alias), three map-backed external lookups, each in one of five Go representations drawn per case (pointer, named map type, struct value holding maps, named func type, comparable struct value - the model does not know the representation); after every call result and the state of every live scope are compared with a dictionary-chain model; non-trivial = >=6 executed calls addressing/creating >=3 scopes and a delete/copy/module/path call after a successful define in a non-root scope; distinct by history")
	h.Run(c, "history", c.N(6000, 60000), gen, oracle)
	c.Rule("sub-check 'shadowed': scripted histories - a module bound in an outer scope, a plain value / nil / nil scope pointer (or nothing) of the same name in a scope between, members of the module that are plain values, nil scope pointers or modules - followed by path lookups of length 1-3 from the scopes below and a short random tail; same oracle")
	h.Run(c, "shadowed", c.N(3000, 30000), genShadowed, oracle)
	c.Rule("sub-check 'modules': same oracle and non-triviality rule, op mix concentrated on NewModule/GetEnvFromPath/Define/Delete/DeleteGlobal/Set/Copy/DeepCopy over the names {a,b,m,c,e,\"\",a.b} so that module paths of length 2 and 3 resolve often")
	h.Run(c, "modules", c.N(1500, 15000), genModules, oracle)
	c.Rule("external lookups with unusable answers (all sub-checks; none in half of the cases of the three sub-checks above): a lookup answers some names it does not serve with a nil error and a reflect.Value that cannot be handed out (the zero Value, a value read from an unexported field, the same of an addressable struct); the model treats that as a miss; sub-check 'lookups': scripted histories - a chain of 2-5 scopes most of which carry a lookup, a focal name bound or not in an outer table, then Get/GetValue/Addr/Set/SetValue/DeleteGlobal/Delete/Define/SetExternalLookup/Copy/DeepCopy/NewEnv mostly on the inner scopes; same oracle and non-triviality rule")
	h.Run(c, "lookups", c.N(1500, 15000), genLookups, oracle)
}
