package c08

import (
	"context"
	"fmt"
	"math"
	"reflect"
	"sort"
	"strings"
	"time"

	"github.com/mattn/anko/env"
	"pgregory.net/rapid"

	"verif/internal/ank"
	"verif/internal/h"
)

// Sub-check `forin_nan` (eighth round): "`for ... in` visiting ... every map entry once" also for
// the entries whose key cannot be looked up again. A float NaN never equals itself, so a map holds as
// many NaN-keyed entries as were stored, `m[k]` never finds one of them and `delete` never removes
// one; they are entries all the same and a for-in loop passes through each of them once. The same
// goes for every key that contains a NaN (a float32, a complex number, an array or a struct key of a Go
// map bound by the host).
//
// A case is a map of 0-5 entries, 0-3 of them under such a key, the others under ordinary keys,
// built by the script (`m = {}` and index assignments, a map literal, `make(map[float64]int64)`; the NaN
// bound by the host or computed as `z = 0.0; z / z`) or bound by the host as a Go map of one of eight
// types, and a one- or two-variable for-in loop over it whose body reports every pass, counts the
// passes, sums the values, deletes OTHER (ordinary) entries while the loop runs, leaves by break after
// a given number of passes, continues at the entries of one kind, returns from the enclosing function
// at the first NaN-keyed entry, or is nested in / around a C-style loop. Everything asserted is
// independent of the order in which the entries are visited.
//
// Not asserted: whether an entry deleted while the loop runs is still visited (it is visited at most
// once); entries stored while the loop runs are not generated; what `m[k]`, `delete(m, k)` or `==` do
// with a NaN (the script tells the two kinds of key apart with the host function selfeq).

type NanEntry struct {
	Key  string `json:"key"`            // nan | flt | int | str | bool | inf
	I    int64  `json:"i"`              // tells ordinary keys of one kind apart (and gives the value)
	VNil bool   `json:"vnil,omitempty"` // the entry holds nil (maps with interface values only)
	VStr bool   `json:"vstr,omitempty"` // the entry holds a string (maps with interface values only)
}

type NanCase struct {
	Build   string     `json:"build"`
	NanSrc  string     `json:"nansrc,omitempty"` // script-built maps: host | computed
	Entries []NanEntry `json:"entries"`
	TwoVar  bool       `json:"twovar"`
	Body    string     `json:"body"`
	J       int        `json:"j,omitempty"`     // break: after pass J; nested: passes of the C-style loop
	Del     []int      `json:"del,omitempty"`   // delete: indexes (into Entries) of the ordinary entries deleted
	Every   bool       `json:"every,omitempty"` // delete: in every pass (otherwise in the first pass only)
	Inc     bool       `json:"inc,omitempty"`   // counters are bumped by n++ instead of n = n + 1
}

// nanBuild describes one way of making the map.
type nanBuild struct {
	name     string
	script   bool   // built by the script
	floatKey bool   // keys are made of a float64 (nan, flt, inf only)
	vals     string // int | iface | str
}

var nanBuilds = []nanBuild{
	{"script_index", true, false, "iface"},
	{"script_index", true, false, "iface"},
	{"script_literal", true, false, "iface"},
	{"script_make_f64_i64", true, true, "int"},
	{"go_iface_iface", false, false, "iface"},
	{"go_iface_i64", false, false, "int"},
	{"go_f64_i64", false, true, "int"},
	{"go_f64_iface", false, true, "iface"},
	{"go_f32_i64", false, true, "int"},
	{"go_c128_i64", false, true, "int"},
	{"go_arr_i64", false, true, "int"},
	{"go_struct_str", false, true, "str"},
}

func nanBuildOf(name string) (nanBuild, bool) {
	for _, b := range nanBuilds {
		if b.name == name {
			return b, true
		}
	}
	return nanBuild{}, false
}

type nanStructKey struct {
	F float64
	S string
}

var nanBodies = []string{"see", "see", "count", "sum", "delete", "delete", "break", "break", "continue_unfindable", "continue_ordinary", "return", "nested_inside_cfor", "nested_around_cfor"}

func genForinNan(t *rapid.T) NanCase {
	b := nanBuilds[rapid.IntRange(0, len(nanBuilds)-1).Draw(t, "build")]
	c := NanCase{Build: b.name}
	if b.script {
		c.NanSrc = rapid.SampledFrom([]string{"host", "computed"}).Draw(t, "nansrc")
	}
	nn := rapid.SampledFrom([]int{0, 1, 1, 1, 2, 2, 3}).Draw(t, "nans")
	no := rapid.IntRange(0, 3).Draw(t, "ordinary")
	kinds := []string{"str", "int", "flt", "bool", "inf", "str", "flt"}
	if b.floatKey {
		kinds = []string{"flt", "flt", "inf"}
	}
	used := map[string]bool{}
	var ents []NanEntry
	for i := 0; i < no; i++ {
		k := rapid.SampledFrom(kinds).Draw(t, "keykind")
		e := NanEntry{Key: k, I: int64(i + 1)}
		switch k {
		case "inf":
			e.I = 0
		case "bool":
			e.I = int64(rapid.IntRange(0, 1).Draw(t, "boolkey"))
		}
		id := fmt.Sprintf("%s%d", e.Key, e.I)
		if used[id] {
			e = NanEntry{Key: "flt", I: int64(i + 1)}
			if !b.floatKey {
				e.Key = "str"
			}
		}
		used[fmt.Sprintf("%s%d", e.Key, e.I)] = true
		ents = append(ents, e)
	}
	// the NaN-keyed entries go in at drawn positions among the ordinary ones
	for i := 0; i < nn; i++ {
		at := rapid.IntRange(0, len(ents)).Draw(t, "nanat")
		ents = append(ents, NanEntry{})
		copy(ents[at+1:], ents[at:])
		ents[at] = NanEntry{Key: "nan", I: int64(10 + i)}
	}
	if b.vals == "iface" {
		for i := range ents {
			switch rapid.IntRange(0, 7).Draw(t, "valclass") {
			case 0:
				ents[i].VNil = true
			case 1:
				ents[i].VStr = true
			}
		}
	}
	c.Entries = ents
	c.TwoVar = rapid.IntRange(0, 9).Draw(t, "vars") < 6
	c.Inc = rapid.IntRange(0, 3).Draw(t, "inc") == 0
	c.Body = rapid.SampledFrom(nanBodies).Draw(t, "body")
	switch c.Body {
	case "sum":
		// the two-variable loop adds the values up: integers only
		if c.TwoVar && b.vals == "str" {
			c.TwoVar = false
		}
		if c.TwoVar {
			for i := range ents {
				ents[i].VNil, ents[i].VStr = false, false
			}
		}
	case "break":
		c.J = rapid.IntRange(1, len(ents)+1).Draw(t, "breakafter")
	case "nested_inside_cfor", "nested_around_cfor":
		c.J = rapid.IntRange(1, 3).Draw(t, "cforpasses")
	case "delete":
		var ord []int
		for i, e := range ents {
			if e.Key != "nan" {
				ord = append(ord, i)
			}
		}
		if len(ord) == 0 {
			c.Body = "count"
			break
		}
		c.Every = rapid.IntRange(0, 2).Draw(t, "deleteevery") == 0
		first := rapid.IntRange(0, len(ord)-1).Draw(t, "delete1")
		c.Del = []int{ord[first]}
		if len(ord) > 1 && rapid.IntRange(0, 2).Draw(t, "delete2") == 0 {
			c.Del = append(c.Del, ord[(first+1)%len(ord)])
		}
	}
	return c
}

// nanKeyFloat is the float64 an entry's key is (made of).
func nanKeyFloat(e NanEntry) float64 {
	switch e.Key {
	case "nan":
		return math.NaN()
	case "inf":
		return math.Inf(1)
	}
	return float64(e.I) + 0.5
}

// nanKeyGo is the Go value of the entry's key in a map of the given build.
func nanKeyGo(b nanBuild, e NanEntry) interface{} {
	switch b.name {
	case "go_f32_i64":
		return float32(nanKeyFloat(e))
	case "go_c128_i64":
		return complex(nanKeyFloat(e), 1)
	case "go_arr_i64":
		return [2]float64{1, nanKeyFloat(e)}
	case "go_struct_str":
		return nanStructKey{nanKeyFloat(e), "s"}
	}
	switch e.Key {
	case "int":
		return e.I
	case "str":
		return fmt.Sprintf("k%d", e.I)
	case "bool":
		return e.I == 1
	}
	return nanKeyFloat(e)
}

// nanKeySrc is the key written in the script.
func nanKeySrc(e NanEntry) string {
	switch e.Key {
	case "nan":
		return "nan"
	case "inf":
		return "inf"
	case "int":
		return fmt.Sprint(e.I)
	case "str":
		return fmt.Sprintf("%q", fmt.Sprintf("k%d", e.I))
	case "bool":
		return fmt.Sprint(e.I == 1)
	}
	return fmt.Sprintf("%d.5", e.I)
}

func nanValGo(b nanBuild, i int, e NanEntry) interface{} {
	switch {
	case b.vals == "str":
		return fmt.Sprintf("v%d", i+1)
	case b.vals == "iface" && e.VNil:
		return nil
	case b.vals == "iface" && e.VStr:
		return fmt.Sprintf("v%d", i+1)
	}
	return int64(10 * (i + 1))
}

func nanValSrc(b nanBuild, i int, e NanEntry) string {
	switch v := nanValGo(b, i, e).(type) {
	case nil:
		return "nil"
	case string:
		return fmt.Sprintf("%q", v)
	default:
		return fmt.Sprint(v)
	}
}

func nanRender(v interface{}) string {
	if v == nil {
		return "nil"
	}
	return fmt.Sprintf("%T:%v", v, v)
}

// selfEqual is the host's test for "this key can be looked up again".
func selfEqual(a, b interface{}) bool { return a == b }

// nanGoMap makes the Go map of a host-bound build.
func nanGoMap(b nanBuild, ents []NanEntry) interface{} {
	var mt reflect.Type
	switch b.name {
	case "go_iface_iface":
		mt = reflect.TypeOf(map[interface{}]interface{}{})
	case "go_iface_i64":
		mt = reflect.TypeOf(map[interface{}]int64{})
	case "go_f64_i64":
		mt = reflect.TypeOf(map[float64]int64{})
	case "go_f64_iface":
		mt = reflect.TypeOf(map[float64]interface{}{})
	case "go_f32_i64":
		mt = reflect.TypeOf(map[float32]int64{})
	case "go_c128_i64":
		mt = reflect.TypeOf(map[complex128]int64{})
	case "go_arr_i64":
		mt = reflect.TypeOf(map[[2]float64]int64{})
	default:
		mt = reflect.TypeOf(map[nanStructKey]string{})
	}
	m := reflect.MakeMap(mt)
	for i, e := range ents {
		k := reflect.New(mt.Key()).Elem()
		k.Set(reflect.ValueOf(nanKeyGo(b, e)))
		v := reflect.New(mt.Elem()).Elem()
		if gv := nanValGo(b, i, e); gv != nil {
			v.Set(reflect.ValueOf(gv))
		}
		m.SetMapIndex(k, v)
	}
	return m.Interface()
}

// nanSource writes the script of a case.
func nanSource(c NanCase, b nanBuild) string {
	var s strings.Builder
	hasNan := false
	for _, e := range c.Entries {
		hasNan = hasNan || e.Key == "nan"
	}
	if b.script {
		if c.NanSrc == "computed" && hasNan {
			s.WriteString("z = 0.0\nnan = z / z\n")
		}
		switch b.name {
		case "script_literal":
			s.WriteString("m = {")
			for i, e := range c.Entries {
				if i > 0 {
					s.WriteString(", ")
				}
				fmt.Fprintf(&s, "%s: %s", nanKeySrc(e), nanValSrc(b, i, e))
			}
			s.WriteString("}\n")
		default:
			if b.name == "script_make_f64_i64" {
				s.WriteString("m = make(map[float64]int64)\n")
			} else {
				s.WriteString("m = {}\n")
			}
			for i, e := range c.Entries {
				fmt.Fprintf(&s, "m[%s] = %s\n", nanKeySrc(e), nanValSrc(b, i, e))
			}
		}
	}
	vars, item := "k", "see(k)"
	if c.TwoVar {
		vars, item = "k, v", "see(k, v)"
	}
	bump := func(n string) string {
		if c.Inc {
			return n + "++"
		}
		return n + " = " + n + " + 1"
	}
	head := "for " + vars + " in m {\n"
	switch c.Body {
	case "see":
		s.WriteString(head + "  " + item + "\n}\n")
	case "count":
		s.WriteString("n = 0\n" + head + "  " + bump("n") + "\n}\nsee(\"n\", n)\n")
	case "sum":
		if c.TwoVar {
			s.WriteString("n = 0\nt = 0\n" + head + "  " + bump("n") + "\n  t = t + v\n}\nsee(\"n\", n, t)\n")
		} else {
			s.WriteString("n = 0\nt = 0\n" + head + "  if selfeq(k) {\n    " + bump("n") + "\n  } else {\n    " + bump("t") + "\n  }\n}\nsee(\"n\", n, t)\n")
		}
	case "delete":
		s.WriteString("n = 0\n" + head + "  " + bump("n") + "\n  " + item + "\n")
		dels := ""
		for j, d := range c.Del {
			if b.script {
				dels += fmt.Sprintf("delete(m, %s)\n", nanKeySrc(c.Entries[d]))
			} else {
				dels += fmt.Sprintf("delete(m, d%d)\n", j)
			}
		}
		if c.Every {
			s.WriteString("  " + strings.ReplaceAll(strings.TrimSuffix(dels, "\n"), "\n", "\n  ") + "\n")
		} else {
			s.WriteString("  if n == 1 {\n    " + strings.ReplaceAll(strings.TrimSuffix(dels, "\n"), "\n", "\n    ") + "\n  }\n")
		}
		s.WriteString("}\nsee(\"n\", n)\n")
	case "break":
		fmt.Fprintf(&s, "n = 0\n%s  %s\n  %s\n  if n == %d {\n    break\n  }\n}\nsee(\"n\", n)\n", head, bump("n"), item, c.J)
	case "continue_unfindable":
		s.WriteString("n = 0\n" + head + "  if !selfeq(k) {\n    " + bump("n") + "\n    continue\n  }\n  " + item + "\n}\nsee(\"n\", n)\n")
	case "continue_ordinary":
		s.WriteString("n = 0\n" + head + "  if selfeq(k) {\n    " + bump("n") + "\n    continue\n  }\n  " + item + "\n}\nsee(\"n\", n)\n")
	case "return":
		ret := "return \"at\""
		if c.TwoVar {
			ret = "return [\"at\", v]"
		}
		s.WriteString("func first(mm) {\n  for " + vars + " in mm {\n    if !selfeq(k) {\n      " + ret + "\n    }\n  }\n  return \"none\"\n}\nsee(\"r\", first(m))\n")
	case "nested_inside_cfor":
		fmt.Fprintf(&s, "n = 0\no = 0\nfor i = 0; i < %d; i++ {\n  for %s in m {\n    %s\n  }\n  %s\n}\nsee(\"n\", n, o)\n", c.J, vars, bump("n"), bump("o"))
	case "nested_around_cfor":
		// the inner loop's continue and break stay in the inner loop: two passes of it per entry
		fmt.Fprintf(&s, "n = 0\no = 0\n%s  for j = 0; j < 5; j++ {\n    %s\n    if j == 0 {\n      continue\n    }\n    break\n  }\n  %s\n}\nsee(\"n\", n, o)\n", head, bump("n"), bump("o"))
	}
	return s.String()
}

func oracleForinNan(c NanCase, o *h.Obs) *h.Fail {
	b, ok := nanBuildOf(c.Build)
	if !ok {
		o.Excluded = "harness: unknown build " + c.Build
		return nil
	}
	src := nanSource(c, b)
	o.Key = c.Build + "\n" + src
	nn := 0
	for _, e := range c.Entries {
		if e.Key == "nan" {
			nn++
		}
	}
	N := len(c.Entries)
	o.NonTrivial = nn > 0
	o.Class("forin_nan_build_" + c.Build)
	if b.script && nn > 0 {
		o.Class("forin_nan_script_nan_" + c.NanSrc)
	}
	o.Class("forin_nan_body_" + c.Body)
	o.Class("forin_nan_unfindable_entries_%d", nn)
	o.Class("forin_nan_ordinary_entries_%d", N-nn)
	if c.TwoVar {
		o.Class("forin_nan_two_variables")
	} else {
		o.Class("forin_nan_one_variable")
	}
	if nn > 0 && N > nn {
		o.Class("forin_nan_unfindable_among_ordinary_entries")
	}

	e := env.NewEnv()
	var trace []string
	e.Define("see", func(args ...interface{}) {
		parts := make([]string, len(args))
		for i, a := range args {
			parts[i] = nanRender(a)
		}
		trace = append(trace, strings.Join(parts, " "))
	})
	e.Define("selfeq", func(k interface{}) bool { return selfEqual(k, k) })
	e.Define("inf", math.Inf(1))
	if !(b.script && c.NanSrc == "computed") {
		e.Define("nan", math.NaN())
	}
	if !b.script {
		e.Define("m", nanGoMap(b, c.Entries))
		for j, d := range c.Del {
			if d < 0 || d >= N || c.Entries[d].Key == "nan" {
				o.Excluded = "harness: the case deletes an entry it does not have"
				return nil
			}
			e.Define(fmt.Sprintf("d%d", j), nanKeyGo(b, c.Entries[d]))
		}
	} else {
		for _, d := range c.Del {
			if d < 0 || d >= N || c.Entries[d].Key == "nan" {
				o.Excluded = "harness: the case deletes an entry it does not have"
				return nil
			}
		}
	}
	ctx, cancel := context.WithTimeout(context.Background(), 20*time.Second)
	defer cancel()
	_, err := ank.ExecCtx(ctx, e, src)
	if ctx.Err() != nil {
		o.Excluded = "resource: the script did not end within 20 s"
		return nil
	}
	show := func() string {
		return fmt.Sprintf("map: %s, %d entries, %d of them under a key that does not equal itself (NaN)\nscript:\n%s", c.Build, N, nn, src)
	}
	if hp, ok := ank.IsHostPanic(err); ok {
		return h.Failf("C08|forin-map|panic", "%s\nescaped panic: %s", show(), ank.NormPanic(hp.Value))
	}
	if err != nil {
		return h.Failf("C08|forin-map|error", "%s\nerror: %v", show(), err)
	}

	// what a pass over entry i reports
	itemOf := func(i int) string {
		k := nanRender(nanKeyGo(b, c.Entries[i]))
		if c.TwoVar {
			return k + " " + nanRender(nanValGo(b, i, c.Entries[i]))
		}
		return k
	}
	unf := func(i int) bool { return c.Entries[i].Key == "nan" }
	deleted := map[int]bool{}
	for _, d := range c.Del {
		deleted[d] = true
	}
	if c.Body == "sum" && c.TwoVar {
		for i, en := range c.Entries {
			if _, ok := nanValGo(b, i, en).(int64); !ok {
				// (not generated: the sum is drawn for maps of integers only; kept for hand-written replays)
				o.Excluded = "harness: sum over values that are not integers"
				return nil
			}
		}
	}

	// must: entries that are visited exactly once; may: entries visited at most once
	must := map[string]int{}
	may := map[string]int{}
	mustN := 0
	wantLast := ""
	switch c.Body {
	case "see":
		for i := range c.Entries {
			must[itemOf(i)]++
			mustN++
		}
	case "count":
		wantLast = fmt.Sprintf("string:n int64:%d", N)
	case "sum":
		if c.TwoVar {
			var sum int64
			for i, en := range c.Entries {
				sum += nanValGo(b, i, en).(int64)
			}
			wantLast = fmt.Sprintf("string:n int64:%d int64:%d", N, sum)
		} else {
			wantLast = fmt.Sprintf("string:n int64:%d int64:%d", N-nn, nn)
		}
	case "delete":
		for i := range c.Entries {
			if deleted[i] {
				may[itemOf(i)]++
			} else {
				must[itemOf(i)]++
				mustN++
			}
		}
	case "break":
		for i := range c.Entries {
			may[itemOf(i)]++
		}
	case "continue_unfindable":
		for i := range c.Entries {
			if !unf(i) {
				must[itemOf(i)]++
				mustN++
			}
		}
		wantLast = fmt.Sprintf("string:n int64:%d", nn)
	case "continue_ordinary":
		for i := range c.Entries {
			if unf(i) {
				must[itemOf(i)]++
				mustN++
			}
		}
		wantLast = fmt.Sprintf("string:n int64:%d", N-nn)
	case "nested_inside_cfor":
		wantLast = fmt.Sprintf("string:n int64:%d int64:%d", c.J*N, c.J)
	case "nested_around_cfor":
		wantLast = fmt.Sprintf("string:n int64:%d int64:%d", 2*N, N)
	}
	closing := c.Body != "see"
	if closing && len(trace) == 0 {
		return h.Failf("C08|forin-map|no-report", "%s\nthe script ended without its closing report", show())
	}
	last := ""
	items := trace
	if closing {
		last = trace[len(trace)-1]
		items = trace[:len(trace)-1]
	}
	got := map[string]int{}
	for _, it := range items {
		got[it]++
	}
	describe := func() string {
		return fmt.Sprintf("%s\nreported by the script: %q", show(), trace)
	}
	if c.Body == "return" {
		var want []string
		for i := range c.Entries {
			if unf(i) {
				if c.TwoVar {
					want = append(want, "string:r []interface {}:[at "+fmt.Sprint(nanValGo(b, i, c.Entries[i]))+"]")
				} else {
					want = append(want, "string:r string:at")
				}
			}
		}
		if nn == 0 {
			want = []string{"string:r string:none"}
		}
		for _, w := range want {
			if last == w {
				return nil
			}
		}
		sort.Strings(want)
		return h.Failf("C08|forin-map|return-at-entry", "%s\nthe function returns at the first entry whose key does not equal itself: expected one of %q", describe(), want)
	}
	// every pass reports an entry of the map, no entry more often than it is there
	names := make([]string, 0, len(got))
	for it := range got {
		names = append(names, it)
	}
	sort.Strings(names)
	for _, it := range names {
		if got[it] > must[it]+may[it] {
			if must[it]+may[it] == 0 {
				return h.Failf("C08|forin-map|pass-for-no-entry", "%s\na pass reported %q, which is no entry of the map (or not one this loop reports)", describe(), it)
			}
			return h.Failf("C08|forin-map|entry-visited-more-than-once", "%s\n%q was reported %d times, the map has %d such entries", describe(), it, got[it], must[it]+may[it])
		}
	}
	wants := make([]string, 0, len(must))
	for it := range must {
		wants = append(wants, it)
	}
	sort.Strings(wants)
	for _, it := range wants {
		if got[it] < must[it] {
			return h.Failf("C08|forin-map|entry-not-visited", "%s\n%q was reported %d times, the map has %d such entries and none of them is deleted", describe(), it, got[it], must[it])
		}
	}
	switch c.Body {
	case "delete":
		wantLast = fmt.Sprintf("string:n int64:%d", len(items))
	case "break":
		k := c.J
		if k > N {
			k = N
		}
		if len(items) != k {
			return h.Failf("C08|forin-map|passes-before-break", "%s\nthe loop breaks in pass %d over a map of %d entries: expected %d passes, %d were reported", describe(), c.J, N, k, len(items))
		}
		wantLast = fmt.Sprintf("string:n int64:%d", k)
	}
	if closing && last != wantLast {
		return h.Failf("C08|forin-map|pass-counters", "%s\nclosing report: expected %q, got %q", describe(), wantLast, last)
	}
	return nil
}
