// C08 — branches, loops, break/continue/return do what their syntax says.
// Oracle: reference interpreter (internal/prog).
package c08

import (
	"regexp"
	"strconv"
	"strings"
	"testing"

	"pgregory.net/rapid"

	"verif/internal/h"
	"verif/internal/prog"
)

type Case struct {
	Prog    []*prog.N      `json:"prog"`
	GenFeat map[string]int `json:"genfeat,omitempty"`
}

var profile = prog.Profile{Control: true, HostChan: true, CtlVals: true, MaxDepth: 5, MaxStmts: 4}

func gen(t *rapid.T) Case {
	p, f := prog.Generate(t, profile)
	return Case{Prog: p, GenFeat: f}
}

// the same control-flow programs among statements that raise, catch and defer: a return, break or
// continue must do what its syntax says also when deferred calls are registered (at top level or in
// the function being left) and when errors were raised and caught on the way
var profileErrors = prog.Profile{Control: true, Errors: true, HostChan: true, CtlVals: true, MaxDepth: 5, MaxStmts: 4}

func genErrors(t *rapid.T) Case {
	p, f := prog.Generate(t, profileErrors)
	return Case{Prog: p, GenFeat: f}
}

func oracle(c Case, o *h.Obs) *h.Fail {
	v := prog.Judge(c.Prog)
	o.Key = v.Src
	if v.Excluded != "" {
		o.Excluded = "unspecified: " + v.Excluded
		return nil
	}
	f := v.Out.Feat
	if c.GenFeat["excluded_signal_in_try_body"] > 0 {
		o.Class("generator_kept_signals_out_of_a_try_body")
	}
	for _, k := range []string{"loop_cfor_without_condition", "loop_cfor_without_init", "loop_cfor_without_post", "loop_cfor_constant_condition_without_post", "loop_cfor_without_condition_and_post", "loop_cfor_condition_only", "loop_cfor_condition_only_false_at_start", "loop_cfor_post_only", "loop_cfor_empty_header", "defer", "try", "switch_subject_nil", "switch_subject_str", "loop_forin_map_keys_printing_alike", "stray_break_or_continue_in_callee"} {
		if c.GenFeat[k] > 0 {
			o.Class("gen_" + k)
		}
	}
	// the seventh-round input classes (internal/prog/gen_ctlvals.go): every counter of the two patterns
	for k, n := range c.GenFeat {
		if n > 0 && (strings.HasPrefix(k, "forin_map_") || strings.HasPrefix(k, "return_of_slot_") || strings.HasPrefix(k, "returned_slot_")) {
			o.Class("gen_" + k)
		}
	}
	// non-trivial: a break/continue/return crossed at least one enclosing block of another
	// kind (if/else/switch/try/iteration) before being consumed by its loop / function
	crossed := 0
	for k, n := range f {
		if n == 0 {
			continue
		}
		if strings.HasPrefix(k, "exit_") && (strings.HasSuffix(k, "_break") || strings.HasSuffix(k, "_continue") || strings.HasSuffix(k, "_return")) && !strings.HasPrefix(k, "exit_call_") {
			crossed++
			o.Class(k)
		}
		if strings.HasPrefix(k, "break_consumed_") || strings.HasPrefix(k, "continue_consumed_") || strings.HasPrefix(k, "return_through_") {
			o.Class(k)
		}
	}
	o.NonTrivial = crossed >= 1 && (f["case_matched"] > 0 || f["default_taken"] > 0 || f["if_taken"] > 0 || f["else_taken"] > 0)
	for _, k := range []string{"case_matched", "default_taken", "continue_in_cfor", "short_circuit"} {
		if f[k] > 0 {
			o.Class(k)
		}
	}
	if !v.OK {
		sig := "C08|" + v.Clause
		if site := ctlValsSite(c.Prog, v.Detail); site != "" {
			sig += "|" + site
		}
		f := h.Failf(sig, "program:\n%s\n%s", v.Src, v.Detail)
		f.NoShrink = v.Clause == "no-termination"
		return f
	}
	return nil
}

func TestC08(t *testing.T) {
	c := h.New(t, "C08")
	defer c.Finish()
	if c.Thorough() {
		// the thorough tier also explores larger programs
		profile.MaxDepth++
		profile.MaxStmts += 2
		profileErrors.MaxDepth++
		profileErrors.MaxStmts += 2
	}
	c.Rule("constructive generator, profile 'control': if/else-if/else, switch with multi-expression cases and default at any position, for{}, for cond{}, C-style loops (all eight header forms: each of init, condition and post present or absent), for-in over lists and maps, nested <=5 deep inside functions, break/continue/return (0,1,2 values) at every position, conditions from every truthiness class; non-trivial = a break/continue/return crossed >=1 enclosing if/else/switch/try block before being consumed; distinct by source text")
	h.Run(c, "control", c.N(12000, 120000), gen, oracle)
	c.Rule("control_errors: the same generator with throw / runtime errors / try-catch-finally / defer statements switched on (profile 'control+errors'): the top-level program and the functions register deferred calls before they return, loops are left by break/continue while errors are raised and caught; same oracle, same non-triviality rule")
	h.Run(c, "control_errors", c.N(8000, 80000), genErrors, oracle)
	c.Rule("parallel: 2-3 judged programs (tight loops of 300-1200 passes over if/else-if/else, for cond, ternary, !, &&, ||, continue, switch with condition values of every specified truthiness class, non-empty strings above all) run at the same time on goroutines and in environments of their own next to 1-3 never-judged disturber scripts that test every kind of value (also the strings whose truth value is left open); each judged program must count the branches the reference interpreter counts; non-trivial = a judged program tests a string")
	h.Run(c, "parallel", c.N(60, 200), genPar, oraclePar)
	h.Run(c, "trysignal", 1, genTrySignal, oracleTrySignal)
	c.Rule("forin_nan: a map of 0-5 entries, 0-3 of them under a key that does not equal itself (a float64 NaN bound by the host or computed as z = 0.0; z / z; in host-bound Go maps also a float32, a complex128, an array and a struct key holding a NaN), built by index assignments, a map literal, make(map[float64]int64) or bound as a Go map of eight types, under a one- or two-variable for-in loop that reports every pass / counts / sums / deletes other (ordinary) entries meanwhile / breaks after pass j / continues at one kind of entry / returns from the enclosing function at the first such entry / is nested in or around a C-style loop; every entry that is not deleted is visited exactly once (order-independent comparison: multisets and counters); non-trivial = the map has at least one such entry; distinct by map type and source text")
	h.Run(c, "forin_nan", c.N(2500, 25000), genForinNan, oracleForinNan)
	c.Rule("switch_again: the control generator with one more pattern (internal/prog/gen_switchagain.go, about a third of all statements): ONE switch with 2-5 cases whose lists overlap - the same number in two lists in any of its spellings 1 / 1.0 / \"1\" / \"1.0\", probe calls, variables and sums of the loop counter that come to equal the subject on a later pass, true/false/comparisons, nil twice - run 2-6 times by a for-in loop over a list literal or variable, a C-style loop or a `for cond` loop over an index, or a descending counter that is the subject, inside one invocation of a named function / function value (called once or twice) or inline (top level included), the subjects ordered so that a later case matches before a subject arrives that equals an expression of that case and of an earlier one; case bodies log their index (probe, or a string returned / reported afterwards), assign the case variables, continue, break, return; the reference interpreter takes the first case in source order one of whose expressions equals the subject (equality as the C06 statement decides it); non-trivial = some pass took a case standing before the case the same statement took the time before in the same invocation, while that later case lists a value equal to the subject too; distinct by source text")
	h.Run(c, "switch_again", c.N(2500, 25000), genSwitchAgain, oracleSwitchAgain)
}

var probeInDetail = regexp.MustCompile(`(?:model|anko) "p i:(-?[0-9]+)`)

// ctlValsSite names the seventh-round pattern (internal/prog/gen_ctlvals.go) the first differing
// probe belongs to, for the signature only: "forin-over-map-entry-classes" when the probe sits in a
// for-in loop over one of the pattern's maps (or reports its counter / its function's result),
// "return-of-slot-holding-slice-or-map" when it sits in, or reports the result of, one of the pattern's
// functions; "" for every other probe.
func ctlValsSite(stmts []*prog.N, detail string) string {
	m := probeInDetail.FindStringSubmatch(detail)
	if m == nil {
		return ""
	}
	id, _ := strconv.ParseInt(m[1], 10, 64)
	site := ""
	var walk func(n *prog.N, ctx string)
	named := func(n *prog.N) string {
		// the names the two patterns use for their maps, counters and functions
		found := ""
		prog.Walk([]*prog.N{n}, func(k *prog.N) {
			nm := k.S
			if k.K != "id" && k.K != "call" {
				return
			}
			switch {
			case strings.HasPrefix(nm, "rh") || strings.HasPrefix(nm, "rx") || nm == "hbox" || nm == "ta":
				found = "return-of-slot-holding-slice-or-map"
			case strings.HasPrefix(nm, "em") || strings.HasPrefix(nm, "en") || strings.HasPrefix(nm, "fu") || nm == "ek" || nm == "ev":
				if found == "" {
					found = "forin-over-map-entry-classes"
				}
			}
		})
		return found
	}
	walk = func(n *prog.N, ctx string) {
		if n == nil {
			return
		}
		switch {
		case n.K == "forin" && len(n.Ps) > 0 && n.Ps[0] == "ek":
			ctx = "forin-over-map-entry-classes"
		case n.K == "fn" && strings.HasPrefix(n.S, "rh"):
			ctx = "return-of-slot-holding-slice-or-map"
		}
		if n.K == "p" && n.I == id && site == "" {
			site = ctx
			if s := named(n); s != "" {
				site = s
			}
		}
		for _, k := range n.Ns {
			walk(k, ctx)
		}
		for _, b := range n.Ss {
			for _, k := range b {
				walk(k, ctx)
			}
		}
	}
	for _, s := range stmts {
		walk(s, "")
	}
	return site
}
