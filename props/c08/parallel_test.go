package c08

import (
	"context"
	"fmt"
	"strings"
	"sync"
	"time"

	"pgregory.net/rapid"

	"verif/internal/ank"
	"verif/internal/h"
	"verif/internal/prog"
)

// Sub-check `parallel`: what a branch or a loop does is a matter of the program alone. Two to
// three JUDGED programs - tight loops whose passes test values of every specified truthiness class,
// non-empty strings above all, in if / else-if / else chains, `for cond { }` loops, ternaries, `!`,
// `&&` and `||`, with `continue` inside C-style loops - run at the same time on goroutines of their
// own, each in an environment of its own, next to one to three DISTURBER scripts that do the same
// kind of work on every kind of condition value, including the strings whose own truth value the
// design leaves open ("0", "false", "f", "0.0", ...). The disturbers are never judged. Every judged
// program must count exactly the branches the reference interpreter counts (the statement's "exactly
// the first branch whose condition is truthy", "exactly while their condition holds"), as it does when
// it runs alone.

type ParCase struct {
	Judged  [][]*prog.N `json:"judged"`
	Disturb []string    `json:"disturb"`
	Forms   []string    `json:"forms,omitempty"`
}

// strings that are truthy by the statement (non-empty) and that nobody could read as a number or
// as a boolean
var plainStrings = []string{"abc", "y", "yes", "no", "off", "x0", "ok", "zero", "abc", "y"}

func parValue(t *rapid.T) *prog.N {
	switch k := rapid.IntRange(0, 19).Draw(t, "valclass"); {
	case k < 11:
		return prog.Str(rapid.SampledFrom(plainStrings).Draw(t, "plain"))
	case k < 13:
		return prog.Str("")
	}
	others := []*prog.N{
		{K: "nil"}, prog.Int(0), prog.Int(7), {K: "true"}, {K: "false"},
		{K: "list"}, {K: "list", Ns: []*prog.N{prog.Int(0)}},
		{K: "map"}, {K: "map", Ns: []*prog.N{prog.Str("k"), prog.Int(0)}},
	}
	return others[rapid.IntRange(0, len(others)-1).Draw(t, "other")]
}

func judgedProg(t *rapid.T, forms map[string]bool) []*prog.N {
	N := prog.Int(int64(rapid.IntRange(300, 1200).Draw(t, "passes")))
	nv := rapid.IntRange(2, 4).Draw(t, "vars")
	var out []*prog.N
	for i := 0; i < nv; i++ {
		out = append(out, &prog.N{K: "let", Ps: []string{fmt.Sprintf("s%d", i)}, Ns: []*prog.N{parValue(t)}})
	}
	cond := func() *prog.N {
		if rapid.IntRange(0, 9).Draw(t, "lit") < 3 {
			// a map literal is never written directly as a condition (`for {} {` does not read as a loop
			// over a condition): maps are tested through the variables
			if v := parValue(t); v.K != "map" {
				return v
			}
		}
		return prog.Id(fmt.Sprintf("s%d", rapid.IntRange(0, nv-1).Draw(t, "var")))
	}
	nc := 0
	var counters []string
	ctr := func() string {
		nc++
		c := fmt.Sprintf("c%d", nc)
		counters = append(counters, c)
		return c
	}
	bump := func(c string) *prog.N {
		return &prog.N{K: "let", Ps: []string{c}, Ns: []*prog.N{prog.Bin("+", prog.Id(c), prog.Int(1))}}
	}
	cfor := rapid.IntRange(0, 2).Draw(t, "loopform") > 0
	var body []*prog.N
	for s := rapid.IntRange(3, 7).Draw(t, "sites"); s > 0; s-- {
		switch rapid.IntRange(0, 7).Draw(t, "site") {
		case 0:
			forms["if_else"] = true
			body = append(body, &prog.N{K: "if", Ns: []*prog.N{cond()}, Ss: [][]*prog.N{{bump(ctr())}, {bump(ctr())}}, B: true})
		case 1:
			forms["if_not"] = true
			body = append(body, &prog.N{K: "if", Ns: []*prog.N{{K: "not", Ns: []*prog.N{cond()}}}, Ss: [][]*prog.N{{bump(ctr())}, {bump(ctr())}}, B: true})
		case 2:
			forms["else_if_chain"] = true
			body = append(body, &prog.N{K: "if", Ns: []*prog.N{cond(), cond()}, Ss: [][]*prog.N{{bump(ctr())}, {bump(ctr())}, {bump(ctr())}}, B: true})
		case 3:
			forms["loop_condition"] = true
			c := ctr()
			body = append(body, &prog.N{K: "loop", Ns: []*prog.N{cond()}, Ss: [][]*prog.N{{bump(c), {K: "break"}}}})
		case 4:
			forms["ternary"] = true
			c := ctr()
			body = append(body, &prog.N{K: "let", Ps: []string{c}, Ns: []*prog.N{prog.Bin("+", prog.Id(c), &prog.N{K: "tern", Ns: []*prog.N{cond(), prog.Int(1), prog.Int(0)}})}})
		case 5:
			forms["and_or"] = true
			k := rapid.SampledFrom([]string{"and", "or"}).Draw(t, "andor")
			body = append(body, &prog.N{K: "if", Ns: []*prog.N{{K: k, Ns: []*prog.N{cond(), cond()}}}, Ss: [][]*prog.N{{bump(ctr())}, {bump(ctr())}}, B: true})
		case 6:
			// continue out of two nested branches: the rest of the pass is skipped (the C-style loop still
			// runs its post expression, or the loop would not end)
			forms["continue_in_nested_if"] = true
			body = append(body, &prog.N{K: "if", Ns: []*prog.N{cond()}, Ss: [][]*prog.N{{
				bump(ctr()),
				{K: "if", Ns: []*prog.N{cond()}, Ss: [][]*prog.N{{bump(ctr()), {K: "cont"}}}},
			}}})
		default:
			forms["switch_in_branch"] = true
			c1, c2 := ctr(), ctr()
			body = append(body, &prog.N{K: "if", Ns: []*prog.N{cond()}, Ss: [][]*prog.N{{
				{K: "switch", Ns: []*prog.N{prog.Bin("%", prog.Id("i"), prog.Int(2)), {K: "case", Ns: []*prog.N{prog.Int(0)}, Ss: [][]*prog.N{{bump(c1)}}}, {K: "default", Ss: [][]*prog.N{{bump(c2)}}}}},
			}}})
		}
	}
	for _, c := range counters {
		out = append(out, &prog.N{K: "let", Ps: []string{c}, Ns: []*prog.N{prog.Int(0)}})
	}
	if cfor {
		forms["c_style_loop"] = true
		out = append(out, &prog.N{K: "cfor", Ns: []*prog.N{{K: "let", Ps: []string{"i"}, Ns: []*prog.N{prog.Int(0)}}, prog.Bin("<", prog.Id("i"), N), {K: "inc", S: "i", I: 1}}, Ss: [][]*prog.N{body}})
	} else {
		forms["condition_loop"] = true
		body = append([]*prog.N{{K: "let", Ps: []string{"i"}, Ns: []*prog.N{prog.Bin("+", prog.Id("i"), prog.Int(1))}}}, body...)
		out = append(out, &prog.N{K: "let", Ps: []string{"i"}, Ns: []*prog.N{prog.Int(-1)}},
			&prog.N{K: "loop", Ns: []*prog.N{prog.Bin("<", prog.Id("i"), prog.Bin("-", N, prog.Int(1)))}, Ss: [][]*prog.N{body}})
	}
	res := &prog.N{K: "list"}
	for _, c := range counters {
		res.Ns = append(res.Ns, prog.Id(c))
	}
	return append(out, &prog.N{K: "ret", Ns: []*prog.N{res}})
}

// strings whose truth value the design leaves open (they read as false, as zero, as true or as a
// number), next to ordinary values: a disturber may test anything
var openStrings = []string{"0", "false", "f", "F", "0.0", "-0", "0e0", "00", "FALSE", "False", "0", "false", "1", "true", "t", "2.5"}

func disturber(t *rapid.T) string {
	lit := func() string {
		switch k := rapid.IntRange(0, 9).Draw(t, "dclass"); {
		case k < 6:
			return fmt.Sprintf("%q", rapid.SampledFrom(openStrings).Draw(t, "open"))
		case k < 8:
			return fmt.Sprintf("%q", rapid.SampledFrom(plainStrings).Draw(t, "plain"))
		}
		return rapid.SampledFrom([]string{`""`, "nil", "0", "3", "0.0", "true", "false", "[]", "[1]", "1.5"}).Draw(t, "dother")
	}
	var b strings.Builder
	nv := rapid.IntRange(2, 4).Draw(t, "dvars")
	for i := 0; i < nv; i++ {
		fmt.Fprintf(&b, "z%d = %s\n", i, lit())
	}
	// every disturber tests at least one of the open strings
	fmt.Fprintf(&b, "z%d = %q\n", nv, rapid.SampledFrom(openStrings[:12]).Draw(t, "open0"))
	nv++
	cond := func() string {
		if rapid.IntRange(0, 9).Draw(t, "dlit") < 3 {
			return lit()
		}
		return fmt.Sprintf("z%d", rapid.IntRange(0, nv-1).Draw(t, "dvar"))
	}
	b.WriteString("n = 0\nfor {\n")
	for s := rapid.IntRange(2, 6).Draw(t, "dsites"); s > 0; s-- {
		switch rapid.IntRange(0, 4).Draw(t, "dsite") {
		case 0:
			fmt.Fprintf(&b, "  if %s {\n    n = n + 1\n  }\n", cond())
		case 1:
			fmt.Fprintf(&b, "  if %s {\n    n = n + 1\n  } else if %s {\n    n = n - 1\n  } else {\n    n = 0\n  }\n", cond(), cond())
		case 2:
			fmt.Fprintf(&b, "  for %s {\n    break\n  }\n", cond())
		case 3:
			fmt.Fprintf(&b, "  n = (%s ? 1 : 2)\n", cond())
		default:
			fmt.Fprintf(&b, "  if (%s && %s) || !%s {\n    n = n + 1\n  }\n", cond(), cond(), cond())
		}
	}
	b.WriteString("}\n")
	return b.String()
}

func genPar(t *rapid.T) ParCase {
	forms := map[string]bool{}
	var c ParCase
	for i := rapid.IntRange(2, 3).Draw(t, "judged"); i > 0; i-- {
		c.Judged = append(c.Judged, judgedProg(t, forms))
	}
	for i := rapid.IntRange(1, 3).Draw(t, "disturbers"); i > 0; i-- {
		c.Disturb = append(c.Disturb, disturber(t))
	}
	for k := range forms {
		c.Forms = append(c.Forms, k)
	}
	sortStrings(c.Forms)
	return c
}

func sortStrings(a []string) {
	for i := 1; i < len(a); i++ {
		for j := i; j > 0 && a[j] < a[j-1]; j-- {
			a[j], a[j-1] = a[j-1], a[j]
		}
	}
}

const parModelBudget = 4000000

// parDiff compares one run of a judged program with the model's outcome.
func parDiff(out *prog.Outcome, val interface{}, err error, trace []string) string {
	if _, ok := ank.IsHostPanic(err); ok {
		return fmt.Sprintf("escaped panic: %v", err)
	}
	if i, ok := prog.MatchTrace(out.Trace, trace); !ok {
		return fmt.Sprintf("trace differs at entry %d", i)
	}
	if (out.Err != nil) != (err != nil) {
		return fmt.Sprintf("model error: %v, anko error: %v", out.Err != nil, err)
	}
	if out.Err == nil && out.ValueKnown && !prog.Match(prog.Render(out.Value), prog.RenderGo(val)) {
		return fmt.Sprintf("branch counters: model %s, anko %s", prog.Render(out.Value), prog.RenderGo(val))
	}
	return ""
}

// parHang: a judged program that does not end was reported in this process; parLate counts the later
// cases that did not end within 3 s either (the policy of prog.Judge for the same situation).
var parHang bool
var parLate int

func oraclePar(c ParCase, o *h.Obs) *h.Fail {
	srcs := make([]string, len(c.Judged))
	outs := make([]*prog.Outcome, len(c.Judged))
	for i, p := range c.Judged {
		srcs[i] = prog.Print(p)
		outs[i] = prog.Run(p, prog.Cfg{}, parModelBudget)
		if outs[i].Unspecified != "" {
			o.Key = strings.Join(srcs[:i+1], "\n//\n")
			o.Excluded = "unspecified: " + outs[i].Unspecified
			return nil
		}
	}
	o.Key = strings.Join(srcs, "\n//\n") + "\n// disturbers\n" + strings.Join(c.Disturb, "\n//\n")
	o.Class("parallel_judged_programs_%d", len(c.Judged))
	o.Class("parallel_disturbers_%d", len(c.Disturb))
	for _, f := range c.Forms {
		o.Class("parallel_form_" + f)
	}
	for _, s := range srcs {
		if strings.Contains(s, `= "`) || strings.Contains(s, `if "`) {
			o.NonTrivial = true
		}
	}
	// every judged program ends within the model's step budget (a few hundred thousand steps, well under a
	// second of interpreter time): 20 s for the parallel run; once a hang has been reported, 3 s
	limit := 20 * time.Second
	if parHang {
		if parLate > 5 {
			o.Excluded = "not run: a hang was reported in this process and more than 5 later cases did not end either"
			return nil
		}
		limit = 3 * time.Second
	}
	ctx, cancel := context.WithTimeout(context.Background(), limit)
	defer cancel()
	start := make(chan struct{})
	var dwg, jwg sync.WaitGroup
	early := make([]error, len(c.Disturb))
	ended := make([]bool, len(c.Disturb))
	for i, d := range c.Disturb {
		dwg.Add(1)
		go func(i int, d string) {
			defer dwg.Done()
			host := prog.NewHost()
			<-start
			_, err := ank.ExecCtx(ctx, host.Env, d)
			if ctx.Err() == nil {
				early[i], ended[i] = err, true
			}
		}(i, d)
	}
	type res struct {
		val   interface{}
		err   error
		trace []string
	}
	got := make([]res, len(c.Judged))
	for i := range c.Judged {
		jwg.Add(1)
		go func(i int) {
			defer jwg.Done()
			host := prog.NewHost()
			<-start
			v, err := ank.ExecCtx(ctx, host.Env, srcs[i])
			got[i] = res{v, err, host.Trace}
		}(i)
	}
	close(start)
	jwg.Wait()
	timedOut := ctx.Err() != nil
	cancel()
	dwg.Wait()
	if timedOut && parHang {
		parLate++
		o.Excluded = "did not end within 3 s (a hang was already reported in this process)"
		return nil
	}
	if timedOut {
		// which judged program does not end? Each one once more, alone, with 30 s
		for i := range c.Judged {
			if got[i].err == nil || !strings.Contains(got[i].err.Error(), "interrupt") {
				continue
			}
			host := prog.NewHost()
			_, _, still := host.ExecTimeout(srcs[i], 30*time.Second)
			if still {
				parHang = true
				f := h.Failf("C08|no-termination", "program:\n%s\nthe model finishes this program within %d steps; anko was still running it after 20 s next to other scripts and after 30 s alone", srcs[i], outs[i].Steps)
				f.NoShrink = true
				return f
			}
		}
		o.Excluded = "resource: the parallel run did not finish within 20 s, every judged program ends when it runs alone"
		return nil
	}
	for i := range ended {
		if ended[i] {
			// a disturber is an endless loop: one that ends has failed (a mistake of its template)
			o.Excluded = fmt.Sprintf("harness: a disturber script ended by itself: %v", early[i])
			return nil
		}
	}
	for i := range c.Judged {
		d := parDiff(outs[i], got[i].val, got[i].err, got[i].trace)
		if d == "" {
			continue
		}
		// the same program once more, alone
		host := prog.NewHost()
		v, err := host.Exec(srcs[i])
		alone := parDiff(outs[i], v, err, host.Trace)
		var f *h.Fail
		if alone != "" {
			f = h.Failf("C08|branch-counting-program-alone", "program:\n%s\nrun alone: %s", srcs[i], alone)
		} else {
			f = h.Failf("C08|program-differs-while-other-scripts-run", "program (judged, run on a goroutine and in an environment of its own):\n%s\n%s\nrun once more alone it agrees with the model.\n%d other judged programs and %d disturber scripts were running at the same time; first disturber:\n%s", srcs[i], d, len(c.Judged)-1, len(c.Disturb), c.Disturb[0])
		}
		// every re-execution is a new race: shrinking would chase noise
		f.NoShrink = true
		return f
	}
	return nil
}
