package c08

import (
	"fmt"

	"pgregory.net/rapid"

	"verif/internal/h"
	"verif/internal/prog"
)

// Finding F-try-signal: break/continue/return leaving a try *body* directly are
// delivered to the catch block as errors. The three fixed reproductions live in
// replays/C08/; this sub-check only provides their oracle (expected = what the
// syntax says) so that the replay tier can print the KNOWN-FINDING line while the
// defect is still there, and stays silent if it is ever repaired.
type TrySignal struct {
	Name string `json:"name"`
	Src  string `json:"src"`
	Want string `json:"want"` // expected rendering of the result value
	Trace []string `json:"trace"`
}

func genTrySignal(t *rapid.T) TrySignal {
	return TrySignal{Name: "noop", Src: "1", Want: "i:1"}
}

func oracleTrySignal(c TrySignal, o *h.Obs) *h.Fail {
	host := prog.NewHost()
	v, err := host.Exec(c.Src)
	got := prog.RenderGo(v)
	if err != nil {
		got = "error: " + err.Error()
	}
	if got != c.Want || fmt.Sprint(host.Trace) != fmt.Sprint(c.Trace) {
		return h.Failf("C08|control-signal-crosses-try-body", "source:\n%s\nexpected value %s trace %v\nanko value %s trace %v", c.Src, c.Want, c.Trace, got, host.Trace)
	}
	return nil
}
