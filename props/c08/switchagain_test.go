// C08, sub-check switch_again (eighth round): ONE switch statement with overlapping case lists,
// executed several times by a loop inside one function invocation or inline (at top level: the
// top-level run). The statement: switch executes exactly the FIRST case equal to its subject - on
// every execution, whatever matched the time before. Generator: internal/prog/gen_switchagain.go
// (pattern of the control profile, flag SwAgain); oracle: the reference interpreter.
package c08

import (
	"strconv"
	"strings"

	"pgregory.net/rapid"

	"verif/internal/h"
	"verif/internal/prog"
)

var profileSwitchAgain = prog.Profile{Control: true, HostChan: true, CtlVals: true, SwAgain: true, MaxDepth: 4, MaxStmts: 2}

func genSwitchAgain(t *rapid.T) Case {
	p, f := prog.Generate(t, profileSwitchAgain)
	return Case{Prog: p, GenFeat: f}
}

func oracleSwitchAgain(c Case, o *h.Obs) *h.Fail {
	v := prog.Judge(c.Prog)
	o.Key = v.Src
	if v.Excluded != "" {
		o.Excluded = "unspecified: " + v.Excluded
		return nil
	}
	for k, n := range c.GenFeat {
		if n > 0 && strings.HasPrefix(k, "switch_again") {
			o.Class("gen_" + k)
		}
	}
	f := v.Out.Feat
	for k, n := range f {
		if n > 0 && strings.HasPrefix(k, "switch_") {
			o.Class(k)
		}
	}
	for _, k := range []string{"case_matched", "default_taken"} {
		if f[k] > 0 {
			o.Class(k)
		}
	}
	// non-trivial: some execution of a switch took a case that stands BEFORE the case the same
	// statement took the time before in the same invocation, although that later case lists a value
	// equal to the subject as well
	o.NonTrivial = f["switch_subject_equals_earlier_case_and_the_later_case_matched_before"] > 0
	if !v.OK {
		sig := "C08|" + v.Clause
		if m := probeInDetail.FindStringSubmatch(v.Detail); m != nil {
			id, _ := strconv.ParseInt(m[1], 10, 64)
			if prog.InSwitchAgain(c.Prog, id) {
				sig += "|switch-run-again-in-one-invocation"
			}
		}
		fl := h.Failf(sig, "program:\n%s\n%s", v.Src, v.Detail)
		fl.NoShrink = v.Clause == "no-termination"
		return fl
	}
	return nil
}
