package c03

import (
	"reflect"
	"strings"

	"github.com/mattn/anko/ast"
	"github.com/mattn/anko/env"
	"github.com/mattn/anko/parser"
	"pgregory.net/rapid"

	"verif/internal/ank"
	"verif/internal/h"
)

// ---------- sub-check 4: histories ----------
//
// The value of an expression is more than what one evaluation prints: `&a[0]` is a pointer TO
// THE ELEMENT, `aa[0][1:]` is a list sharing the storage of aa[0], `m.mm` is the map stored in
// m. Whether two spellings yield "the same value" shows for such values only in a history: the
// value is kept (variable, argument, result, element of a literal, or used in place as the target
// of an assignment), something is written through it, and the places it was made from are read
// back - or the places are written and the value is read. This sub-check generates expressions
// whose value is a pointer, a list or a map made from the places of a small fixed store, by a
// kind-directed grammar over the operators that imply parentheses around places (unary & and *
// over index/member/slice/call chains and over each other, postfix over postfix, ?: and ??
// between references), and runs the same history with the minimal and the fully parenthesised
// spelling of the expression.

// HistCase is one reference-valued expression with the history it is observed by.
type HistCase struct {
	T     *Node   `json:"t"`
	Kind  string  `json:"kind"` // what the value is by construction: P pointer, L list, M map (picks the write; a label otherwise)
	Site  int     `json:"site"` // how the value is kept, see histSites
	Dir   int     `json:"dir"`  // 0 write through the value, read the places; 1 write the places, read through the value; 2 both
	WIdx  int     `json:"widx"` // element written for a list value
	W     int64   `json:"w"`    // the value written through
	Style int     `json:"style"`
	Seed  uint32  `json:"seed"`
	Vals  []int64 `json:"vals"` // c, d (d is 0 or 1: used as an index)
}

// HS is the host struct of the store (reached through a pointer: its fields are places).
type HS struct {
	X int64
	I interface{}
	L []interface{}
	P *interface{}
}

// the store: every name is bound afresh for every execution
//
//	a   [1, 2, 3]                        aa  [[10, 11], [12, 13, 14]]
//	ti  []int64{20, 21, 22}              m   {x: 30, l: [31, 32], mm: {x: 33, y: 34}, p: &a[2]}
//	s   &HS{X: 40, I: 41, L: [42, 43], P: &a[2]}
//	p   &a[1]      q  &ti[0]             pa  [&a[0], &aa[0][1], &ti[1]]
//	f   identity   n  nil   c, d  integers   poke(x, w)  host function writing w through x
var histNames = []string{"a", "aa", "ti", "m", "s", "pa"}

func newHistEnv(v []int64) *env.Env {
	e := env.NewEnv()
	a := []interface{}{int64(1), int64(2), int64(3)}
	aa0 := []interface{}{int64(10), int64(11)}
	aa := []interface{}{aa0, []interface{}{int64(12), int64(13), int64(14)}}
	ti := []int64{20, 21, 22}
	m := map[string]interface{}{
		"x":  int64(30),
		"l":  []interface{}{int64(31), int64(32)},
		"mm": map[string]interface{}{"x": int64(33), "y": int64(34)},
		"p":  &a[2],
	}
	s := &HS{X: 40, I: int64(41), L: []interface{}{int64(42), int64(43)}, P: &a[2]}
	e.Define("a", a)
	e.Define("aa", aa)
	e.Define("ti", ti)
	e.Define("m", m)
	e.Define("s", s)
	e.Define("p", &a[1])
	e.Define("q", &ti[0])
	e.Define("pa", []interface{}{&a[0], &aa0[1], &ti[1]})
	e.Define("f", func(x interface{}) interface{} { return x })
	e.Define("n", nil)
	var c, d int64
	if len(v) > 0 {
		c = v[0]
	}
	if len(v) > 1 {
		d = v[1] & 1
	}
	e.Define("c", c)
	e.Define("d", d)
	e.Define("poke", func(x interface{}, w int64) (ok bool) {
		defer func() {
			if recover() != nil {
				ok = false
			}
		}()
		rv := reflect.ValueOf(x)
		switch rv.Kind() {
		case reflect.Ptr:
			el := rv.Elem()
			el.Set(reflect.ValueOf(w).Convert(el.Type()))
		case reflect.Slice:
			el := rv.Index(0)
			el.Set(reflect.ValueOf(w).Convert(el.Type()))
		case reflect.Map:
			rv.SetMapIndex(reflect.ValueOf("x").Convert(rv.Type().Key()), reflect.ValueOf(w).Convert(rv.Type().Elem()))
		default:
			return false
		}
		return true
	})
	return e
}

// histState renders the store (pointers are followed, no addresses).
func histState(e *env.Env) []string {
	out := make([]string, len(histNames))
	for i, name := range histNames {
		v, err := e.Get(name)
		if err != nil {
			out[i] = "unbound"
			continue
		}
		out[i] = ank.Describe(v)
	}
	return out
}

// ----- node constructors -----

func nIdx(b, i *Node) *Node             { return &Node{K: "idx", A: []*Node{b, i}} }
func nMem(b *Node, name string) *Node   { return &Node{K: "mem", S: name, A: []*Node{b}} }
func nUn(op string, x *Node) *Node      { return &Node{K: "un", Op: op, A: []*Node{x}} }
func nCall(fn string, x ...*Node) *Node { return &Node{K: "call", A: append([]*Node{id(fn)}, x...)} }
func nParen(x *Node) *Node              { return &Node{K: "paren", A: []*Node{x}} }
func nBin(op string, l, r *Node) *Node  { return &Node{K: "bin", Op: op, A: []*Node{l, r}} }
func nKw(s string) *Node                { return &Node{K: "kw", S: s} }

// genHIndex: an index that is in range for every list of the store (0 or 1), as a literal, the
// variable d, or an operator over them.
func genHIndex(t *rapid.T) *Node {
	switch uniform(t, 8, "hidx") {
	case 0, 1, 2:
		return lit(0)
	case 3, 4:
		return lit(1)
	case 5:
		return id("d")
	case 6:
		return nBin("-", lit(1), id("d"))
	default:
		return nBin("%", nBin("+", id("d"), lit(1)), lit(2))
	}
}

// genHCond: a condition (both outcomes).
func genHCond(t *rapid.T) *Node {
	switch uniform(t, 8, "hcond") {
	case 0, 1:
		return nKw("true")
	case 2, 3:
		return nKw("false")
	case 4:
		return nBin(">", id("c"), lit(2))
	case 5:
		return nBin("==", id("d"), lit(0))
	case 6:
		return nUn("!", id("n"))
	default:
		return nBin("&&", nBin("<", id("c"), lit(5)), nBin("!=", id("d"), lit(1)))
	}
}

// genHRef generates an expression of the given kind (P, L, M) of depth <= d.
func genHRef(t *rapid.T, kind string, d int) *Node {
	switch kind {
	case "P":
		return genHPtr(t, d)
	case "L":
		return genHList(t, d)
	default:
		return genHMap(t, d)
	}
}

// genHShared: the productions every kind has: f(E), c ? E : E, E ?? E, n ?? E, (E), *&E.
func genHShared(t *rapid.T, kind string, d, k int) *Node {
	switch k {
	case 0:
		return nCall("f", genHRef(t, kind, d-1))
	case 1:
		return &Node{K: "tern", A: []*Node{genHCond(t), genHRef(t, kind, d-1), genHRef(t, kind, d-1)}}
	case 2:
		l := id("n")
		if rapid.Bool().Draw(t, "nilcleft") {
			l = genHRef(t, kind, d-1)
		}
		return &Node{K: "nilc", A: []*Node{l, genHRef(t, kind, d-1)}}
	case 3:
		return nParen(genHRef(t, kind, d-1))
	default:
		return nUn("*", nUn("&", genHRef(t, kind, d-2)))
	}
}

// genHPlace: a place of the store or reached through a reference: element, member, field, *pointer,
// a variable, a call result. Its value is of any kind; only `&place` (a pointer) is made of it.
func genHPlace(t *rapid.T, d int) *Node {
	if d <= 1 {
		return id(rapid.SampledFrom([]string{"a", "c", "m", "p", "aa"}).Draw(t, "hplaceid"))
	}
	switch uniform(t, 16, "hplace") {
	case 0, 1, 2, 3:
		return nIdx(genHList(t, d-1), genHIndex(t)) // a[0], aa[1][0], a[1:][0], m.l[1], (c ? a : aa[0])[0]
	case 4:
		return nIdx(id("ti"), genHIndex(t)) // element of a typed slice
	case 5:
		return nIdx(id("aa"), genHIndex(t)) // a slot holding a list
	case 6:
		return nMem(genHMap(t, d-1), rapid.SampledFrom([]string{"x", "l", "mm"}).Draw(t, "hkey")) // map elements are no places: a copy in both spellings
	case 7:
		return nIdx(genHMap(t, d-1), strLeaf("x"))
	case 8, 9:
		return nMem(id("s"), rapid.SampledFrom([]string{"X", "I", "L", "P"}).Draw(t, "hfield"))
	case 10, 11, 12:
		return nUn("*", genHPtr(t, d-1)) // &*p
	case 13:
		return id(rapid.SampledFrom([]string{"a", "c", "m", "p"}).Draw(t, "hplaceid"))
	case 14:
		return nCall("f", genHPlace(t, d-1))
	default:
		return nParen(genHPlace(t, d-1))
	}
}

func genHPtr(t *rapid.T, d int) *Node {
	if d <= 1 {
		return id(rapid.SampledFrom([]string{"p", "p", "q"}).Draw(t, "hptrid"))
	}
	switch k := uniform(t, 16, "hptr"); {
	case k < 8 || (k >= 11 && d < 3):
		return nUn("&", genHPlace(t, d-1))
	case k == 8:
		return id(rapid.SampledFrom([]string{"p", "p", "q"}).Draw(t, "hptrid"))
	case k == 9:
		return nIdx(id("pa"), lit(int64(uniform(t, 3, "hpa"))))
	case k == 10:
		if rapid.Bool().Draw(t, "hmp") {
			return nMem(id("m"), "p")
		}
		return nMem(id("s"), "P")
	default:
		return genHShared(t, "P", d, k-11)
	}
}

func genHList(t *rapid.T, d int) *Node {
	if d <= 1 {
		return id("a")
	}
	switch k := uniform(t, 16, "hlist"); {
	case k < 3:
		return id("a")
	case k < 6:
		return nIdx(id("aa"), genHIndex(t))
	case k == 6:
		return nMem(id("m"), "l")
	case k == 7:
		return nMem(id("s"), "L")
	case k < 11:
		// slices share the storage of the list they are cut from
		n := &Node{K: "sl", A: []*Node{genHList(t, d-1), none, none, none}}
		switch uniform(t, 3, "hsl") {
		case 0:
			n.A[1] = genHIndex(t)
		case 1:
			n.A[2] = lit(2)
		default:
			n.A[1], n.A[2] = lit(0), lit(int64(1+uniform(t, 2, "hslend")))
		}
		return n
	default:
		return genHShared(t, "L", d, k-11)
	}
}

func genHMap(t *rapid.T, d int) *Node {
	if d <= 1 {
		return id("m")
	}
	switch k := uniform(t, 16, "hmap"); {
	case k < 4:
		return id("m")
	case k < 8:
		return nMem(genHMap(t, d-1), "mm")
	case k < 10:
		return nIdx(genHMap(t, d-1), strLeaf("mm"))
	default:
		return genHShared(t, "M", d, (k-10)%5)
	}
}

func genHist(t *rapid.T) HistCase {
	var c HistCase
	c.Kind = []string{"P", "P", "P", "P", "P", "L", "L", "M"}[uniform(t, 8, "hkind")]
	d := rapid.SampledFrom([]int{3, 3, 4, 4, 5, 5}).Draw(t, "hdepth")
	// the root is an operator
	for try := 0; ; try++ {
		c.T = genHRef(t, c.Kind, d)
		if isOp(c.T) || try == 3 {
			break
		}
	}
	c.Site = uniform(t, len(histSites), "hsite")
	c.Dir = []int{0, 0, 0, 1, 2}[uniform(t, 5, "hdir")]
	c.WIdx = uniform(t, 2, "hwidx")
	c.W = int64(70 + uniform(t, 10, "hw"))
	c.Style = rapid.IntRange(0, 2).Draw(t, "style")
	c.Seed = rapid.Uint32().Draw(t, "wsseed")
	c.Vals = []int64{rapid.Int64Range(-3, 9).Draw(t, "val"), int64(uniform(t, 2, "hd"))}
	return c
}

// histSite: how the value of the expression is kept until it is used.
//
//	bind  the statements that evaluate E (text) and keep its value
//	via   the expression text the kept value is reached by afterwards ("" = it is not kept:
//	      the write happens in the binding statement itself)
//	expr  the expression E (or, for lhs, the target built over it) in the parsed script
type histSite struct {
	name string
	bind func(e, write string) string
	via  string
	expr func(s []ast.Stmt) ast.Expr
	lhs  bool // E is written through in place: the target `*E`, `E[i]`, `E.x` is the generated tree
	host bool // E is handed to the host function poke, which writes through it
}

var histSites = []histSite{
	{name: "assign", via: "v", bind: func(e, w string) string { return "v = " + e },
		expr: func(s []ast.Stmt) ast.Expr { return s[0].(*ast.LetsStmt).RHSS[0] }},
	{name: "var", via: "v", bind: func(e, w string) string { return "var v = " + e },
		expr: func(s []ast.Stmt) ast.Expr { return s[0].(*ast.VarStmt).Exprs[0] }},
	{name: "multi-assign", via: "v", bind: func(e, w string) string { return "u, v = 0, " + e },
		expr: func(s []ast.Stmt) ast.Expr { return s[0].(*ast.LetsStmt).RHSS[1] }},
	{name: "script-func-arg", via: "v", bind: func(e, w string) string { return "v = func(v) {\n" + w + "\nreturn v\n}(" + e + ")" },
		expr: func(s []ast.Stmt) ast.Expr { return s[0].(*ast.LetsStmt).RHSS[0].(*ast.AnonCallExpr).SubExprs[0] }},
	{name: "script-func-result", via: "v", bind: func(e, w string) string { return "v = func() {\nreturn " + e + "\n}()" },
		expr: func(s []ast.Stmt) ast.Expr {
			return s[0].(*ast.LetsStmt).RHSS[0].(*ast.AnonCallExpr).Expr.(*ast.FuncExpr).Stmt.(*ast.StmtsStmt).Stmts[0].(*ast.ReturnStmt).Exprs[0]
		}},
	{name: "list-element", via: "x[1]", bind: func(e, w string) string { return "x = [0, " + e + "]" },
		expr: func(s []ast.Stmt) ast.Expr { return s[0].(*ast.LetsStmt).RHSS[0].(*ast.ArrayExpr).Exprs[1] }},
	{name: "map-value", via: "x.k", bind: func(e, w string) string { return "x = {\"k\": " + e + "}" },
		expr: func(s []ast.Stmt) ast.Expr { return s[0].(*ast.LetsStmt).RHSS[0].(*ast.MapExpr).Values[0] }},
	{name: "assignment-target", lhs: true, bind: func(e, w string) string { return e + " = " + w },
		expr: func(s []ast.Stmt) ast.Expr { return s[0].(*ast.LetsStmt).LHSS[0] }},
	{name: "host-func-arg", host: true, bind: func(e, w string) string { return "poke(" + e + ", " + w + ")" },
		expr: func(s []ast.Stmt) ast.Expr { return exprStmt(s[0]).(*ast.CallExpr).SubExprs[0] }},
	{name: "for-in-element", via: "v", bind: func(e, w string) string { return "v = nil\nfor y in [" + e + "] {\nv = y\n}" },
		expr: func(s []ast.Stmt) ast.Expr { return s[1].(*ast.ForStmt).Value.(*ast.ArrayExpr).Exprs[0] }},
}

// histWrite is the statement writing w through the value reached by the text via.
func histWrite(kind, via string, widx int, w string) string {
	switch kind {
	case "P":
		return "*" + via + " = " + w
	case "L":
		return via + "[" + string(rune('0'+widx&1)) + "] = " + w
	default:
		return via + ".x = " + w
	}
}

// histTarget is the assignment target built over E for the site assignment-target.
func histTarget(kind string, e *Node, widx int) *Node {
	switch kind {
	case "P":
		return nUn("*", e)
	case "L":
		return nIdx(e, lit(int64(widx&1)))
	default:
		return nMem(e, "x")
	}
}

// the places written directly in directions 1 and 2 (every place a generated value can share)
const histBattery = "a[0] = 90\na[1] = 91\na[2] = 92\naa[0][0] = 93\naa[0][1] = 94\naa[1][0] = 95\naa[1][1] = 96\nti[0] = 97\nti[1] = 98\nm.x = 99\nm.l[0] = 100\nm.mm.x = 101\ns.X = 102\ns.I = 103\ns.L[0] = 104"

func histRead(kind, via string) string {
	if kind == "P" {
		return "*" + via
	}
	return via
}

// histScript builds the whole history around the text of the expression (or target).
func histScript(c HistCase, site histSite, text string) string {
	w := lit(c.W)
	wtxt := (&printer{}).textOf(w)
	var b []string
	switch {
	case site.lhs, site.host:
		if c.Dir != 0 {
			b = append(b, histBattery)
		}
		b = append(b, site.bind(text, wtxt), "nil")
		return strings.Join(b, "\n")
	}
	inner := "nil"
	if c.Dir != 1 {
		inner = histWrite(c.Kind, "v", c.WIdx, wtxt)
	}
	b = append(b, site.bind(text, inner))
	if c.Dir != 1 && site.name != "script-func-arg" {
		b = append(b, histWrite(c.Kind, site.via, c.WIdx, wtxt))
	}
	if c.Dir != 0 {
		b = append(b, histBattery)
	}
	b = append(b, histRead(c.Kind, site.via))
	return strings.Join(b, "\n")
}

func (p *printer) textOf(n *Node) string {
	p.expr(n)
	return join(p.toks, 0, 0)
}

type histRun struct {
	err, hostPanic bool
	value          string
	state          []string
}

func histExec(vals []int64, src string) histRun {
	e := newHistEnv(vals)
	got, err := ank.Exec(e, src)
	r := histRun{state: histState(e)}
	if _, ok := ank.IsHostPanic(err); ok {
		r.hostPanic = true
		r.err = true
		return r
	}
	if err != nil {
		r.err = true
		return r
	}
	r.value = ank.Describe(got)
	return r
}

func histOracle(c HistCase, o *h.Obs) *h.Fail {
	if c.T == nil || c.Site < 0 || c.Site >= len(histSites) || (c.Kind != "P" && c.Kind != "L" && c.Kind != "M") {
		o.Excluded = "malformed_case"
		return nil
	}
	site := histSites[c.Site]
	tree := c.T
	if site.lhs {
		tree = histTarget(c.Kind, c.T, c.WIdx)
	}
	pm := &printer{}
	pm.expr(tree)
	pa := &printer{all: true}
	pa.expr(tree)
	if pm.forcedIn+pm.forcedNum+pm.forcedEmpty > 0 {
		o.Excluded = "shape_parenthesised_in_both_spellings" // never generated
		return nil
	}
	min := join(pm.toks, c.Style, c.Seed)
	all := join(pa.toks, c.Style, c.Seed^0x9e3779b9)
	srcMin, srcAll := histScript(c, site, min), histScript(c, site, all)
	o.Key = srcMin
	o.Note = strings.ReplaceAll(srcMin, "\n", "; ") + "   <=>   " + all

	want := canon(tree)
	wantDump := dump(want)
	o.Class("hist:site:" + site.name)
	o.Class("hist:kind:" + c.Kind)
	o.Class("hist:direction:%d", c.Dir)
	o.Class("hist:depth:%d", depth(tree))
	o.Class("hist:root:" + opName(tree))
	for _, p := range pm.pairs {
		o.Class("hist:pair:" + p)
	}
	if pm.omitted > 0 {
		o.Class("hist:minimal_omits_parenthesis")
	}
	walk(tree, func(n *Node) {
		if n.K == "un" && n.Op == "&" {
			x := n.A[0]
			o.Class("hist:addr-of:" + opName(x))
		}
		if n.K == "un" && n.Op == "*" && isOp(n.A[0]) {
			o.Class("hist:deref-of:" + opName(n.A[0]))
		}
	})

	// both spellings parse to the generated tree
	parse := func(which, src string) (*Node, *h.Fail) {
		st, err := parser.ParseSrc(src)
		if err != nil {
			return nil, h.Failf("C03|parse-error|"+which+"|history|"+normErr(err), "site %s\n%s spelling does not parse: %v\nsource:\n%s\ntree: %s", site.name, which, err, src, wantDump)
		}
		var e ast.Expr
		func() {
			defer func() { _ = recover() }()
			stmts := st.(*ast.StmtsStmt).Stmts
			if (site.lhs || site.host) && c.Dir != 0 {
				stmts = stmts[strings.Count(histBattery, "\n")+1:] // the binding statement follows the direct writes
			}
			e = site.expr(stmts)
		}()
		if e == nil {
			return nil, h.Failf("C03|statement-shape|"+which+"|history|"+site.name, "site %s: the statement has another shape than the template\nsource:\n%s\ntree: %s", site.name, src, wantDump)
		}
		return canon(conv(e)), nil
	}
	gotMin, f := parse("minimal", srcMin)
	if f != nil {
		return f
	}
	gotAll, f := parse("all-paren", srcAll)
	if f != nil {
		return f
	}
	dMin, dAll := dump(gotMin), dump(gotAll)
	if dMin != dAll {
		df, _ := firstDiff(gotAll, gotMin)
		return h.Failf("C03|tree|minimal-vs-all-paren|"+df, "site %s\nthe two spellings parse to different trees\nminimal:   %s\n  tree:    %s\nall-paren: %s\n  tree:    %s\nexpected:  %s", site.name, min, dMin, all, dAll, wantDump)
	}
	if dMin != wantDump {
		df, _ := firstDiff(want, gotMin)
		return h.Failf("C03|tree|parsed-vs-table|"+df, "site %s\nboth spellings parse to a tree that is not the one the table dictates\nminimal:   %s\nall-paren: %s\n  parsed:  %s\n  table:   %s", site.name, min, all, dMin, wantDump)
	}

	// the same history with both spellings
	rMin, rAll := histExec(c.Vals, srcMin), histExec(c.Vals, srcAll)
	initial := histState(newHistEnv(c.Vals))
	o.NonTrivial = pm.omitted > 0 && !rMin.err
	switch {
	case rMin.hostPanic || rAll.hostPanic:
		o.Class("hist:exec:host_panic_not_judged_here")
		return nil
	case rMin.err && rAll.err:
		o.Class("hist:exec:both_error")
	case !rMin.err && !rAll.err:
		o.Class("hist:exec:both_complete")
	}
	if c.Dir != 1 && !rMin.err {
		// did the write through the value reach a place of the store (shared) or a copy (private)?
		if strings.Join(rMin.state, "\n") != strings.Join(initial, "\n") {
			o.Class("hist:write-through-value:reached-the-store")
		} else {
			o.Class("hist:write-through-value:private-copy")
		}
	}
	if c.Dir == 1 && !rMin.err && site.via != "" {
		o.Class("hist:read-through-value:after-writing-the-store")
	}
	show := func(r histRun) string {
		var b strings.Builder
		if r.err {
			b.WriteString("  run-time error\n")
		} else {
			b.WriteString("  value read at the end: " + r.value + "\n")
		}
		for i, name := range histNames {
			b.WriteString("  " + name + " = " + r.state[i] + "\n")
		}
		return b.String()
	}
	report := func(sig, what string) *h.Fail {
		return h.Failf(sig, "%s\nsite %s, value kind %s, direction %d, c,d = %v\nminimal spelling:\n%s\n%sfully parenthesised spelling:\n%s\n%s", what, site.name, c.Kind, c.Dir, c.Vals, srcMin, show(rMin), srcAll, show(rAll))
	}
	if rMin.err != rAll.err {
		return report("C03|exec|history|error-presence", "the history fails at run time with one spelling of the expression and not with the other")
	}
	for i, name := range histNames {
		if rMin.state[i] != rAll.state[i] {
			return report("C03|exec|history|store-differs|value-kind-"+c.Kind, "after the same history the store differs between the two spellings of the expression (first at "+name+"): the spellings did not yield the same pointer / list / map")
		}
	}
	if rMin.value != rAll.value {
		return report("C03|exec|history|read-through-value-differs|value-kind-"+c.Kind, "the value read through the kept value at the end of the history differs between the two spellings")
	}
	return nil
}
