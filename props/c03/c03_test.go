package c03

import (
	"fmt"
	"math"
	"strings"
	"testing"

	"github.com/mattn/anko/ast"
	"github.com/mattn/anko/env"
	"github.com/mattn/anko/parser"
	"pgregory.net/rapid"

	"verif/internal/ank"
	"verif/internal/h"
)

// ---------- sub-check 1: trees ----------

// TreeCase is one generated expression tree with the statement position it is placed
// in, the whitespace style and the values bound to the identifiers for execution.
type TreeCase struct {
	T     *Node   `json:"t"`
	Pos   int     `json:"pos"`
	Style int     `json:"style"`
	Seed  uint32  `json:"seed"`
	Vals  []int64 `json:"vals"`
}

var (
	binOps   = []string{"+", "-", "|", "*", "/", "%", "<<", ">>", "&", "||", "&&", "==", "!=", "<", "<=", ">", ">=", "in"}
	unOps    = []string{"-", "!", "^", "&", "*"}
	idents   = []string{"a", "b", "c", "d", "f", "g", "m", "l"}
	members  = []string{"x", "y", "a"}
	strLeafs = []string{"", "s", "ab", "x y", "q\"", "é"}
)

func genLeaf(t *rapid.T, d int) *Node {
	k := rapid.IntRange(0, 99).Draw(t, "leaf")
	if d <= 1 && k >= 72 {
		k = k % 72
	}
	switch {
	case k < 42:
		return &Node{K: "id", S: rapid.SampledFrom(idents).Draw(t, "id")}
	case k < 56:
		return &Node{K: "int", I: rapid.Int64Range(0, 12).Draw(t, "int")}
	case k < 60:
		return &Node{K: "flt", FB: math.Float64bits(float64(rapid.IntRange(1, 40).Draw(t, "flt")) / 4)}
	case k < 67:
		return &Node{K: "str", S: rapid.SampledFrom(strLeafs).Draw(t, "str")}
	case k < 72:
		return &Node{K: "kw", S: rapid.SampledFrom([]string{"true", "false", "nil"}).Draw(t, "kw")}
	case k < 79:
		n := &Node{K: "list"}
		for i := rapid.IntRange(0, 2).Draw(t, "nlist"); i > 0; i-- {
			n.A = append(n.A, genExpr(t, d-1))
		}
		return n
	case k < 84:
		n := &Node{K: "map"}
		for i := rapid.IntRange(0, 2).Draw(t, "nmap"); i > 0; i-- {
			n.A = append(n.A, genExpr(t, d-1), genExpr(t, d-1))
		}
		return n
	case k < 88:
		return &Node{K: "fn", S: rapid.SampledFrom([]string{"", "a", "a,b"}).Draw(t, "params"), A: []*Node{genExpr(t, d-1)}}
	case k < 96:
		return &Node{K: "paren", A: []*Node{genExpr(t, d-1)}}
	default:
		return &Node{K: "len", A: []*Node{genExpr(t, d-1)}}
	}
}

// uniform draws 0..n-1 (n <= 64) almost uniformly: rapid's integer generators favour
// small values and the ends of the range, single bits are unbiased.
func uniform(t *rapid.T, n int, label string) int {
	x := 0
	for i := 0; i < 9; i++ {
		x <<= 1
		if rapid.Bool().Draw(t, label) {
			x |= 1
		}
	}
	return x % n
}

// genExpr generates a tree of depth <= d. Operators are drawn uniformly over the whole
// table (not per level) so that every (parent, child) cell is reachable equally.
func genExpr(t *rapid.T, d int) *Node {
	if d <= 1 || rapid.IntRange(0, 9).Draw(t, "stop") >= 7 {
		return genLeaf(t, d)
	}
	return genOp(t, d)
}

// genOp generates an operator node (d >= 2).
func genOp(t *rapid.T, d int) *Node {
	// 30 operator names: 2 ternary-level, 18 binary, 5 unary, 5 postfix
	k := uniform(t, 30, "op")
	switch {
	case k < 18:
		return &Node{K: "bin", Op: binOps[k], A: []*Node{genExpr(t, d-1), genExpr(t, d-1)}}
	case k < 23:
		return &Node{K: "un", Op: unOps[k-18], A: []*Node{genExpr(t, d-1)}}
	case k == 23:
		return &Node{K: "tern", A: []*Node{genExpr(t, d-1), genExpr(t, d-1), genExpr(t, d-1)}}
	case k == 24:
		return &Node{K: "nilc", A: []*Node{genExpr(t, d-1), genExpr(t, d-1)}}
	case k == 25:
		n := &Node{K: "call", A: []*Node{genExpr(t, d-1)}}
		for i := rapid.IntRange(0, 2).Draw(t, "nargs"); i > 0; i-- {
			n.A = append(n.A, genExpr(t, d-2))
		}
		return n
	case k == 26:
		return &Node{K: "idx", A: []*Node{genExpr(t, d-1), genExpr(t, d-2)}}
	case k == 27, k == 28:
		// the five slice forms of the grammar: [b:e] [b:] [:e] (k==27), [:e:c] [b:e:c] (k==28)
		n := &Node{K: "sl", A: []*Node{genExpr(t, d-1), none, none, none}}
		form := rapid.IntRange(0, 2).Draw(t, "slform")
		if k == 28 {
			form = 3 + form%2
		}
		if form == 0 || form == 1 || form == 4 {
			n.A[1] = genExpr(t, d-2)
		}
		if form != 1 {
			n.A[2] = genExpr(t, d-2)
		}
		if form >= 3 {
			n.A[3] = genExpr(t, d-2)
		}
		return n
	default:
		return &Node{K: "mem", S: rapid.SampledFrom(members).Draw(t, "member"), A: []*Node{genExpr(t, d-1)}}
	}
}

func genTree(t *rapid.T) TreeCase {
	d := rapid.SampledFrom([]int{2, 3, 3, 4, 4, 4, 5, 5, 5, 6, 6, 6}).Draw(t, "depth")
	c := TreeCase{T: genOp(t, d)}
	c.Pos = uniform(t, len(positions), "pos")
	c.Style = rapid.IntRange(0, 2).Draw(t, "style")
	c.Seed = rapid.Uint32().Draw(t, "wsseed")
	for i := 0; i < 4; i++ {
		c.Vals = append(c.Vals, rapid.Int64Range(-3, 9).Draw(t, "val"))
	}
	return c
}

// position is a statement position that accepts an expression.
type position struct {
	name    string
	build   func(e string) string
	extract func(s []ast.Stmt) ast.Expr // nil or panic = shape of the statement is not the expected one
	forIn   bool                        // `for E {`: an expression spelled `ident in ...` reads as the for-in statement
	block   bool                        // `for E {` / `for ;; E {`: an expression starting with `{` reads as the loop body
}

func exprStmt(s ast.Stmt) ast.Expr { return s.(*ast.ExprStmt).Expr }

var positions = []position{
	{name: "expr-stmt", build: func(e string) string { return e }, extract: func(s []ast.Stmt) ast.Expr { return exprStmt(s[0]) }},
	{name: "expr-stmt-second-line", build: func(e string) string { return "y = 1\n" + e + "\ny" }, extract: func(s []ast.Stmt) ast.Expr { return exprStmt(s[1]) }},
	{name: "expr-stmt-semicolon", build: func(e string) string { return "y; " + e + "; y" }, extract: func(s []ast.Stmt) ast.Expr { return exprStmt(s[1]) }},
	{name: "assign-rhs", build: func(e string) string { return "x = " + e }, extract: func(s []ast.Stmt) ast.Expr { return s[0].(*ast.LetsStmt).RHSS[0] }},
	{name: "multi-assign-rhs", build: func(e string) string { return "x, y = 0, " + e }, extract: func(s []ast.Stmt) ast.Expr { return s[0].(*ast.LetsStmt).RHSS[1] }},
	{name: "var-rhs", build: func(e string) string { return "var x = " + e }, extract: func(s []ast.Stmt) ast.Expr { return s[0].(*ast.VarStmt).Exprs[0] }},
	{name: "if-cond", build: func(e string) string { return "if " + e + " { y = 1 }" }, extract: func(s []ast.Stmt) ast.Expr { return s[0].(*ast.IfStmt).If }},
	{name: "else-if-cond", build: func(e string) string { return "if false { } else if " + e + " { y = 1 } else { }" }, extract: func(s []ast.Stmt) ast.Expr { return s[0].(*ast.IfStmt).ElseIf[0].(*ast.IfStmt).If }},
	{name: "for-cond", forIn: true, block: true, build: func(e string) string { return "for " + e + " { break }" }, extract: func(s []ast.Stmt) ast.Expr { return s[0].(*ast.LoopStmt).Expr }},
	{name: "cfor-cond", build: func(e string) string { return "for i = 0; " + e + "; i++ { break }" }, extract: func(s []ast.Stmt) ast.Expr { return s[0].(*ast.CForStmt).Expr2 }},
	{name: "cfor-post", block: true, build: func(e string) string { return "for ; ; " + e + " { break }" }, extract: func(s []ast.Stmt) ast.Expr { return s[0].(*ast.CForStmt).Expr3 }},
	{name: "for-in-value", build: func(e string) string { return "for v in " + e + " { break }" }, extract: func(s []ast.Stmt) ast.Expr { return s[0].(*ast.ForStmt).Value }},
	{name: "switch-subject", build: func(e string) string { return "switch " + e + " {\ncase 1:\n}" }, extract: func(s []ast.Stmt) ast.Expr { return s[0].(*ast.SwitchStmt).Expr }},
	{name: "switch-case", build: func(e string) string { return "switch 1 {\ncase " + e + ":\ny = 1\n}" }, extract: func(s []ast.Stmt) ast.Expr {
		return s[0].(*ast.SwitchStmt).Cases[0].(*ast.SwitchCaseStmt).Exprs[0]
	}},
	{name: "switch-case-second", build: func(e string) string { return "switch 1 {\ncase 0, " + e + ":\ny = 1\ndefault:\n}" }, extract: func(s []ast.Stmt) ast.Expr {
		return s[0].(*ast.SwitchStmt).Cases[0].(*ast.SwitchCaseStmt).Exprs[1]
	}},
	{name: "call-arg", build: func(e string) string { return "f(" + e + ")" }, extract: func(s []ast.Stmt) ast.Expr { return exprStmt(s[0]).(*ast.CallExpr).SubExprs[0] }},
	{name: "call-arg-second", build: func(e string) string { return "f(0, " + e + ", 1)" }, extract: func(s []ast.Stmt) ast.Expr { return exprStmt(s[0]).(*ast.CallExpr).SubExprs[1] }},
	{name: "index", build: func(e string) string { return "l[" + e + "]" }, extract: func(s []ast.Stmt) ast.Expr { return exprStmt(s[0]).(*ast.ItemExpr).Index }},
	{name: "index-lhs", build: func(e string) string { return "l[" + e + "] = 1" }, extract: func(s []ast.Stmt) ast.Expr { return s[0].(*ast.LetsStmt).LHSS[0].(*ast.ItemExpr).Index }},
	{name: "slice-begin", build: func(e string) string { return "l[" + e + ":2]" }, extract: func(s []ast.Stmt) ast.Expr { return exprStmt(s[0]).(*ast.SliceExpr).Begin }},
	{name: "slice-end", build: func(e string) string { return "l[1:" + e + "]" }, extract: func(s []ast.Stmt) ast.Expr { return exprStmt(s[0]).(*ast.SliceExpr).End }},
	{name: "return", build: func(e string) string { return "return " + e }, extract: func(s []ast.Stmt) ast.Expr { return s[0].(*ast.ReturnStmt).Exprs[0] }},
	{name: "return-second", build: func(e string) string { return "return 0, " + e }, extract: func(s []ast.Stmt) ast.Expr { return s[0].(*ast.ReturnStmt).Exprs[1] }},
	{name: "throw", build: func(e string) string { return "throw " + e }, extract: func(s []ast.Stmt) ast.Expr { return s[0].(*ast.ThrowStmt).Expr }},
	{name: "map-value", build: func(e string) string { return "x = {\"k\": " + e + "}" }, extract: func(s []ast.Stmt) ast.Expr { return s[0].(*ast.LetsStmt).RHSS[0].(*ast.MapExpr).Values[0] }},
	{name: "map-key", build: func(e string) string { return "x = {" + e + ": 1}" }, extract: func(s []ast.Stmt) ast.Expr { return s[0].(*ast.LetsStmt).RHSS[0].(*ast.MapExpr).Keys[0] }},
	{name: "list-element", build: func(e string) string { return "x = [0, " + e + "]" }, extract: func(s []ast.Stmt) ast.Expr { return s[0].(*ast.LetsStmt).RHSS[0].(*ast.ArrayExpr).Exprs[1] }},
	{name: "func-body-return", build: func(e string) string { return "func k(a) {\nreturn " + e + "\n}" }, extract: func(s []ast.Stmt) ast.Expr {
		return exprStmt(s[0]).(*ast.FuncExpr).Stmt.(*ast.StmtsStmt).Stmts[0].(*ast.ReturnStmt).Exprs[0]
	}},
	{name: "defer-arg", build: func(e string) string { return "defer f(" + e + ")" }, extract: func(s []ast.Stmt) ast.Expr { return s[0].(*ast.DeferStmt).Expr.(*ast.CallExpr).SubExprs[0] }},
	{name: "delete-key", build: func(e string) string { return "delete(m, " + e + ")" }, extract: func(s []ast.Stmt) ast.Expr { return s[0].(*ast.DeleteStmt).Key }},
	{name: "len-arg", build: func(e string) string { return "x = len(" + e + ")" }, extract: func(s []ast.Stmt) ast.Expr { return s[0].(*ast.LetsStmt).RHSS[0].(*ast.LenExpr).Expr }},
}

// parseAt parses the statement text and extracts the expression at the position.
// shapeErr is set when the statement parsed into something else than the template.
func parseAt(p position, src string) (e ast.Expr, perr error, shapeErr string) {
	st, err := parser.ParseSrc(src)
	if err != nil {
		return nil, err, ""
	}
	ss, ok := st.(*ast.StmtsStmt)
	if !ok {
		return nil, nil, fmt.Sprintf("top is %T", st)
	}
	defer func() {
		if r := recover(); r != nil {
			e = nil
			shapeErr = "statement has another shape than the template"
		}
	}()
	e = p.extract(ss.Stmts)
	if e == nil {
		shapeErr = "no expression at the position"
	}
	return
}

func normErr(err error) string {
	s := err.Error()
	if len(s) > 60 {
		s = s[:60]
	}
	return s
}

func newTreeEnv(v []int64) *env.Env {
	e := env.NewEnv()
	for i, name := range []string{"a", "b", "c", "d"} {
		var x int64
		if i < len(v) {
			x = v[i]
		}
		e.Define(name, x)
	}
	e.Define("f", func(args ...interface{}) interface{} {
		if len(args) > 0 {
			return args[0]
		}
		return int64(7)
	})
	e.Define("g", func(args ...interface{}) interface{} { return int64(len(args)) })
	e.Define("m", map[string]interface{}{"x": int64(2), "y": int64(5), "a": int64(-1)})
	e.Define("l", []interface{}{int64(3), int64(1), int64(4), int64(1), int64(5)})
	return e
}

func execDesc(v []int64, src string) (string, bool, bool) {
	got, err := ank.Exec(newTreeEnv(v), src)
	if _, ok := ank.IsHostPanic(err); ok {
		return "", true, true
	}
	if err != nil {
		return "", true, false
	}
	return ank.Describe(got), false, false
}

func treeOracle(c TreeCase, o *h.Obs) *h.Fail {
	if c.T == nil || c.Pos < 0 || c.Pos >= len(positions) {
		o.Excluded = "malformed_case"
		return nil
	}
	pos := positions[c.Pos]
	pm := &printer{}
	pm.expr(c.T)
	pa := &printer{all: true}
	pa.expr(c.T)
	min := join(pm.toks, c.Style, c.Seed)
	all := join(pa.toks, c.Style, c.Seed^0x9e3779b9)

	// `for E {`: an expression spelled `ident in ...` is the for-in statement and one
	// starting with `{` is the block of the endless loop; both readings are the
	// language's, not the table's: parenthesised in both spellings.
	condWrapped := false
	if pos.forIn || pos.block {
		amb := func(t []tok) bool {
			return len(t) > 0 && ((pos.block && t[0].s == "{") || (pos.forIn && len(t) > 1 && t[0].word && t[1].s == "in"))
		}
		if amb(pm.toks) || amb(pa.toks) {
			min, all = "("+min+")", "("+all+")"
			condWrapped = true
		}
	}
	srcMin, srcAll := pos.build(min), pos.build(all)
	o.Key = srcMin
	o.Note = srcMin + "   <=>   " + all

	// classes
	want := canon(c.T)
	wantDump := dump(want)
	d := depth(c.T)
	o.NonTrivial = d >= 3 && pm.omitted > 0
	o.Class("pos:" + pos.name)
	o.Class("depth:%d", d)
	o.Class("style:%d", c.Style)
	for _, p := range pm.pairs {
		o.Class("pair:" + p)
	}
	if pm.omitted > 0 {
		o.Class("minimal_omits_parenthesis")
	}
	if min == all {
		o.Class("spellings_identical")
	}
	if pm.forcedIn > 0 {
		o.Class("in_under_in_parenthesised")
	}
	if pm.forcedNum > 0 {
		o.Class("number_before_postfix_parenthesised")
	}
	if pm.forcedEmpty > 0 {
		o.Class("empty_list_before_index_parenthesised")
	}
	if condWrapped {
		o.Class("for_cond_ambiguity_parenthesised")
	}
	kinds := map[string]bool{}
	walk(c.T, func(n *Node) { kinds[n.K] = true })
	for _, k := range []string{"tern", "nilc", "un", "call", "idx", "sl", "mem", "list", "map", "fn", "paren", "len", "str", "flt"} {
		if kinds[k] {
			o.Class("has:" + k)
		}
	}

	// parse both spellings at the position
	eMin, err, shape := parseAt(pos, srcMin)
	if err != nil {
		return h.Failf("C03|parse-error|minimal|"+normErr(err), "position %s\nminimal spelling does not parse: %v\nsource:\n%s\ntree: %s", pos.name, err, srcMin, wantDump)
	}
	if shape != "" {
		return h.Failf("C03|statement-shape|minimal|"+pos.name, "position %s: %s\nsource:\n%s\ntree: %s", pos.name, shape, srcMin, wantDump)
	}
	eAll, err, shape := parseAt(pos, srcAll)
	if err != nil {
		return h.Failf("C03|parse-error|all-paren|"+normErr(err), "position %s\nfully parenthesised spelling does not parse: %v\nsource:\n%s\ntree: %s", pos.name, err, srcAll, wantDump)
	}
	if shape != "" {
		return h.Failf("C03|statement-shape|all-paren|"+pos.name, "position %s: %s\nsource:\n%s\ntree: %s", pos.name, shape, srcAll, wantDump)
	}
	gotMin, gotAll := canon(conv(eMin)), canon(conv(eAll))
	dMin, dAll := dump(gotMin), dump(gotAll)
	if dMin != dAll {
		df, _ := firstDiff(gotAll, gotMin)
		return h.Failf("C03|tree|minimal-vs-all-paren|"+df, "position %s\nthe two spellings parse to different trees\nminimal:   %s\n  tree:    %s\nall-paren: %s\n  tree:    %s\nexpected:  %s", pos.name, srcMin, dMin, srcAll, dAll, wantDump)
	}
	if dMin != wantDump {
		df, _ := firstDiff(want, gotMin)
		return h.Failf("C03|tree|parsed-vs-table|"+df, "position %s\nboth spellings parse to a tree that is not the one the table dictates\nminimal:   %s\nall-paren: %s\n  parsed:  %s\n  table:   %s", pos.name, srcMin, srcAll, dMin, wantDump)
	}

	// execute both spellings as plain expressions
	hasStr, hasMul := kinds["str"], false
	walk(c.T, func(n *Node) {
		if n.K == "bin" && n.Op == "*" {
			hasMul = true
		}
	})
	if hasStr && hasMul {
		o.Class("exec:skipped_string_repeat_guard")
		return nil
	}
	vMin, eM, pM := execDesc(c.Vals, min)
	vAll, eA, pA := execDesc(c.Vals, all)
	switch {
	case pM || pA:
		o.Class("exec:host_panic_not_judged_here")
	case eM && eA:
		o.Class("exec:both_error")
	case !eM && !eA:
		o.Class("exec:both_value")
	}
	if eM != eA {
		return h.Failf("C03|exec|error-presence", "one spelling fails at run time, the other does not\nminimal:   %s  -> error=%v %s\nall-paren: %s  -> error=%v %s\nvals a,b,c,d = %v", min, eM, vMin, all, eA, vAll, c.Vals)
	}
	if vMin != vAll {
		return h.Failf("C03|exec|value", "the two spellings evaluate differently\nminimal:   %s  -> %s\nall-paren: %s  -> %s\nvals a,b,c,d = %v", min, vMin, all, vAll, c.Vals)
	}
	return nil
}

func TestC03(t *testing.T) {
	c := h.New(t, "C03")
	defer c.Finish()
	c.Rule("trees: expression trees of depth<=6, operators drawn uniformly from the stated table (?: ?? || && six comparisons + - | * / % << >> & in, unary - ! ^ & *, call/index/2- and 3-index slice/member), leaves identifier/int/float/string/true/false/nil/list/map/function literal/len()/parenthesised subtree; printed with minimal parentheses by the stated table and with all parentheses, three whitespace styles, in one of " + fmt.Sprint(len(positions)) + " statement positions; both must parse to the generated tree (ParenExpr, positions ignored; -NUMBER folded; f(x)==(f)(x)) and evaluate alike; `in` under `in`, numbers before postfix, `[]` before index and the for-in/for-block ambiguity are parenthesised in both spellings; non-trivial = depth>=3 and the minimal spelling omits a parenthesis between two operators of different levels; distinct by statement text")
	c.Rule("literals: int64 as decimal (leading zeros)/0x/0X mixed case/0b/0B with optional '-', out-of-range magnitudes must be rejected; float64 via strconv e/f/g with E, e+, trailing dot, extra zeros, overflow spellings must be rejected (underflow excluded); strings of valid runes in \"...\", '...', `...` with the escape set \\\\ \\\" \\' \\n \\t \\r \\b \\f and \\<other>; oracle: vm.Execute returns exactly the generated Go value; non-trivial = value outside {0,1,\"\"}; distinct by source text")
	h.Run(c, "trees", c.N(40000, 300000), genTree, treeOracle)
	// make the empty cells of the (parent, child, side) table visible
	for _, p := range allOps {
		for _, s := range sidesOf(p) {
			for _, ch := range allOps {
				c.AddClass("pair:"+p+">"+ch+":"+s, 0)
			}
		}
	}
	h.Run(c, "literals", c.N(40000, 300000), genLit, litOracle)
}

var _ = strings.Join
