package c03

import (
	"fmt"
	"math"
	"math/big"
	"strconv"
	"strings"
	"unicode/utf8"

	"github.com/mattn/anko/env"
	"github.com/mattn/anko/parser"
	"pgregory.net/rapid"

	"verif/internal/ank"
	"verif/internal/h"
	"verif/internal/vals"
)

// ---------- sub-check 2: literals ----------

// LitCase is one literal spelling with the Go value it denotes.
//
//	kind int / flt: Lit is the spelling, I / FB the value
//	kind int-reject / flt-reject: Lit is a spelling of a magnitude outside int64 / float64
//	kind str: S is the value, Quote the style (" ' `), Enc one byte per rune of S:
//	          'r' raw, 'n' named escape (\n \t \r \b \f), 's' backslash + the rune itself
type LitCase struct {
	Kind  string `json:"kind"`
	Form  string `json:"form"`
	Lit   string `json:"lit,omitempty"`
	I     int64  `json:"i,omitempty"`
	FB    uint64 `json:"fb,omitempty"`
	S     string `json:"s,omitempty"`
	Quote string `json:"quote,omitempty"`
	Enc   string `json:"enc,omitempty"`
	Ctx   int    `json:"ctx"`
}

// contexts a literal is evaluated in; each returns the literal's value.
var litCtx = []struct {
	name  string
	build func(l string) string
}{
	{"bare", func(l string) string { return l }},
	{"variable", func(l string) string { return "x = " + l + "\nx" }},
	{"paren", func(l string) string { return "(" + l + ")" }},
	{"list-element", func(l string) string { return "[" + l + "][0]" }},
	{"map-value", func(l string) string { return "x = {\"k\": " + l + "}\nx[\"k\"]" }},
	{"func-return", func(l string) string { return "func() { return " + l + " }()" }},
	{"go-func-arg", func(l string) string { return "id(" + l + ")" }},
}

func zeros(t *rapid.T, label string) string {
	switch rapid.IntRange(0, 7).Draw(t, label) {
	case 0:
		return "0"
	case 1:
		return "00"
	case 2:
		return strings.Repeat("0", rapid.IntRange(3, 24).Draw(t, label+"n"))
	}
	return ""
}

func signPrefix(t *rapid.T) string {
	return "-" + rapid.SampledFrom([]string{"", "", "", " ", "\t", "  "}).Draw(t, "signws")
}

func mixCase(t *rapid.T, s string) string {
	mode := rapid.IntRange(0, 2).Draw(t, "hexcase") // lower, upper, mixed
	b := []byte(s)
	for i, ch := range b {
		if ch >= 'a' && ch <= 'f' {
			if mode == 1 || (mode == 2 && rapid.Bool().Draw(t, "up")) {
				b[i] = ch - 'a' + 'A'
			}
		}
	}
	return string(b)
}

// spellMag spells a magnitude in the drawn base; returns spelling and form label.
func spellMag(t *rapid.T, mag *big.Int) (string, string) {
	switch rapid.IntRange(0, 5).Draw(t, "base") {
	case 0, 1:
		return zeros(t, "lz") + mag.Text(10), "dec"
	case 2:
		return "0x" + zeros(t, "lz") + mixCase(t, mag.Text(16)), "hex-0x"
	case 3:
		return "0X" + zeros(t, "lz") + mixCase(t, mag.Text(16)), "hex-0X"
	case 4:
		return "0b" + zeros(t, "lz") + mag.Text(2), "bin-0b"
	default:
		return "0B" + zeros(t, "lz") + mag.Text(2), "bin-0B"
	}
}

var two63 = new(big.Int).Lsh(big.NewInt(1), 63)
var two64 = new(big.Int).Lsh(big.NewInt(1), 64)

func genInt(t *rapid.T) LitCase {
	v := vals.Int().Draw(t, "v")
	mag := new(big.Int).Abs(big.NewInt(v))
	lit, form := spellMag(t, mag)
	neg := v < 0 || (v == 0 && rapid.IntRange(0, 3).Draw(t, "negzero") == 0)
	if neg {
		lit = signPrefix(t) + lit
		form += "-neg"
	}
	return LitCase{Kind: "int", Form: form, Lit: lit, I: v}
}

func genIntReject(t *rapid.T) LitCase {
	neg := rapid.Bool().Draw(t, "neg")
	var mag *big.Int
	small := big.NewInt(rapid.Int64Range(0, 20).Draw(t, "k"))
	switch rapid.IntRange(0, 4).Draw(t, "mag") {
	case 0, 1: // just outside: 2^63 (+k) positive, 2^63+1 (+k) negative
		mag = new(big.Int).Add(two63, small)
		if neg {
			mag.Add(mag, big.NewInt(1))
		}
	case 2: // 2^64 - 1 - k .. 2^64 + k
		mag = new(big.Int).Add(two64, big.NewInt(rapid.Int64Range(-20, 20).Draw(t, "d")))
	case 3: // 70 digits
		ds := rapid.StringOfN(rapid.RuneFrom([]rune("0123456789")), 69, 69, -1).Draw(t, "digits")
		mag, _ = new(big.Int).SetString(rapid.SampledFrom([]string{"1", "5", "9"}).Draw(t, "lead")+ds, 10)
	default: // anything between 2^63 and 2^80
		x := new(big.Int).SetUint64(rapid.Uint64().Draw(t, "x"))
		x.Lsh(x, uint(rapid.IntRange(0, 16).Draw(t, "sh")))
		mag = x.Add(x, two63)
		if neg {
			mag.Add(mag, big.NewInt(1))
		}
	}
	lit, form := spellMag(t, mag)
	if neg {
		lit = signPrefix(t) + lit
		form += "-neg"
	}
	return LitCase{Kind: "int-reject", Form: form, Lit: lit}
}

// floatVariant rewrites a strconv spelling of a non-negative finite float into an
// equivalent one (same exact decimal value) that the number scanner tokenises as one
// NUMBER: digits, '.', e|E, optional sign after the exponent letter.
func floatVariant(t *rapid.T, s string) (string, []string) {
	var tags []string
	mant, exp, hasExp := s, "", false
	if i := strings.IndexByte(s, 'e'); i >= 0 {
		mant, exp, hasExp = s[:i], s[i+1:], true
	}
	if strings.Contains(mant, ".") {
		if z := rapid.IntRange(0, 5).Draw(t, "tz"); z < 3 && z > 0 {
			mant += strings.Repeat("0", z)
			tags = append(tags, "trailing-zeros")
		}
	} else {
		k := rapid.IntRange(0, 3).Draw(t, "dot")
		if !hasExp && k == 0 {
			k = 1 + rapid.IntRange(0, 1).Draw(t, "dot2")
		}
		switch k {
		case 1:
			mant += "."
			tags = append(tags, "trailing-dot")
		case 2:
			mant += ".0"
		case 3:
			if hasExp {
				mant += ".000"
			} else {
				mant += "."
				hasExp, exp = true, "0"
				tags = append(tags, "trailing-dot", "added-exponent")
			}
		}
	}
	if lz := zeros(t, "mlz"); lz != "" {
		mant = lz + mant
		tags = append(tags, "leading-zeros")
	}
	if !hasExp && rapid.IntRange(0, 5).Draw(t, "addexp") == 0 {
		hasExp, exp = true, rapid.SampledFrom([]string{"0", "+0", "-0", "00"}).Draw(t, "exp0")
		tags = append(tags, "added-exponent")
	}
	if !hasExp {
		return mant, tags
	}
	sign, digits := "", exp
	if exp[0] == '+' || exp[0] == '-' {
		sign, digits = exp[:1], exp[1:]
	}
	digits = strings.TrimLeft(digits, "0")
	if digits == "" {
		digits = "0"
	}
	digits = rapid.SampledFrom([]string{"", "", "0", "00"}).Draw(t, "elz") + digits
	if sign != "-" {
		sign = rapid.SampledFrom([]string{"", "+"}).Draw(t, "esign")
		if sign == "+" {
			tags = append(tags, "e+")
		}
	} else {
		tags = append(tags, "e-")
	}
	letter := rapid.SampledFrom([]string{"e", "E"}).Draw(t, "eE")
	if letter == "E" {
		tags = append(tags, "E")
	}
	return mant + letter + sign + digits, tags
}

func genFloat(t *rapid.T) LitCase {
	f := vals.Float().Draw(t, "f")
	if math.IsInf(f, 0) || math.IsNaN(f) {
		f = math.Copysign(math.MaxFloat64, f)
	}
	fc := rapid.SampledFrom([]byte{'e', 'f', 'g'}).Draw(t, "fmt")
	s, tags := floatVariant(t, strconv.FormatFloat(math.Abs(f), fc, -1, 64))
	form := "fmt-" + string(fc)
	if math.Signbit(f) {
		s = signPrefix(t) + s
		form += "-neg"
	}
	return LitCase{Kind: "flt", Form: form + "|" + strings.Join(tags, ","), Lit: s, FB: math.Float64bits(f)}
}

func genFloatReject(t *rapid.T) LitCase {
	var s string
	digits := func(n int, label string) string {
		return rapid.StringOfN(rapid.RuneFrom([]rune("0123456789")), n, n, -1).Draw(t, label)
	}
	form := ""
	switch rapid.IntRange(0, 3).Draw(t, "how") {
	case 0: // mantissa in [1,10) with exponent >= 309
		form = "exp>=309"
		s = rapid.SampledFrom([]string{"1", "2", "9", "1.", "1.0", "9.99", "1.5"}).Draw(t, "m") + "e" +
			rapid.SampledFrom([]string{"", "+"}).Draw(t, "s") + strconv.Itoa(rapid.SampledFrom([]int{309, 310, 400, 1000, 99999, 2147483647}).Draw(t, "e"))
	case 1: // just above MaxFloat64 = 1.7976931348623157e308 (rounding boundary ...158e308)
		form = "just-above-max"
		s = rapid.SampledFrom([]string{"1.7976931348623159", "1.797693134862316", "1.8", "2", "2.", "17976931348623159", "1.7976931348623158079372897140531"}).Draw(t, "m")
		e := 308
		if !strings.Contains(s, ".") && len(s) > 2 {
			e = 308 - (len(s) - 1)
		}
		s += rapid.SampledFrom([]string{"e", "E", "e+"}).Draw(t, "el") + strconv.Itoa(e)
	case 2: // long digit string with a dot: >= 10^309
		form = "310+digits"
		s = rapid.SampledFrom([]string{"1", "7", "9"}).Draw(t, "lead") + digits(rapid.IntRange(309, 400).Draw(t, "n"), "ds") +
			rapid.SampledFrom([]string{".", ".0", ".5", "e0"}).Draw(t, "tail")
	default: // 2^1024 exactly, in f form
		form = "2^1024"
		s = new(big.Int).Lsh(big.NewInt(1), 1024).Text(10) + rapid.SampledFrom([]string{".", ".0", "e0", "E+0"}).Draw(t, "tail")
	}
	if rapid.Bool().Draw(t, "neg") {
		s = signPrefix(t) + s
		form += "-neg"
	}
	return LitCase{Kind: "flt-reject", Form: form, Lit: s}
}

var named = map[rune]byte{'\n': 'n', '\t': 't', '\r': 'r', '\b': 'b', '\f': 'f'}

// encodings lists the admissible encodings of rune r inside quote q.
func encodings(r rune, q byte) []byte {
	if q == '`' {
		return []byte{'r'}
	}
	var out []byte
	if r != rune(q) && r != '\\' && r != '\n' {
		out = append(out, 'r')
	}
	if _, ok := named[r]; ok {
		out = append(out, 'n')
	}
	// backslash + other character = the other character itself (not for the letters of
	// the named escapes, and no raw newline inside a quoted literal)
	if r != 'b' && r != 'f' && r != 'r' && r != 'n' && r != 't' && r != '\n' {
		out = append(out, 's')
	}
	return out
}

var specialRunes = []rune("abfnrtvx0u\\\\\"\"''`  \t\r\b\f\n\n\x00/#*{}$%é日\U0001F600� ")

func genStr(t *rapid.T) LitCase {
	n := rapid.IntRange(0, 12).Draw(t, "len")
	rs := make([]rune, 0, n)
	for i := 0; i < n; i++ {
		var r rune
		if rapid.IntRange(0, 3).Draw(t, "rk") < 3 {
			r = rapid.SampledFrom(specialRunes).Draw(t, "special")
		} else {
			r = rapid.Rune().Draw(t, "rune")
			if !utf8.ValidRune(r) {
				r = '?'
			}
		}
		rs = append(rs, r)
	}
	s := string(rs)
	qs := []byte{'"', '"', '\'', '\'', '`'}
	if strings.ContainsRune(s, '`') {
		qs = qs[:4]
	}
	q := rapid.SampledFrom(qs).Draw(t, "quote")
	enc := make([]byte, 0, n)
	for _, r := range rs {
		opts := encodings(r, q)
		// prefer escapes over raw half of the time so that escapes are dense
		e := rapid.SampledFrom(opts).Draw(t, "enc")
		if e == 'r' && len(opts) > 1 && rapid.Bool().Draw(t, "escape") {
			e = opts[len(opts)-1]
		}
		enc = append(enc, e)
	}
	form := map[byte]string{'"': "dq", '\'': "sq", '`': "raw"}[q]
	return LitCase{Kind: "str", Form: form, S: s, Quote: string(q), Enc: string(enc)}
}

// spellStr builds the literal of a str case; fix reports per rune the encoding used.
func spellStr(c LitCase) (lit string, used []byte, ok bool) {
	if len(c.Quote) != 1 || !utf8.ValidString(c.S) {
		return "", nil, false
	}
	q := c.Quote[0]
	if q != '"' && q != '\'' && q != '`' {
		return "", nil, false
	}
	if q == '`' && strings.ContainsRune(c.S, '`') {
		return "", nil, false
	}
	var b strings.Builder
	b.WriteByte(q)
	i := 0
	for _, r := range c.S {
		opts := encodings(r, q)
		e := opts[0]
		if i < len(c.Enc) && strings.IndexByte(string(opts), c.Enc[i]) >= 0 {
			e = c.Enc[i]
		}
		switch e {
		case 'r':
			b.WriteRune(r)
		case 'n':
			b.WriteByte('\\')
			b.WriteByte(named[r])
		case 's':
			b.WriteByte('\\')
			b.WriteRune(r)
		}
		used = append(used, e)
		i++
	}
	b.WriteByte(q)
	return b.String(), used, true
}

func genLit(t *rapid.T) LitCase {
	var c LitCase
	switch k := uniform(t, 20, "kind"); {
	case k < 6:
		c = genInt(t)
	case k < 8:
		c = genIntReject(t)
	case k < 13:
		c = genFloat(t)
	case k < 15:
		c = genFloatReject(t)
	default:
		c = genStr(t)
	}
	c.Ctx = uniform(t, len(litCtx), "ctx")
	return c
}

func litEnv() *env.Env {
	e := env.NewEnv()
	e.Define("id", func(x interface{}) interface{} { return x })
	return e
}

func litOracle(c LitCase, o *h.Obs) *h.Fail {
	if c.Ctx < 0 || c.Ctx >= len(litCtx) {
		o.Excluded = "malformed_case"
		return nil
	}
	lit := c.Lit
	var used []byte
	if c.Kind == "str" {
		var ok bool
		if lit, used, ok = spellStr(c); !ok {
			o.Excluded = "malformed_case"
			return nil
		}
	}
	ctx := litCtx[c.Ctx]
	src := ctx.build(lit)
	o.Key = src
	o.Class("lit:" + c.Kind)
	o.Class("lit-ctx:" + ctx.name)
	form := c.Form
	tags := ""
	if i := strings.IndexByte(form, '|'); i >= 0 {
		form, tags = form[:i], form[i+1:]
	}
	o.Class("lit:" + c.Kind + ":" + form)
	for _, tg := range strings.Split(tags, ",") {
		if tg != "" {
			o.Class("lit:flt:" + tg)
		}
	}
	sig := "C03|literal|" + c.Kind + "|" + form + "|"

	switch c.Kind {
	case "int-reject", "flt-reject":
		o.NonTrivial = true
		_, perr := parser.ParseSrc(src)
		got, err := ank.Exec(litEnv(), src)
		if perr == nil {
			return h.Failf(sig+"not-rejected", "a spelling outside the representable range is accepted by ParseSrc\nsource: %s\nExecute: value=%s err=%v", src, ank.Describe(got), err)
		}
		if err == nil {
			return h.Failf(sig+"executed", "ParseSrc rejects (%v) but Execute returns %s\nsource: %s", perr, ank.Describe(got), src)
		}
		return nil
	}

	got, err := ank.Exec(litEnv(), src)
	var want string
	ok := false
	switch c.Kind {
	case "int":
		o.NonTrivial = c.I != 0 && c.I != 1
		switch {
		case c.I == math.MinInt64:
			o.Class("lit:int:MinInt64:" + form)
		case c.I == math.MaxInt64:
			o.Class("lit:int:MaxInt64")
		}
		want = fmt.Sprintf("int64(%d)", c.I)
		g, is := got.(int64)
		ok = err == nil && is && g == c.I
	case "flt":
		f := math.Float64frombits(c.FB)
		o.NonTrivial = f != 0 && f != 1
		switch {
		case f == 0 && math.Signbit(f):
			o.Class("lit:flt:negative-zero")
		case math.Abs(f) == math.MaxFloat64:
			o.Class("lit:flt:MaxFloat64")
		case f != 0 && math.Abs(f) < 2.2250738585072014e-308:
			o.Class("lit:flt:denormal")
		}
		want = fmt.Sprintf("float64(%v|%x)", f, c.FB)
		g, is := got.(float64)
		ok = err == nil && is && math.Float64bits(g) == c.FB
	case "str":
		o.NonTrivial = c.S != ""
		for _, e := range used {
			o.Class("lit:str:enc:" + map[byte]string{'r': "raw", 'n': "named", 's': "backslash-self"}[e])
		}
		if strings.ContainsRune(c.S, '\n') {
			o.Class("lit:str:has-newline")
		}
		if len(c.S) != len([]rune(c.S)) {
			o.Class("lit:str:multibyte")
		}
		want = fmt.Sprintf("string(%q)", c.S)
		g, is := got.(string)
		ok = err == nil && is && g == c.S
		if !ok && err == nil && is {
			// name the encoding at the first differing rune
			wr, gr := []rune(c.S), []rune(g)
			k := 0
			for k < len(wr) && k < len(gr) && wr[k] == gr[k] {
				k++
			}
			at := "length"
			if k < len(wr) && k < len(used) {
				at = map[byte]string{'r': "raw", 'n': "named", 's': "backslash-self"}[used[k]]
				if used[k] == 'n' {
					at += "-" + string(named[wr[k]])
				}
			}
			return h.Failf(sig+"wrong-value|"+at, "source: %s\nwritten: %s\nanko:    %s", src, want, ank.Describe(got))
		}
	default:
		o.Excluded = "malformed_case"
		return nil
	}
	if ok {
		return nil
	}
	if hp, is := ank.IsHostPanic(err); is {
		return h.Failf(sig+"host-panic", "source: %s\nescaped panic: %v", src, hp.Value)
	}
	if err != nil {
		return h.Failf(sig+"unexpected-error", "a representable literal is rejected\nsource: %s\nwritten: %s\nerror: %v", src, want, err)
	}
	return h.Failf(sig+"wrong-value", "source: %s\nwritten: %s\nanko:    %s", src, want, ank.Describe(got))
}
