package c03

import (
	"fmt"
	"math"
	"regexp"
	"strconv"
	"strings"
	"testing"

	"github.com/mattn/anko/env"
	"pgregory.net/rapid"

	"verif/internal/ank"
	"verif/internal/h"
)

// Sub-check "numerals" (and the native fuzz target FuzzC03Number): any text that has the
// lexical shape of a number literal denotes exactly what strconv says it denotes, or is
// rejected when that is not representable. Independent of the value-driven `literals`
// sub-check: here the SPELLING is generated / mutated and Go's strconv is the oracle.
type NumCase struct {
	Src string `json:"src"`
}

var numeralRe = regexp.MustCompile(`^-?(0[xX][0-9a-fA-F]+|0[bB][01]+|[0-9]+(\.[0-9]*)?([eE][+-]?[0-9]+)?)$`)

func genNumeral(t *rapid.T) NumCase {
	var b strings.Builder
	if rapid.IntRange(0, 3).Draw(t, "neg") == 0 {
		b.WriteByte('-')
	}
	digits := func(set string, lo, hi int) {
		n := rapid.IntRange(lo, hi).Draw(t, "nd")
		for i := 0; i < n; i++ {
			b.WriteByte(set[rapid.IntRange(0, len(set)-1).Draw(t, "d")])
		}
	}
	switch rapid.IntRange(0, 5).Draw(t, "form") {
	case 0:
		b.WriteString(rapid.SampledFrom([]string{"0x", "0X"}).Draw(t, "hx"))
		digits("0123456789abcdefABCDEF", 1, 18)
	case 1:
		b.WriteString(rapid.SampledFrom([]string{"0b", "0B"}).Draw(t, "bn"))
		digits("01", 1, 66)
	case 2:
		digits("0123456789", 1, 21)
	default:
		digits("0123456789", 1, 20)
		if rapid.Bool().Draw(t, "dot") {
			b.WriteByte('.')
			digits("0123456789", 0, 20)
		}
		if rapid.Bool().Draw(t, "exp") {
			b.WriteString(rapid.SampledFrom([]string{"e", "E", "e+", "e-", "E+", "E-"}).Draw(t, "e"))
			digits("0123456789", 1, 3)
		}
	}
	return NumCase{b.String()}
}

func numeralOracle(c NumCase, o *h.Obs) *h.Fail {
	s := c.Src
	o.Key = s
	if len(s) > 400 || !numeralRe.MatchString(s) {
		o.Excluded = "not of numeral shape"
		return nil
	}
	o.NonTrivial = len(strings.TrimLeft(s, "-0")) > 1
	neg := strings.HasPrefix(s, "-")
	body := strings.TrimPrefix(s, "-")
	sign := ""
	if neg {
		sign = "-"
	}
	var wantI int64
	var wantF float64
	isInt, reject := false, false
	low := strings.ToLower(body)
	switch {
	case strings.HasPrefix(low, "0x"):
		isInt = true
		v, err := strconv.ParseInt(sign+low[2:], 16, 64)
		wantI, reject = v, err != nil
		o.Class("numeral_hex")
	case strings.HasPrefix(low, "0b"):
		isInt = true
		v, err := strconv.ParseInt(sign+low[2:], 2, 64)
		wantI, reject = v, err != nil
		o.Class("numeral_binary")
	case !strings.ContainsAny(low, ".e"):
		isInt = true
		v, err := strconv.ParseInt(sign+low, 10, 64)
		wantI, reject = v, err != nil
		o.Class("numeral_decimal")
	default:
		v, err := strconv.ParseFloat(sign+low, 64)
		wantF, reject = v, err != nil
		if err == nil && v == 0 && strings.ContainsAny(strings.SplitN(low, "e", 2)[0], "123456789") {
			o.Excluded = "float underflow (not judged)"
			return nil
		}
		if err != nil && !math.IsInf(v, 0) {
			o.Excluded = "strconv rejects for a reason other than overflow (not judged)"
			return nil
		}
		o.Class("numeral_float")
	}
	got, err := ank.Exec(env.NewEnv(), s)
	if hp, ok := ank.IsHostPanic(err); ok {
		return h.Failf("C03|numeral|host-panic", "numeral %q: escaped panic %v", s, hp.Value)
	}
	if reject {
		o.Class("numeral_not_representable")
		if err == nil {
			return h.Failf("C03|numeral|accepted-although-not-representable", "numeral %q is not representable (strconv rejects it) but evaluates to %s", s, ank.Describe(got))
		}
		return nil
	}
	if err != nil {
		return h.Failf("C03|numeral|rejected-although-representable", "numeral %q is representable but is rejected: %v", s, err)
	}
	if isInt {
		if g, ok := got.(int64); !ok || g != wantI {
			return h.Failf("C03|numeral|wrong-int-value", "numeral %q denotes int64(%d), anko gives %s", s, wantI, ank.Describe(got))
		}
		return nil
	}
	if g, ok := got.(float64); !ok || math.Float64bits(g) != math.Float64bits(wantF) {
		if ok && g == 0 && wantF == 0 {
			return nil // -0.0 vs 0.0: the sign of a zero literal is not judged
		}
		return h.Failf("C03|numeral|wrong-float-value", "numeral %q denotes float64(%v), anko gives %s", s, wantF, ank.Describe(got))
	}
	return nil
}

func FuzzC03Number(f *testing.F) {
	for _, s := range []string{"0", "1", "-1", "007", "0x1F", "-0X7f", "0b101", "-0b1", "9223372036854775807", "-9223372036854775808", "9223372036854775808",
		"0x8000000000000000", "-0x8000000000000000", "1.5", "1.", "1e3", "1E+3", "1e-3", "1.5e308", "1e309", "0.1", "123456789012345678901", "1e", "0x", "0b2"} {
		f.Add([]byte(s))
	}
	f.Fuzz(func(t *testing.T, data []byte) {
		if fail := numeralOracle(NumCase{string(data)}, &h.Obs{}); fail != nil {
			t.Fatalf("%s\n%s", fail.Sig, fail.Msg)
		}
	})
}

var _ = fmt.Sprint
