// Package c03 checks property C03: the parser builds the tree the source spells out.
//
// tree.go: the generated expression tree type (the oracle: it IS the stated
// operator table), its two printers (minimal parentheses by the stated table,
// all parentheses explicit), the canonical dump, and the converter from anko's
// ast to the same tree type.
package c03

import (
	"fmt"
	"math"
	"reflect"
	"regexp"
	"strconv"
	"strings"

	"github.com/mattn/anko/ast"

	"verif/internal/vals"
)

// Node is an expression tree over the operator table of the property statement.
//
// leaves:    id(S) int(I) flt(FB) str(S) kw(S: true|false|nil) list(A...) map(A: k,v,k,v...)
//            fn(S: comma separated params, A[0]: returned expression) paren(A[0]) len(A[0])
// operators: tern(A: cond,then,else) nilc(A: l,r) bin(Op, A: l,r; Op "in" included)
//            un(Op in - ! ^ & *, A[0]) call(A[0]: callee, A[1:]: arguments) idx(A: base,index)
//            sl(A: base,begin,end,cap with K "none" for an absent bound) mem(S: name, A[0]: base)
type Node struct {
	K  string  `json:"k"`
	Op string  `json:"op,omitempty"`
	S  string  `json:"s,omitempty"`
	I  int64   `json:"i,omitempty"`
	FB uint64  `json:"fb,omitempty"`
	A  []*Node `json:"a,omitempty"`
	// Sp: the spelling of a non-negative int / flt leaf (hexadecimal, binary, leading
	// zeros, exponent forms). Used by the printers only when it denotes exactly I / FB
	// by Go's strconv (spellOf); never part of the canonical tree.
	Sp string `json:"sp,omitempty"`
}

var none = &Node{K: "none"}

// ---------- the stated table ----------

// precedence levels, loosest (1) to tightest (10)
const (
	lvTern    = 1
	lvOr      = 2
	lvAnd     = 3
	lvCmp     = 4
	lvAdd     = 5
	lvMul     = 6
	lvIn      = 7
	lvUnary   = 8
	lvPostfix = 9
	lvPrimary = 10
)

var binLevel = map[string]int{
	"||": lvOr, "&&": lvAnd,
	"==": lvCmp, "!=": lvCmp, "<": lvCmp, "<=": lvCmp, ">": lvCmp, ">=": lvCmp,
	"+": lvAdd, "-": lvAdd, "|": lvAdd,
	"*": lvMul, "/": lvMul, "%": lvMul, "<<": lvMul, ">>": lvMul, "&": lvMul,
	"in": lvIn,
}

var levelName = map[int]string{lvTern: "tern", lvOr: "or", lvAnd: "and", lvCmp: "cmp", lvAdd: "add", lvMul: "mul", lvIn: "in", lvUnary: "unary", lvPostfix: "postfix", lvPrimary: "leaf"}

// binKind is the ast operator struct a binary operator is expected in.
func binKind(op string) string {
	switch binLevel[op] {
	case lvOr, lvAnd:
		return "log"
	case lvCmp:
		return "cmp"
	case lvAdd:
		return "add"
	case lvMul:
		return "mul"
	case lvIn:
		return "in"
	}
	return "?"
}

func level(n *Node) int {
	switch n.K {
	case "tern", "nilc":
		return lvTern
	case "bin":
		if l, ok := binLevel[n.Op]; ok {
			return l
		}
		return 0
	case "un":
		return lvUnary
	case "call", "idx", "sl", "mem":
		return lvPostfix
	}
	return lvPrimary
}

func isOp(n *Node) bool { return level(n) < lvPrimary }

// opName names a node's operator for the class counters.
func opName(n *Node) string {
	switch n.K {
	case "tern":
		return "?:"
	case "nilc":
		return "??"
	case "bin":
		return n.Op
	case "un":
		return "u" + n.Op
	case "sl":
		if len(n.A) == 4 && n.A[3].K != "none" {
			return "sl3"
		}
		return "sl2"
	}
	return n.K
}

// allOps lists every operator name of the table (for the zero cells of the pair table).
var allOps = []string{"?:", "??", "||", "&&", "==", "!=", "<", "<=", ">", ">=", "+", "-", "|", "*", "/", "%", "<<", ">>", "&", "in",
	"u-", "u!", "u^", "u&", "u*", "call", "idx", "sl2", "sl3", "mem"}

// sidesOf lists the operand sides of an operator.
func sidesOf(op string) []string {
	switch {
	case op == "?:":
		return []string{"L", "M", "R"}
	case strings.HasPrefix(op, "u") && len(op) == 2:
		return []string{"U"}
	case op == "call" || op == "idx" || op == "sl2" || op == "sl3" || op == "mem":
		return []string{"B"}
	}
	return []string{"L", "R"}
}

// ---------- printers ----------

type tok struct {
	s    string
	word bool  // identifier, keyword or number
	num  *Node // the int / flt leaf a spelled numeral token was printed from
}

type printer struct {
	all  bool // all parentheses explicit
	// rawEmpty: do not parenthesise `[]` before an index/slice (never set by the
	// generator; a replay file may set it to reproduce finding F-empty-list-index)
	rawEmpty bool
	toks []tok
	// statistics, filled by the minimal printer
	pairs       []string // parent>child:side for every operator child at an operand position
	omitted     int      // operand positions where the child is an operator of another level and no parenthesis is printed
	forcedIn    int      // in-under-in parenthesised (associativity of `in` is unspecified)
	forcedNum   int      // numeric literal parenthesised before a postfix operator
	forcedEmpty int      // empty list literal parenthesised before an index/slice
}

func (p *printer) w(s string)    { p.toks = append(p.toks, tok{s: s, word: true}) }
func (p *printer) pn(s string)   { p.toks = append(p.toks, tok{s: s}) }
func (p *printer) list(ns []*Node) {
	for i, n := range ns {
		if i > 0 {
			p.pn(",")
		}
		p.delim(n)
	}
}

// delim prints n in a delimited position (argument, index, element, ...): no
// parenthesis is ever implied there.
func (p *printer) delim(n *Node) { p.sub(nil, n, "", lvTern, false) }

// sub prints child n of parent at the given side; need is the loosest level that may
// stand there without parentheses; forced marks the shapes that are parenthesised in
// both spellings.
func (p *printer) sub(parent, n *Node, side string, need int, forced bool) {
	wrap := forced || level(n) < need
	if parent != nil && isOp(n) {
		p.pairs = append(p.pairs, opName(parent)+">"+opName(n)+":"+side)
		if !wrap && level(n) != level(parent) {
			p.omitted++
		}
		if p.all {
			wrap = true
		}
	}
	if wrap {
		p.pn("(")
		p.expr(n)
		p.pn(")")
		return
	}
	p.expr(n)
}

func (p *printer) expr(n *Node) {
	switch n.K {
	case "id", "kw":
		p.w(n.S)
	case "int":
		if sp := spellOf(n); sp != "" {
			p.toks = append(p.toks, tok{sp, true, n})
			return
		}
		if n.I < 0 {
			// never generated; keeps replay of hand-written cases well-formed
			p.pn("-")
			p.w(strconv.FormatUint(uint64(-n.I), 10))
		} else {
			p.w(strconv.FormatInt(n.I, 10))
		}
	case "flt":
		if sp := spellOf(n); sp != "" {
			p.toks = append(p.toks, tok{sp, true, n})
			return
		}
		s := strconv.FormatFloat(math.Float64frombits(n.FB), 'f', -1, 64)
		if !strings.Contains(s, ".") {
			s += ".0"
		}
		p.w(s)
	case "str":
		p.pn(vals.StrLit(n.S))
	case "list":
		p.pn("[")
		p.list(n.A)
		p.pn("]")
	case "map":
		p.pn("{")
		for i := 0; i+1 < len(n.A); i += 2 {
			if i > 0 {
				p.pn(",")
			}
			p.delim(n.A[i])
			p.pn(":")
			p.delim(n.A[i+1])
		}
		p.pn("}")
	case "fn":
		p.w("func")
		p.pn("(")
		if n.S != "" {
			for i, a := range strings.Split(n.S, ",") {
				if i > 0 {
					p.pn(",")
				}
				p.w(a)
			}
		}
		p.pn(")")
		p.pn("{")
		p.w("return")
		p.delim(n.A[0])
		p.pn("}")
	case "paren":
		p.pn("(")
		p.delim(n.A[0])
		p.pn(")")
	case "len":
		p.w("len")
		p.pn("(")
		p.delim(n.A[0])
		p.pn(")")
	case "tern":
		// right-associative, loosest level: a same-level child needs parentheses on the
		// left only; the middle operand is delimited by ? and :
		p.sub(n, n.A[0], "L", lvTern+1, false)
		p.pn("?")
		p.sub(n, n.A[1], "M", lvTern, false)
		p.pn(":")
		p.sub(n, n.A[2], "R", lvTern, false)
	case "nilc":
		p.sub(n, n.A[0], "L", lvTern+1, false)
		p.pn("??")
		p.sub(n, n.A[1], "R", lvTern, false)
	case "bin":
		lv := level(n)
		if n.Op == "in" {
			// `in` under `in`: the statement says left, the grammar says right: always parenthesised
			for i, side := range []string{"L", "R"} {
				c := n.A[i]
				f := c.K == "bin" && c.Op == "in"
				if f && !p.all {
					p.forcedIn++
				}
				if i == 1 {
					p.w("in")
				}
				p.sub(n, c, side, lv+1, f)
			}
			return
		}
		p.sub(n, n.A[0], "L", lv, false)
		p.pn(n.Op)
		p.sub(n, n.A[1], "R", lv+1, false)
	case "un":
		p.pn(n.Op)
		p.sub(n, n.A[0], "U", lvUnary, false)
	case "call", "idx", "sl", "mem":
		b := n.A[0]
		forced := false
		if b.K == "int" || b.K == "flt" {
			forced = true
			if !p.all {
				p.forcedNum++
			}
		}
		if (n.K == "idx" || n.K == "sl") && b.K == "list" && len(b.A) == 0 {
			forced = !p.rawEmpty
			if !p.all {
				p.forcedEmpty++
			}
		}
		p.sub(n, b, "B", lvPostfix, forced)
		switch n.K {
		case "call":
			p.pn("(")
			p.list(n.A[1:])
			if n.Op == "..." {
				p.pn("...") // the last argument is spread
			}
			p.pn(")")
		case "idx":
			p.pn("[")
			p.delim(n.A[1])
			p.pn("]")
		case "sl":
			p.pn("[")
			if n.A[1].K != "none" {
				p.delim(n.A[1])
			}
			p.pn(":")
			if n.A[2].K != "none" {
				p.delim(n.A[2])
			}
			if n.A[3].K != "none" {
				p.pn(":")
				p.delim(n.A[3])
			}
			p.pn("]")
		case "mem":
			p.pn(".")
			p.w(n.S)
		}
	default:
		p.w("BAD_" + n.K)
	}
}

// ---------- spelled numerals ----------

var (
	spIntRe = regexp.MustCompile(`^(0[xX][0-9a-fA-F]+|0[bB][01]+|[0-9]+)$`)
	spFltRe = regexp.MustCompile(`^[0-9]+(\.[0-9]+)?([eE][+-]?[0-9]+)?$`)
)

// spellOf returns the spelling to print for an int / flt leaf, or "" for the plain
// one. A spelling is used only when it has the lexical shape of a number literal and Go's
// strconv says it denotes exactly the leaf's value (keeps hand-written and shrunk
// replay cases well-formed: the model's value never depends on the parser under test).
func spellOf(n *Node) string {
	sp := n.Sp
	if sp == "" || len(sp) > 80 {
		return ""
	}
	switch n.K {
	case "int":
		if n.I < 0 || !spIntRe.MatchString(sp) {
			return ""
		}
		low := strings.ToLower(sp)
		var v int64
		var err error
		switch {
		case strings.HasPrefix(low, "0x"):
			v, err = strconv.ParseInt(low[2:], 16, 64)
		case strings.HasPrefix(low, "0b"):
			v, err = strconv.ParseInt(low[2:], 2, 64)
		default:
			v, err = strconv.ParseInt(low, 10, 64)
		}
		if err != nil || v != n.I {
			return ""
		}
		return sp
	case "flt":
		if !spFltRe.MatchString(sp) || !strings.ContainsAny(sp, ".eE") {
			return ""
		}
		v, err := strconv.ParseFloat(sp, 64)
		if err != nil || math.Float64bits(v) != n.FB {
			return ""
		}
		return sp
	}
	return ""
}

// spForm names the form of a numeral spelling for class counters and signatures.
func spForm(sp string) string {
	switch {
	case strings.HasPrefix(sp, "0x"), strings.HasPrefix(sp, "0X"):
		body := sp[2:]
		switch {
		case body == strings.ToLower(body) && body == strings.ToUpper(body):
			return "hex-digits-only"
		case body == strings.ToLower(body):
			return "hex-lower"
		case body == strings.ToUpper(body):
			return "hex-upper"
		}
		return "hex-mixed"
	case strings.HasPrefix(sp, "0b"), strings.HasPrefix(sp, "0B"):
		return "binary"
	case strings.ContainsAny(sp, "eE"):
		if strings.ContainsAny(sp, "+-") {
			return "float-signed-exponent"
		}
		return "float-exponent"
	case strings.Contains(sp, "."):
		return "float-fraction"
	}
	return "decimal-leading-zeros"
}

// merges: single-character token followed by a character that the language's token
// set would merge into a longer token (or a comment start). Only pairs that can occur
// between two tokens of the generated subset are listed.
func mustSeparate(a, b tok) bool {
	if a.word && b.word {
		return true
	}
	la, fb := a.s[len(a.s)-1], b.s[0]
	if a.word && fb == '.' && a.s[0] >= '0' && a.s[0] <= '9' {
		return true // digits followed by '.' would continue the number
	}
	if len(a.s) == 1 {
		switch string([]byte{la, fb}) {
		case "--", "&&", "<-", "/*", "//", "++", "||", "<<", ">>", "<=", ">=", "==", "!=", "??", "..", "-=", "+=", "*=", "/=", "&=", "|=":
			return true
		}
	}
	return false
}

// join renders the tokens. style 0: one space between all tokens; 1: as tight as the
// token set allows; 2: pseudo-random mix derived from seed (a rapid draw).
func join(toks []tok, style int, seed uint32) string {
	var b strings.Builder
	x := uint64(seed)*2654435761 + 12345
	for i, t := range toks {
		if i > 0 {
			sep := " "
			switch style {
			case 1:
				sep = ""
			case 2:
				x = x*6364136223846793005 + 1442695040888963407
				switch (x >> 33) % 5 {
				case 0, 1:
					sep = ""
				case 2:
					sep = "  "
				case 3:
					sep = "\t"
				}
			}
			if sep == "" && mustSeparate(toks[i-1], t) {
				sep = " "
			}
			b.WriteString(sep)
		}
		b.WriteString(t.s)
	}
	return b.String()
}

// ---------- canonical form ----------

// canon drops paren nodes and folds unary minus over a numeric literal bottom-up.
func canon(n *Node) *Node {
	if n == nil {
		return none
	}
	if n.K == "paren" && len(n.A) == 1 {
		return canon(n.A[0])
	}
	c := &Node{K: n.K, Op: n.Op, S: n.S, I: n.I, FB: n.FB}
	for _, a := range n.A {
		c.A = append(c.A, canon(a))
	}
	if c.K == "un" && c.Op == "-" && len(c.A) == 1 {
		switch x := c.A[0]; x.K {
		case "int":
			return &Node{K: "int", I: -x.I}
		case "flt":
			return &Node{K: "flt", FB: math.Float64bits(-math.Float64frombits(x.FB))}
		}
	}
	return c
}

// dump renders a canonical tree.
func dump(n *Node) string {
	var b strings.Builder
	dumpTo(&b, n)
	return b.String()
}

func head(n *Node) string {
	switch n.K {
	case "id", "kw":
		return n.K + ":" + n.S
	case "int":
		return "int:" + strconv.FormatInt(n.I, 10)
	case "flt":
		return fmt.Sprintf("flt:%v|%x", math.Float64frombits(n.FB), n.FB)
	case "str":
		return "str:" + strconv.Quote(n.S)
	case "bin":
		return "bin[" + binKind(n.Op) + " " + n.Op + "]"
	case "un":
		return "un[" + n.Op + "]"
	case "mem":
		return "mem[" + n.S + "]"
	case "call":
		return "call" + n.Op
	case "fn":
		return "fn[" + n.S + "]"
	case "none":
		return "_"
	}
	return n.K
}

func dumpTo(b *strings.Builder, n *Node) {
	b.WriteString(head(n))
	if len(n.A) == 0 {
		if n.K == "list" || n.K == "map" || n.K == "call" {
			b.WriteString("()")
		}
		return
	}
	b.WriteByte('(')
	for i, a := range n.A {
		if i > 0 {
			b.WriteByte(',')
		}
		dumpTo(b, a)
	}
	b.WriteByte(')')
}

// firstDiff walks two canonical trees in pre-order and describes the first difference
// as (class wanted, class got) for the signature.
func firstDiff(want, got *Node) (string, bool) {
	return firstDiffUnder("top", want, got)
}

func cls(n *Node) string {
	if n.K == "none" {
		return "none"
	}
	if strings.HasPrefix(n.K, "?") {
		return n.K
	}
	return levelName[level(n)]
}

func firstDiffUnder(under string, want, got *Node) (string, bool) {
	if head(want) != head(got) || len(want.A) != len(got.A) {
		// a node of the parent's own level on one side only: the grouping among equals
		// (associativity) differs; otherwise two levels are ordered differently
		if under != "top" && (cls(want) == under) != (cls(got) == under) {
			return "assoc=" + under, true
		}
		return "want=" + cls(want) + "|got=" + cls(got), true
	}
	if len(want.A) == 2 && dump(want.A[0]) != dump(got.A[0]) &&
		dump(want.A[0]) == dump(got.A[1]) && dump(want.A[1]) == dump(got.A[0]) {
		return "operands-swapped=" + opName(want), true
	}
	for i := range want.A {
		if d, ok := firstDiffUnder(cls(want), want.A[i], got.A[i]); ok {
			return d, true
		}
	}
	return "", false
}

// ---------- ast -> Node ----------

func convList(es []ast.Expr) []*Node {
	var out []*Node
	for _, e := range es {
		out = append(out, conv(e))
	}
	return out
}

// spreadOp is the Op of a call node: "..." when the last argument is spread.
func spreadOp(varArg bool) string {
	if varArg {
		return "..."
	}
	return ""
}

func unknown(v interface{}) *Node { return &Node{K: "?" + fmt.Sprintf("%T", v)} }

// conv converts an anko expression into a Node (ParenExpr kept as paren; canon drops it).
func conv(e ast.Expr) *Node {
	if e == nil || (reflect.ValueOf(e).Kind() == reflect.Ptr && reflect.ValueOf(e).IsNil()) {
		return none
	}
	switch x := e.(type) {
	case *ast.IdentExpr:
		return &Node{K: "id", S: x.Lit}
	case *ast.LiteralExpr:
		v := x.Literal
		if !v.IsValid() {
			return &Node{K: "?invalid-literal"}
		}
		switch v.Kind() {
		case reflect.Int64:
			return &Node{K: "int", I: v.Int()}
		case reflect.Float64:
			return &Node{K: "flt", FB: math.Float64bits(v.Float())}
		case reflect.String:
			return &Node{K: "str", S: v.String()}
		case reflect.Bool:
			if v.Bool() {
				return &Node{K: "kw", S: "true"}
			}
			return &Node{K: "kw", S: "false"}
		case reflect.Interface:
			if v.IsNil() {
				return &Node{K: "kw", S: "nil"}
			}
		}
		return &Node{K: "?literal:" + v.Type().String()}
	case *ast.ParenExpr:
		return &Node{K: "paren", A: []*Node{conv(x.SubExpr)}}
	case *ast.OpExpr:
		switch o := x.Op.(type) {
		case *ast.BinaryOperator:
			return convBin("log", o.Operator, o.LHS, o.RHS)
		case *ast.ComparisonOperator:
			return convBin("cmp", o.Operator, o.LHS, o.RHS)
		case *ast.AddOperator:
			return convBin("add", o.Operator, o.LHS, o.RHS)
		case *ast.MultiplyOperator:
			return convBin("mul", o.Operator, o.LHS, o.RHS)
		}
		return unknown(x.Op)
	case *ast.IncludeExpr:
		return &Node{K: "bin", Op: "in", A: []*Node{conv(x.ItemExpr), conv(x.ListExpr)}}
	case *ast.UnaryExpr:
		return &Node{K: "un", Op: x.Operator, A: []*Node{conv(x.Expr)}}
	case *ast.AddrExpr:
		return &Node{K: "un", Op: "&", A: []*Node{conv(x.Expr)}}
	case *ast.DerefExpr:
		return &Node{K: "un", Op: "*", A: []*Node{conv(x.Expr)}}
	case *ast.TernaryOpExpr:
		return &Node{K: "tern", A: []*Node{conv(x.Expr), conv(x.LHS), conv(x.RHS)}}
	case *ast.NilCoalescingOpExpr:
		return &Node{K: "nilc", A: []*Node{conv(x.LHS), conv(x.RHS)}}
	case *ast.CallExpr:
		if x.Go || x.Func.IsValid() {
			return &Node{K: "?call-flags"}
		}
		return &Node{K: "call", Op: spreadOp(x.VarArg), A: append([]*Node{{K: "id", S: x.Name}}, convList(x.SubExprs)...)}
	case *ast.AnonCallExpr:
		if x.Go {
			return &Node{K: "?call-flags"}
		}
		return &Node{K: "call", Op: spreadOp(x.VarArg), A: append([]*Node{conv(x.Expr)}, convList(x.SubExprs)...)}
	case *ast.MemberExpr:
		return &Node{K: "mem", S: x.Name, A: []*Node{conv(x.Expr)}}
	case *ast.ItemExpr:
		return &Node{K: "idx", A: []*Node{conv(x.Item), conv(x.Index)}}
	case *ast.SliceExpr:
		return &Node{K: "sl", A: []*Node{conv(x.Item), conv(x.Begin), conv(x.End), conv(x.Cap)}}
	case *ast.ArrayExpr:
		if x.TypeData != nil {
			return &Node{K: "?typed-array"}
		}
		return &Node{K: "list", A: convList(x.Exprs)}
	case *ast.MapExpr:
		if x.TypeData != nil || len(x.Keys) != len(x.Values) {
			return &Node{K: "?typed-map"}
		}
		n := &Node{K: "map"}
		for i := range x.Keys {
			n.A = append(n.A, conv(x.Keys[i]), conv(x.Values[i]))
		}
		return n
	case *ast.LenExpr:
		return &Node{K: "len", A: []*Node{conv(x.Expr)}}
	case *ast.FuncExpr:
		if x.Name != "" || x.VarArg {
			return &Node{K: "?func-flags"}
		}
		ss, ok := x.Stmt.(*ast.StmtsStmt)
		if !ok || len(ss.Stmts) != 1 {
			return &Node{K: "?func-body"}
		}
		rs, ok := ss.Stmts[0].(*ast.ReturnStmt)
		if !ok || len(rs.Exprs) != 1 {
			return &Node{K: "?func-body"}
		}
		return &Node{K: "fn", S: strings.Join(x.Params, ","), A: []*Node{conv(rs.Exprs[0])}}
	}
	return unknown(e)
}

// convBin keeps the operator struct kind visible: an operator reported in another
// struct than the table's level shows up as a head difference.
func convBin(kind, op string, l, r ast.Expr) *Node {
	n := &Node{K: "bin", Op: op, A: []*Node{conv(l), conv(r)}}
	if binKind(op) != kind {
		n.K = "?bin-" + kind
	}
	return n
}

// depth is the nesting depth of a tree (a leaf is 1; paren does not count).
func depth(n *Node) int {
	d := 0
	for _, a := range n.A {
		if x := depth(a); x > d {
			d = x
		}
	}
	if n.K == "paren" || n.K == "none" {
		return d
	}
	return d + 1
}

func walk(n *Node, f func(*Node)) {
	f(n)
	for _, a := range n.A {
		walk(a, f)
	}
}
