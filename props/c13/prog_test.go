//go:build verifc13

// Operation programs shared by both sub-checks of C13: case types, generator,
// execution against a real *env.Env, the reference model and the exhaustive
// sequential-consistency search.
package c13

import (
	"fmt"
	"reflect"
	"regexp"
	"sort"
	"strconv"
	"strings"

	"github.com/mattn/anko/env"
	"pgregory.net/rapid"
)

// pool is the name pool; values and types live in separate tables of a scope, the
// same three names are used for both.
var pool = []string{"a", "b", "c"}

func nameIdx(n string) int {
	for i, p := range pool {
		if p == n {
			return i
		}
	}
	return -1
}

// vpool / tpool are the names of the value tables and of the type tables of the model (index = slot).
// "m" is only ever bound to a module (newmod, Prog.Mod) and only in the shared scope; "int64" is a type
// name that Go itself (and anko's table of built-in type names) gives a meaning when no scope binds it.
var (
	vpool = []string{"a", "b", "c", "m"}
	tpool = []string{"a", "b", "c", "int64"}
)

const (
	modName    = "m"
	selfName   = "sm" // the name under which the parent binds the shared scope itself (Prog.SelfMod)
	idSelf     = 7    // module id of the shared scope
	idMod0     = 8    // module id of the module initially bound to "m" (Prog.Mod)
	builtinI64 = "int64"
)

func vIdx(n string) int {
	for i, p := range vpool {
		if p == n {
			return i
		}
	}
	return -1
}

func tIdx(n string) int {
	for i, p := range tpool {
		if p == n {
			return i
		}
	}
	return -1
}

// Op is one environment operation of a thread.
//
//	define set get delete delnear   — value table (delnear = DeleteGlobal)
//	deftype type                     — type table
//	copy deepcopy                    — Copy / DeepCopy, then GetValueSymbols+Get and GetTypeSymbols+Type on the copy's own scope
//	syms tsyms                       — GetValueSymbols / GetTypeSymbols
//	string                           — String
//	newmod                           — NewModule("m") on the shared scope (V = id of the module made)
//	mget mtype                       — Get / Type of a pool name THROUGH the module that this thread's latest
//	                                   get(m) / cget(m) returned (no env call, result "nomod", when it returned none)
//	mset maddr mdelnear              — Set / Addr / DeleteGlobal of a pool name THROUGH the module held (as mget): operations that
//	                                   start in the module (a scope BELOW the shared one) and walk up the chain
//	mcget mctype mcset mcaddr        — the same five operations through a fresh, empty child (NewEnv) of the module held: a
//	mcdelnear                          descendant of the module, one scope further down the chain (lock-order sub-check only)
//	pstring                          — String of the PARENT (which may bind the shared scope as the module "sm"; lock-order sub-check only)
//	path cpath                       — GetEnvFromPath on the shared scope / on its empty child; N = segments joined by "/"
//	gdefine gdefinev                 — DefineGlobal / DefineGlobalValue called on the shared scope (c…: on its child):
//	cgdefine cgdefinev                 they write the root of the chain, which is the parent
//	gdeftype gdeftypei cgdeftype     — DefineGlobalReflectType / DefineGlobalType on the shared scope (c…: on its child)
type Op struct {
	K string `json:"k"`
	N string `json:"n,omitempty"`
	V int    `json:"v,omitempty"` // value id (unique per write); for deftype the id of the type
}

func (o Op) String() string {
	switch o.K {
	case "define", "set", "deftype", "cset", "mset", "mcset", "newmod", "gdefine", "gdefinev", "cgdefine", "cgdefinev", "gdeftype", "gdeftypei", "cgdeftype":
		return fmt.Sprintf("%s(%s,%d)", o.K, o.N, o.V)
	case "get", "delete", "delnear", "type", "cget", "caddr", "ctype", "mget", "mtype", "maddr", "mdelnear", "mcget", "mctype", "mcaddr", "mcdelnear", "path", "cpath":
		return fmt.Sprintf("%s(%s)", o.K, o.N)
	}
	return o.K + "()"
}

// Prog is the initial contents of the shared scope and its parent plus the threads.
// Initial ids: shared scope a,b,c = 1,2,3; parent a,b,c = 4,5,6 (values and types alike).
type Prog struct {
	ChildVals   []string `json:"child_vals,omitempty"`
	ChildTypes  []string `json:"child_types,omitempty"`
	ParentVals  []string `json:"parent_vals,omitempty"`
	ParentTypes []string `json:"parent_types,omitempty"`
	Threads     [][]Op   `json:"threads"`
	// Warm: operations done on the shared scope, one after the other, BEFORE the threads start: Warm[0]
	// deletes, Warm[1] listings, Warm[2] copies of names / tables that leave the contents as they are
	// (an implementation that reorganises a scope every so many operations reaches that point
	// inside the concurrent phase)
	Warm []int `json:"warm,omitempty"`
	// Ext: the shared scope has an external lookup attached (it serves the one name "xe", with value 99)
	Ext bool `json:"ext,omitempty"`
	// Mod: the shared scope initially binds "m" to a module made by NewModule (module id 8)
	Mod bool `json:"mod,omitempty"`
	// SelfMod: the parent binds "sm" to the shared scope itself (module id 7), so that a path lookup
	// that starts with "sm" continues in the shared scope's own table
	SelfMod bool `json:"selfmod,omitempty"`
	// ForcedPublication: the generator planted newmod(m) in one thread and get(m); mget/mtype in another
	ForcedPublication bool `json:"forced_publication,omitempty"`
	// ForcedDescent: the generator planted a path that descends through the shared scope into the module m in one
	// thread and an operation that starts in m and walks up the chain in another
	ForcedDescent bool `json:"forced_descent,omitempty"`
	// Wide: drawn from the wider operation mix (generator bookkeeping, shown as a class)
	Wide bool `json:"wide,omitempty"`
	// EmptyTab: when the shared scope starts with no value bound, its value table has been created and
	// emptied again (a define and a delete of another name before the threads start) instead of never created
	EmptyTab bool `json:"empty_tab,omitempty"`
	// LockOrder: a program of the sub-check "lockorder" (lockorder_test.go): String is kept although the scope binds a
	// module, and its text is read leniently (the module's line is only recognised, not compared)
	LockOrder bool `json:"lock_order,omitempty"`
	// StringReplaced counts the String operations the generator replaced (excludeStringWithModule)
	StringReplaced int `json:"string_replaced,omitempty"`
	// GdefMoved / PresenceDemoted count the repairs of keepParentQuiet
	GdefMoved       int `json:"gdef_moved,omitempty"`
	PresenceDemoted int `json:"presence_demoted,omitempty"`
}

// delnearPair reports the names n for which the program has the shape of the DeleteGlobal
// defect repaired in /repo commit 0f00dad (generated and asserted like everything else;
// a failure of this shape keeps its own signature): two different threads delete-nearest n, n is bound in the parent,
// and n is (or may become) bound in the shared scope. DeleteGlobal looked n up under a
// read lock, released it, and deleted under a second (write) lock acquisition: two such
// calls can both see the shared binding and both delete it, so the parent binding
// survives — no sequential order of two delete-nearest operations leaves it in place.
func delnearPair(p Prog) []string {
	var out []string
	for _, n := range pool {
		inParent, inShared := false, false
		for _, x := range p.ParentVals {
			inParent = inParent || x == n
		}
		for _, x := range p.ChildVals {
			inShared = inShared || x == n
		}
		threads := 0
		for _, th := range p.Threads {
			has := false
			for _, op := range th {
				if op.K == "delnear" && op.N == n {
					has = true
				}
				if op.K == "define" && op.N == n {
					inShared = true
				}
			}
			if has {
				threads++
			}
		}
		if inParent && inShared && threads >= 2 {
			out = append(out, n)
		}
	}
	return out
}

// pairSurvives narrows the signature of the DeleteGlobal shape to its symptom: a name of
// delnearPair is still bound in the parent in the final state (text as made by finalText).
func pairSurvives(p Prog, final string) bool {
	i := strings.LastIndex(final, "parent{values: ")
	if i < 0 {
		return false
	}
	seg := final[i+len("parent{values: "):]
	if j := strings.Index(seg, " |"); j >= 0 {
		seg = seg[:j]
	}
	for _, n := range delnearPair(p) {
		for _, b := range strings.Split(seg, ",") {
			if strings.HasPrefix(b, n+"=") {
				return true
			}
		}
	}
	return false
}

func withName(l []string, n string) []string {
	var out []string
	for _, x := range pool {
		has := x == n
		for _, y := range l {
			has = has || y == x
		}
		if has {
			out = append(out, x)
		}
	}
	return out
}

// eget / ceget: Get of the name "xe", which no table ever binds and which the external lookup attached to
// the shared scope (Prog.Ext) serves with a fixed value: on the shared scope itself, through its child.
var opKinds = []string{"define", "define", "set", "set", "get", "get", "delete", "delnear", "deftype", "type", "copy", "deepcopy", "syms", "tsyms", "string", "cget", "cset", "caddr", "ctype", "eget", "ceget", "setext"}

// newKinds are generator-side kinds added after the sixth round; each expands into one or two operations:
// modget / modtype = get(m) or cget(m) followed by mget(n) / mtype(n); path = path or cpath with a drawn path;
// gdef / gdeft = one of the define-global forms for values / types;
// modwalk (added after the seventh round) = get(m) or cget(m) followed by mset(n) / maddr(n) / mdelnear(n).
var newKinds = []string{"newmod", "modget", "modtype", "path", "path", "gdef", "gdeft", "modwalk"}

// upWalkers: the operations done through a held module; every one of them starts in the module's own scope
// and continues in the shared scope and the parent
var upWalkers = []string{"mset", "mset", "mset", "maddr", "mdelnear", "mget", "mtype"}

var upWalkerKinds = []string{"mset", "maddr", "mdelnear", "mget", "mtype"}

const maxThreadOps = 8

var (
	vNamesWide = []string{"a", "b", "c", "a", "b", "c", modName}
	tNamesWide = []string{"a", "b", "c", "a", "b", "c", builtinI64, builtinI64}
	pathFirst  = []string{selfName, selfName, selfName, selfName, modName, modName, "x", "a"}
	pathLater  = []string{"a", "b", "c", modName, modName, "x"}
)

func genSubset(t *rapid.T, label string, pNum int) []string {
	var out []string
	for _, n := range pool {
		if rapid.IntRange(0, 3).Draw(t, label+"_"+n) >= 4-pNum {
			out = append(out, n)
		}
	}
	return out
}

func genProg(t *rapid.T, withString bool) Prog {
	p := Prog{
		ChildVals:   genSubset(t, "cv", 1),
		ChildTypes:  genSubset(t, "ct", 1),
		ParentVals:  genSubset(t, "pv", 2),
		ParentTypes: genSubset(t, "pt", 2),
	}
	if rapid.IntRange(0, 2).Draw(t, "warm?") == 0 {
		counts := []int{0, 1, 2, 3, 6, 7, 8, 14, 15, 16, 17, 30, 31, 32, 62, 63, 64}
		p.Warm = []int{rapid.SampledFrom(counts).Draw(t, "warmdel"), rapid.SampledFrom(counts[:8]).Draw(t, "warmsyms"), rapid.SampledFrom(counts[:8]).Draw(t, "warmcopy")}
	}
	p.Ext = rapid.Bool().Draw(t, "ext")
	p.EmptyTab = rapid.IntRange(0, 2).Draw(t, "emptytab") == 1
	// two flavours of program: 3 of 5 draw from the operations and names of the first five rounds only
	// (their density is what the earlier sensitivity results rest on), 2 of 5 mix in the operations, names
	// and initial bindings added after the sixth round at half of all draws
	wide := rapid.IntRange(0, 4).Draw(t, "flavour")%2 == 1
	allKinds, vNames, tNames := opKinds, pool, pool
	if wide {
		p.Wide = true
		p.Mod = rapid.IntRange(0, 3).Draw(t, "mod") == 1
		p.SelfMod = rapid.IntRange(0, 3).Draw(t, "selfmod") != 0
		allKinds = append(append(append(append([]string{}, opKinds...), newKinds...), newKinds...), newKinds...)
		vNames, tNames = vNamesWide, tNamesWide
	}
	nt := rapid.IntRange(2, 3).Draw(t, "threads")
	next := 10
	for i := 0; i < nt; i++ {
		n := rapid.IntRange(1, 4).Draw(t, "nops")
		var ops []Op
		for j := 0; j < n; j++ {
			k := rapid.SampledFrom(allKinds).Draw(t, "kind")
			if k == "string" && !withString {
				k = "syms"
			}
			op := Op{K: k}
			switch k {
			case "define", "set", "cset":
				op.N = rapid.SampledFrom(pool).Draw(t, "name")
				op.V = next
				next++
			case "deftype":
				op.N = rapid.SampledFrom(tNames).Draw(t, "tname")
				op.V = next
				next++
			case "get", "delete", "delnear", "cget":
				op.N = rapid.SampledFrom(vNames).Draw(t, "vname")
			case "caddr":
				op.N = rapid.SampledFrom(pool).Draw(t, "name")
			case "type", "ctype":
				op.N = rapid.SampledFrom(tNames).Draw(t, "tname")
			case "newmod":
				op.N = modName
				op.V = next
				next++
			case "modget", "modtype":
				ops = append(ops, Op{K: rapid.SampledFrom([]string{"get", "get", "cget"}).Draw(t, "holder"), N: modName})
				if k == "modget" {
					op = Op{K: "mget", N: rapid.SampledFrom(pool).Draw(t, "name")}
				} else {
					op = Op{K: "mtype", N: rapid.SampledFrom(tNames).Draw(t, "tname")}
				}
			case "modwalk":
				ops = append(ops, Op{K: rapid.SampledFrom([]string{"get", "get", "cget"}).Draw(t, "holder"), N: modName})
				op = Op{K: rapid.SampledFrom([]string{"mset", "mset", "maddr", "mdelnear"}).Draw(t, "walker"), N: rapid.SampledFrom(pool).Draw(t, "name")}
				if op.K == "mset" {
					op.V = next
					next++
				}
			case "path":
				op.K = rapid.SampledFrom([]string{"path", "cpath"}).Draw(t, "pathfrom")
				segs := []string{rapid.SampledFrom(pathFirst).Draw(t, "seg0")}
				for x, more := 0, rapid.IntRange(0, 4).Draw(t, "pathlen"); x < []int{0, 1, 1, 1, 2}[more]; x++ {
					segs = append(segs, rapid.SampledFrom(pathLater).Draw(t, "seg"))
				}
				op.N = strings.Join(segs, "/")
			case "gdef":
				op.K = rapid.SampledFrom([]string{"gdefine", "gdefinev", "cgdefine", "cgdefinev"}).Draw(t, "gform")
				op.N = rapid.SampledFrom(pool).Draw(t, "name")
				op.V = next
				next++
			case "gdeft":
				op.K = rapid.SampledFrom([]string{"gdeftype", "gdeftypei", "cgdeftype"}).Draw(t, "gtform")
				op.N = rapid.SampledFrom(tNames).Draw(t, "tname")
				op.V = next
				next++
			}
			ops = append(ops, op)
		}
		p.Threads = append(p.Threads, ops)
	}
	// raise the density of the shape "two threads delete-nearest one name that is bound in
	// the shared scope and in the parent" (the shape of the repaired DeleteGlobal defect)
	if rapid.IntRange(0, 5).Draw(t, "force_delnear_pair") == 0 {
		n := rapid.SampledFrom(pool).Draw(t, "pair_name")
		p.ParentVals = withName(p.ParentVals, n)
		p.ChildVals = withName(p.ChildVals, n)
		ti := rapid.IntRange(0, nt-1).Draw(t, "pair_t0")
		tj := (ti + 1 + rapid.IntRange(0, nt-2).Draw(t, "pair_t1")) % nt
		for _, x := range []int{ti, tj} {
			k := rapid.IntRange(0, len(p.Threads[x])-1).Draw(t, "pair_pos")
			p.Threads[x][k] = Op{K: "delnear", N: n}
		}
	}
	// raise the density of the shape "one thread makes the module m while another fetches m from the scope and
	// looks a name up through it" (the fetch has to fall after the publication and the lookup before
	// NewModule has returned: one schedule among many)
	if wide && rapid.IntRange(0, 3).Draw(t, "force_module_publication") == 0 {
		ti := rapid.IntRange(0, nt-1).Draw(t, "pub_t0")
		tj := (ti + 1 + rapid.IntRange(0, nt-2).Draw(t, "pub_t1")) % nt
		p.Threads[ti][rapid.IntRange(0, len(p.Threads[ti])-1).Draw(t, "pub_pos")] = Op{K: "newmod", N: modName, V: next}
		next++
		through := Op{K: "mget", N: rapid.SampledFrom(pool).Draw(t, "pub_name")}
		if rapid.IntRange(0, 2).Draw(t, "pub_type") == 0 {
			through = Op{K: "mtype", N: rapid.SampledFrom(tNamesWide).Draw(t, "pub_tname")}
		}
		k := rapid.IntRange(0, len(p.Threads[tj])-1).Draw(t, "pub_pos1")
		th := append([]Op{}, p.Threads[tj][:k]...)
		th = append(th, Op{K: rapid.SampledFrom([]string{"get", "get", "cget"}).Draw(t, "pub_holder"), N: modName}, through)
		p.Threads[tj] = append(th, p.Threads[tj][k+1:]...)
		p.ForcedPublication = true
	}
	// raise the density of the shape "one thread resolves a path that goes DOWN through the shared scope into the
	// module m (sm/m...: two scopes one after the other, outer first) while another thread does an operation
	// through m that walks UP (module first, then the shared scope, then the parent)": the two walk the same
	// chain of scopes in opposite directions
	if wide && rapid.IntRange(0, 3).Draw(t, "force_descent_against_ascent") == 0 {
		p.SelfMod = true
		ti := rapid.IntRange(0, nt-1).Draw(t, "desc_t0")
		tj := (ti + 1 + rapid.IntRange(0, nt-2).Draw(t, "desc_t1")) % nt
		segs := []string{selfName, modName}
		if rapid.IntRange(0, 3).Draw(t, "desc_third") == 0 {
			segs = append(segs, rapid.SampledFrom(pathLater).Draw(t, "desc_seg"))
		}
		p.Threads[ti][rapid.IntRange(0, len(p.Threads[ti])-1).Draw(t, "desc_pos")] = Op{K: rapid.SampledFrom([]string{"path", "cpath"}).Draw(t, "desc_from"), N: strings.Join(segs, "/")}
		up := Op{K: rapid.SampledFrom(upWalkers).Draw(t, "desc_walker")}
		if up.K == "mtype" {
			up.N = rapid.SampledFrom(tNamesWide).Draw(t, "desc_tname")
		} else {
			up.N = rapid.SampledFrom(pool).Draw(t, "desc_name")
		}
		if up.K == "mset" {
			up.V = next
			next++
		}
		k := rapid.IntRange(0, len(p.Threads[tj])-1).Draw(t, "desc_pos1")
		th := append([]Op{}, p.Threads[tj][:k]...)
		th = append(th, Op{K: rapid.SampledFrom([]string{"get", "get", "cget"}).Draw(t, "desc_holder"), N: modName}, up)
		th = append(th, p.Threads[tj][k+1:]...)
		if len(th) > maxThreadOps {
			// keep the planted pair, drop from the end (or, when the pair is at the end, from the front)
			if k+2 <= maxThreadOps {
				th = th[:maxThreadOps]
			} else {
				th = th[len(th)-maxThreadOps:]
			}
		}
		p.Threads[tj] = th
		if !canBindModule(p) {
			p.Mod = true
		}
		p.ForcedDescent = true
	}
	excludeStringWithModule(&p)
	keepParentQuiet(t, &p)
	return p
}

// The statement quantifies over operations on one shared scope "with a read-only parent". The define-global
// forms write the parent. An operation that walks from the shared scope to the parent (get, set, delete-nearest,
// type, ...) consults two scopes one after the other; while BOTH bindings of its name come and go, the statement
// does not say what it may return. The check therefore only generates a define-global of a name whose
// presence in the shared scope's own table never changes in the program (no define / delete / delete-nearest
// of that name, for types no define-type): then every operation on that name depends on one table only.
// parentWriteConflicts lists the names (prefixed v: / t:) that break this rule.
func parentWriteConflicts(p Prog) []string {
	gdef, pres := map[string]bool{}, map[string]bool{}
	for _, th := range p.Threads {
		for _, op := range th {
			switch op.K {
			case "gdefine", "gdefinev", "cgdefine", "cgdefinev":
				gdef["v:"+op.N] = true
			case "gdeftype", "gdeftypei", "cgdeftype":
				gdef["t:"+op.N] = true
			case "define", "delete", "delnear", "mdelnear", "mcdelnear":
				pres["v:"+op.N] = true
			case "deftype":
				pres["t:"+op.N] = true
			}
		}
	}
	var out []string
	for k := range gdef {
		if pres[k] {
			out = append(out, k)
		}
	}
	sort.Strings(out)
	return out
}

// keepParentQuiet repairs a generated program by construction: a define-global of a conflicting name moves to a
// free name; if there is none, the operations that change the presence of the name in the shared scope
// become operations that do not (define -> set, delete / delete-nearest -> get, define-type -> type). Counted.
func keepParentQuiet(t *rapid.T, p *Prog) {
	for _, k := range parentWriteConflicts(*p) {
		names := pool
		if k[:2] == "t:" {
			names = tpool
		}
		moved := false
		start := rapid.IntRange(0, len(names)-1).Draw(t, "quiet_name")
		for d := 0; d < len(names) && !moved; d++ {
			cand := names[(start+d)%len(names)]
			trial := renameGdef(*p, k, cand)
			free := true
			for _, c := range parentWriteConflicts(trial) {
				if c == k[:2]+cand {
					free = false
				}
			}
			if free {
				*p = trial
				p.GdefMoved++
				moved = true
			}
		}
		if moved {
			continue
		}
		for _, th := range p.Threads {
			for i, op := range th {
				if k[:2] == "v:" && op.N == k[2:] {
					switch op.K {
					case "define":
						th[i].K = "set"
						p.PresenceDemoted++
					case "delete", "delnear":
						th[i] = Op{K: "get", N: op.N}
						p.PresenceDemoted++
					case "mdelnear":
						th[i] = Op{K: "mget", N: op.N}
						p.PresenceDemoted++
					case "mcdelnear":
						th[i] = Op{K: "mcget", N: op.N}
						p.PresenceDemoted++
					}
				}
				if k[:2] == "t:" && op.N == k[2:] && op.K == "deftype" {
					th[i] = Op{K: "type", N: op.N}
					p.PresenceDemoted++
				}
			}
		}
	}
}

func renameGdef(p Prog, k, to string) Prog {
	q := p
	q.Threads = nil
	for _, th := range p.Threads {
		nt := append([]Op{}, th...)
		for i, op := range nt {
			switch op.K {
			case "gdefine", "gdefinev", "cgdefine", "cgdefinev":
				if k == "v:"+op.N {
					nt[i].N = to
				}
			case "gdeftype", "gdeftypei", "cgdeftype":
				if k == "t:"+op.N {
					nt[i].N = to
				}
			}
		}
		q.Threads = append(q.Threads, nt)
	}
	return q
}

// excludeStringWithModule: String formats every bound value with %#v; for a bound module that prints the
// fields of the module's struct (not its address), so the text cannot be read back into "m = module <id>",
// and the formatting reads those fields without the module's lock (a matter between String and writers of
// the MODULE's tables, which this check does not generate). A program whose shared scope can bind a module
// gets its String operations replaced by value listings (counted).
func excludeStringWithModule(p *Prog) {
	if !canBindModule(*p) {
		return
	}
	for _, th := range p.Threads {
		for i := range th {
			if th[i].K == "string" {
				th[i] = Op{K: "syms"}
				p.StringReplaced++
			}
		}
	}
}

func canBindModule(p Prog) bool {
	if p.Mod {
		return true
	}
	for _, th := range p.Threads {
		for _, op := range th {
			if op.K == "newmod" {
				return true
			}
		}
	}
	return false
}

// validProg guards replayed / hand-written cases.
func validProg(p Prog) error {
	if len(p.Threads) < 1 || len(p.Threads) > 4 {
		return fmt.Errorf("1..4 threads expected")
	}
	for _, l := range [][]string{p.ChildVals, p.ChildTypes, p.ParentVals, p.ParentTypes} {
		for _, n := range l {
			if nameIdx(n) < 0 {
				return fmt.Errorf("unknown name %q", n)
			}
		}
	}
	if c := parentWriteConflicts(p); len(c) > 0 {
		return fmt.Errorf("define-global of a name whose presence in the shared scope changes: %v", c)
	}
	for _, th := range p.Threads {
		if len(th) > maxThreadOps {
			return fmt.Errorf("thread too long")
		}
		for _, op := range th {
			switch op.K {
			case "define", "set", "cset", "mset", "mcset", "gdefine", "gdefinev", "cgdefine", "cgdefinev":
				if nameIdx(op.N) < 0 || op.V < 10 || op.V >= len(typeTab) {
					return fmt.Errorf("bad op %v", op)
				}
			case "deftype", "gdeftype", "gdeftypei", "cgdeftype":
				if tIdx(op.N) < 0 || op.V < 10 || op.V >= len(typeTab) {
					return fmt.Errorf("bad op %v", op)
				}
			case "newmod":
				if op.N != modName || op.V < 10 || op.V >= len(typeTab) {
					return fmt.Errorf("bad op %v", op)
				}
			case "get", "delete", "delnear", "cget":
				if vIdx(op.N) < 0 {
					return fmt.Errorf("bad op %v", op)
				}
			case "caddr", "mget", "maddr", "mdelnear", "mcget", "mcaddr", "mcdelnear":
				if nameIdx(op.N) < 0 {
					return fmt.Errorf("bad op %v", op)
				}
			case "type", "ctype", "mtype", "mctype":
				if tIdx(op.N) < 0 {
					return fmt.Errorf("bad op %v", op)
				}
			case "path", "cpath":
				segs := strings.Split(op.N, "/")
				if len(segs) < 1 || len(segs) > 3 {
					return fmt.Errorf("bad path %v", op)
				}
				for i, sg := range segs {
					if !(nameIdx(sg) >= 0 || sg == modName || sg == "x" || (i == 0 && sg == selfName)) {
						return fmt.Errorf("bad path %v", op)
					}
				}
			case "string":
				if canBindModule(p) && !p.LockOrder {
					return fmt.Errorf("String with a module in the scope is not generated")
				}
			case "pstring":
				if !p.LockOrder {
					return fmt.Errorf("String of the parent is only generated by the lock-order sub-check")
				}
			case "copy", "deepcopy", "syms", "tsyms", "eget", "ceget", "setext":
			default:
				return fmt.Errorf("unknown op kind %q", op.K)
			}
		}
	}
	return nil
}

// ---------- type ids ----------

// typeTab[id] is the reflect.Type standing for type id: [id]uint8.
var typeTab = func() []reflect.Type {
	t := make([]reflect.Type, 64)
	for i := range t {
		t[i] = reflect.ArrayOf(i, reflect.TypeOf(byte(0)))
	}
	return t
}()

func typeID(t reflect.Type) string {
	if t != nil && t.Kind() == reflect.Array && t.Elem().Kind() == reflect.Uint8 && t.Len() < len(typeTab) {
		return strconv.Itoa(t.Len())
	}
	if t == reflect.TypeOf(int64(0)) {
		return builtinI64
	}
	return fmt.Sprintf("?%v", t)
}

func valID(v interface{}) string {
	if i, ok := v.(int); ok {
		return strconv.Itoa(i)
	}
	if e, ok := v.(*env.Env); ok {
		// a module: a placeholder that world.resolve turns into the module's id once every thread has finished
		return fmt.Sprintf("@%p", e)
	}
	return fmt.Sprintf("?%T(%v)", v, v)
}

// ---------- reference model ----------

// state is the model: own tables of the shared scope (c*) and of its parent (p*);
// 0 = name absent, otherwise the id bound.
type state struct {
	cv, ct, pv, pt [4]int // slots: vpool for the value tables, tpool for the type tables
	ext            bool   // the shared scope has the external lookup attached
	sm             bool   // the parent binds "sm" to the shared scope (constant)
}

func initState(p Prog) state {
	var s state
	s.ext = p.Ext
	s.sm = p.SelfMod
	if p.Mod {
		s.cv[vIdx(modName)] = idMod0
	}
	for _, n := range p.ChildVals {
		s.cv[nameIdx(n)] = 1 + nameIdx(n)
	}
	for _, n := range p.ChildTypes {
		s.ct[nameIdx(n)] = 1 + nameIdx(n)
	}
	for _, n := range p.ParentVals {
		s.pv[nameIdx(n)] = 4 + nameIdx(n)
	}
	for _, n := range p.ParentTypes {
		s.pt[nameIdx(n)] = 4 + nameIdx(n)
	}
	return s
}

// renderTab / renderSyms list a table in the order of its name pool, which is also the sorted order
// in which readTables lists a real scope.
func renderTab(names []string, t [4]int) string {
	var parts []string
	for i, v := range t {
		if v != 0 {
			parts = append(parts, names[i]+"="+strconv.Itoa(v))
		}
	}
	return strings.Join(parts, ",")
}

// renderStrTab: a value table as String shows it: a bound module is shown as "<name>=mod" (the text String prints for
// a module does not tell which module it is); sm: the table also binds "sm" to the shared scope (the parent's).
func renderStrTab(t [4]int, sm bool) string {
	var parts []string
	for i, v := range t {
		switch {
		case v == 0:
		case vpool[i] == modName:
			parts = append(parts, modName+"=mod")
		default:
			parts = append(parts, vpool[i]+"="+strconv.Itoa(v))
		}
	}
	if sm {
		parts = append(parts, selfName+"=mod")
	}
	return strings.Join(parts, ",")
}

func renderSyms(names []string, t [4]int) string {
	var parts []string
	for i, v := range t {
		if v != 0 {
			parts = append(parts, names[i])
		}
	}
	return strings.Join(parts, ",")
}

func (s state) String() string {
	pv := renderTab(vpool, s.pv)
	if s.sm {
		if pv != "" {
			pv += ","
		}
		pv += selfName + "=" + strconv.Itoa(idSelf)
	}
	return fmt.Sprintf("shared{values: %s | types: %s} parent{values: %s | types: %s}", renderTab(vpool, s.cv), renderTab(tpool, s.ct), pv, renderTab(tpool, s.pt))
}

// apply runs one operation on the model and returns the new state and the result
// text an atomic execution must report.
//
// held tells, for mget / mtype, whether the thread's latest get(m) / cget(m) returned a module (a recorded
// result, known before the search starts).
func apply(s state, op Op, held bool) (state, string) {
	i := vIdx(op.N)
	switch op.K {
	case "deftype", "type", "ctype", "mtype", "mctype", "gdeftype", "gdeftypei", "cgdeftype":
		i = tIdx(op.N)
	}
	switch op.K {
	case "newmod":
		// NewModule: "a shortcut for calling NewEnv then Define that new Env": one define of a fresh, linked scope
		s.cv[i] = op.V
		return s, "ok"
	case "gdefine", "gdefinev", "cgdefine", "cgdefinev":
		// define-global from any depth writes the root, here the parent
		s.pv[i] = op.V
		return s, "ok"
	case "gdeftype", "gdeftypei", "cgdeftype":
		s.pt[i] = op.V
		return s, "ok"
	case "mget":
		// the module's own table is empty (nothing ever defines in it): the nearest binding is the one the
		// shared scope sees
		if !held {
			return s, "nomod"
		}
		return apply(s, Op{K: "get", N: op.N}, false)
	case "mtype":
		if !held {
			return s, "nomod"
		}
		return apply(s, Op{K: "type", N: op.N}, false)
	case "mcget", "mctype", "mcset", "mcaddr", "mcdelnear":
		// through a fresh empty child of the module held: one more empty table on the way up
		return apply(s, Op{K: "m" + op.K[2:], N: op.N, V: op.V}, held)
	case "mset", "maddr", "mdelnear":
		// Set / Addr / DeleteGlobal through the module: its own table is empty, so the nearest binding is the
		// one that the same operation on the shared scope finds (as for cset / caddr through the empty child)
		if !held {
			return s, "nomod"
		}
		return apply(s, Op{K: map[string]string{"mset": "set", "maddr": "caddr", "mdelnear": "delnear"}[op.K], N: op.N, V: op.V}, false)
	case "path", "cpath":
		// Only paths with one reading are generated: the first segment is a name that is bound to a module or
		// not at all ("sm": in the parent; "m": in the shared scope) or never to a module (a b c x); a later
		// segment is looked up in the own table of the module reached, and only the shared scope's table
		// can hold a module ("m").
		segs := strings.Split(op.N, "/")
		cur := 0
		switch segs[0] {
		case selfName:
			if s.sm {
				cur = idSelf
			}
		case modName:
			cur = s.cv[vIdx(modName)]
		}
		for _, sg := range segs[1:] {
			if cur == idSelf && sg == modName {
				cur = s.cv[vIdx(modName)]
			} else {
				cur = 0
			}
			if cur == 0 {
				break
			}
		}
		if cur == 0 {
			return s, "err"
		}
		return s, "ok" + strconv.Itoa(cur)
	case "define":
		s.cv[i] = op.V
		return s, "ok"
	case "set", "cset":
		// cset: Set through an (empty) child of the shared scope: the nearest binding is the same
		if s.cv[i] != 0 {
			s.cv[i] = op.V
			return s, "ok"
		}
		if s.pv[i] != 0 {
			s.pv[i] = op.V
			return s, "ok"
		}
		return s, "err"
	case "caddr":
		// Addr through the child: the pool values are not addressable, so the answer only tells
		// whether a binding was found along the chain
		if s.cv[i] != 0 || s.pv[i] != 0 {
			return s, "unaddressable"
		}
		return s, "undefined"
	case "setext":
		// SetExternalLookup on the shared scope: from now on the name "xe" is answered from outside
		s.ext = true
		return s, "ok"
	case "eget", "ceget":
		// answered from outside the tables: the state plays no part (s.ext is set when the lookup is attached)
		if s.ext {
			return s, "v99"
		}
		return s, "err"
	case "get", "cget":
		if s.cv[i] != 0 {
			return s, "v" + strconv.Itoa(s.cv[i])
		}
		if s.pv[i] != 0 {
			return s, "v" + strconv.Itoa(s.pv[i])
		}
		return s, "err"
	case "delete":
		s.cv[i] = 0
		return s, "-"
	case "delnear":
		if s.cv[i] != 0 {
			s.cv[i] = 0
		} else {
			s.pv[i] = 0
		}
		return s, "-"
	case "deftype":
		s.ct[i] = op.V
		return s, "ok"
	case "type", "ctype":
		if s.ct[i] != 0 {
			return s, "t" + strconv.Itoa(s.ct[i])
		}
		if s.pt[i] != 0 {
			return s, "t" + strconv.Itoa(s.pt[i])
		}
		if op.N == builtinI64 {
			// built-in type names last
			return s, "t" + builtinI64
		}
		return s, "err"
	case "copy", "deepcopy":
		// DeepCopy copies the scope and then, separately, its parents ("each scope is a consistent
		// snapshot but not the whole"): the operation's result is the snapshot of the shared scope
		return s, "copy{" + renderTab(vpool, s.cv) + "|" + renderTab(tpool, s.ct) + "}"
	case "syms":
		return s, "syms{" + renderSyms(vpool, s.cv) + "}"
	case "tsyms":
		return s, "tsyms{" + renderSyms(tpool, s.ct) + "}"
	case "string":
		return s, "str{" + renderStrTab(s.cv, false) + "|" + renderTab(tpool, s.ct) + "}"
	case "pstring":
		return s, "str{" + renderStrTab(s.pv, s.sm) + "|" + renderTab(tpool, s.pt) + "}"
	}
	panic("unknown op " + op.K)
}

// ---------- real execution ----------

type world struct {
	parent, shared *env.Env
	child          *env.Env // an empty scope below the shared one (operations c*)
	mod0           *env.Env // the module initially bound to "m" (Prog.Mod)
	// per thread (each thread touches only its own element, so the harness adds no synchronisation
	// between the threads): the module the thread holds, and the modules it made with their ids
	regs []*env.Env
	made [][]modRec
	// lenient: program of the lock-order sub-check (Prog.LockOrder): String texts are read with parseStringLenient
	lenient bool
}

type modRec struct {
	e  *env.Env
	id int
}

var rePlaceholder = regexp.MustCompile(`@0x[0-9a-f]+|@%!p\([^)]*\)`)

// resolve replaces the module placeholders of valID by module ids. To be called when no thread runs.
func (w world) resolve(txt string) string {
	if !strings.Contains(txt, "@") {
		return txt
	}
	ids := map[string]int{fmt.Sprintf("@%p", w.shared): idSelf}
	if w.mod0 != nil {
		ids[fmt.Sprintf("@%p", w.mod0)] = idMod0
	}
	for _, l := range w.made {
		for _, r := range l {
			ids[fmt.Sprintf("@%p", r.e)] = r.id
		}
	}
	return rePlaceholder.ReplaceAllStringFunc(txt, func(m string) string {
		if id, ok := ids[m]; ok {
			return strconv.Itoa(id)
		}
		return "?mod"
	})
}

func (w world) resolveAll(results [][]string) [][]string {
	out := make([][]string, len(results))
	for i, l := range results {
		for _, r := range l {
			out[i] = append(out[i], w.resolve(r))
		}
	}
	return out
}

// build creates the parent and the shared scope (sequentially; no hook installed).
func build(p Prog) world {
	w := world{parent: env.NewEnv(), lenient: p.LockOrder}
	for _, n := range p.ParentVals {
		w.parent.Define(n, 4+nameIdx(n))
	}
	for _, n := range p.ParentTypes {
		w.parent.DefineReflectType(n, typeTab[4+nameIdx(n)])
	}
	w.shared = w.parent.NewEnv()
	for _, n := range p.ChildVals {
		w.shared.Define(n, 1+nameIdx(n))
	}
	for _, n := range p.ChildTypes {
		w.shared.DefineReflectType(n, typeTab[1+nameIdx(n)])
	}
	if p.Mod {
		w.mod0, _ = w.shared.NewModule(modName)
	}
	if p.EmptyTab && len(p.ChildVals) == 0 && !p.Mod {
		w.shared.Define("warm", 0)
		w.shared.Delete("warm")
	}
	if p.SelfMod {
		w.parent.Define(selfName, w.shared)
	}
	if p.Ext {
		w.shared.SetExternalLookup(oneName{})
	}
	w.child = w.shared.NewEnv()
	w.regs = make([]*env.Env, 4)
	w.made = make([][]modRec, 4)
	if len(p.Warm) == 3 {
		for i := 0; i < p.Warm[0] && i < 200; i++ {
			w.shared.Delete("warm") // a name that is never bound
		}
		for i := 0; i < p.Warm[1] && i < 200; i++ {
			w.shared.GetValueSymbols()
			w.shared.GetTypeSymbols()
		}
		for i := 0; i < p.Warm[2] && i < 200; i++ {
			w.shared.Copy()
		}
	}
	return w
}

func errText(err error) string {
	if err != nil {
		return "err"
	}
	return "ok"
}

// readTables reads the own tables of e through the public API.
func readTables(e *env.Env) (string, string) {
	vs := e.GetValueSymbols()
	sort.Strings(vs)
	var vp []string
	for _, n := range vs {
		v, err := e.Get(n)
		if err != nil {
			vp = append(vp, n+"=!"+err.Error())
			continue
		}
		vp = append(vp, n+"="+valID(v))
	}
	ts := e.GetTypeSymbols()
	sort.Strings(ts)
	var tp []string
	for _, n := range ts {
		t, err := e.Type(n)
		if err != nil {
			tp = append(tp, n+"=!"+err.Error())
			continue
		}
		tp = append(tp, n+"="+typeID(t))
	}
	return strings.Join(vp, ","), strings.Join(tp, ",")
}

// parseString turns the output of (*Env).String into "values|types" in the form of renderTab.
// ok=false when the text does not have the expected shape.
func parseString(s string) (string, bool) {
	lines := strings.Split(strings.TrimRight(s, "\n"), "\n")
	if len(lines) == 0 || (lines[0] != "Has parent" && lines[0] != "No parent") {
		return "", false
	}
	var vp, tp []string
	for _, l := range lines[1:] {
		k := strings.Index(l, " = ")
		if k < 0 {
			return "", false
		}
		name, rhs := l[:k], l[k+3:]
		if strings.HasPrefix(rhs, "[") && strings.HasSuffix(rhs, "]uint8") {
			tp = append(tp, name+"="+rhs[1:len(rhs)-len("]uint8")])
		} else if _, err := strconv.Atoi(rhs); err == nil {
			vp = append(vp, name+"="+rhs)
		} else {
			return "", false
		}
	}
	sort.Strings(vp)
	sort.Strings(tp)
	return strings.Join(vp, ",") + "|" + strings.Join(tp, ","), true
}

// strWildcard is the recorded result of a String whose text (of a scope that binds a module) was not recognised:
// explain accepts it for whatever the model says.
const strWildcard = "str(text with a module not recognised: not compared)"

var reModuleLine = regexp.MustCompile(`^&(\w+\.)?Env\{.*\}$`)

// parseStringLenient is parseString for a scope that may bind modules: a line "<name> = &env.Env{...}" (the %#v
// text of a module: one line of struct fields) is recorded as "<name>=mod".
func parseStringLenient(s string) (string, bool) {
	lines := strings.Split(strings.TrimRight(s, "\n"), "\n")
	if len(lines) == 0 || (lines[0] != "Has parent" && lines[0] != "No parent") {
		return "", false
	}
	var vp, tp []string
	for _, l := range lines[1:] {
		k := strings.Index(l, " = ")
		if k < 0 {
			return "", false
		}
		name, rhs := l[:k], l[k+3:]
		if strings.HasPrefix(rhs, "[") && strings.HasSuffix(rhs, "]uint8") {
			tp = append(tp, name+"="+rhs[1:len(rhs)-len("]uint8")])
		} else if _, err := strconv.Atoi(rhs); err == nil {
			vp = append(vp, name+"="+rhs)
		} else if (name == modName || name == selfName) && reModuleLine.MatchString(rhs) {
			vp = append(vp, name+"=mod")
		} else {
			return "", false
		}
	}
	sort.Strings(vp)
	sort.Strings(tp)
	return strings.Join(vp, ",") + "|" + strings.Join(tp, ","), true
}

// stringUsable: the String operation is generated only if the format of
// (*Env).String can be read back on a sequentially built scope.
func stringUsable() bool {
	p := Prog{ChildVals: []string{"a", "c"}, ChildTypes: []string{"b"}, ParentVals: []string{"b"}}
	w := build(p)
	got, ok := parseString(w.shared.String())
	_, want := apply(initState(p), Op{K: "string"}, false)
	return ok && "str{"+got+"}" == want
}

// execOp runs one operation on the shared scope and renders its result like apply does.
// oneName is an external lookup that serves the value name "xe" and nothing else.
type oneName struct{}

func (oneName) Get(name string) (reflect.Value, error) {
	if name == "xe" {
		return reflect.ValueOf(99), nil
	}
	return reflect.Value{}, fmt.Errorf("undefined symbol '%s'", name)
}
func (oneName) Type(name string) (reflect.Type, error) {
	return nil, fmt.Errorf("undefined type '%s'", name)
}

func execOp(w world, ti int, op Op) string {
	e := w.shared
	switch op.K {
	case "newmod":
		mod, err := e.NewModule(op.N)
		w.made[ti] = append(w.made[ti], modRec{mod, op.V})
		return errText(err)
	case "mget":
		if w.regs[ti] == nil {
			return "nomod"
		}
		v, err := w.regs[ti].Get(op.N)
		if err != nil {
			return "err"
		}
		return "v" + valID(v)
	case "mtype":
		if w.regs[ti] == nil {
			return "nomod"
		}
		t, err := w.regs[ti].Type(op.N)
		if err != nil {
			return "err"
		}
		return "t" + typeID(t)
	case "mcget", "mctype", "mcset", "mcaddr", "mcdelnear":
		if w.regs[ti] == nil {
			return "nomod"
		}
		below := w.regs[ti].NewEnv()
		switch op.K {
		case "mcget":
			v, err := below.Get(op.N)
			if err != nil {
				return "err"
			}
			return "v" + valID(v)
		case "mctype":
			t, err := below.Type(op.N)
			if err != nil {
				return "err"
			}
			return "t" + typeID(t)
		case "mcset":
			return errText(below.Set(op.N, op.V))
		case "mcaddr":
			return addrText(below.Addr(op.N))
		}
		below.DeleteGlobal(op.N)
		return "-"
	case "mset":
		if w.regs[ti] == nil {
			return "nomod"
		}
		return errText(w.regs[ti].Set(op.N, op.V))
	case "maddr":
		if w.regs[ti] == nil {
			return "nomod"
		}
		return addrText(w.regs[ti].Addr(op.N))
	case "mdelnear":
		if w.regs[ti] == nil {
			return "nomod"
		}
		w.regs[ti].DeleteGlobal(op.N)
		return "-"
	case "path", "cpath":
		from := w.shared
		if op.K == "cpath" {
			from = w.child
		}
		got, err := from.GetEnvFromPath(strings.Split(op.N, "/"))
		if err != nil {
			return "err"
		}
		return "ok" + valID(got)
	case "gdefine":
		return errText(e.DefineGlobal(op.N, op.V))
	case "gdefinev":
		return errText(e.DefineGlobalValue(op.N, reflect.ValueOf(op.V)))
	case "cgdefine":
		return errText(w.child.DefineGlobal(op.N, op.V))
	case "cgdefinev":
		return errText(w.child.DefineGlobalValue(op.N, reflect.ValueOf(op.V)))
	case "gdeftype":
		return errText(e.DefineGlobalReflectType(op.N, typeTab[op.V]))
	case "gdeftypei":
		return errText(e.DefineGlobalType(op.N, reflect.Zero(typeTab[op.V]).Interface()))
	case "cgdeftype":
		return errText(w.child.DefineGlobalReflectType(op.N, typeTab[op.V]))
	case "setext":
		w.shared.SetExternalLookup(oneName{})
		return "ok"
	case "eget", "ceget":
		from := w.shared
		if op.K == "ceget" {
			from = w.child
		}
		v, err := from.Get("xe")
		if err != nil {
			return "err"
		}
		return "v" + valID(v)
	case "cget":
		v, err := w.child.Get(op.N)
		if op.N == modName {
			w.regs[ti], _ = v.(*env.Env)
		}
		if err != nil {
			return "err"
		}
		return "v" + valID(v)
	case "cset":
		return errText(w.child.Set(op.N, op.V))
	case "caddr":
		return addrText(w.child.Addr(op.N))
	case "ctype":
		t, err := w.child.Type(op.N)
		if err != nil {
			return "err"
		}
		return "t" + typeID(t)
	case "define":
		return errText(e.Define(op.N, op.V))
	case "set":
		return errText(e.Set(op.N, op.V))
	case "get":
		v, err := e.Get(op.N)
		if op.N == modName {
			w.regs[ti], _ = v.(*env.Env)
		}
		if err != nil {
			return "err"
		}
		return "v" + valID(v)
	case "delete":
		e.Delete(op.N)
		return "-"
	case "delnear":
		e.DeleteGlobal(op.N)
		return "-"
	case "deftype":
		return errText(e.DefineReflectType(op.N, typeTab[op.V]))
	case "type":
		t, err := e.Type(op.N)
		if err != nil {
			return "err"
		}
		return "t" + typeID(t)
	case "copy":
		cp := e.Copy()
		v, t := readTables(cp)
		return "copy{" + v + "|" + t + "}"
	case "deepcopy":
		cp := e.DeepCopy()
		v, t := readTables(cp)
		return "copy{" + v + "|" + t + "}"
	case "syms":
		s := e.GetValueSymbols()
		sort.Strings(s)
		return "syms{" + strings.Join(s, ",") + "}"
	case "tsyms":
		s := e.GetTypeSymbols()
		sort.Strings(s)
		return "tsyms{" + strings.Join(s, ",") + "}"
	case "string", "pstring":
		if op.K == "pstring" {
			e = w.parent
		}
		txt := e.String()
		if w.lenient {
			got, ok := parseStringLenient(txt)
			if !ok {
				// how String prints a scope that binds a module is not part of the statement: not compared
				return strWildcard
			}
			return "str{" + got + "}"
		}
		got, ok := parseString(txt)
		if !ok {
			return fmt.Sprintf("str?%q", txt)
		}
		return "str{" + got + "}"
	}
	panic("unknown op " + op.K)
}

func addrText(_ reflect.Value, err error) string {
	switch {
	case err == nil:
		return "addressable"
	case strings.Contains(err.Error(), "unaddressable"):
		return "unaddressable"
	}
	return "undefined"
}

// finalText reads the final contents of both scopes (sequentially).
func finalText(w world) string {
	cv, ct := readTables(w.shared)
	pv, pt := readTables(w.parent)
	return w.resolve(fmt.Sprintf("shared{values: %s | types: %s} parent{values: %s | types: %s}", cv, ct, pv, pt))
}

// ---------- sequential-consistency search ----------

type scKey struct {
	pos [4]int
	s   state
}

// explain reports whether some interleaving of the threads' operations that respects
// each thread's order reproduces every recorded result and the final contents.
// It returns the witness order (thread indices) when there is one.
func explain(p Prog, results [][]string, final string) ([]int, bool) {
	dead := map[scKey]bool{}
	held := heldModule(p, results)
	var order []int
	var rec func(pos [4]int, s state) bool
	rec = func(pos [4]int, s state) bool {
		k := scKey{pos, s}
		if dead[k] {
			return false
		}
		done := true
		for ti, th := range p.Threads {
			if pos[ti] >= len(th) {
				continue
			}
			done = false
			ns, r := apply(s, th[pos[ti]], held[ti][pos[ti]])
			if r != results[ti][pos[ti]] && !(results[ti][pos[ti]] == strWildcard && strings.HasPrefix(r, "str{")) {
				continue
			}
			np := pos
			np[ti]++
			order = append(order, ti)
			if rec(np, ns) {
				return true
			}
			order = order[:len(order)-1]
		}
		if done && s.String() == final {
			return true
		}
		dead[k] = true
		return false
	}
	ok := rec([4]int{}, initState(p))
	return order, ok
}

// heldModule tells for every operation whether the thread's latest earlier get(m) / cget(m) recorded a
// module as its result ("m" is bound to a module or not at all).
func heldModule(p Prog, results [][]string) [][]bool {
	out := make([][]bool, len(p.Threads))
	for ti, th := range p.Threads {
		h := false
		for oi, op := range th {
			out[ti] = append(out[ti], h)
			if (op.K == "get" || op.K == "cget") && op.N == modName && ti < len(results) && oi < len(results[ti]) {
				h = strings.HasPrefix(results[ti][oi], "v")
			}
		}
	}
	return out
}

// foreignBinding reports whether the final contents bind something that was neither there initially nor
// written by any operation of the program (e.g. a built-in type that a lookup stored into a table).
func foreignBinding(p Prog, final string) bool {
	allowed := map[string]bool{}
	for i := 1; i <= 9; i++ {
		allowed[strconv.Itoa(i)] = true
	}
	for _, th := range p.Threads {
		for _, op := range th {
			if op.V != 0 {
				allowed[strconv.Itoa(op.V)] = true
			}
		}
	}
	for _, m := range reBinding.FindAllStringSubmatch(final, -1) {
		if !allowed[m[1]] {
			return true
		}
	}
	return false
}

var reBinding = regexp.MustCompile(`=([^,| }]*)`)

// ---------- who touches what ----------

func touches(op Op) (reads, writes []string) {
	all := func(ns string) []string {
		var o []string
		for _, n := range pool {
			o = append(o, ns+n)
		}
		if ns == "v:" {
			o = append(o, ns+modName)
		} else {
			o = append(o, ns+builtinI64)
		}
		return o
	}
	switch op.K {
	case "define", "set", "delete", "delnear", "cset", "mset", "mdelnear", "mcset", "mcdelnear", "newmod", "gdefine", "gdefinev", "cgdefine", "cgdefinev":
		return nil, []string{"v:" + op.N}
	case "get", "cget", "caddr", "mget", "maddr", "mcget", "mcaddr":
		return []string{"v:" + op.N}, nil
	case "path", "cpath":
		return []string{"v:" + modName}, nil
	case "gdeftype", "gdeftypei", "cgdeftype":
		return nil, []string{"t:" + op.N}
	case "mtype", "mctype":
		return []string{"t:" + op.N}, nil
	case "eget", "ceget":
		return []string{"v:xe"}, nil
	case "setext":
		return nil, []string{"v:xe"}
	case "deftype":
		return nil, []string{"t:" + op.N}
	case "type", "ctype":
		return []string{"t:" + op.N}, nil
	case "syms":
		return all("v:"), nil
	case "tsyms":
		return all("t:"), nil
	}
	return append(all("v:"), all("t:")...), nil // copy, string
}

// sharedWrite: two threads touch the same name (of the same table) and at least one writes it.
func sharedWrite(p Prog) bool {
	type rw struct{ r, w map[string]bool }
	var per []rw
	for _, th := range p.Threads {
		x := rw{map[string]bool{}, map[string]bool{}}
		for _, op := range th {
			r, w := touches(op)
			for _, k := range r {
				x.r[k] = true
			}
			for _, k := range w {
				x.w[k] = true
			}
		}
		per = append(per, x)
	}
	for i := range per {
		for j := range per {
			if i == j {
				continue
			}
			for k := range per[i].w {
				if per[j].w[k] || per[j].r[k] {
					return true
				}
			}
		}
	}
	return false
}

func progText(p Prog, results [][]string) string {
	var b strings.Builder
	fmt.Fprintf(&b, "initial %s\n", initState(p))
	for ti, th := range p.Threads {
		fmt.Fprintf(&b, "T%d:", ti)
		for oi, op := range th {
			fmt.Fprintf(&b, " %s", op)
			if results != nil && ti < len(results) {
				if oi < len(results[ti]) {
					fmt.Fprintf(&b, "->%s", results[ti][oi])
				} else {
					b.WriteString("->(not finished)")
				}
			}
			b.WriteString(";")
		}
		b.WriteString("\n")
	}
	return b.String()
}

func classifyProg(p Prog, class func(string, ...interface{})) {
	class(fmt.Sprintf("threads_%d", len(p.Threads)))
	kinds := map[string]bool{}
	for _, th := range p.Threads {
		for _, op := range th {
			kinds[op.K] = true
		}
	}
	for k := range kinds {
		class("has_op_" + k)
	}
	if len(p.ChildVals) == 0 && !p.Mod {
		if p.EmptyTab {
			class("shared_value_table_initially_created_but_empty")
		} else {
			class("shared_value_table_initially_absent")
		}
	}
	if p.Wide {
		class("flavour_with_the_operations_added_after_the_sixth_round")
	} else {
		class("flavour_operations_of_the_first_five_rounds_only")
	}
	if p.ForcedPublication {
		class("module_publication_shape_planted")
	}
	if p.ForcedDescent {
		class("path_down_against_walk_up_shape_planted")
	}
	if p.Mod {
		class("shared_initially_binds_a_module")
	}
	if p.SelfMod {
		class("parent_binds_the_shared_scope_as_module")
	}
	if p.StringReplaced > 0 {
		class("string_op_replaced_because_a_module_can_be_bound")
	}
	if p.GdefMoved > 0 {
		class("define_global_moved_to_a_name_whose_presence_in_the_shared_scope_is_constant")
	}
	if p.PresenceDemoted > 0 {
		class("presence_changing_ops_demoted_for_a_define_global")
	}
	shapeClasses(p, class)
	if len(delnearPair(p)) > 0 {
		class("shape_two_threads_delete_nearest_one_name_bound_in_both_scopes")
	}
}

// shapeClasses counts the input shapes added after the sixth round.
func shapeClasses(p Prog, class func(string, ...interface{})) {
	newmodBy, holdBy := map[int]bool{}, map[int]bool{}
	descentBy, ascentBy := map[int]bool{}, map[int]map[string]bool{}
	gdefBy, parentValBy := map[int]bool{}, map[int]bool{}
	builtinLookup, builtinGdef, pathSelfLater, writerOnShared := false, false, false, false
	for ti, th := range p.Threads {
		for oi, op := range th {
			switch op.K {
			case "newmod":
				newmodBy[ti] = true
			case "mget", "mtype":
				if oi > 0 && th[oi-1].N == modName {
					holdBy[ti] = true
				}
				fallthrough
			case "mset", "maddr", "mdelnear":
				if op.K != "mget" && op.K != "mtype" {
					class("has_op_through_module_that_may_write_or_take_an_address")
				}
				if ascentBy[ti] == nil {
					ascentBy[ti] = map[string]bool{}
				}
				ascentBy[ti][op.K] = true
				if op.K != "mtype" {
					parentValBy[ti] = true
				}
			case "gdefine", "gdefinev", "cgdefine", "cgdefinev":
				gdefBy[ti] = true
				class("define_global_called_on_a_non_root_scope")
			case "gdeftype", "gdeftypei", "cgdeftype":
				class("define_global_type_called_on_a_non_root_scope")
				if op.N == builtinI64 {
					builtinGdef = true
				}
			case "get", "cget", "set", "cset", "delnear", "caddr":
				if op.N != modName {
					parentValBy[ti] = true
				}
			case "path", "cpath":
				segs := strings.Split(op.N, "/")
				class(fmt.Sprintf("path_segments_%d", len(segs)))
				if segs[0] == selfName && len(segs) > 1 && p.SelfMod {
					pathSelfLater = true
					if segs[1] == modName && canBindModule(p) {
						descentBy[ti] = true
					}
				}
			}
			switch op.K {
			case "type", "ctype", "mtype":
				if op.N == builtinI64 {
					builtinLookup = true
				}
			case "define", "set", "delete", "delnear", "cset", "newmod", "mset", "mdelnear":
				writerOnShared = true
			}
		}
	}
	for a := range newmodBy {
		for b := range holdBy {
			if a != b {
				class("shape_one_thread_makes_a_module_another_fetches_it_and_reads_through_it")
				break
			}
		}
	}
	for a := range gdefBy {
		for b := range parentValBy {
			if a != b {
				class("shape_define_global_from_below_while_another_thread_may_reach_the_root_table")
				break
			}
		}
	}
	seenKinds := map[string]bool{}
	for a := range descentBy {
		for b, kinds := range ascentBy {
			if a == b {
				continue
			}
			for k := range kinds {
				seenKinds[k] = true
			}
		}
	}
	if len(seenKinds) > 0 {
		class("shape_path_descends_into_the_module_while_another_thread_walks_up_from_a_module")
		for _, k := range upWalkerKinds {
			if seenKinds[k] {
				class("shape_path_descends_into_the_module_against_" + k)
			}
		}
	}
	if builtinLookup {
		class("shape_lookup_of_a_builtin_type_name")
		if builtinGdef {
			class("shape_builtin_type_name_looked_up_and_defined_globally")
		}
	}
	if pathSelfLater {
		class("shape_path_continues_in_the_shared_scopes_own_table")
		if writerOnShared {
			class("shape_path_through_the_shared_scope_and_a_writer_of_it")
		}
	}
}
