//go:build verifc13

// Operation programs shared by both sub-checks of C13: case types, generator,
// execution against a real *env.Env, the reference model and the exhaustive
// sequential-consistency search.
package c13

import (
	"fmt"
	"reflect"
	"sort"
	"strconv"
	"strings"

	"github.com/mattn/anko/env"
	"pgregory.net/rapid"
)

// pool is the name pool; values and types live in separate tables of a scope, the
// same three names are used for both.
var pool = []string{"a", "b", "c"}

func nameIdx(n string) int {
	for i, p := range pool {
		if p == n {
			return i
		}
	}
	return -1
}

// Op is one environment operation of a thread.
//
//	define set get delete delnear   — value table (delnear = DeleteGlobal)
//	deftype type                     — type table
//	copy deepcopy                    — Copy / DeepCopy, then GetValueSymbols+Get and GetTypeSymbols+Type on the copy's own scope
//	syms tsyms                       — GetValueSymbols / GetTypeSymbols
//	string                           — String
type Op struct {
	K string `json:"k"`
	N string `json:"n,omitempty"`
	V int    `json:"v,omitempty"` // value id (unique per write); for deftype the id of the type
}

func (o Op) String() string {
	switch o.K {
	case "define", "set", "deftype", "cset":
		return fmt.Sprintf("%s(%s,%d)", o.K, o.N, o.V)
	case "get", "delete", "delnear", "type", "cget", "caddr", "ctype":
		return fmt.Sprintf("%s(%s)", o.K, o.N)
	}
	return o.K + "()"
}

// Prog is the initial contents of the shared scope and its parent plus the threads.
// Initial ids: shared scope a,b,c = 1,2,3; parent a,b,c = 4,5,6 (values and types alike).
type Prog struct {
	ChildVals   []string `json:"child_vals,omitempty"`
	ChildTypes  []string `json:"child_types,omitempty"`
	ParentVals  []string `json:"parent_vals,omitempty"`
	ParentTypes []string `json:"parent_types,omitempty"`
	Threads     [][]Op   `json:"threads"`
	// Warm: operations done on the shared scope, one after the other, BEFORE the threads start: Warm[0]
	// deletes, Warm[1] listings, Warm[2] copies of names / tables that leave the contents as they are
	// (an implementation that reorganises a scope every so many operations reaches that point
	// inside the concurrent phase)
	Warm []int `json:"warm,omitempty"`
	// Ext: the shared scope has an external lookup attached (it serves the one name "xe", with value 99)
	Ext bool `json:"ext,omitempty"`
}

// delnearPair reports the names n for which the program has the shape of the DeleteGlobal
// defect repaired in /repo commit 0f00dad (generated and asserted like everything else;
// a failure of this shape keeps its own signature): two different threads delete-nearest n, n is bound in the parent,
// and n is (or may become) bound in the shared scope. DeleteGlobal looked n up under a
// read lock, released it, and deleted under a second (write) lock acquisition: two such
// calls can both see the shared binding and both delete it, so the parent binding
// survives — no sequential order of two delete-nearest operations leaves it in place.
func delnearPair(p Prog) []string {
	var out []string
	for _, n := range pool {
		inParent, inShared := false, false
		for _, x := range p.ParentVals {
			inParent = inParent || x == n
		}
		for _, x := range p.ChildVals {
			inShared = inShared || x == n
		}
		threads := 0
		for _, th := range p.Threads {
			has := false
			for _, op := range th {
				if op.K == "delnear" && op.N == n {
					has = true
				}
				if op.K == "define" && op.N == n {
					inShared = true
				}
			}
			if has {
				threads++
			}
		}
		if inParent && inShared && threads >= 2 {
			out = append(out, n)
		}
	}
	return out
}

// pairSurvives narrows the signature of the DeleteGlobal shape to its symptom: a name of
// delnearPair is still bound in the parent in the final state (text as made by finalText).
func pairSurvives(p Prog, final string) bool {
	i := strings.LastIndex(final, "parent{values: ")
	if i < 0 {
		return false
	}
	seg := final[i+len("parent{values: "):]
	if j := strings.Index(seg, " |"); j >= 0 {
		seg = seg[:j]
	}
	for _, n := range delnearPair(p) {
		for _, b := range strings.Split(seg, ",") {
			if strings.HasPrefix(b, n+"=") {
				return true
			}
		}
	}
	return false
}

func withName(l []string, n string) []string {
	var out []string
	for _, x := range pool {
		has := x == n
		for _, y := range l {
			has = has || y == x
		}
		if has {
			out = append(out, x)
		}
	}
	return out
}

// eget / ceget: Get of the name "xe", which no table ever binds and which the external lookup attached to
// the shared scope (Prog.Ext) serves with a fixed value: on the shared scope itself, through its child.
var opKinds = []string{"define", "define", "set", "set", "get", "get", "delete", "delnear", "deftype", "type", "copy", "deepcopy", "syms", "tsyms", "string", "cget", "cset", "caddr", "ctype", "eget", "ceget"}

func genSubset(t *rapid.T, label string, pNum int) []string {
	var out []string
	for _, n := range pool {
		if rapid.IntRange(0, 3).Draw(t, label+"_"+n) >= 4-pNum {
			out = append(out, n)
		}
	}
	return out
}

func genProg(t *rapid.T, withString bool) Prog {
	p := Prog{
		ChildVals:   genSubset(t, "cv", 1),
		ChildTypes:  genSubset(t, "ct", 1),
		ParentVals:  genSubset(t, "pv", 2),
		ParentTypes: genSubset(t, "pt", 2),
	}
	if rapid.IntRange(0, 2).Draw(t, "warm?") == 0 {
		counts := []int{0, 1, 2, 3, 6, 7, 8, 14, 15, 16, 17, 30, 31, 32, 62, 63, 64}
		p.Warm = []int{rapid.SampledFrom(counts).Draw(t, "warmdel"), rapid.SampledFrom(counts[:8]).Draw(t, "warmsyms"), rapid.SampledFrom(counts[:8]).Draw(t, "warmcopy")}
	}
	p.Ext = rapid.Bool().Draw(t, "ext")
	nt := rapid.IntRange(2, 3).Draw(t, "threads")
	next := 10
	for i := 0; i < nt; i++ {
		n := rapid.IntRange(1, 4).Draw(t, "nops")
		var ops []Op
		for j := 0; j < n; j++ {
			k := rapid.SampledFrom(opKinds).Draw(t, "kind")
			if k == "string" && !withString {
				k = "syms"
			}
			op := Op{K: k}
			switch k {
			case "define", "set", "deftype":
				op.N = rapid.SampledFrom(pool).Draw(t, "name")
				op.V = next
				next++
			case "get", "delete", "delnear", "type", "cget", "caddr", "ctype":
				op.N = rapid.SampledFrom(pool).Draw(t, "name")
			case "cset":
				op.N = rapid.SampledFrom(pool).Draw(t, "name")
				op.V = next
				next++
			}
			ops = append(ops, op)
		}
		p.Threads = append(p.Threads, ops)
	}
	// raise the density of the shape "two threads delete-nearest one name that is bound in
	// the shared scope and in the parent" (the shape of the repaired DeleteGlobal defect)
	if rapid.IntRange(0, 5).Draw(t, "force_delnear_pair") == 0 {
		n := rapid.SampledFrom(pool).Draw(t, "pair_name")
		p.ParentVals = withName(p.ParentVals, n)
		p.ChildVals = withName(p.ChildVals, n)
		ti := rapid.IntRange(0, nt-1).Draw(t, "pair_t0")
		tj := (ti + 1 + rapid.IntRange(0, nt-2).Draw(t, "pair_t1")) % nt
		for _, x := range []int{ti, tj} {
			k := rapid.IntRange(0, len(p.Threads[x])-1).Draw(t, "pair_pos")
			p.Threads[x][k] = Op{K: "delnear", N: n}
		}
	}
	return p
}

// validProg guards replayed / hand-written cases.
func validProg(p Prog) error {
	if len(p.Threads) < 1 || len(p.Threads) > 4 {
		return fmt.Errorf("1..4 threads expected")
	}
	for _, l := range [][]string{p.ChildVals, p.ChildTypes, p.ParentVals, p.ParentTypes} {
		for _, n := range l {
			if nameIdx(n) < 0 {
				return fmt.Errorf("unknown name %q", n)
			}
		}
	}
	for _, th := range p.Threads {
		if len(th) > 8 {
			return fmt.Errorf("thread too long")
		}
		for _, op := range th {
			switch op.K {
			case "define", "set", "deftype", "cset":
				if nameIdx(op.N) < 0 || op.V < 7 || op.V >= len(typeTab) {
					return fmt.Errorf("bad op %v", op)
				}
			case "get", "delete", "delnear", "type", "cget", "caddr", "ctype":
				if nameIdx(op.N) < 0 {
					return fmt.Errorf("bad op %v", op)
				}
			case "copy", "deepcopy", "syms", "tsyms", "string", "eget", "ceget":
			default:
				return fmt.Errorf("unknown op kind %q", op.K)
			}
		}
	}
	return nil
}

// ---------- type ids ----------

// typeTab[id] is the reflect.Type standing for type id: [id]uint8.
var typeTab = func() []reflect.Type {
	t := make([]reflect.Type, 64)
	for i := range t {
		t[i] = reflect.ArrayOf(i, reflect.TypeOf(byte(0)))
	}
	return t
}()

func typeID(t reflect.Type) string {
	if t != nil && t.Kind() == reflect.Array && t.Elem().Kind() == reflect.Uint8 && t.Len() < len(typeTab) {
		return strconv.Itoa(t.Len())
	}
	return fmt.Sprintf("?%v", t)
}

func valID(v interface{}) string {
	if i, ok := v.(int); ok {
		return strconv.Itoa(i)
	}
	return fmt.Sprintf("?%T(%v)", v, v)
}

// ---------- reference model ----------

// state is the model: own tables of the shared scope (c*) and of its parent (p*);
// 0 = name absent, otherwise the id bound.
type state struct {
	cv, ct, pv, pt [3]int
	ext            bool // the shared scope has the external lookup attached
}

func initState(p Prog) state {
	var s state
	s.ext = p.Ext
	for _, n := range p.ChildVals {
		s.cv[nameIdx(n)] = 1 + nameIdx(n)
	}
	for _, n := range p.ChildTypes {
		s.ct[nameIdx(n)] = 1 + nameIdx(n)
	}
	for _, n := range p.ParentVals {
		s.pv[nameIdx(n)] = 4 + nameIdx(n)
	}
	for _, n := range p.ParentTypes {
		s.pt[nameIdx(n)] = 4 + nameIdx(n)
	}
	return s
}

func renderTab(t [3]int) string {
	var parts []string
	for i, v := range t {
		if v != 0 {
			parts = append(parts, pool[i]+"="+strconv.Itoa(v))
		}
	}
	return strings.Join(parts, ",")
}

func renderSyms(t [3]int) string {
	var parts []string
	for i, v := range t {
		if v != 0 {
			parts = append(parts, pool[i])
		}
	}
	return strings.Join(parts, ",")
}

func (s state) String() string {
	return fmt.Sprintf("shared{values: %s | types: %s} parent{values: %s | types: %s}", renderTab(s.cv), renderTab(s.ct), renderTab(s.pv), renderTab(s.pt))
}

// apply runs one operation on the model and returns the new state and the result
// text an atomic execution must report.
func apply(s state, op Op) (state, string) {
	i := nameIdx(op.N)
	switch op.K {
	case "define":
		s.cv[i] = op.V
		return s, "ok"
	case "set", "cset":
		// cset: Set through an (empty) child of the shared scope: the nearest binding is the same
		if s.cv[i] != 0 {
			s.cv[i] = op.V
			return s, "ok"
		}
		if s.pv[i] != 0 {
			s.pv[i] = op.V
			return s, "ok"
		}
		return s, "err"
	case "caddr":
		// Addr through the child: the pool values are not addressable, so the answer only tells
		// whether a binding was found along the chain
		if s.cv[i] != 0 || s.pv[i] != 0 {
			return s, "unaddressable"
		}
		return s, "undefined"
	case "eget", "ceget":
		// answered from outside the tables: the state plays no part (s.ext is set when the lookup is attached)
		if s.ext {
			return s, "v99"
		}
		return s, "err"
	case "get", "cget":
		if s.cv[i] != 0 {
			return s, "v" + strconv.Itoa(s.cv[i])
		}
		if s.pv[i] != 0 {
			return s, "v" + strconv.Itoa(s.pv[i])
		}
		return s, "err"
	case "delete":
		s.cv[i] = 0
		return s, "-"
	case "delnear":
		if s.cv[i] != 0 {
			s.cv[i] = 0
		} else {
			s.pv[i] = 0
		}
		return s, "-"
	case "deftype":
		s.ct[i] = op.V
		return s, "ok"
	case "type", "ctype":
		if s.ct[i] != 0 {
			return s, "t" + strconv.Itoa(s.ct[i])
		}
		if s.pt[i] != 0 {
			return s, "t" + strconv.Itoa(s.pt[i])
		}
		return s, "err"
	case "copy", "deepcopy":
		// DeepCopy copies the scope and then, separately, its parents ("each scope is a consistent
		// snapshot but not the whole"): the operation's result is the snapshot of the shared scope
		return s, "copy{" + renderTab(s.cv) + "|" + renderTab(s.ct) + "}"
	case "syms":
		return s, "syms{" + renderSyms(s.cv) + "}"
	case "tsyms":
		return s, "tsyms{" + renderSyms(s.ct) + "}"
	case "string":
		return s, "str{" + renderTab(s.cv) + "|" + renderTab(s.ct) + "}"
	}
	panic("unknown op " + op.K)
}

// ---------- real execution ----------

type world struct {
	parent, shared *env.Env
	child          *env.Env // an empty scope below the shared one (operations c*)
}

// build creates the parent and the shared scope (sequentially; no hook installed).
func build(p Prog) world {
	w := world{parent: env.NewEnv()}
	for _, n := range p.ParentVals {
		w.parent.Define(n, 4+nameIdx(n))
	}
	for _, n := range p.ParentTypes {
		w.parent.DefineReflectType(n, typeTab[4+nameIdx(n)])
	}
	w.shared = w.parent.NewEnv()
	for _, n := range p.ChildVals {
		w.shared.Define(n, 1+nameIdx(n))
	}
	for _, n := range p.ChildTypes {
		w.shared.DefineReflectType(n, typeTab[1+nameIdx(n)])
	}
	if p.Ext {
		w.shared.SetExternalLookup(oneName{})
	}
	w.child = w.shared.NewEnv()
	if len(p.Warm) == 3 {
		for i := 0; i < p.Warm[0] && i < 200; i++ {
			w.shared.Delete("warm") // a name that is never bound
		}
		for i := 0; i < p.Warm[1] && i < 200; i++ {
			w.shared.GetValueSymbols()
			w.shared.GetTypeSymbols()
		}
		for i := 0; i < p.Warm[2] && i < 200; i++ {
			w.shared.Copy()
		}
	}
	return w
}

func errText(err error) string {
	if err != nil {
		return "err"
	}
	return "ok"
}

// readTables reads the own tables of e through the public API.
func readTables(e *env.Env) (string, string) {
	vs := e.GetValueSymbols()
	sort.Strings(vs)
	var vp []string
	for _, n := range vs {
		v, err := e.Get(n)
		if err != nil {
			vp = append(vp, n+"=!"+err.Error())
			continue
		}
		vp = append(vp, n+"="+valID(v))
	}
	ts := e.GetTypeSymbols()
	sort.Strings(ts)
	var tp []string
	for _, n := range ts {
		t, err := e.Type(n)
		if err != nil {
			tp = append(tp, n+"=!"+err.Error())
			continue
		}
		tp = append(tp, n+"="+typeID(t))
	}
	return strings.Join(vp, ","), strings.Join(tp, ",")
}

// parseString turns the output of (*Env).String into "values|types" in the form of renderTab.
// ok=false when the text does not have the expected shape.
func parseString(s string) (string, bool) {
	lines := strings.Split(strings.TrimRight(s, "\n"), "\n")
	if len(lines) == 0 || (lines[0] != "Has parent" && lines[0] != "No parent") {
		return "", false
	}
	var vp, tp []string
	for _, l := range lines[1:] {
		k := strings.Index(l, " = ")
		if k < 0 {
			return "", false
		}
		name, rhs := l[:k], l[k+3:]
		if strings.HasPrefix(rhs, "[") && strings.HasSuffix(rhs, "]uint8") {
			tp = append(tp, name+"="+rhs[1:len(rhs)-len("]uint8")])
		} else if _, err := strconv.Atoi(rhs); err == nil {
			vp = append(vp, name+"="+rhs)
		} else {
			return "", false
		}
	}
	sort.Strings(vp)
	sort.Strings(tp)
	return strings.Join(vp, ",") + "|" + strings.Join(tp, ","), true
}

// stringUsable: the String operation is generated only if the format of
// (*Env).String can be read back on a sequentially built scope.
func stringUsable() bool {
	p := Prog{ChildVals: []string{"a", "c"}, ChildTypes: []string{"b"}, ParentVals: []string{"b"}}
	w := build(p)
	got, ok := parseString(w.shared.String())
	_, want := apply(initState(p), Op{K: "string"})
	return ok && "str{"+got+"}" == want
}

// execOp runs one operation on the shared scope and renders its result like apply does.
// oneName is an external lookup that serves the value name "xe" and nothing else.
type oneName struct{}

func (oneName) Get(name string) (reflect.Value, error) {
	if name == "xe" {
		return reflect.ValueOf(99), nil
	}
	return reflect.Value{}, fmt.Errorf("undefined symbol '%s'", name)
}
func (oneName) Type(name string) (reflect.Type, error) {
	return nil, fmt.Errorf("undefined type '%s'", name)
}

func execOp(w world, op Op) string {
	e := w.shared
	switch op.K {
	case "eget", "ceget":
		from := w.shared
		if op.K == "ceget" {
			from = w.child
		}
		v, err := from.Get("xe")
		if err != nil {
			return "err"
		}
		return "v" + valID(v)
	case "cget":
		v, err := w.child.Get(op.N)
		if err != nil {
			return "err"
		}
		return "v" + valID(v)
	case "cset":
		return errText(w.child.Set(op.N, op.V))
	case "caddr":
		_, err := w.child.Addr(op.N)
		switch {
		case err == nil:
			return "addressable"
		case strings.Contains(err.Error(), "unaddressable"):
			return "unaddressable"
		}
		return "undefined"
	case "ctype":
		t, err := w.child.Type(op.N)
		if err != nil {
			return "err"
		}
		return "t" + typeID(t)
	case "define":
		return errText(e.Define(op.N, op.V))
	case "set":
		return errText(e.Set(op.N, op.V))
	case "get":
		v, err := e.Get(op.N)
		if err != nil {
			return "err"
		}
		return "v" + valID(v)
	case "delete":
		e.Delete(op.N)
		return "-"
	case "delnear":
		e.DeleteGlobal(op.N)
		return "-"
	case "deftype":
		return errText(e.DefineReflectType(op.N, typeTab[op.V]))
	case "type":
		t, err := e.Type(op.N)
		if err != nil {
			return "err"
		}
		return "t" + typeID(t)
	case "copy":
		cp := e.Copy()
		v, t := readTables(cp)
		return "copy{" + v + "|" + t + "}"
	case "deepcopy":
		cp := e.DeepCopy()
		v, t := readTables(cp)
		return "copy{" + v + "|" + t + "}"
	case "syms":
		s := e.GetValueSymbols()
		sort.Strings(s)
		return "syms{" + strings.Join(s, ",") + "}"
	case "tsyms":
		s := e.GetTypeSymbols()
		sort.Strings(s)
		return "tsyms{" + strings.Join(s, ",") + "}"
	case "string":
		txt := e.String()
		got, ok := parseString(txt)
		if !ok {
			return fmt.Sprintf("str?%q", txt)
		}
		return "str{" + got + "}"
	}
	panic("unknown op " + op.K)
}

// finalText reads the final contents of both scopes (sequentially).
func finalText(w world) string {
	cv, ct := readTables(w.shared)
	pv, pt := readTables(w.parent)
	return fmt.Sprintf("shared{values: %s | types: %s} parent{values: %s | types: %s}", cv, ct, pv, pt)
}

// ---------- sequential-consistency search ----------

type scKey struct {
	pos [4]int
	s   state
}

// explain reports whether some interleaving of the threads' operations that respects
// each thread's order reproduces every recorded result and the final contents.
// It returns the witness order (thread indices) when there is one.
func explain(p Prog, results [][]string, final string) ([]int, bool) {
	dead := map[scKey]bool{}
	var order []int
	var rec func(pos [4]int, s state) bool
	rec = func(pos [4]int, s state) bool {
		k := scKey{pos, s}
		if dead[k] {
			return false
		}
		done := true
		for ti, th := range p.Threads {
			if pos[ti] >= len(th) {
				continue
			}
			done = false
			ns, r := apply(s, th[pos[ti]])
			if r != results[ti][pos[ti]] {
				continue
			}
			np := pos
			np[ti]++
			order = append(order, ti)
			if rec(np, ns) {
				return true
			}
			order = order[:len(order)-1]
		}
		if done && s.String() == final {
			return true
		}
		dead[k] = true
		return false
	}
	ok := rec([4]int{}, initState(p))
	return order, ok
}

// ---------- who touches what ----------

func touches(op Op) (reads, writes []string) {
	all := func(ns string) []string {
		var o []string
		for _, n := range pool {
			o = append(o, ns+n)
		}
		return o
	}
	switch op.K {
	case "define", "set", "delete", "delnear", "cset":
		return nil, []string{"v:" + op.N}
	case "get", "cget", "caddr":
		return []string{"v:" + op.N}, nil
	case "eget", "ceget":
		return []string{"v:xe"}, nil
	case "deftype":
		return nil, []string{"t:" + op.N}
	case "type", "ctype":
		return []string{"t:" + op.N}, nil
	case "syms":
		return all("v:"), nil
	case "tsyms":
		return all("t:"), nil
	}
	return append(all("v:"), all("t:")...), nil // copy, string
}

// sharedWrite: two threads touch the same name (of the same table) and at least one writes it.
func sharedWrite(p Prog) bool {
	type rw struct{ r, w map[string]bool }
	var per []rw
	for _, th := range p.Threads {
		x := rw{map[string]bool{}, map[string]bool{}}
		for _, op := range th {
			r, w := touches(op)
			for _, k := range r {
				x.r[k] = true
			}
			for _, k := range w {
				x.w[k] = true
			}
		}
		per = append(per, x)
	}
	for i := range per {
		for j := range per {
			if i == j {
				continue
			}
			for k := range per[i].w {
				if per[j].w[k] || per[j].r[k] {
					return true
				}
			}
		}
	}
	return false
}

func progText(p Prog, results [][]string) string {
	var b strings.Builder
	fmt.Fprintf(&b, "initial %s\n", initState(p))
	for ti, th := range p.Threads {
		fmt.Fprintf(&b, "T%d:", ti)
		for oi, op := range th {
			fmt.Fprintf(&b, " %s", op)
			if results != nil && ti < len(results) {
				if oi < len(results[ti]) {
					fmt.Fprintf(&b, "->%s", results[ti][oi])
				} else {
					b.WriteString("->(not finished)")
				}
			}
			b.WriteString(";")
		}
		b.WriteString("\n")
	}
	return b.String()
}

func classifyProg(p Prog, class func(string, ...interface{})) {
	class(fmt.Sprintf("threads_%d", len(p.Threads)))
	kinds := map[string]bool{}
	for _, th := range p.Threads {
		for _, op := range th {
			kinds[op.K] = true
		}
	}
	for k := range kinds {
		class("has_op_" + k)
	}
	if len(p.ChildVals) == 0 {
		class("shared_value_table_initially_absent")
	}
	if len(delnearPair(p)) > 0 {
		class("shape_two_threads_delete_nearest_one_name_bound_in_both_scopes")
	}
}
