//go:build verifc13

// Sub-check (b): the generated programs run with real goroutines and the real locks
// (hook nil) in a CHILD process of this -race binary, started with
// GORACE="exitcode=66 halt_on_error=1". The child is kept alive across programs and
// dies at the first race report, which therefore belongs to the program in flight.
package c13

import (
	"bufio"
	"bytes"
	"encoding/json"
	"fmt"
	"io"
	"os"
	"os/exec"
	"regexp"
	"runtime/debug"
	"sort"
	"strings"
	"sync"
	"syscall"
	"testing"
	"time"
)

type raceReq struct {
	Prog Prog `json:"prog"`
	Reps int  `json:"reps"`
}

type raceResp struct {
	Runs  int    `json:"runs"`
	Panic string `json:"panic,omitempty"`
	NonSC string `json:"nonsc,omitempty"`
}

const respPrefix = "C13RESP "

// hangLimit: a program takes microseconds; a worker silent for this long is hung.
const hangLimit = 10 * time.Second

var perms = map[int][][]int{
	1: {{0}},
	2: {{0, 1}, {1, 0}},
	3: {{0, 1, 2}, {1, 0, 2}, {2, 1, 0}, {0, 2, 1}, {1, 2, 0}, {2, 0, 1}},
	4: {{0, 1, 2, 3}, {3, 2, 1, 0}, {1, 0, 3, 2}, {2, 3, 0, 1}},
}

// runReal executes the program once with real goroutines and real locks.
func runReal(p Prog, rep int) (results [][]string, final string, panicTxt string) {
	w := build(p)
	n := len(p.Threads)
	results = make([][]string, n)
	panics := make([]string, n)
	var wg sync.WaitGroup
	start := make(chan struct{})
	barrier := rep%2 == 0
	order := perms[n][(rep/2)%len(perms[n])]
	for _, ti := range order {
		wg.Add(1)
		go func(ti int) {
			defer wg.Done()
			defer func() {
				if r := recover(); r != nil {
					panics[ti] = fmt.Sprintf("T%d: %v\n%s", ti, r, trimStack(string(debug.Stack())))
				}
			}()
			if barrier {
				<-start
			}
			for _, op := range p.Threads[ti] {
				results[ti] = append(results[ti], execOp(w, ti, op))
			}
		}(ti)
	}
	if barrier {
		close(start)
	}
	wg.Wait()
	results = w.resolveAll(results)
	for _, px := range panics {
		if px != "" {
			return results, "", px
		}
	}
	return results, finalText(w), ""
}

// TestC13RaceChild is the worker process of sub-check (b).
func TestC13RaceChild(t *testing.T) {
	if os.Getenv("VERIF_C13_CHILD") != "1" {
		t.Skip("worker process of TestC13")
	}
	in := bufio.NewReaderSize(os.Stdin, 1<<20)
	out := bufio.NewWriter(os.Stdout)
	for {
		line, err := in.ReadBytes('\n')
		if len(bytes.TrimSpace(line)) > 0 {
			var rq raceReq
			if jerr := json.Unmarshal(line, &rq); jerr != nil {
				t.Fatalf("bad request: %v", jerr)
			}
			var rs raceResp
			for rep := 0; rep < rq.Reps; rep++ {
				res, final, px := runReal(rq.Prog, rep)
				rs.Runs++
				if px != "" {
					rs.Panic = px
					break
				}
				if _, ok := explain(rq.Prog, res, final); !ok {
					rs.NonSC = progText(rq.Prog, res) + "final   " + final
					break
				}
			}
			b, _ := json.Marshal(rs)
			out.WriteString(respPrefix)
			out.Write(b)
			out.WriteString("\n")
			out.Flush()
		}
		if err != nil {
			return
		}
	}
}

// ---------- parent side ----------

type raceChild struct {
	cmd    *exec.Cmd
	in     io.WriteCloser
	lines  chan string
	stderr *bytes.Buffer
}

type raceRunner struct {
	ch      *raceChild
	started int
}

func (r *raceRunner) start() error {
	cmd := exec.Command(os.Args[0], "-test.run", "^TestC13RaceChild$", "-test.timeout", "0", "-test.count", "1")
	var envv []string
	for _, kv := range os.Environ() {
		if strings.HasPrefix(kv, "VERIF_OUT=") || strings.HasPrefix(kv, "VERIF_REPLAY=") || strings.HasPrefix(kv, "VERIF_REGRESS=") ||
			strings.HasPrefix(kv, "GORACE=") || strings.HasPrefix(kv, "GOMAXPROCS=") {
			continue
		}
		envv = append(envv, kv)
	}
	envv = append(envv, "VERIF_C13_CHILD=1", "GORACE=exitcode=66 halt_on_error=1", "GOMAXPROCS=16")
	cmd.Env = envv
	in, err := cmd.StdinPipe()
	if err != nil {
		return err
	}
	outp, err := cmd.StdoutPipe()
	if err != nil {
		return err
	}
	ch := &raceChild{cmd: cmd, in: in, lines: make(chan string, 16), stderr: &bytes.Buffer{}}
	cmd.Stderr = ch.stderr
	if err := cmd.Start(); err != nil {
		return err
	}
	go func() {
		sc := bufio.NewScanner(outp)
		sc.Buffer(make([]byte, 1<<20), 1<<24)
		for sc.Scan() {
			if l := sc.Text(); strings.HasPrefix(l, respPrefix) {
				ch.lines <- l[len(respPrefix):]
			}
		}
		close(ch.lines)
	}()
	r.ch = ch
	r.started++
	return nil
}

// close ends the worker (if any) and reports how it ended.
func (r *raceRunner) close() {
	if r.ch == nil {
		return
	}
	r.ch.in.Close()
	done := make(chan struct{})
	go func() { r.ch.cmd.Wait(); close(done) }()
	select {
	case <-done:
	case <-time.After(20 * time.Second):
		r.ch.cmd.Process.Kill()
		<-done
	}
	r.ch = nil
}

type raceOutcome struct {
	resp     raceResp
	died     bool
	exitCode int
	stderr   string
	timeout  bool
	err      error
}

func (r *raceRunner) run(rq raceReq) raceOutcome {
	if r.ch == nil {
		if err := r.start(); err != nil {
			return raceOutcome{err: err}
		}
	}
	ch := r.ch
	b, _ := json.Marshal(rq)
	b = append(b, '\n')
	if _, err := ch.in.Write(b); err != nil {
		// the worker is gone; fall through to reading its fate
		_ = err
	}
	select {
	case l, ok := <-ch.lines:
		if ok {
			var rs raceResp
			if err := json.Unmarshal([]byte(l), &rs); err != nil {
				return raceOutcome{err: fmt.Errorf("bad response %q: %v", l, err)}
			}
			return raceOutcome{resp: rs}
		}
		// stdout closed: the worker died
		ch.in.Close()
		werr := ch.cmd.Wait()
		r.ch = nil
		code := -1
		if ee, ok := werr.(*exec.ExitError); ok {
			code = ee.ExitCode()
		} else if werr == nil {
			code = 0
		}
		return raceOutcome{died: true, exitCode: code, stderr: ch.stderr.String()}
	case <-time.After(hangLimit):
		// no answer: ask the runtime for a goroutine dump (SIGQUIT), then make sure it is gone
		ch.cmd.Process.Signal(syscall.SIGQUIT)
		done := make(chan struct{})
		go func() { ch.cmd.Wait(); close(done) }()
		select {
		case <-done:
		case <-time.After(10 * time.Second):
			ch.cmd.Process.Kill()
			<-done
		}
		r.ch = nil
		return raceOutcome{timeout: true, stderr: ch.stderr.String()}
	}
}

var (
	reHex    = regexp.MustCompile(`0x[0-9a-fA-F]+`)
	reGor    = regexp.MustCompile(`goroutine \d+`)
	reAccess = regexp.MustCompile(`^(Read|Write|Previous read|Previous write|Atomic read|Atomic write|Previous atomic read|Previous atomic write) at `)
)

const envPkg = "github.com/mattn/anko/env."

// parseRaceReport extracts, for each of the two conflicting accesses, the innermost
// function of package env on its stack, and a normalised copy of the report.
func parseRaceReport(stderr string) (funcs []string, text string) {
	i := strings.Index(stderr, "WARNING: DATA RACE")
	if i < 0 {
		return nil, ""
	}
	rep := stderr[i:]
	if j := strings.Index(rep, "\n=================="); j >= 0 {
		rep = rep[:j]
	}
	lines := strings.Split(rep, "\n")
	inAccess := false
	found := false
	naccess := 0
	for _, l := range lines {
		if reAccess.MatchString(l) {
			if inAccess && !found {
				funcs = append(funcs, "?")
			}
			inAccess, found = true, false
			naccess++
			continue
		}
		if strings.TrimSpace(l) == "" {
			if inAccess && !found {
				funcs = append(funcs, "?")
			}
			inAccess = false
			continue
		}
		if inAccess && !found && strings.HasPrefix(l, "  "+envPkg) {
			f := strings.TrimSpace(l)[len(envPkg):]
			if k := strings.LastIndex(f, "("); k > 0 {
				f = f[:k]
			}
			funcs = append(funcs, f)
			found = true
		}
	}
	if inAccess && !found {
		funcs = append(funcs, "?")
	}
	text = reHex.ReplaceAllString(rep, "0x?")
	text = reGor.ReplaceAllString(text, "goroutine N")
	if len(text) > 2500 {
		text = text[:2500] + "…"
	}
	return funcs, text
}

func raceSig(funcs []string) (string, bool) {
	hasEnv := false
	for _, f := range funcs {
		if f != "?" {
			hasEnv = true
		}
	}
	if !hasEnv {
		return "", false
	}
	s := append([]string{}, funcs...)
	sort.Strings(s)
	return "C13|data-race|" + strings.Join(s, "+"), true
}

var reGoroutineHdr = regexp.MustCompile(`^goroutine \d+ [^\[]*\[([^\]]*)\]:`)

// blockedInEnvLocks looks at a SIGQUIT goroutine dump of the worker process. It returns
// the worker goroutines (those of runReal) that are blocked acquiring a sync mutex from
// inside package env, and whether that is ALL worker goroutines still alive: locks of a
// run's scopes are only ever held by that run's worker goroutines inside env calls, so
// "every live worker is waiting for a lock" is a deadlock and not a slow machine.
func blockedInEnvLocks(dump string) (blocked []string, all bool) {
	workers := 0
	for _, g := range strings.Split(dump, "\n\n") {
		lines := strings.Split(strings.TrimSpace(g), "\n")
		if len(lines) == 0 {
			continue
		}
		m := reGoroutineHdr.FindStringSubmatch(lines[0])
		if m == nil || !strings.Contains(g, "c13.runReal.func1") {
			continue
		}
		workers++
		st := m[1]
		if k := strings.Index(st, ","); k >= 0 {
			st = st[:k]
		}
		if !strings.HasPrefix(st, "sync.") && st != "semacquire" {
			continue
		}
		var lockFn, envFn string
		for _, l := range lines[1:] {
			if strings.HasPrefix(l, "\t") || !strings.Contains(l, "(") {
				continue
			}
			if lockFn == "" && strings.HasPrefix(l, "sync.(*") {
				lockFn = l[:strings.LastIndex(l, "(")]
			}
			if envFn == "" && strings.HasPrefix(l, envPkg) && !strings.Contains(l, "Verif") {
				envFn = l[len(envPkg):strings.LastIndex(l, "(")]
			}
		}
		if envFn != "" && lockFn != "" {
			blocked = append(blocked, envFn+" blocked in "+lockFn)
		}
	}
	sort.Strings(blocked)
	return blocked, workers > 0 && len(blocked) == workers
}
